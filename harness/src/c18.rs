//! C18: store copy, profile copy and Indy-SDK wallet migration carry over every record.
//!
//! Case kinds
//! * `c18:copy`    — a source store built from a declarative spec (1–4 profiles, 0…100 records of both kinds per
//!                   profile, arbitrary tags, some already expired), an optional pre-existing target store, one action
//!                   (`copy_to` of `aries_askar::Store`, `copy_store` / `copy_profile` of `askar_storage::backend`), an
//!                   optional statement fault on the j-th `INSERT INTO items` of the target; then full logical dumps.
//! * `c18:indy`    — an Indy-SDK SQLite wallet written by the harness itself (independent writer of the format:
//!                   RAW / ARGON2I_INT / ARGON2I_MOD master key, msgpack key record, per-item value keys, both tag
//!                   tables), migrated by the real code, reopened with the wallet key and dumped.
//! * `c18:fixture` — the shipped fixture `askar-storage/tests/indy_wallet_sqlite.db`, decoded independently,
//!                   migrated, dumped, compared with the frozen dump in `/verif/corpus/C18/fixture_dump.json`.
//!
//! `out` is what the Lean model must reproduce; `oracle` is the property judged from the case spec alone.
use crate::canon::{jerr, kind_of, tags_from_json, value_from_json, Rec, Tag};
use crate::gen_store::{big_value, CATS, NAMES, TAG_NAMES, TAG_VALUES};
use crate::rawsql::{RawDb, Val};
use crate::rng::Rng;
use crate::store_case::{cleanup, dump_profile, provision, scratch_dir};
use aries_askar::Store;
use askar_crypto::alg::chacha20::{Chacha20Key, C20P};
use askar_crypto::buffer::SecretBytes;
use askar_crypto::encrypt::KeyAeadInPlace;
use askar_crypto::kdf::argon2::{Argon2, PARAMS_INTERACTIVE, PARAMS_MODERATE};
use askar_crypto::kdf::KeyDerivation;
use askar_crypto::repr::KeySecretBytes;
use askar_storage::any::AnyBackend;
use askar_storage::backend::{copy_profile, copy_store, Backend, BackendSession, ManageBackend};
use askar_storage::entry::EntryOperation;
use askar_storage::future::block_on;
use askar_storage::migration::IndySdkToAriesAskarMigration;
use askar_storage::{PassKey, StoreKeyMethod};
use serde_json::{json, Value};
use std::collections::{BTreeMap, BTreeSet};

const RAW_TARGET_KEY: &str = "4pQ8L3cXHcHvLeJNWiYV6cTQbKU3thT1u1ZdbqMrhTdC";
const KDF_PASS: &str = "correct horse battery staple";
const FIXTURE: &str = "/repo/askar-storage/tests/indy_wallet_sqlite.db";
const FIXTURE_NAME: &str = "walletwallet.0";
const FIXTURE_KEY: &str = "GfwU1DC7gEZNs3w41tjBiZYj7BNToDoFEqKY6wZXqs1A";

#[path = "c18_indyx.rs"]
mod indyx;

fn verif_home() -> String { std::env::var("VERIF_HOME").unwrap_or_else(|_| "/verif".into()) }

// =============================================================================================
// Generators

const PROFILES: &[&str] = &["p0", "p1", "p2", "", "ü-プロ", "P0"];

fn gen_tags(r: &mut Rng) -> Value {
    if r.chance(1, 10) { return Value::Null; }
    let n = match r.below(7) { 0 => 0, 1 => 1, 2 => 2, 3 => 3, 4 => 5, 5 => 8, _ => 1 };
    let mut v: Vec<Value> = (0..n)
        .map(|_| json!([if r.chance(1, 3) { 1 } else { 0 }, *r.pick(TAG_NAMES), *r.pick(TAG_VALUES)]))
        .collect();
    if n > 1 && r.chance(1, 4) { let d = v[0].clone(); v.push(d); }
    Value::Array(v)
}

fn gen_value(r: &mut Rng) -> Value {
    match r.below(24) {
        0 => json!(""),
        1 => big_value(r),
        2 => json!(hex::encode(r.bytes(300))),
        _ => { let n = r.below(40); json!(hex::encode(r.bytes(n))) }
    }
}

/// `n` records of both kinds whose values are `lo..=hi` bytes each, as compact specs (bytes (fill + i*salt) mod 256);
/// every record of the profile is large, so that whatever order the scan yields them in, a run of fewer than
/// PAGE_SIZE rows carries megabytes
fn gen_large_recs(r: &mut Rng, n: usize, lo: usize, hi: usize) -> Vec<Value> {
    (0..n).map(|i| {
        let k = if r.chance(1, 3) { 1 } else { 2 };
        let c = *r.pick(&["c1", "c2", "big", ""]);
        json!({"k": k, "c": c, "n": format!("{}#{}", r.pick(NAMES), i),
               "v": {"fill": r.below(256), "salt": 1 + r.below(250), "len": lo + r.below(hi - lo + 1)},
               "t": gen_tags(r), "e": null})
    }).collect()
}

/// `n` records with pairwise distinct (kind, category, name); `expiring`: some already expired, some expiring tomorrow
fn gen_recs(r: &mut Rng, n: usize, expiring: bool) -> Vec<Value> {
    let mut seen = BTreeSet::new();
    let mut out = vec![];
    for i in 0..n {
        let k = if r.chance(1, 3) { 1 } else { 2 };
        let c = r.pick(CATS).to_string();
        let mut nm = r.pick(NAMES).to_string();
        if !seen.insert((k, c.clone(), nm.clone())) {
            nm = format!("{}#{}", nm, i);
            seen.insert((k, c.clone(), nm.clone()));
        }
        let e = if !expiring { Value::Null } else {
            match r.below(8) { 0 => json!(-3_600_000i64), 1 => json!(-5_000i64), 2 => json!(86_400_000i64), _ => Value::Null }
        };
        out.push(json!({"k": k, "c": c, "n": nm, "v": gen_value(r), "t": gen_tags(r), "e": e}));
    }
    out
}

fn count_choice(r: &mut Rng, page: usize) -> usize {
    let p = page;
    *r.pick(&[0, 0, 1, 2, 5, p - 1, p, p + 1, 2 * p, 2 * p + 1, 3 * p + 4, 100, 7, 40])
}

fn gen_store_spec(r: &mut Rng, page: usize, nprof: usize, expiring: bool, small: bool) -> Value {
    let mut names: Vec<String> = vec![];
    while names.len() < nprof {
        let n = r.pick(PROFILES).to_string();
        if !names.contains(&n) { names.push(n); }
    }
    let profiles: Vec<Value> = names.iter().map(|n| {
        let cnt = if small { r.below(4) } else { count_choice(r, page) };
        json!({"name": n, "recs": gen_recs(r, cnt, expiring)})
    }).collect();
    json!({"default": names[0], "profiles": profiles, "set_default": null, "remove": []})
}

fn case(id: usize, page: usize, src: Value, dst: Value, action: Value, fault: Value, src_file: bool) -> Value {
    json!({"kind": "c18:copy", "id": id, "page": page, "src": src, "src_file": src_file, "dst": dst, "action": action, "fault": fault})
}

pub fn gen(r: &mut Rng, thorough: bool, count: Option<usize>) -> Vec<Value> {
    let page = crate::page_size().max(2);
    let mult = if thorough { 12 } else { 1 };
    let mut out: Vec<Value> = vec![];
    let methods_q = ["raw", "none"];
    let methods_t = ["raw", "none", "kdf:argon2i:int", "raw", "none", "kdf:argon2i:mod"];
    let mut id = 0usize;
    let mut push = |out: &mut Vec<Value>, mut c: Value| { c["id"] = json!(id); id += 1; out.push(c); };

    // (a) whole-store copies onto a fresh target, every key method
    for i in 0..(24 * mult) {
        let mut rr = r.fork();
        let nprof = 1 + rr.below(4);
        let exp = rr.chance(1, 2);
        let src = gen_store_spec(&mut rr, page, nprof, exp, false);
        let method = if thorough { methods_t[i % methods_t.len()] } else { methods_q[i % 2] };
        let via = if i % 3 == 0 { "copy_store" } else { "copy_to" };
        let file = via == "copy_to" || rr.chance(1, 2);
        let mut src = src;
        // the default profile need not be the first one
        if nprof > 1 && rr.chance(1, 3) {
            let k = rr.below(nprof);
            src["set_default"] = src["profiles"][k]["name"].clone();
        }
        push(&mut out, case(0, page, src, Value::Null, json!({"op": via, "method": method, "recreate": true, "file": file}), Value::Null, rr.chance(1, 3)));
    }
    // (b) profile copies into another store: new profile / existing empty / non-empty (refused) / only expired records
    for i in 0..(10 * mult) {
        let mut rr = r.fork();
        let (np, exp) = (1 + rr.below(2), rr.chance(1, 2));
        let src = gen_store_spec(&mut rr, page, np, exp, false);
        let from = src["profiles"][rr.below(src["profiles"].as_array().unwrap().len())]["name"].clone();
        let np = 1 + rr.below(2);
        let mut dst = gen_store_spec(&mut rr, page, np, false, true);
        let to: Value = match i % 5 {
            0 => json!("fresh-profile"),
            1 => { dst["profiles"][0]["recs"] = json!([]); dst["profiles"][0]["name"].clone() }
            2 => { let k = 1 + rr.below(3); dst["profiles"][0]["recs"] = Value::Array(gen_recs(&mut rr, k, false)); dst["profiles"][0]["name"].clone() }
            3 => {
                // logically empty: every record has expired; identities disjoint from the source's
                let k = 1 + rr.below(3);
                let mut recs = gen_recs(&mut rr, k, false);
                for (j, x) in recs.iter_mut().enumerate() { x["e"] = json!(-3_600_000i64); x["n"] = json!(format!("expired-{}", j)); }
                dst["profiles"][0]["recs"] = Value::Array(recs);
                dst["profiles"][0]["name"].clone()
            }
            _ => json!("missing-source"),
        };
        let (from, to) = if i % 5 == 4 { (json!("no-such-profile"), json!("fresh-profile")) } else { (from, to) };
        push(&mut out, case(0, page, src, dst, json!({"op": "copy_profile", "from": from, "to": to, "same": false, "method": methods_q[i % 2]}), Value::Null, rr.chance(1, 2)));
    }
    // (b2) non-empty targets that hold records of ONE kind only (only key records / only items), identities disjoint from the
    //      source's: "copying into a non-empty profile is refused" whatever the records are
    for i in 0..(4 * mult) {
        let mut rr = r.fork();
        let np = 1 + rr.below(2);
        let src = gen_store_spec(&mut rr, page, np, false, false);
        let from = src["profiles"][0]["name"].clone();
        let mut dst = gen_store_spec(&mut rr, page, 1, false, true);
        let k = 1 + rr.below(3);
        let mut recs = gen_recs(&mut rr, k, false);
        for (j, x) in recs.iter_mut().enumerate() { x["k"] = json!(if i % 2 == 0 { 1 } else { 2 }); x["n"] = json!(format!("only-{}-{}", if i % 2 == 0 { "kms" } else { "item" }, j)); x["e"] = Value::Null; }
        dst["profiles"][0]["recs"] = Value::Array(recs);
        let to = dst["profiles"][0]["name"].clone();
        push(&mut out, case(0, page, src, dst, json!({"op": "copy_profile", "from": from, "to": to, "same": false, "method": methods_q[i % 2]}), Value::Null, rr.chance(1, 2)));
    }
    // (c) profile copies inside one file-backed store
    for i in 0..(6 * mult) {
        let mut rr = r.fork();
        let exp = rr.chance(1, 3);
        let src = gen_store_spec(&mut rr, page, 2, exp, false);
        let from = src["profiles"][0]["name"].clone();
        let to = match i % 3 { 0 => json!("fresh-profile"), 1 => src["profiles"][1]["name"].clone(), _ => from.clone() };
        let mut src = src;
        if i % 6 == 1 { src["profiles"][1]["recs"] = json!([]); }
        push(&mut out, case(0, page, src, Value::Null, json!({"op": "copy_profile", "from": from, "to": to, "same": true}), Value::Null, true));
    }
    // (d) a statement fault on the j-th item insert of the import (file-backed, pre-provisioned target)
    for i in 0..(8 * mult) {
        let mut rr = r.fork();
        let nprof = 1 + rr.below(3);
        let mut src = gen_store_spec(&mut rr, page, nprof, false, false);
        let total: usize = src["profiles"].as_array().unwrap().iter().map(|p| p["recs"].as_array().unwrap().len()).sum();
        if total == 0 { src["profiles"][0]["recs"] = Value::Array(gen_recs(&mut rr, page + 3, false)); }
        let total = total.max(page + 3);
        let j = match i % 4 { 0 => 0, 1 => total - 1, 2 => rr.below(total), _ => rr.below(total + 3) };
        let dst = json!({"default": src["default"], "profiles": [{"name": src["default"], "recs": []}], "set_default": null, "remove": []});
        let action = if i % 2 == 0 {
            json!({"op": "copy_to", "method": "raw", "recreate": false, "file": true})
        } else {
            json!({"op": "copy_profile", "from": src["profiles"][0]["name"], "to": src["default"], "same": false, "method": "raw"})
        };
        push(&mut out, case(0, page, src, dst, action, json!({"j": j}), false));
    }
    // (e) whole-store copies onto an existing target
    for i in 0..(6 * mult) {
        let mut rr = r.fork();
        let np = 2 + rr.below(2);
        let src = gen_store_spec(&mut rr, page, np, false, true);
        let names: Vec<Value> = src["profiles"].as_array().unwrap().iter().map(|p| p["name"].clone()).collect();
        let mut dst = json!({"default": names[0], "profiles": [{"name": names[0], "recs": []}], "set_default": null, "remove": []});
        let mut recreate = false;
        match i % 6 {
            0 => {}                                                                                   // empty target: accepted
            1 => { dst["profiles"][0]["recs"] = Value::Array(gen_recs(&mut rr, 2, false)); }            // first profile non-empty
            2 => { dst["profiles"].as_array_mut().unwrap().push(json!({"name": names[1], "recs": gen_recs(&mut rr, 1, false)})); } // a later one
            3 => { dst["default"] = json!("other"); dst["profiles"][0]["name"] = json!("other"); }       // default profile missing
            4 => { dst["profiles"][0]["recs"] = Value::Array(gen_recs(&mut rr, 2, false)); recreate = true; } // replaced
            _ => { dst["profiles"].as_array_mut().unwrap().push(json!({"name": "unrelated", "recs": gen_recs(&mut rr, 2, false)})); }
        }
        let via = if i % 2 == 0 { "copy_to" } else { "copy_store" };
        push(&mut out, case(0, page, src, dst, json!({"op": via, "method": methods_q[i % 2], "recreate": recreate, "file": true}), Value::Null, false));
    }
    // (f) the configured default profile does not exist in the source (removed, or set to a missing name)
    for i in 0..(2 * mult.min(2)) {
        let mut rr = r.fork();
        let mut src = gen_store_spec(&mut rr, page, 2, false, true);
        if i % 2 == 0 { src["remove"] = json!([src["default"]]); } else { src["set_default"] = json!("nowhere"); }
        push(&mut out, case(0, page, src, Value::Null, json!({"op": "copy_to", "method": "raw", "recreate": true, "file": true}), Value::Null, false));
    }
    // (g) logically empty target whose expired record shares an identity with a source record
    for _ in 0..(2 * mult.min(2)) {
        let mut rr = r.fork();
        let mut src = gen_store_spec(&mut rr, page, 1, false, true);
        let recs = gen_recs(&mut rr, 3, false);
        src["profiles"][0]["recs"] = Value::Array(recs.clone());
        let mut shadow = recs[1].clone();
        shadow["e"] = json!(-3_600_000i64);
        shadow["v"] = json!("00");
        let dst = json!({"default": "t0", "profiles": [{"name": "t0", "recs": [shadow]}], "set_default": null, "remove": []});
        push(&mut out, case(0, page, src.clone(), dst, json!({"op": "copy_profile", "from": src["profiles"][0]["name"], "to": "t0", "same": false, "method": "raw"}), Value::Null, false));
    }
    // (i) large values: a run of fewer than PAGE_SIZE rows that carries well over a MiB (few records of 120-400 KiB),
    //     and more than a page of rows whose first page already does (PAGE_SIZE+ records of 40-70 KiB); both through
    //     copy_profile and the whole-store copies, both kinds, a second small profile alongside
    for i in 0..(6 * mult) {
        let mut rr = r.fork();
        let few = i % 2 == 0;
        let recs = if few {
            let n = 6 + rr.below(7);
            gen_large_recs(&mut rr, n, 120 * 1024, 400 * 1024)
        } else {
            let n = page + 1 + rr.below(8);
            gen_large_recs(&mut rr, n, 40 * 1024, 70 * 1024)
        };
        let small = gen_recs(&mut rr, 3, false);
        let src = json!({"default": "p0", "profiles": [{"name": "p0", "recs": recs}, {"name": "p1", "recs": small}], "set_default": null, "remove": []});
        let method = methods_q[i % 2];
        let c = match i % 3 {
            0 => {
                let dst = json!({"default": "t0", "profiles": [{"name": "t0", "recs": []}], "set_default": null, "remove": []});
                case(0, page, src, dst, json!({"op": "copy_profile", "from": "p0", "to": if i % 2 == 0 { "t0" } else { "fresh-profile" }, "same": false, "method": method}), Value::Null, rr.chance(1, 2))
            }
            1 => case(0, page, src, Value::Null, json!({"op": "copy_to", "method": method, "recreate": true, "file": true}), Value::Null, rr.chance(1, 2)),
            _ => case(0, page, src, Value::Null, json!({"op": "copy_store", "method": method, "recreate": true, "file": rr.chance(1, 2)}), Value::Null, rr.chance(1, 2)),
        };
        push(&mut out, c);
    }
    // (h) Indy wallets
    push(&mut out, json!({"kind": "c18:fixture", "id": 0}));
    let kdfs_q = ["RAW", "RAW", "RAW", "ARGON2I_INT", "RAW", "RAW", "ARGON2I_MOD", "RAW", "RAW", "RAW"];
    for i in 0..(10 * mult) {
        let mut rr = r.fork();
        let n = *rr.pick(&[0usize, 1, 2, 3, 7, 20, 33, 64]);
        let items = gen_indy_items(&mut rr, n);
        let kdf = if thorough { ["RAW", "ARGON2I_INT", "RAW", "ARGON2I_MOD"][i % 4] } else { kdfs_q[i % kdfs_q.len()] };
        let name = *rr.pick(&["wallet-1", "w", "Wällét ✓", "walletwallet.0"]);
        push(&mut out, json!({"kind": "c18:indy", "id": 0, "kdf": kdf, "name": name, "seed": rr.next() >> 12, "items": items}));
    }
    // (j) failure semantics of the migration: wrong key / method, second run, not a wallet, damaged metadata and cells,
    //     statement fault and SIGKILL in the middle (c18_indyx.rs)
    let mut extra = vec![];
    indyx::gen_indyx(r, thorough, &mut extra);
    for c in extra { push(&mut out, c); }
    if let Some(c) = count { out.truncate(c); }
    out
}

/// Indy records: (type, name) unique; at most one tag per (name, table) — the Indy tag tables are keyed by (name, item)
fn gen_indy_items(r: &mut Rng, n: usize) -> Vec<Value> {
    let types = ["Indy::Did", "Indy::Key", "credential", "", "schema-ü", "t\u{0}nul"];
    let mut seen = BTreeSet::new();
    let mut out = vec![];
    for i in 0..n {
        let c = r.pick(&types).to_string();
        let mut nm = r.pick(NAMES).to_string();
        if !seen.insert((c.clone(), nm.clone())) { nm = format!("{}#{}", nm, i); seen.insert((c.clone(), nm.clone())); }
        let nt = match r.below(6) { 0 => 0, 1 => 1, 2 => 2, 3 => 4, 4 => 9, _ => 1 };
        let mut tseen = BTreeSet::new();
        let mut tags = vec![];
        for _ in 0..nt {
            let plain = r.chance(1, 2);
            let tn = r.pick(TAG_NAMES).to_string();
            if tseen.insert((plain, tn.clone())) {
                tags.push(json!([if plain { 1 } else { 0 }, tn, *r.pick(TAG_VALUES)]));
            }
        }
        out.push(json!({"c": c, "n": nm, "v": gen_value(r), "t": tags}));
    }
    out
}

// =============================================================================================
// Store set-up and dumps

fn pass_key_for(method: &str) -> PassKey<'static> {
    match method {
        "raw" => PassKey::from(RAW_TARGET_KEY.to_string()),
        "none" => PassKey::empty(),
        _ => PassKey::from(KDF_PASS.to_string()),
    }
}

fn method_of(method: &str) -> StoreKeyMethod { StoreKeyMethod::parse_uri(method).expect("key method") }

fn file_path(tag: &str, what: &str) -> String {
    let p = format!("{}/c18-{}-{}.db", scratch_dir(), what, tag);
    cleanup(&Some(p.clone()));
    p
}

fn provision_at(uri: &str, method: &str, profile: &str) -> AnyBackend {
    let mut last = None;
    for attempt in 0..20 {
        match block_on(async { uri.provision_backend(method_of(method), pass_key_for(method), Some(profile.to_string()), true).await }) {
            Ok(b) => return b,
            Err(e) => { last = Some(e); std::thread::sleep(std::time::Duration::from_millis(20 * (attempt + 1))); }
        }
    }
    panic!("provision target: {:?}", last)
}

fn open_at(path: &str, method: &str) -> Result<AnyBackend, askar_storage::Error> {
    let uri = format!("sqlite://{}", path);
    block_on(async { uri.as_str().open_backend(Some(method_of(method)), pass_key_for(method), None).await })
}

/// provision-time profile first, then the others, the records (one transaction per profile), default, removals
fn fill_store(b: &AnyBackend, spec: &Value) -> Result<(), String> {
    block_on(async {
        let default = spec["default"].as_str().unwrap_or("");
        for p in spec["profiles"].as_array().cloned().unwrap_or_default() {
            let name = p["name"].as_str().unwrap_or("").to_string();
            if name != default {
                b.create_profile(Some(name.clone())).await.map_err(|e| format!("create_profile: {:?}", e))?;
            }
            let recs = p["recs"].as_array().cloned().unwrap_or_default();
            if recs.is_empty() { continue; }
            let mut s = b.session(Some(name.clone()), true).map_err(|e| format!("session: {:?}", e))?;
            for x in &recs {
                let v = value_from_json(&x["v"]);
                let tags = tags_from_json(&x["t"]).map(|ts| ts.iter().map(Tag::to_entry_tag).collect::<Vec<_>>());
                s.update(kind_of(x["k"].as_i64().unwrap_or(2)), EntryOperation::Insert, x["c"].as_str().unwrap_or(""), x["n"].as_str().unwrap_or(""),
                         Some(&v), tags.as_deref(), x["e"].as_i64()).await.map_err(|e| format!("insert: {:?}", e))?;
            }
            s.close(true).await.map_err(|e| format!("commit: {:?}", e))?;
        }
        if let Some(d) = spec["set_default"].as_str() {
            b.set_default_profile(d.to_string()).await.map_err(|e| format!("set_default: {:?}", e))?;
        }
        for n in spec["remove"].as_array().cloned().unwrap_or_default() {
            b.remove_profile(n.as_str().unwrap_or("").to_string()).await.map_err(|e| format!("remove_profile: {:?}", e))?;
        }
        Ok(())
    })
}

fn sort_recs(v: Value) -> Value {
    let mut a = v.as_array().cloned().unwrap_or_default();
    a.sort_by_key(|x| (x["k"].as_i64().unwrap_or(0), x["c"].as_str().unwrap_or("").as_bytes().to_vec(), x["n"].as_str().unwrap_or("").as_bytes().to_vec()));
    Value::Array(a)
}

thread_local! { static DUMP_NOTES: std::cell::RefCell<Vec<Value>> = std::cell::RefCell::new(vec![]); }

/// every live record of a profile through `fetch_all` of a plain session (all kinds): unlike a `Scan` it does not
/// depend on how the rows are cut into pages, so a paging fault cannot hide in the dump of both sides
fn dump_profile_fetch_all(b: &AnyBackend, profile: &str) -> Result<Value, askar_storage::Error> {
    block_on(async {
        let mut s = b.session(Some(profile.to_string()), false)?;
        let rows = s.fetch_all(None, None, None, None, None, false, false).await;
        s.close(false).await.ok();
        drop(s);
        Ok(Value::Array(rows?.iter().map(|e| Rec::from_entry(e).to_json()).collect()))
    })
}

/// {"default": name, "profiles": [{"name", "recs": [...sorted by (kind, category, name)]} sorted by name]}
/// The records are read with `fetch_all`; the paged `Scan` dump (`dump_profile`) must say the same.
fn dump_store(b: &AnyBackend) -> Value {
    let (default, mut names) = block_on(async {
        (b.get_default_profile().await.map(Value::String).unwrap_or_else(|e| jerr(&e)),
         b.list_profiles().await.unwrap_or_default())
    });
    names.sort_by(|a, b| a.as_bytes().cmp(b.as_bytes()));
    let profiles: Vec<Value> = names.iter().map(|n| {
        let recs = match dump_profile_fetch_all(b, n) { Ok(v) => sort_recs(v), Err(e) => jerr(&e) };
        let scanned = match dump_profile(b, n) { Ok(v) => sort_recs(v), Err(e) => jerr(&e) };
        if scanned != recs {
            let (ns, nf) = (scanned.as_array().map_or(0, |a| a.len()), recs.as_array().map_or(0, |a| a.len()));
            DUMP_NOTES.with(|d| d.borrow_mut().push(json!({"sig": format!("dump:scan-differs-from-fetch_all:{}", if ns < nf { "scan-lost" } else if ns > nf { "scan-extra" } else { "changed" }),
                                                           "profile": n, "scan": ns, "fetch_all": nf})));
        }
        json!({"name": n, "recs": recs})
    }).collect();
    json!({"default": default, "profiles": profiles})
}

fn close(b: AnyBackend) { block_on(async move { b.close().await.ok(); drop(b); }); }

// =============================================================================================
// The reference: what the property says the dumps must be, from the case spec alone

/// live logical content per profile of a store built from `spec`
fn expected_store(spec: &Value) -> BTreeMap<String, Value> {
    let removed: Vec<String> = spec["remove"].as_array().cloned().unwrap_or_default().iter().map(|x| x.as_str().unwrap_or("").to_string()).collect();
    let mut m = BTreeMap::new();
    for p in spec["profiles"].as_array().cloned().unwrap_or_default() {
        let name = p["name"].as_str().unwrap_or("").to_string();
        if removed.contains(&name) { continue; }
        let recs: Vec<Value> = p["recs"].as_array().cloned().unwrap_or_default().iter()
            .filter(|x| x["e"].as_i64().map_or(true, |e| e > 0))
            .map(|x| Rec { kind: x["k"].as_i64().unwrap_or(2), cat: x["c"].as_str().unwrap_or("").into(), name: x["n"].as_str().unwrap_or("").into(),
                           value: value_from_json(&x["v"]), tags: tags_from_json(&x["t"]).unwrap_or_default() }.to_json())
            .collect();
        m.insert(name, sort_recs(Value::Array(recs)));
    }
    m
}

fn expected_default(spec: &Value) -> String {
    spec["set_default"].as_str().or(spec["default"].as_str()).unwrap_or("").to_string()
}

fn dump_map(d: &Value) -> BTreeMap<String, Value> {
    d["profiles"].as_array().cloned().unwrap_or_default().iter()
        .map(|p| (p["name"].as_str().unwrap_or("").to_string(), p["recs"].clone())).collect()
}

fn ident(x: &Value) -> (i64, String, String) {
    (x["k"].as_i64().unwrap_or(0), x["c"].as_str().unwrap_or("").into(), x["n"].as_str().unwrap_or("").into())
}

/// how two record lists differ: lost / extra / changed
fn diff_class(want: &Value, got: &Value) -> String {
    let w: BTreeMap<_, _> = want.as_array().cloned().unwrap_or_default().into_iter().map(|x| (ident(&x), x)).collect();
    let g: BTreeMap<_, _> = got.as_array().cloned().unwrap_or_default().into_iter().map(|x| (ident(&x), x)).collect();
    let mut c = vec![];
    if !got.is_array() { c.push("unreadable"); }
    if w.keys().any(|k| !g.contains_key(k)) { c.push("lost"); }
    if g.keys().any(|k| !w.contains_key(k)) { c.push("extra"); }
    if w.iter().any(|(k, x)| g.get(k).map_or(false, |y| y != x)) { c.push("changed"); }
    if c.is_empty() { c.push("multiplicity"); }
    c.join("+")
}

// =============================================================================================
// c18:copy

fn exec_copy(case: &Value, tag: &str) -> Value {
    let src_spec = &case["src"];
    let action = &case["action"];
    let op = action["op"].as_str().unwrap_or("");
    let same = action["same"].as_bool().unwrap_or(false);
    let method = action["method"].as_str().unwrap_or("raw");
    let src_file = case["src_file"].as_bool().unwrap_or(false) || same;
    let mut oracle: Vec<Value> = vec![];
    let mut feat: BTreeMap<String, u64> = BTreeMap::new();
    let page = case["page"].as_u64().unwrap_or(32) as usize;
    DUMP_NOTES.with(|d| d.borrow_mut().clear());

    // source
    let (src, src_path) = provision(src_file, src_spec["default"].as_str().unwrap_or(""), "", &format!("c18s-{}", tag));
    if let Err(e) = fill_store(&src, src_spec) { panic!("source set-up: {}", e); }
    let src_before = dump_store(&src);
    let want_src = expected_store(src_spec);
    if dump_map(&src_before) != want_src {
        oracle.push(json!({"sig": "setup:source-dump-differs-from-spec", "got": src_before, "want": want_src}));
    }
    let src_rows_before = src_path.as_ref().map(|p| raw_counts(p));

    // pre-existing target
    let has_dst = !case["dst"].is_null();
    let target_file = has_dst || action["file"].as_bool().unwrap_or(false);
    let dst_path = if target_file && !same { Some(file_path(tag, "t")) } else { None };
    let dst_uri = match &dst_path { Some(p) => format!("sqlite://{}", p), None => "sqlite://:memory:".to_string() };
    let mut pre: Option<AnyBackend> = None;
    let mut want_pre: BTreeMap<String, Value> = BTreeMap::new();
    if has_dst {
        let b = provision_at(&dst_uri, method, case["dst"]["default"].as_str().unwrap_or(""));
        if let Err(e) = fill_store(&b, &case["dst"]) { panic!("target set-up: {}", e); }
        want_pre = expected_store(&case["dst"]);
        pre = Some(b);
    }
    // fault: abort the (j+1)-th row inserted into the target's items table from now on
    let fault_j = case["fault"]["j"].as_i64();
    if let (Some(j), Some(p)) = (fault_j, &dst_path) {
        let raw = RawDb::open(p).expect("raw open");
        let base = raw.query("SELECT COUNT(*) FROM items", &[]).expect("count")[0][0].as_int();
        raw.exec(&format!("CREATE TRIGGER verif_fault BEFORE INSERT ON items WHEN (SELECT COUNT(*) FROM items) = {} BEGIN SELECT RAISE(ABORT, 'verif fault'); END", base + j)).expect("install fault");
    }

    // the action
    let mut target: Option<AnyBackend> = None;
    let res: Value = match op {
        "copy_to" => {
            // whole-store copy goes to a store of its own: close the handle used for set-up first
            if let Some(b) = pre.take() { close(b); }
            let store = Store::from(src.clone());
            let recreate = action["recreate"].as_bool().unwrap_or(true);
            // Provisioning the fresh WAL-mode target can fail with SQLITE_BUSY ("database is locked") while the new pool's
            // first connections race on the journal-mode switch (seen ~1 in 1000 when 16 cases run in parallel): set-up,
            // not this property — retry a recreating, fault-free copy a few times.
            let mut r = Ok(());
            for attempt in 0..6u64 {
                r = block_on(async {
                    match store.copy_to(&dst_uri, method_of(method), pass_key_for(method), recreate).await {
                        Ok(t) => { t.close().await.ok(); Ok(()) }
                        Err(e) => Err(e),
                    }
                });
                match &r {
                    Err(e) if recreate && fault_j.is_none() && format!("{:?}", e).contains("database is locked") => {
                        std::thread::sleep(std::time::Duration::from_millis(30 * (attempt + 1)));
                    }
                    _ => break,
                }
            }
            block_on(async move { drop(store) });
            match r { Ok(()) => json!("ok"), Err(e) => json!({"err": format!("{:?}", e.kind())}) }
        }
        "copy_store" => {
            if let Some(b) = pre.take() { close(b); }
            let recreate = action["recreate"].as_bool().unwrap_or(true);
            let mut r = block_on(async { copy_store(&src, dst_uri.as_str(), method_of(method), pass_key_for(method), recreate).await });
            for attempt in 0..5u64 {
                match &r {
                    Err(e) if recreate && fault_j.is_none() && format!("{:?}", e).contains("database is locked") => {
                        std::thread::sleep(std::time::Duration::from_millis(30 * (attempt + 1)));
                        r = block_on(async { copy_store(&src, dst_uri.as_str(), method_of(method), pass_key_for(method), recreate).await });
                    }
                    _ => break,
                }
            }
            match r {
                Ok(t) => { target = Some(t); json!("ok") }
                Err(e) => jerr(&e),
            }
        }
        "copy_profile" => {
            let from = action["from"].as_str().unwrap_or("");
            let to = action["to"].as_str().unwrap_or("");
            let r = if same {
                block_on(async { copy_profile(&src, &src, from, to).await })
            } else {
                let t = pre.take().expect("copy_profile needs a target store");
                let r = block_on(async { copy_profile(&src, &t, from, to).await });
                target = Some(t);
                r
            };
            match r { Ok(()) => json!("ok"), Err(e) => jerr(&e) }
        }
        _ => json!({"err": "BadOp"}),
    };
    if let (Some(_), Some(p)) = (fault_j, &dst_path) {
        RawDb::open(p).expect("raw open").exec("DROP TRIGGER IF EXISTS verif_fault").expect("remove fault");
    }

    // dumps: a file-backed target is always closed and reopened under its own key
    let dst_dump: Value = if same { Value::Null } else {
        match (&dst_path, target.take()) {
            (Some(p), t) => {
                if let Some(t) = t { close(t); }
                if std::path::Path::new(p).exists() {
                    match open_at(p, method) {
                        Ok(b) => { let d = dump_store(&b); close(b); d }
                        Err(e) => json!({"open": jerr(&e)}),
                    }
                } else { Value::Null }
            }
            (None, Some(t)) => { let d = dump_store(&t); close(t); d }
            (None, None) => Value::Null,
        }
    };
    let src_after = dump_store(&src);
    let src_rows_after = src_path.as_ref().map(|p| raw_counts(p));
    close(src);
    cleanup(&src_path);
    cleanup(&dst_path);

    // ---------------------------------------------------------------------------------------
    // the property, judged from the spec
    let ok = res == "ok";
    let errk = res["err"].as_str().unwrap_or("").to_string();
    let src_names: BTreeSet<String> = want_src.keys().cloned().collect();
    let src_default = expected_default(src_spec);
    let dangling = !src_names.contains(&src_default);
    let faulted = fault_j.is_some();
    *feat.entry(format!("op:{}", op)).or_insert(0) += 1;
    *feat.entry(format!("method:{}", method)).or_insert(0) += 1;
    *feat.entry(if ok { "res:ok".to_string() } else { format!("res:err:{}", errk) }).or_insert(0) += 1;
    *feat.entry("profiles".into()).or_insert(0) += src_names.len() as u64;
    let mut kinds = BTreeSet::new();
    for (_, recs) in &want_src {
        let n = recs.as_array().map_or(0, |a| a.len());
        *feat.entry("records".into()).or_insert(0) += n as u64;
        if n > page { *feat.entry("profiles-multi-page".into()).or_insert(0) += 1; }
        for x in recs.as_array().unwrap() { kinds.insert(x["k"].as_i64().unwrap_or(0)); if !x["t"].as_array().unwrap().is_empty() { *feat.entry("tagged".into()).or_insert(0) += 1; } }
    }
    if kinds.len() == 2 { *feat.entry("both-kinds".into()).or_insert(0) += 1; }
    // a profile in which some PAGE_SIZE-1 records together carry >= 1 MiB of values
    for p in src_spec["profiles"].as_array().unwrap() {
        let mut lens: Vec<u64> = p["recs"].as_array().unwrap().iter().map(|x| x["v"]["len"].as_u64().unwrap_or_else(|| x["v"].as_str().map_or(0, |s| s.len() as u64 / 2))).collect();
        lens.sort_unstable_by(|a, b| b.cmp(a));
        let top: u64 = lens.iter().take(page.saturating_sub(1)).sum();
        if top >= 1 << 20 { *feat.entry("profiles-mib-in-short-page".into()).or_insert(0) += 1; }
        if top >= 1 << 20 && lens.len() > page { *feat.entry("profiles-mib-and-multi-page".into()).or_insert(0) += 1; }
    }
    let spec_expired = src_spec["profiles"].as_array().unwrap().iter().flat_map(|p| p["recs"].as_array().cloned().unwrap_or_default()).filter(|x| x["e"].as_i64().map_or(false, |e| e < 0)).count();
    if spec_expired > 0 { *feat.entry("expired-in-source".into()).or_insert(0) += 1; }

    // source unchanged
    // (inside one store the target profile is part of the same dump: compare everything but that profile)
    let without_target = |d: &Value| -> Value {
        let mut m = dump_map(d);
        if same && action["from"] != action["to"] { m.remove(action["to"].as_str().unwrap_or("")); }
        json!({"default": d["default"], "profiles": m})
    };
    if without_target(&src_after) != without_target(&src_before) { oracle.push(json!({"sig": format!("{}:source-changed", op), "before": src_before, "after": src_after})); }
    if !same && src_rows_before != src_rows_after { oracle.push(json!({"sig": format!("{}:source-rows-changed", op), "before": src_rows_before, "after": src_rows_after})); }

    // which (source profile -> target profile) pairs the action is about
    let pairs: Vec<(String, String)> = if op == "copy_profile" {
        vec![(action["from"].as_str().unwrap_or("").to_string(), action["to"].as_str().unwrap_or("").to_string())]
    } else { src_names.iter().map(|n| (n.clone(), n.clone())).collect() };
    let recreate = action["recreate"].as_bool().unwrap_or(op != "copy_profile") && op != "copy_profile";
    let pre_view: BTreeMap<String, Value> = if same { want_src.clone() } else if recreate { BTreeMap::new() } else { want_pre.clone() };
    let got: BTreeMap<String, Value> = if same { dump_map(&src_after) } else { dump_map(&dst_dump) };
    let nonempty_target = pairs.iter().any(|(_, t)| pre_view.get(t).map_or(false, |r| r.as_array().map_or(false, |a| !a.is_empty())));
    let missing_source = pairs.iter().any(|(f, _)| !src_names.contains(f));
    // an expired record in the target under an identity the source also holds
    let shadow = !same && !recreate && has_dst && pairs.iter().any(|(f, t)| {
        let exp: Vec<_> = case["dst"]["profiles"].as_array().unwrap().iter().filter(|p| p["name"].as_str() == Some(t.as_str()))
            .flat_map(|p| p["recs"].as_array().cloned().unwrap_or_default()).filter(|x| x["e"].as_i64().map_or(false, |e| e < 0)).map(|x| ident(&x)).collect();
        if !exp.is_empty() { *feat.entry("target-only-expired".into()).or_insert(0) += 1; }
        want_src.get(f).map_or(false, |r| r.as_array().unwrap().iter().any(|x| exp.contains(&ident(x))))
    });
    let target_lacks_default = !same && op != "copy_profile" && has_dst && !recreate && !want_pre.contains_key(&src_default);

    if nonempty_target {
        *feat.entry("nonempty-target".into()).or_insert(0) += 1;
        if ok { oracle.push(json!({"sig": format!("{}:nonempty-target-not-refused", op)})); }
        else if errk != "Input" && !faulted { oracle.push(json!({"sig": format!("{}:nonempty-target-refused-as:{}", op, errk)})); }
    } else if missing_source {
        if ok || errk != "NotFound" { oracle.push(json!({"sig": format!("{}:missing-source:err:NotFound->{}", op, if ok { "ok".into() } else { format!("err:{}", errk) })})); }
    } else if !ok && !faulted && !target_lacks_default {
        oracle.push(json!({"sig": format!("{}:ok->err:{}{}", op, errk, if shadow { ":expired-shadow-in-target" } else { "" }), "res": res}));
    }
    if faulted { *feat.entry(if ok { "fault:not-reached" } else { "fault:reached" }.to_string()).or_insert(0) += 1; }

    if same || !dst_dump.is_null() {
        if !same && dst_dump.get("open").is_some() {
            oracle.push(json!({"sig": format!("{}:target-does-not-open", op), "dump": dst_dump}));
        } else {
            // every target profile: untouched, or (if it was empty / new) exactly the source's live records
            for (f, t) in &pairs {
                let before = pre_view.get(t);
                let empty_before = before.map_or(true, |r| r.as_array().map_or(true, |a| a.is_empty()));
                let want_copy = want_src.get(f);
                match got.get(t) {
                    None => if ok { oracle.push(json!({"sig": format!("{}:profiles:missing", op), "profile": t})); },
                    Some(g) => {
                        let untouched = before.map_or(g.as_array().map_or(false, |a| a.is_empty()), |b| b == g);
                        let copied = empty_before && want_copy.map_or(false, |w| w == g);
                        if ok && f != t || ok && !same {
                            if !copied { oracle.push(json!({"sig": format!("{}:target-content:{}", op, diff_class(want_copy.unwrap_or(&json!([])), g)), "profile": t, "want": want_copy, "got": g})); }
                        } else if ok && same && f == t {
                            if !untouched { oracle.push(json!({"sig": format!("{}:self-copy-changed-profile", op), "profile": t})); }
                        } else if !(untouched || copied) {
                            oracle.push(json!({"sig": format!("{}:{}partial-profile:{}", op, if faulted { "fault:" } else { "" }, diff_class(before.unwrap_or(&json!([])), g)), "profile": t, "got": g}));
                        }
                    }
                }
            }
            // profiles the action is not about keep their content
            for (n, before) in &pre_view {
                if pairs.iter().any(|(_, t)| t == n) { continue; }
                if got.get(n) != Some(before) { oracle.push(json!({"sig": format!("{}:unrelated-profile-changed", op), "profile": n})); }
            }
            if ok {
                let mut want_names: BTreeSet<String> = pre_view.keys().cloned().collect();
                for (_, t) in &pairs { want_names.insert(t.clone()); }
                let got_names: BTreeSet<String> = got.keys().cloned().collect();
                if got_names != want_names {
                    let extra: Vec<_> = got_names.difference(&want_names).cloned().collect();
                    let missing: Vec<_> = want_names.difference(&got_names).cloned().collect();
                    oracle.push(json!({"sig": format!("{}:profiles:{}{}{}", op, if !missing.is_empty() { "missing" } else { "" }, if !extra.is_empty() { "extra" } else { "" },
                                                      if dangling { ":source-default-profile-does-not-exist" } else { "" }), "extra": extra, "missing": missing}));
                }
                if op != "copy_profile" && (recreate || !has_dst) && dst_dump["default"].as_str() != Some(src_default.as_str()) {
                    oracle.push(json!({"sig": format!("{}:default-profile-not-carried", op), "want": src_default, "got": dst_dump["default"]}));
                }
            }
        }
    } else if ok && !same {
        oracle.push(json!({"sig": format!("{}:no-target-to-inspect", op)}));
    }

    DUMP_NOTES.with(|d| oracle.extend(d.borrow_mut().drain(..)));
    json!({"out": {"res": res, "dst": dst_dump, "src": src_after}, "oracle": oracle, "feat": feat})
}

fn raw_counts(path: &str) -> Value {
    let raw = RawDb::open(path).expect("raw open");
    let q = |sql: &str| raw.query(sql, &[]).map(|r| r[0][0].as_int()).unwrap_or(-1);
    json!([q("SELECT COUNT(*) FROM items"), q("SELECT COUNT(*) FROM items_tags"), q("SELECT COUNT(*) FROM profiles")])
}

// =============================================================================================
// Indy-SDK wallet format: independent writer and reader

struct IndyKeys { keys: [[u8; 32]; 7] } // type, name, value, item_hmac, tag_name, tag_value, tag_hmac
const K_TYPE: usize = 0; const K_NAME: usize = 1; const K_VALUE: usize = 2; const K_TAG_NAME: usize = 4; const K_TAG_VALUE: usize = 5;

fn c20p(key: &[u8]) -> Chacha20Key<C20P> { Chacha20Key::<C20P>::from_secret_bytes(key).expect("chacha key") }

/// Indy `encrypt_as_searchable` / `encrypt_as_not_searchable` layout: nonce(12) ‖ ciphertext ‖ tag(16)
fn seal(key: &[u8], nonce: &[u8], pt: &[u8]) -> Vec<u8> {
    let mut buf = SecretBytes::from_slice(pt);
    c20p(key).encrypt_in_place(&mut buf, nonce, &[]).expect("encrypt");
    let mut out = nonce.to_vec();
    out.extend_from_slice(buf.as_ref());
    out
}

fn unseal(key: &[u8], merged: &[u8]) -> Result<Vec<u8>, String> {
    if merged.len() < 12 + 16 { return Err(format!("merged value too short: {}", merged.len())); }
    let mut buf = SecretBytes::from_slice(&merged[12..]);
    c20p(key).decrypt_in_place(&mut buf, &merged[..12], &[]).map_err(|e| format!("{:?}", e))?;
    Ok(buf.as_ref().to_vec())
}

fn b58(data: &[u8]) -> String {
    const A: &[u8] = b"123456789ABCDEFGHJKLMNPQRSTUVWXYZabcdefghijkmnopqrstuvwxyz";
    let mut digits: Vec<u8> = vec![];
    for &b in data {
        let mut carry = b as u32;
        for d in digits.iter_mut() { carry += (*d as u32) << 8; *d = (carry % 58) as u8; carry /= 58; }
        while carry > 0 { digits.push((carry % 58) as u8); carry /= 58; }
    }
    let mut s: String = data.iter().take_while(|b| **b == 0).map(|_| '1').collect();
    s.extend(digits.iter().rev().map(|d| A[*d as usize] as char));
    s
}

fn b58_decode(s: &str) -> Vec<u8> {
    const A: &[u8] = b"123456789ABCDEFGHJKLMNPQRSTUVWXYZabcdefghijkmnopqrstuvwxyz";
    let mut bytes: Vec<u8> = vec![];
    for c in s.bytes() {
        let mut carry = A.iter().position(|a| *a == c).expect("base58 digit") as u32;
        for b in bytes.iter_mut() { carry += (*b as u32) * 58; *b = (carry & 0xff) as u8; carry >>= 8; }
        while carry > 0 { bytes.push((carry & 0xff) as u8); carry >>= 8; }
    }
    let mut out: Vec<u8> = s.bytes().take_while(|c| *c == b'1').map(|_| 0u8).collect();
    out.extend(bytes.iter().rev());
    out
}

/// libsodium `crypto_pwhash_argon2i` as Indy calls it: Argon2i v1.3, 32-byte output, the first 16 salt bytes
fn indy_master_key(kdf: &str, wallet_key: &str, salt: &[u8]) -> [u8; 32] {
    let mut out = [0u8; 32];
    match kdf {
        "RAW" => { let k = b58_decode(wallet_key); out.copy_from_slice(&k); }
        _ => {
            // libsodium: OPSLIMIT/MEMLIMIT_INTERACTIVE = 4 / 32 MiB, _MODERATE = 6 / 128 MiB (Params' fields are private:
            // askar-crypto's constants carry the same numbers)
            let params = if kdf == "ARGON2I_INT" { PARAMS_INTERACTIVE } else { PARAMS_MODERATE };
            Argon2::new(wallet_key.as_bytes(), &salt[..16], params)
                .expect("argon2 params").derive_key_bytes(&mut out).expect("argon2");
        }
    }
    out
}

/// rmp-serde of Indy's `Keys`: a 7-element array of bin8(32)
fn msgpack_keys(k: &IndyKeys) -> Vec<u8> {
    let mut v = vec![0x97u8];
    for key in &k.keys { v.push(0xc4); v.push(32); v.extend_from_slice(key); }
    v
}

fn parse_msgpack_keys(b: &[u8]) -> Result<IndyKeys, String> {
    if b.len() != 1 + 7 * 34 || b[0] != 0x97 { return Err(format!("unexpected key record: {} bytes, head {:02x?}", b.len(), b.first())); }
    let mut keys = [[0u8; 32]; 7];
    for i in 0..7 {
        let o = 1 + i * 34;
        if b[o] != 0xc4 || b[o + 1] != 32 { return Err("unexpected key element".into()); }
        keys[i].copy_from_slice(&b[o + 2..o + 34]);
    }
    Ok(IndyKeys { keys })
}

const INDY_SCHEMA: &str = "
    CREATE TABLE metadata (id INTEGER NOT NULL, value NOT NULL, PRIMARY KEY(id));
    CREATE TABLE items(id INTEGER NOT NULL, type NOT NULL, name NOT NULL, value NOT NULL, key NOT NULL, PRIMARY KEY(id));
    CREATE UNIQUE INDEX ux_items_type_name ON items(type, name);
    CREATE TABLE tags_encrypted(name NOT NULL, value NOT NULL, item_id INTEGER NOT NULL, PRIMARY KEY(name, item_id),
        FOREIGN KEY(item_id) REFERENCES items(id) ON DELETE CASCADE ON UPDATE CASCADE);
    CREATE INDEX ix_tags_encrypted_name ON tags_encrypted(name);
    CREATE INDEX ix_tags_encrypted_value ON tags_encrypted(value);
    CREATE INDEX ix_tags_encrypted_item_id ON tags_encrypted(item_id);
    CREATE TABLE tags_plaintext(name NOT NULL, value NOT NULL, item_id INTEGER NOT NULL, PRIMARY KEY(name, item_id),
        FOREIGN KEY(item_id) REFERENCES items(id) ON DELETE CASCADE ON UPDATE CASCADE);
    CREATE INDEX ix_tags_plaintext_name ON tags_plaintext(name);
    CREATE INDEX ix_tags_plaintext_value ON tags_plaintext(value);
    CREATE INDEX ix_tags_plaintext_item_id ON tags_plaintext(item_id);";

/// what the independent writer knows about the wallet it wrote
struct IndyWallet { wallet_key: String, keys: IndyKeys, salt: Vec<u8>, master: [u8; 32] }

/// write an Indy wallet holding `items`; returns the wallet key string
fn write_indy_wallet(path: &str, kdf: &str, seed: u64, items: &[Value]) -> String {
    write_indy_wallet_ex(path, kdf, seed, items, None).wallet_key
}

/// the same with the wallet key chosen by the caller (`wkey`); also returns the wallet's secrets
fn write_indy_wallet_ex(path: &str, kdf: &str, seed: u64, items: &[Value], wkey: Option<&str>) -> IndyWallet {
    let mut r = Rng::new(seed);
    std::fs::File::create(path).expect("create wallet file");
    let db = RawDb::open(path).expect("open wallet file");
    db.exec(INDY_SCHEMA).expect("indy schema");
    let mut keys = IndyKeys { keys: [[0u8; 32]; 7] };
    for k in keys.keys.iter_mut() { k.copy_from_slice(&r.bytes(32)); }
    let salt = r.bytes(32);
    let wallet_key = if kdf == "RAW" { b58(&r.bytes(32)) } else { format!("pass-{}-ü", r.next() % 1000) };
    let wallet_key = wkey.map_or(wallet_key, |k| k.to_string());
    let master = indy_master_key(kdf, &wallet_key, &salt);
    let keys_enc = seal(&master, &r.bytes(12), &msgpack_keys(&keys));
    let meta = if kdf == "RAW" { json!({"keys": keys_enc}) } else { json!({"keys": keys_enc, "master_key_salt": salt}) };
    db.query("INSERT INTO metadata (value) VALUES (?1)", &[Val::Blob(meta.to_string().into_bytes())]).expect("metadata");
    db.exec("BEGIN").unwrap();
    // item ids need not be dense
    let mut id = 1i64;
    for it in items {
        id += 1 + (r.below(3) as i64) / 2;
        let item_key = r.bytes(32);
        let value = value_from_json(&it["v"]);
        db.query("INSERT INTO items (id, type, name, value, key) VALUES (?1, ?2, ?3, ?4, ?5)", &[
            Val::Int(id),
            Val::Blob(seal(&keys.keys[K_TYPE], &r.bytes(12), it["c"].as_str().unwrap_or("").as_bytes())),
            Val::Blob(seal(&keys.keys[K_NAME], &r.bytes(12), it["n"].as_str().unwrap_or("").as_bytes())),
            Val::Blob(seal(&item_key, &r.bytes(12), &value)),
            Val::Blob(seal(&keys.keys[K_VALUE], &r.bytes(12), &item_key)),
        ]).expect("insert item");
        for t in it["t"].as_array().cloned().unwrap_or_default() {
            let plain = t[0].as_i64().unwrap_or(0) != 0;
            let name = seal(&keys.keys[K_TAG_NAME], &r.bytes(12), t[1].as_str().unwrap_or("").as_bytes());
            if plain {
                db.query("INSERT INTO tags_plaintext (name, value, item_id) VALUES (?1, ?2, ?3)",
                         &[Val::Blob(name), Val::Text(t[2].as_str().unwrap_or("").to_string()), Val::Int(id)]).expect("insert plaintext tag");
            } else {
                let v = seal(&keys.keys[K_TAG_VALUE], &r.bytes(12), t[2].as_str().unwrap_or("").as_bytes());
                db.query("INSERT INTO tags_encrypted (name, value, item_id) VALUES (?1, ?2, ?3)", &[Val::Blob(name), Val::Blob(v), Val::Int(id)]).expect("insert encrypted tag");
            }
        }
    }
    db.exec("COMMIT").unwrap();
    IndyWallet { wallet_key, keys, salt, master }
}

/// independent decode of an Indy wallet file into the logical records (kind = Item)
fn read_indy_wallet(path: &str, kdf: &str, wallet_key: &str) -> Result<Value, String> {
    let db = RawDb::open(path)?;
    let meta_raw = db.query("SELECT value FROM metadata", &[])?.get(0).ok_or("no metadata row")?[0].as_blob();
    let meta: Value = serde_json::from_slice(&meta_raw).map_err(|e| e.to_string())?;
    let bytes = |v: &Value| -> Vec<u8> { v.as_array().cloned().unwrap_or_default().iter().map(|x| x.as_u64().unwrap_or(0) as u8).collect() };
    let salt = bytes(&meta["master_key_salt"]);
    let master = indy_master_key(kdf, wallet_key, &salt);
    let keys = parse_msgpack_keys(&unseal(&master, &bytes(&meta["keys"]))?)?;
    let utf8 = |b: Vec<u8>| String::from_utf8(b).map_err(|e| e.to_string());
    let mut recs = vec![];
    for row in db.query("SELECT id, type, name, value, key FROM items", &[])? {
        let item_key = unseal(&keys.keys[K_VALUE], &row[4].as_blob())?;
        let mut tags = vec![];
        for t in db.query("SELECT name, value FROM tags_encrypted WHERE item_id = ?1", &[Val::Int(row[0].as_int())])? {
            tags.push(Tag { plain: false, name: utf8(unseal(&keys.keys[K_TAG_NAME], &t[0].as_blob())?)?, value: utf8(unseal(&keys.keys[K_TAG_VALUE], &t[1].as_blob())?)? });
        }
        for t in db.query("SELECT name, value FROM tags_plaintext WHERE item_id = ?1", &[Val::Int(row[0].as_int())])? {
            tags.push(Tag { plain: true, name: utf8(unseal(&keys.keys[K_TAG_NAME], &t[0].as_blob())?)?, value: utf8(t[1].as_blob())? });
        }
        recs.push(Rec { kind: 2, cat: utf8(unseal(&keys.keys[K_TYPE], &row[1].as_blob())?)?, name: utf8(unseal(&keys.keys[K_NAME], &row[2].as_blob())?)?,
                        value: unseal(&item_key, &row[3].as_blob())?, tags }.to_json());
    }
    Ok(sort_recs(Value::Array(recs)))
}

/// migrate the wallet file in place with the real code, reopen it with the wallet key, dump it
fn migrate_and_dump(path: &str, name: &str, wallet_key: &str, kdf: &str) -> (Value, Value) {
    let r = block_on(async {
        let m = IndySdkToAriesAskarMigration::connect(path, name, wallet_key, kdf).await?;
        m.migrate().await
    });
    // see c18_indyx.rs::run_migrate: a lock error of the verification re-open after the committed migration is set-up noise
    let r = match r { Err(e) if { let d = format!("{:?}", e); d.contains("connecting to database pool") && d.contains("database is locked") } => Ok(()), r => r };
    if let Err(e) = r { let mut j = jerr(&e); j["msg"] = json!(format!("{:?}", e).chars().take(300).collect::<String>()); return (j, Value::Null); }
    let method = match kdf { "RAW" => "raw", "ARGON2I_INT" => "kdf:argon2i:int", _ => "kdf:argon2i:mod" };
    let uri = format!("sqlite://{}", path);
    let opened = block_on(async { uri.as_str().open_backend(Some(method_of(method)), PassKey::from(wallet_key.to_string()), None).await });
    match opened {
        Err(e) => (json!("ok"), json!({"open": jerr(&e)})),
        Ok(b) => {
            let d = dump_store(&b);
            let active = b.get_active_profile();
            close(b);
            let mut d = d;
            d["active"] = json!(active);
            (json!("ok"), d)
        }
    }
}

fn leftover_tables(path: &str) -> Vec<String> {
    let db = match RawDb::open(path) { Ok(d) => d, Err(_) => return vec![] };
    let mut t: Vec<String> = db.query("SELECT name FROM sqlite_master WHERE type = 'table'", &[]).unwrap_or_default().iter().map(|r| r[0].as_text()).collect();
    t.sort();
    t
}

fn judge_migration(what: &str, res: &Value, dump: &Value, name: &str, want: &Value, oracle: &mut Vec<Value>) {
    if *res != "ok" { oracle.push(json!({"sig": format!("{}:migrate:ok->err:{}", what, res["err"].as_str().unwrap_or("?")), "res": res})); return; }
    if dump.get("open").is_some() { oracle.push(json!({"sig": format!("{}:migrated-store-does-not-open-with-wallet-key", what), "dump": dump})); return; }
    let got = dump_map(dump);
    if got.len() != 1 || !got.contains_key(name) { oracle.push(json!({"sig": format!("{}:profiles-differ", what), "got": got.keys().collect::<Vec<_>>()})); }
    if dump["default"].as_str() != Some(name) || dump["active"].as_str() != Some(name) { oracle.push(json!({"sig": format!("{}:default-profile-is-not-the-wallet", what)})); }
    if let Some(g) = got.get(name) {
        if g != want { oracle.push(json!({"sig": format!("{}:content:{}", what, diff_class(want, g)), "want": want, "got": g})); }
    }
}

fn exec_indy(case: &Value, tag: &str) -> Value {
    let kdf = case["kdf"].as_str().unwrap_or("RAW");
    let name = case["name"].as_str().unwrap_or("wallet");
    let items = case["items"].as_array().cloned().unwrap_or_default();
    let path = file_path(tag, "indy");
    let wallet_key = write_indy_wallet(&path, kdf, case["seed"].as_u64().unwrap_or(1), &items);
    let mut oracle = vec![];
    let mut feat: BTreeMap<String, u64> = BTreeMap::new();
    // what the wallet holds, from the spec (the writer's plaintext) and from an independent decode of the file
    let want = sort_recs(Value::Array(items.iter().map(|it| Rec { kind: 2, cat: it["c"].as_str().unwrap_or("").into(), name: it["n"].as_str().unwrap_or("").into(),
        value: value_from_json(&it["v"]), tags: tags_from_json(&it["t"]).unwrap_or_default() }.to_json()).collect()));
    match read_indy_wallet(&path, kdf, &wallet_key) {
        Ok(d) => if d != want { oracle.push(json!({"sig": "indy:writer-reader-disagree", "want": want, "got": d})); },
        Err(e) => oracle.push(json!({"sig": "indy:wallet-not-decodable", "err": e})),
    }
    let (res, dump) = migrate_and_dump(&path, name, &wallet_key, kdf);
    judge_migration("indy", &res, &dump, name, &want, &mut oracle);
    let tables = leftover_tables(&path);
    if res == "ok" && tables != ["config", "items", "items_tags", "profiles"] { oracle.push(json!({"sig": "indy:schema-after-migration", "tables": tables})); }
    cleanup(&Some(path));
    *feat.entry(format!("kdf:{}", kdf)).or_insert(0) += 1;
    *feat.entry("items".into()).or_insert(0) += items.len() as u64;
    *feat.entry("tags".into()).or_insert(0) += items.iter().map(|i| i["t"].as_array().map_or(0, |a| a.len()) as u64).sum::<u64>();
    let out_dump = json!({"default": dump["default"], "profiles": dump["profiles"]});
    DUMP_NOTES.with(|d| oracle.extend(d.borrow_mut().drain(..)));
    json!({"out": {"res": res, "dump": if dump.get("open").is_some() { dump } else { out_dump }}, "oracle": oracle, "feat": feat})
}

fn exec_fixture(case: &Value, tag: &str) -> Value {
    let path = file_path(tag, "fixture");
    std::fs::copy(FIXTURE, &path).expect("copy fixture");
    let mut oracle = vec![];
    let independent = read_indy_wallet(&path, "RAW", FIXTURE_KEY);
    let (res, dump) = migrate_and_dump(&path, FIXTURE_NAME, FIXTURE_KEY, "RAW");
    let out_dump = json!({"default": dump["default"], "profiles": dump["profiles"]});
    match &independent {
        Ok(want) => judge_migration("fixture", &res, &dump, FIXTURE_NAME, want, &mut oracle),
        Err(e) => oracle.push(json!({"sig": "fixture:wallet-not-decodable", "err": e})),
    }
    // the frozen dump: from the case itself (corpus) or from the corpus file
    let frozen = if !case["expect"].is_null() { Some(case["expect"].clone()) } else {
        std::fs::read_to_string(format!("{}/corpus/C18/fixture_dump.json", verif_home())).ok()
            .and_then(|s| serde_json::from_str::<Value>(s.trim()).ok()).map(|v| v["expect"].clone())
    };
    match frozen {
        Some(f) if !f.is_null() => if f != out_dump { oracle.push(json!({"sig": "fixture:dump-differs-from-frozen", "want": f, "got": out_dump})); },
        _ => oracle.push(json!({"sig": "fixture:no-frozen-dump"})),
    }
    cleanup(&Some(path));
    DUMP_NOTES.with(|d| oracle.extend(d.borrow_mut().drain(..)));
    let n = independent.as_ref().ok().and_then(|v| v.as_array().map(|a| a.len())).unwrap_or(0);
    json!({"out": {"res": res, "dump": out_dump}, "oracle": oracle, "feat": {"fixture": 1, "fixture-items": n}})
}

pub fn exec(case: &Value, tag: &str) -> Value {
    match case["kind"].as_str().unwrap_or("") {
        "c18:copy" => exec_copy(case, tag),
        "c18:indy" => exec_indy(case, tag),
        "c18:fixture" => exec_fixture(case, tag),
        "c18:indyx" => indyx::exec_indyx(case, tag),
        "c18:child" => indyx::exec_child(case),
        k => json!({"out": {"err": format!("unknown kind {}", k)}}),
    }
}
