/- Driver for `kind = "c03"` (and `"c03:…"`) cases. -/
import Driver.Common

open Lean

namespace Driver.C03

def runCase (_j : Json) : Json := jerr "not implemented"

end Driver.C03
