//! C04, JSON side: ARBITRARY filter texts (legacy array form, `null` members, every parse-error arm, duplicate keys,
//! deep nesting, type-swapped mutations, non-JSON) through `TagFilter::from_str`, and through the store
//! (`count` / `fetch_all`) where they parse.  Cases: `kind = "c04j"`, ops `session` / `insert` / `parse` / `count` /
//! `fetch_all`; the filter of an op is `"fjv": {"v": <jv>}` (a text denoting that value, rendered by `render`),
//! `{"raw": <text>}` (does not start with a JSON value) or `{"raw": <text>, "v": <jv>, "trail": b}` (that text, which
//! starts with that value, followed — b — by something other than white space).
//!
//! `jv` = line-protocol form of a JSON value with object members in SOURCE order, duplicates kept: null / booleans /
//! strings / arrays as themselves, `{"num": "<literal>"}`, `{"obj": [[key, value], …]}`, and
//! `{"deep": [shape, n, value]}` = the value wrapped n times (`"arr"`: `[v]`, `"not"`: `{"$not": v}`, `"or"` / `"and"`:
//! `{"$or": [v]}` / `{"$and": [v]}`, any other shape s: `{s: v}`) so that the case line itself stays shallow.
//!
//! Oracle (independent of the Lean model): `ref_ast` is the harness's own reading of the WQL JSON grammar on the value
//! (a JSON object is a map: keys unique, last one wins; the legacy array is the `$or` of its members with `null` fields
//! and empty members left out); a text is expected to parse iff it is JSON, nested at most 127 deep and `ref_ast`
//! accepts it; every failure must be `Input`; nothing may panic; where the filter is in C04's domain the records
//! selected must be those `canon::ref_holds` selects; and an array text must behave exactly like the `{"$or": […]}`
//! text of its non-null members.
use crate::canon::{err_name, kind_of, recs_json, ref_holds, tags_from_json, value_from_json, Rec, Tag};
use crate::store_case::{cleanup, provision};
use askar_storage::backend::{Backend, BackendSession, OrderBy};
use askar_storage::entry::{EntryOperation, TagFilter};
use askar_storage::future::block_on;
use askar_storage::ErrorKind;
use serde_json::{json, Value};
use std::collections::BTreeMap;
use std::str::FromStr;

// ---------------------------------------------------------------------------------------------
// jv: rendering, depth, the normalised tree

fn deep_parts(shape: &str) -> (String, String) {
    match shape {
        "arr" => ("[".into(), "]".into()),
        "not" => ("{\"$not\":".into(), "}".into()),
        "or" => ("{\"$or\":[".into(), "]}".into()),
        "and" => ("{\"$and\":[".into(), "]}".into()),
        s => (format!("{{{}:", serde_json::to_string(s).unwrap()), "}".into()),
    }
}

/// containers one level of a `deep` shape adds
fn deep_levels(shape: &str) -> usize { if shape == "or" || shape == "and" { 2 } else { 1 } }

pub fn render(jv: &Value, out: &mut String) {
    match jv {
        Value::Null => out.push_str("null"),
        Value::Bool(b) => out.push_str(if *b { "true" } else { "false" }),
        Value::Number(n) => out.push_str(&n.to_string()),
        Value::String(s) => out.push_str(&serde_json::to_string(s).unwrap()),
        Value::Array(a) => {
            out.push('[');
            for (i, x) in a.iter().enumerate() { if i > 0 { out.push(','); } render(x, out); }
            out.push(']');
        }
        Value::Object(o) => {
            if let Some(lit) = o.get("num").and_then(|v| v.as_str()) { out.push_str(lit); }
            else if let Some(ms) = o.get("obj").and_then(|v| v.as_array()) {
                out.push('{');
                for (i, m) in ms.iter().enumerate() {
                    if i > 0 { out.push(','); }
                    out.push_str(&serde_json::to_string(m[0].as_str().unwrap_or("")).unwrap());
                    out.push(':');
                    render(&m[1], out);
                }
                out.push('}');
            } else if let Some(d) = o.get("deep").and_then(|v| v.as_array()) {
                let (pre, post) = deep_parts(d[0].as_str().unwrap_or(""));
                let n = d[1].as_u64().unwrap_or(0) as usize;
                for _ in 0..n { out.push_str(&pre); }
                render(&d[2], out);
                for _ in 0..n { out.push_str(&post); }
            } else { out.push('0'); }
        }
    }
}

/// the text an op's `"fjv"` stands for
pub fn text_of(f: &Value) -> String {
    if let Some(t) = f.get("raw").and_then(|t| t.as_str()) { return t.to_string(); }
    let mut s = String::new();
    render(&f["v"], &mut s);
    s
}

/// container nesting depth of the text (scalars 0, `[]` 1)
pub fn depth(jv: &Value) -> usize {
    match jv {
        Value::Array(a) => 1 + a.iter().map(depth).max().unwrap_or(0),
        Value::Object(o) => {
            if o.contains_key("num") { 0 }
            else if let Some(ms) = o.get("obj").and_then(|v| v.as_array()) { 1 + ms.iter().map(|m| depth(&m[1])).max().unwrap_or(0) }
            else if let Some(d) = o.get("deep").and_then(|v| v.as_array()) {
                deep_levels(d[0].as_str().unwrap_or("")) * d[1].as_u64().unwrap_or(0) as usize + depth(&d[2])
            } else { 0 }
        }
        _ => 0,
    }
}

/// a JSON value with objects as maps (keys unique: the last occurrence wins)
#[derive(Clone, Debug, PartialEq)]
pub enum N { Null, Bool, Num, Str(String), Arr(Vec<N>), Obj(BTreeMap<String, N>) }

/// only called on values at most `MAX_DEPTH` deep
pub fn tree(jv: &Value) -> N {
    match jv {
        Value::Null => N::Null,
        Value::Bool(_) => N::Bool,
        Value::Number(_) => N::Num,
        Value::String(s) => N::Str(s.clone()),
        Value::Array(a) => N::Arr(a.iter().map(tree).collect()),
        Value::Object(o) => {
            if o.contains_key("num") { N::Num }
            else if let Some(ms) = o.get("obj").and_then(|v| v.as_array()) {
                let mut m = BTreeMap::new();
                for kv in ms { m.insert(kv[0].as_str().unwrap_or("").to_string(), tree(&kv[1])); }
                N::Obj(m)
            } else if let Some(d) = o.get("deep").and_then(|v| v.as_array()) {
                let shape = d[0].as_str().unwrap_or("");
                let mut x = tree(&d[2]);
                for _ in 0..d[1].as_u64().unwrap_or(0) {
                    x = match shape {
                        "arr" => N::Arr(vec![x]),
                        "not" => N::Obj([("$not".to_string(), x)].into_iter().collect()),
                        "or" => N::Obj([("$or".to_string(), N::Arr(vec![x]))].into_iter().collect()),
                        "and" => N::Obj([("$and".to_string(), N::Arr(vec![x]))].into_iter().collect()),
                        s => N::Obj([(s.to_string(), x)].into_iter().collect()),
                    };
                }
                x
            } else { N::Num }
        }
    }
}

/// serde_json's documented nesting limit: 128 levels are refused, 127 accepted
pub const MAX_DEPTH: usize = 127;

// ---------------------------------------------------------------------------------------------
// Reference reading of the WQL JSON grammar -> the line protocol's filter AST (None = not a filter)

fn strs(xs: &[N]) -> Option<Vec<String>> {
    xs.iter().map(|x| if let N::Str(s) = x { Some(s.clone()) } else { None }).collect()
}

fn one(k: &str, v: Value) -> Value {
    let mut m = serde_json::Map::new();
    m.insert(k.to_string(), v);
    Value::Object(m)
}

fn ref_obj(m: &BTreeMap<String, N>) -> Option<Value> {
    let mut clauses = vec![];
    for (k, v) in m {
        match (k.as_str(), v) {
            ("$and", N::Arr(xs)) | ("$or", N::Arr(xs)) => {
                let subs: Option<Vec<Value>> = xs.iter().map(|x| if let N::Obj(o) = x { ref_obj(o) } else { None }).collect();
                let subs = subs?;
                if !subs.is_empty() { clauses.push(one(&k[1..], json!(subs))); }
            }
            ("$and", _) | ("$or", _) => return None,
            ("$not", N::Obj(o)) => clauses.push(json!({"not": ref_obj(o)?})),
            ("$not", _) => return None,
            ("$exist", N::Str(s)) => clauses.push(json!({"exist": [s]})),
            ("$exist", N::Arr(xs)) => { let ns = strs(xs)?; if !ns.is_empty() { clauses.push(json!({"exist": ns})); } }
            ("$exist", _) => return None,
            (_, N::Str(s)) => clauses.push(json!({"eq": [k, s]})),
            (_, N::Obj(o)) => {
                if o.len() != 1 { return None; }
                let (op, x) = o.iter().next().unwrap();
                match (op.as_str(), x) {
                    ("$neq" | "$gt" | "$gte" | "$lt" | "$lte" | "$like", N::Str(s)) => clauses.push(one(&op[1..], json!([k, s]))),
                    ("$in", N::Arr(xs)) => clauses.push(json!({"in": [k, strs(xs)?]})),
                    _ => return None,
                }
            }
            _ => return None,
        }
    }
    Some(if clauses.len() == 1 { clauses.pop().unwrap() } else { json!({"and": clauses}) })
}

/// the legacy restriction list: the members that count (`null` fields and members left empty are left out),
/// or None if some member is not an object
pub fn legacy_members(xs: &[N]) -> Option<Vec<BTreeMap<String, N>>> {
    let mut out = vec![];
    for x in xs {
        let o = if let N::Obj(o) = x { o } else { return None };
        let kept: BTreeMap<String, N> = o.iter().filter(|(_, v)| **v != N::Null).map(|(k, v)| (k.clone(), v.clone())).collect();
        if !kept.is_empty() { out.push(kept); }
    }
    Some(out)
}

pub fn ref_ast(n: &N) -> Option<Value> {
    match n {
        N::Obj(o) => ref_obj(o),
        N::Arr(xs) => {
            let subs: Option<Vec<Value>> = legacy_members(xs)?.iter().map(ref_obj).collect();
            let subs = subs?;
            Some(if subs.is_empty() { json!({"and": []}) } else { json!({"or": subs}) })
        }
        _ => None,
    }
}

/// what the text is expected to be: None = refused (Input), Some(ast) = the filter it denotes
pub fn ref_text(f: &Value) -> Option<Value> {
    let jv = f.get("v")?;
    if f["trail"].as_bool().unwrap_or(false) || depth(jv) > MAX_DEPTH { return None; }
    ref_ast(&tree(jv))
}

/// ordered comparisons and LIKE work on plaintext (`~`) names only: on encrypted names they compare ciphertexts,
/// which neither the reference nor the model's toy cipher can predict
pub fn store_safe(ast: &Value) -> bool {
    let obj = match ast.as_object() { Some(o) => o, None => return true };
    let (k, x) = match obj.iter().next() { Some(p) => p, None => return true };
    match k.as_str() {
        "and" | "or" => x.as_array().map_or(true, |a| a.iter().all(store_safe)),
        "not" => store_safe(x),
        "gt" | "gte" | "lt" | "lte" | "like" => x[0].as_str().unwrap_or("").starts_with('~'),
        _ => true,
    }
}

/// C04's domain: no empty list below the root (the property leaves nested empty connectives open)
pub fn in_domain(ast: &Value, root: bool) -> bool {
    let obj = match ast.as_object() { Some(o) => o, None => return true };
    let (k, x) = match obj.iter().next() { Some(p) => p, None => return true };
    match k.as_str() {
        "and" | "or" => x.as_array().map_or(true, |a| (root || !a.is_empty()) && a.iter().all(|q| in_domain(q, false))),
        "not" => in_domain(x, false),
        "exist" => root || x.as_array().map_or(true, |a| !a.is_empty()),
        _ => true,
    }
}

// ---------------------------------------------------------------------------------------------
// Execution

/// `to_string` of a parsed filter as a value.  Not serde_json's reader: the text of a filter read from 127 levels can
/// itself be deeper than that reader accepts (an object of several members is written as an explicit `$and` array).
/// The printer emits only objects, arrays and strings, without white space.
fn read_back(text: &str) -> Option<Value> {
    fn lit(b: &[u8], i: &mut usize) -> Option<String> {
        let start = *i;
        if b.get(*i) != Some(&b'"') { return None; }
        *i += 1;
        while *i < b.len() && b[*i] != b'"' { *i += if b[*i] == b'\\' { 2 } else { 1 }; }
        if *i >= b.len() { return None; }
        *i += 1;
        serde_json::from_str::<String>(std::str::from_utf8(&b[start..*i]).ok()?).ok()
    }
    fn val(b: &[u8], i: &mut usize) -> Option<Value> {
        match b.get(*i)? {
            b'"' => lit(b, i).map(Value::String),
            b'[' => {
                *i += 1;
                let mut xs = vec![];
                if b.get(*i) == Some(&b']') { *i += 1; return Some(Value::Array(xs)); }
                loop {
                    xs.push(val(b, i)?);
                    match b.get(*i)? { b',' => *i += 1, b']' => { *i += 1; return Some(Value::Array(xs)); } _ => return None }
                }
            }
            b'{' => {
                *i += 1;
                let mut m = serde_json::Map::new();
                if b.get(*i) == Some(&b'}') { *i += 1; return Some(Value::Object(m)); }
                loop {
                    let k = lit(b, i)?;
                    if b.get(*i) != Some(&b':') { return None; }
                    *i += 1;
                    m.insert(k, val(b, i)?);
                    match b.get(*i)? { b',' => *i += 1, b'}' => { *i += 1; return Some(Value::Object(m)); } _ => return None }
                }
            }
            _ => None,
        }
    }
    let b = text.as_bytes();
    let mut i = 0;
    let v = val(b, &mut i)?;
    if i == b.len() { Some(v) } else { None }
}

fn msg_of(e: &askar_storage::Error) -> String {
    let cause = match std::error::Error::source(e) { Some(c) => c, None => return "no cause".into() };
    match cause.downcast_ref::<serde_json::Error>() {
        Some(se) if se.line() > 0 => {
            if se.to_string().starts_with("recursion limit exceeded") { "recursion limit exceeded".into() } else { "syntax".into() }
        }
        Some(se) => se.to_string(),
        None => format!("foreign cause: {}", cause),
    }
}

fn parse(text: &str) -> Result<Result<TagFilter, askar_storage::Error>, String> {
    let t = text.to_string();
    std::panic::catch_unwind(move || TagFilter::from_str(&t)).map_err(|p| {
        p.downcast_ref::<String>().cloned().or_else(|| p.downcast_ref::<&str>().map(|s| s.to_string())).unwrap_or_default()
    })
}

fn jerr_kind(e: &askar_storage::Error) -> Value { json!({"err": err_name(e.kind())}) }

pub fn exec(case: &Value, tag: &str) -> Value {
    let profile = case["profile"].as_str().unwrap_or("default").to_string();
    let (backend, path) = provision(false, &profile, "", tag);
    let ops = case["ops"].as_array().cloned().unwrap_or_default();
    let mut outs: Vec<Value> = vec![];
    let mut oracle: Vec<Value> = vec![];
    let mut feat: BTreeMap<String, u64> = BTreeMap::new();
    let mut recs: Vec<Rec> = vec![];
    let mut bump = |k: String| { *feat.entry(k).or_insert(0) += 1; };
    block_on(async {
        let mut sess = None;
        for (i, op) in ops.iter().enumerate() {
            let name = op["op"].as_str().unwrap_or("");
            bump(format!("op:{}", name));
            let fail = |oracle: &mut Vec<Value>, sig: String, detail: Value| oracle.push(json!({"i": i, "sig": sig, "op": op, "detail": detail}));
            if name == "session" {
                outs.push(match backend.session(None, false) { Ok(s) => { sess = Some(s); json!("ok") } Err(e) => jerr_kind(&e) });
                continue;
            }
            if name == "insert" {
                let s = sess.as_mut().expect("session");
                let tags = tags_from_json(&op["t"]).unwrap_or_default();
                let etags: Vec<_> = tags.iter().map(Tag::to_entry_tag).collect();
                let (c, n) = (op["c"].as_str().unwrap_or(""), op["n"].as_str().unwrap_or(""));
                let v = value_from_json(&op["v"]);
                outs.push(match s.update(kind_of(2), EntryOperation::Insert, c, n, Some(&v), Some(&etags), None).await {
                    Ok(()) => { recs.push(Rec { kind: 2, cat: c.to_string(), name: n.to_string(), value: v, tags }); json!("ok") }
                    Err(e) => jerr_kind(&e),
                });
                continue;
            }
            // the filter ops
            let f = &op["fjv"];
            let text = text_of(f);
            let expected = ref_text(f);
            bump(if expected.is_some() { "ref:filter".into() } else { "ref:refused".into() });
            if f["v"].is_array() { bump("form:array".into()); }
            if f.get("raw").is_some() { bump("form:raw".into()); }
            let parsed = match parse(&text) {
                Err(p) => {
                    fail(&mut oracle, format!("c04j:{}:panic", name), json!(p));
                    outs.push(json!({"panic": p}));
                    continue;
                }
                Ok(r) => r,
            };
            // every failure is Input; the text parses iff the reference reads a filter in it
            match (&parsed, &expected) {
                (Err(e), _) if e.kind() != ErrorKind::Input => fail(&mut oracle, format!("c04j:{}:err-kind:{}", name, err_name(e.kind())), json!(e.to_string())),
                (Err(e), Some(_)) => fail(&mut oracle, format!("c04j:{}:filter->err", name), json!(e.to_string())),
                (Ok(_), None) => fail(&mut oracle, format!("c04j:{}:refused->ok", name), json!(text.chars().take(200).collect::<String>())),
                _ => {}
            }
            let filter = match parsed {
                Err(e) => {
                    bump(format!("err:{}", msg_of(&e)));
                    outs.push(if name == "parse" { json!({"err": err_name(e.kind()), "msg": msg_of(&e)}) } else { jerr_kind(&e) });
                    continue;
                }
                Ok(fl) => fl,
            };
            // array ≡ `$or` of its non-null members: the same text class, and below the same records
            let twin_text: Option<String> = match f["v"].as_array() {
                Some(ms) if f.get("raw").is_none() && depth(&f["v"]) < MAX_DEPTH && ms.iter().all(|m| m["obj"].is_array()) => {
                    // a member is a map (of a repeated key the last occurrence counts); then its null fields go, then it if empty
                    let kept: Vec<Value> = ms.iter().filter_map(|m| {
                        let all = m["obj"].as_array()?;
                        let fields: Vec<Value> = all.iter().enumerate()
                            .filter(|(i, kv)| !all[i + 1..].iter().any(|later| later[0] == kv[0]) && !kv[1].is_null())
                            .map(|(_, kv)| kv.clone()).collect();
                        if fields.is_empty() { None } else { Some(json!({"obj": fields})) }
                    }).collect();
                    let mut t = String::new();
                    render(&json!({"obj": [["$or", kept]]}), &mut t);
                    Some(t)
                }
                _ => None,
            };
            let or_twin: Option<TagFilter> = match twin_text {
                Some(t) => match parse(&t) {
                    Ok(Ok(tw)) => { bump("or-twin".into()); Some(tw) }
                    other => { fail(&mut oracle, format!("c04j:{}:array-ok/or-twin-fails", name), json!(format!("{} -> {:?}", t, other.map(|r| r.map(|_| ()).map_err(|e| e.to_string()))))); None }
                },
                None => None,
            };
            let judged = expected.as_ref().filter(|a| in_domain(a, true) && store_safe(a));
            if expected.is_some() && judged.is_none() { bump("oracle-undetermined".into()); }
            let want: Option<Vec<Rec>> = judged.map(|a| recs.iter().filter(|r| ref_holds(a, &r.tags, false)).cloned().collect());
            match name {
                "parse" => {
                    let back = filter.to_string().ok().and_then(|t| read_back(&t));
                    if let (Some(tw), Some(b)) = (&or_twin, &back) {
                        let tb = tw.to_string().ok().and_then(|t| read_back(&t));
                        if tb.as_ref() != Some(b) { fail(&mut oracle, "c04j:parse:array!=or-twin".into(), json!({"array": b, "or": tb})); }
                    }
                    outs.push(match back { Some(v) => json!({"ok": v}), None => json!({"err": "to_string"}) });
                }
                "count" => {
                    let s = sess.as_mut().expect("session");
                    let got = s.count(Some(kind_of(2)), None, Some(filter)).await;
                    if let (Some(w), Ok(n)) = (&want, &got) {
                        if w.len() as i64 != *n { fail(&mut oracle, "c04j:count:ref-mismatch".into(), json!({"expected": w.len(), "got": n})); }
                    }
                    if let Some(tw) = or_twin {
                        let g2 = s.count(Some(kind_of(2)), None, Some(tw)).await;
                        if g2.as_ref().ok() != got.as_ref().ok() { fail(&mut oracle, "c04j:count:array!=or-twin".into(), json!({"array": got.as_ref().ok(), "or": g2.as_ref().ok()})); }
                    }
                    outs.push(match got { Ok(n) => { bump(if n == 0 { "count:0".into() } else if n as usize == recs.len() { "count:all".into() } else { "count:some".into() }); json!({"n": n}) } Err(e) => jerr_kind(&e) });
                }
                "fetch_all" => {
                    let s = sess.as_mut().expect("session");
                    let rows = |r: Result<Vec<askar_storage::entry::Entry>, askar_storage::Error>| r.map(|es| es.iter().map(Rec::from_entry).collect::<Vec<Rec>>());
                    let got = rows(s.fetch_all(Some(kind_of(2)), None, Some(filter), None, Some(OrderBy::Id), false, false).await);
                    if let (Some(w), Ok(g)) = (&want, &got) {
                        if recs_json(true, w) != recs_json(true, g) { fail(&mut oracle, "c04j:fetch_all:ref-mismatch".into(), json!({"expected": recs_json(true, w), "got": recs_json(true, g)})); }
                    }
                    if let Some(tw) = or_twin {
                        let g2 = rows(s.fetch_all(Some(kind_of(2)), None, Some(tw), None, Some(OrderBy::Id), false, false).await);
                        if g2.as_ref().ok().map(|g| recs_json(true, g)) != got.as_ref().ok().map(|g| recs_json(true, g)) { fail(&mut oracle, "c04j:fetch_all:array!=or-twin".into(), json!(null)); }
                    }
                    outs.push(match got { Ok(g) => json!({"rows": recs_json(true, &g)}), Err(e) => jerr_kind(&e) });
                }
                _ => outs.push(json!({"err": "BadOp"})),
            }
        }
        drop(sess);
        backend.close().await.ok();
    });
    cleanup(&path);
    json!({"out": outs, "oracle": oracle, "feat": feat})
}
