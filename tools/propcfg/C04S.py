"""C04S — second engine for C04 (structure channel): the SQL TEXT of the WQL encoder, and direct totality campaigns
on three crate-private pure functions (replace_arg_placeholders, decode_tags, extend_query) through the cfg-guarded hook."""

CFG = {
    "extra_props": ["C04SPg"],
    "gens": ["C04S"],
    "feature": "c04s",
    "model_exe": "askar_model_c04s",
    "rule": (
        "through askar_storage::verif_hooks (add-only, --cfg hyperledger_aries_askar_verif): (1) c04s:encode — random filter trees "
        "(gen_store::filter / root_filter = the property's domain, plus out-of-domain shapes: nested empty $and/$or/$exist, ordered "
        "comparison and LIKE on encrypted names, $in of 0..11 values, $exist over 0..5 names, $not chains, names '~~x' '$1' '?', values of "
        "0/1/11/12/13/26 bytes) x start index {1,3,4,10,100} x two injected encryptors (TagCrypto.toy; the identity, so that values shorter "
        "than / equal to / longer than the 12-byte prefix occur) run through the real tag_query + TagSqlEncoder + encode_query + "
        "replace_arg_placeholders: raw text, final text and argument vector compared EXACTLY (no normalisation) with render / replaceArgs "
        "of the Lean model; (2) c04s:replace — replace_arg_placeholders on structured texts ($$, $0..$120, leading zeros, lone $, $a, $$$, "
        "digits right after a placeholder, multi-byte UTF-8 around $, numbers around i64::MAX) and random texts, start indices incl. 0, "
        "negative and the i64 limits; (3) c04s:decode_tags — valid GROUP_CONCAT texts of random tag rows (empty names / values, up to 200 "
        "tags), random bytes over the format's alphabet and arbitrary bytes; c04s:decode_tags_mut — EVERY single-byte substitution, proper "
        "prefix and single-byte deletion of small valid texts (counts + FNV digest of all outcomes); (4) c04s:extend — the final text of "
        "COUNT / SCAN / DELETE_ALL (the real constants, whitespace-collapsed, against Generated/Consts.lean) and of synthetic bases after "
        "extend_query with filter, ORDER BY, OFFSET/LIMIT: exact suffix and parameter count; (5) the POSTGRES dialect of the same pure code "
        "(no server involved): c04s:encode_pg — the filter trees, start indices and encryptors of (1) through "
        "replace_arg_placeholders::<PostgresBackend> ($n), raw text / final text / arguments compared exactly with replaceArgsD .postgres "
        "(Model/WqlTextPg.lean); the executor also runs the SQLite hook on the same filter and the oracle re-spells ?n -> $n: placeholders "
        "$start.. consecutive in textual order, one per argument, no ? / $$ / lone $ left, same raw text and arguments; c04s:extend_pg — "
        "extend_query::<PostgresBackend> on the real Postgres COUNT / SCAN / DELETE_ALL constants (by name through statement_pg; the text "
        "travels with the case and is re-checked against statement_pg at execution) and on synthetic bases (already numbered $1.., lower case, "
        "non-SELECT, near misses), filter x ORDER BY x offset {none, 0, -2..69} x limit {none, -1, -2..69, 0, 1, i64::MAX, i64::MIN}: exact "
        "suffix (' LIMIT $k OFFSET $k+1') and parameter count; oracle: parameter-count arithmetic, the LIMIT/OFFSET pair numbered right "
        "after the filter's arguments and present iff SELECT and a window is given, same text as SQLite up to the window clause.  "
        "Non-trivial = an encode / encode_pg case with a clause containing a negation and >= 2 placeholders; a replace case that replaced "
        ">= 1 placeholder or panicked; a decode case that decoded >= 1 tag or whose mutation sweep had both outcomes; an extend / extend_pg "
        "case that appended something; distinct = hash of the case"
    ),
    "assumptions": [
        "the injected encryptors are re-implemented on both sides (Rust closures in harness/src/c04s.rs, TagCrypto.toy / rawCrypto in Lean); "
        "the real encryption of tag names / values is C02/C03's subject",
        "i64 overflow is modelled as the dev profile has it (overflow-checked `+`, `+=`: panic); the parse::<i64>().unwrap() panic is "
        "profile independent.  Both lie outside every text the encoder can produce (Props/C04S.lean: encode_text_exact) and are recorded as "
        "diagnostics, not as oracle failures",
        "extend_query's `trim_start().to_uppercase().starts_with(\"SELECT\")` is modelled for ASCII statement text (the eleven constants are ASCII)",
        "Postgres dialect: only the TEXT and the parameter COUNT are compared with the real code (no Postgres server in the sandbox, and the "
        "hooks return params.len(), not the values).  What limit_query binds (SQLite: offset-or-0 then limit-or-(-1); Postgres: limit-or-NULL "
        "then offset-or-0; a negative limit bound as it is) is transcribed from the source into Dialect.limitBinds and the theorems about it "
        "(window_binding_order, absent_limit_binding_differs, given_limit_bound_as_is) are statements about that transcription; what the "
        "server does with NULL / a negative LIMIT is not modelled",
    ],
    "trusted_base": [
        "the hook module askar-storage/src/verif_hooks.rs (thin wrappers, no logic of their own: closures wrapped in Ok, "
        "EncEntryTag -> tuple, dummy i64 parameters pushed so that QueryParams::len() has the requested value)",
        "harness/src/canon.rs::filter_from_json (filter AST -> TagFilter through the public builder API), serde_json / Lean.Json string handling",
        "std: str::find, char::is_ascii_digit, str::parse::<i64>, format!, hex::decode (called, not modelled below their observable results)",
    ],
}


def nontrivial(rec):
    case, out = rec["case"], rec["impl"].get("out")
    if not isinstance(out, dict):
        return False
    kind = case.get("kind")
    if kind in ("c04s:encode", "c04s:encode_pg"):
        return "sql" in out and " NOT IN " in out["sql"] and len(out.get("args", [])) >= 2
    if kind == "c04s:replace":
        return out.get("panic") is True or ("out" in out and "?" in out["out"] and out["out"] != case.get("text"))
    if kind == "c04s:decode_tags":
        return isinstance(out.get("ok"), list) and len(out["ok"]) >= 1
    if kind == "c04s:decode_tags_mut":
        return out.get("ok", 0) > 0 and out.get("err", 0) > 0
    if kind in ("c04s:extend", "c04s:extend_pg"):
        return bool(out.get("suffix"))
    return False
