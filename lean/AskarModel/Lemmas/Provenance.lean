/-
Helper lemmas for Props/C02.lean (provenance model, Model/Provenance.lean).
-/
import AskarModel.Model.Provenance

namespace Askar.Provenance
open Askar.Wql Askar.Store

/-- `Good allowKey a`: `a` is not a plaintext secret — except, when `allowKey`, the unwrapped profile key
    (which a store with key method `none` stores by design). -/
def Good (allowKey : Bool) (a : Arg) : Prop := ∀ f, a.prov = .secretPlain f → (allowKey = true ∧ f = .profileKey)

def AllGood (b : Bool) (l : List Arg) : Prop := ∀ a ∈ l, Good b a

/-- `some f` iff the byte string is a ciphertext of field `f` under some profile key -/
def Prov.profileCipher : Prov → Option Field
  | .cipher (.profile _) f => some f
  | _ => none

def ItemOk (it : PItem) : Prop :=
  it.cat.prov.profileCipher = some .category ∧ it.name.prov.profileCipher = some .name ∧
  it.value.prov.profileCipher = some .value

def TagOk (t : PTag) : Prop :=
  t.name.prov.profileCipher = some .tagName ∧
  (if t.plain then t.value.prov = .plainTagValue else t.value.prov.profileCipher = some .tagValue)

/-- every stored record column is a ciphertext of the right field (or a declared-public plaintext-tag value) -/
def RowsOk (db : PDb) : Prop := (∀ it ∈ db.items, ItemOk it) ∧ (∀ t ∈ db.tags, TagOk t)

/-- `profiles`: names are profile names; every key is wrapped under the current store key (unwrapped iff there is none) -/
def keyProv : Option Nat → Prov
  | some s => .cipher (.store s) .profileKey
  | none => .secretPlain .profileKey

def ProfilesOk (s : PStore) : Prop :=
  ∀ p ∈ s.db.profiles, p.name.prov = .profileName ∧ p.key.prov = keyProv s.storeKey

namespace Lemmas

theorem good_of_not_secret {b : Bool} {a : Arg} (h : a.prov.isSecretPlain = false) : Good b a := by
  intro f hf; rw [hf] at h; simp [Prov.isSecretPlain] at h

@[simp] theorem good_searchable (b : Bool) (C : Crypto) (k f x) : Good b (C.searchable k f x) := by
  intro f' h; simp [Crypto.searchable] at h
@[simp] theorem good_sealValue (b : Bool) (C : Crypto) (k c n r v) : Good b (C.sealValue k c n r v) := by
  intro f' h; simp [Crypto.sealValue] at h
@[simp] theorem good_metaStr (b : Bool) (s) : Good b (Src.metaStr s) := by intro f h; simp [Src.metaStr] at h
@[simp] theorem good_nat (b : Bool) (n) : Good b (Src.nat n) := by simp [Src.nat]
@[simp] theorem good_null (b : Bool) : Good b Src.null := by simp [Src.null]
@[simp] theorem good_optNat (b : Bool) (n) : Good b (Src.optNat n) := by cases n <;> simp [Src.optNat]
@[simp] theorem good_flag (b : Bool) (p) : Good b (Src.flag p) := by simp [Src.flag]
@[simp] theorem good_profileName (b : Bool) (s) : Good b (Src.profileName s) := by
  intro f h; simp [Src.profileName] at h
@[simp] theorem good_plainTagValue (b : Bool) (s) : Good b (Src.tagValue true s) := by
  intro f h; simp [Src.tagValue] at h
@[simp] theorem good_valueArg (b : Bool) (C : Crypto) (k p v) : Good b (valueArg C k p v) := by
  unfold valueArg; split <;> simp_all
@[simp] theorem good_nameArg (b : Bool) (C : Crypto) (k n) : Good b (nameArg C k n) := by simp [nameArg]
@[simp] theorem good_prefix12 (b : Bool) (a : Arg) (h : Good b a) : Good b a.prefix12 := by
  intro f hf; exact h f (by simpa [Arg.prefix12] using hf)

/-- the wrapped profile key is good when there is a store key, or when the unwrapped key is tolerated -/
theorem good_wrap (b : Bool) (C : Crypto) (sk : Option Nat) (r k) (h : b = false → sk.isSome) :
    Good b (C.wrap sk r (Src.profileKey C k)) := by
  intro f hf
  cases sk with
  | none =>
    cases b with
    | false => simp at h
    | true => simp [Crypto.wrap, Src.profileKey] at hf; exact ⟨rfl, hf.symm⟩
  | some s => simp [Crypto.wrap] at hf

@[simp] theorem allGood_nil (b) : AllGood b [] := by intro a h; cases h
theorem allGood_append {b l₁ l₂} : AllGood b (l₁ ++ l₂) ↔ AllGood b l₁ ∧ AllGood b l₂ := by
  simp [AllGood, List.mem_append, or_imp, forall_and]
theorem allGood_cons {b a l} : AllGood b (a :: l) ↔ Good b a ∧ AllGood b l := by
  simp [AllGood]

/-! #### filter arguments -/

theorem opArgs_good (b : Bool) (C : Crypto) (k op n v) : AllGood b (opArgs C k op n v) := by
  unfold opArgs
  simp only
  split
  · split <;> simp [allGood_cons]
  · simp [allGood_cons]

mutual
theorem filterArgs_good (b : Bool) (C : Crypto) (k : Nat) : ∀ q, AllGood b (filterArgs C k q)
  | .and qs => by simpa [filterArgs] using filterArgsList_good b C k qs
  | .or qs => by simpa [filterArgs] using filterArgsList_good b C k qs
  | .not q => by simpa [filterArgs] using filterArgs_good b C k q
  | .cmp op n v => by simpa [filterArgs] using opArgs_good b C k op n v
  | .isIn n vs => by
    simp only [filterArgs, allGood_cons, good_nameArg, true_and]
    intro a ha; simp only [List.mem_map] at ha; obtain ⟨v, _, rfl⟩ := ha; simp
  | .exist ns => by
    simp only [filterArgs]
    intro a ha; simp only [List.mem_map] at ha; obtain ⟨v, _, rfl⟩ := ha; simp
theorem filterArgsList_good (b : Bool) (C : Crypto) (k : Nat) : ∀ qs, AllGood b (filterArgsList C k qs)
  | [] => by simp [filterArgsList]
  | q :: qs => by
    simp only [filterArgsList, allGood_append]
    exact ⟨filterArgs_good b C k q, filterArgsList_good b C k qs⟩
end

theorem encodeFilter_good (b : Bool) (C : Crypto) (k f) : AllGood b (encodeFilter C k f).2 := by
  unfold encodeFilter; split
  · simp
  · exact filterArgs_good b C k _

/-! #### tie to the WQL encoder of Model/Wql.lean (C04): same argument bytes, in the same order -/

theorem valueArg_bytes (C : Crypto) (k p v) : (valueArg C k p v).bytes = encValueArg (tagCrypto C k) p v := by
  unfold valueArg encValueArg; split <;> simp [Src.tagValue, Crypto.searchable, tagCrypto]

theorem nameArg_bytes (C : Crypto) (k n) : (nameArg C k n).bytes = (tagCrypto C k).encName n.str := rfl

theorem encodeExistList_args (C : Crypto) (k neg) : ∀ (ns : List TagName) (args : List Bytes),
    (encodeExistList (tagCrypto C k) neg ns args).2 = args ++ (ns.map (nameArg C k)).map (·.bytes)
  | [], args => by simp [encodeExistList]
  | n :: ns, args => by
    simp only [encodeExistList, encodeExist1]
    rw [encodeExistList_args C k neg ns]
    simp [nameArg_bytes]

theorem opArgs_bytes (C : Crypto) (k op n v neg args) :
    (encodeOp (tagCrypto C k) op n v neg args).2 = args ++ (opArgs C k op n v).map (·.bytes) := by
  unfold encodeOp opArgs
  simp only [← valueArg_bytes]
  cases hp : n.isPlain <;> cases ho : op.prefixOp <;> simp [nameArg_bytes, Arg.prefix12]
  split <;> simp [nameArg_bytes]

mutual
theorem filterArgs_bytes (C : Crypto) (k : Nat) : ∀ (q : Query TagName) (neg : Bool) (args : List Bytes),
    (encode (tagCrypto C k) neg args q).2 = args ++ (filterArgs C k q).map (·.bytes)
  | .and qs, neg, args => by simp only [encode, filterArgs]; exact filterArgsList_bytes C k qs neg args
  | .or qs, neg, args => by simp only [encode, filterArgs]; exact filterArgsList_bytes C k qs neg args
  | .not q, neg, args => by simp only [encode, filterArgs]; exact filterArgs_bytes C k q (!neg) args
  | .cmp op n v, neg, args => by simp only [encode, filterArgs]; exact opArgs_bytes ..
  | .isIn n vs, neg, args => by
    simp only [encode, filterArgs, encodeIn, List.map_cons, List.map_map, nameArg_bytes]
    congr 2
    apply List.map_congr_left
    intro v _
    simp [valueArg_bytes]
  | .exist ns, neg, args => by
    simp only [encode, filterArgs]
    unfold encodeExist
    split
    · simp
    · simp [encodeExist1, nameArg_bytes]
    · simp only; exact encodeExistList_args C k neg _ args
theorem filterArgsList_bytes (C : Crypto) (k : Nat) : ∀ (qs : List (Query TagName)) (neg : Bool) (args : List Bytes),
    (encodeList (tagCrypto C k) neg args qs).2 = args ++ (filterArgsList C k qs).map (·.bytes)
  | [], neg, args => by simp [encodeList, filterArgsList]
  | q :: qs, neg, args => by
    simp only [encodeList, filterArgsList, List.map_append]
    rw [filterArgsList_bytes C k qs, filterArgs_bytes C k q]
    simp
end
theorem encodeFilter_bytes (C : Crypto) (k : Nat) (q : Query String) :
    (encodeFilter C k (some q)).2.map (·.bytes) = (encodeQuery (tagCrypto C k) (tagQuery q)).2 := by
  simp only [encodeFilter, encodeQuery]
  rw [filterArgs_bytes]; simp

/-! #### every operation binds good arguments only and keeps the store key -/

def BG (b : Bool) (x : Ctx) : Prop := AllGood b x.bound

theorem bind_good {b x as} (h : BG b x) (ha : AllGood b as) : BG b (x.bind as) := by
  simp only [BG, Ctx.bind, allGood_append]; exact ⟨h, ha⟩

@[simp] theorem sqlInsertItem_bound (db pid kind c n v g) :
    (sqlInsertItem db pid kind c n v g).2.2 = [Src.nat pid, Src.nat kind, c, n, v, Src.null] := by
  unfold sqlInsertItem; split <;> rfl
@[simp] theorem sqlUpdateItem_bound (db pid kind c n v g) :
    (sqlUpdateItem db pid kind c n v g).2.2 = [Src.nat pid, Src.nat kind, c, n, v, Src.null] := by
  unfold sqlUpdateItem; split <;> rfl
@[simp] theorem sqlDeleteTags_bound (db id) : (sqlDeleteTags db id).2 = [Src.nat id] := rfl
@[simp] theorem sqlDeleteItem_bound (db pid kind c n) :
    (sqlDeleteItem db pid kind c n).2.2 = [Src.nat pid, Src.nat kind, c, n] := rfl
@[simp] theorem sqlDeleteAll_bound (like db pid kind c f) :
    (sqlDeleteAll like db pid kind c f).2.2 = scopeBound pid kind c f := rfl
@[simp] theorem sqlSelect_bound (like db pid kind c f) :
    (sqlSelect like db pid kind c f).2 = scopeBound pid kind c f := rfl
@[simp] theorem sqlFetch_bound (db pid kind c n) :
    (sqlFetch db pid kind c n).2 = [Src.nat pid, Src.nat kind, c, n] := rfl
@[simp] theorem sqlInsertProfile_bound (db n k kid) : (sqlInsertProfile db n k kid).2.2 = [n, k] := by
  unfold sqlInsertProfile; split <;> rfl
@[simp] theorem sqlDeleteProfile_bound (db n) : (sqlDeleteProfile db n).2.2 = [n] := rfl
@[simp] theorem sqlSelectProfile_bound (db n) : (sqlSelectProfile db n).2 = [n] := rfl
@[simp] theorem sqlUpdateProfileKey_bound (db k pid) : (sqlUpdateProfileKey db k pid).2 = [k, Src.nat pid] := rfl

theorem scopeBound_good (b : Bool) (C : Crypto) (k pid kind cat f) :
    AllGood b (scopeBound pid kind (encCatOpt C k cat) (encodeFilter C k f)) := by
  unfold scopeBound
  rw [allGood_append]
  constructor
  · cases cat <;> simp [allGood_cons, encCatOpt]
  · split
    · simp
    · exact encodeFilter_good b C k f

theorem resolveP_good {b s x p} (h : BG b x) :
    BG b (resolveP s x p).2.1 ∧ (resolveP s x p).1.storeKey = s.storeKey := by
  unfold resolveP
  split
  · exact ⟨h, rfl⟩
  · simp only
    split <;> exact ⟨bind_good h (by simp [allGood_cons]), rfl⟩

theorem insertTags_good (b : Bool) (C : Crypto) (k : Nat) (id : Nat) :
    ∀ (ts : List Tag) (db : PDb), AllGood b (insertTags db id (ts.map (encryptTag C k))).2
  | [], db => by simp [insertTags]
  | t :: ts, db => by
    simp only [List.map, insertTags, encryptTag, sqlInsertTag, allGood_append, allGood_cons]
    refine ⟨⟨by simp, by simp, ?_, by simp, by simp⟩, insertTags_good b C k id ts _⟩
    split <;> simp

theorem encTags_good (b : Bool) (C : Crypto) (k id : Nat) (tags : Option (List Tag)) (db : PDb) :
    AllGood b (insertTags db id ((tags.map fun ts => ts.map (encryptTag C k)).getD [])).2 := by
  cases tags with
  | none => simp [insertTags]
  | some ts => exact insertTags_good b C k id ts db

theorem update_good {b C rng s x p kind ins cat name value tags} (h : BG b x) :
    BG b (update C rng s x p kind ins cat name value tags).2.1 ∧
    (update C rng s x p kind ins cat name value tags).1.storeKey = s.storeKey := by
  unfold update
  have hr := @resolveP_good b s x p h
  split
  · rename_i s' x' e heq; rw [heq] at hr; exact hr
  · rename_i s' x' pid k heq
    rw [heq] at hr
    obtain ⟨hx, hs⟩ := hr
    simp only at hx hs
    have hx' : BG b { x' with ctr := x'.ctr + 1, sealed := x'.sealed ++ [(x'.ctr, C.sealValue k (Src.category cat) (Src.name name) (rng x'.ctr) (Src.value value))] } := hx
    simp only
    split
    · split
      · exact ⟨bind_good hx' (by simp [allGood_cons]), hs⟩
      · exact ⟨bind_good (bind_good hx' (by simp [allGood_cons])) (encTags_good b C k _ tags _), hs⟩
    · split
      · exact ⟨bind_good hx' (by simp [allGood_cons]), hs⟩
      · exact ⟨bind_good (bind_good (bind_good hx' (by simp [allGood_cons])) (by simp [allGood_cons])) (encTags_good b C k _ tags _), hs⟩

theorem remove_good {b C s x p kind cat name} (h : BG b x) :
    BG b (remove C s x p kind cat name).2.1 ∧ (remove C s x p kind cat name).1.storeKey = s.storeKey := by
  unfold remove
  have hr := @resolveP_good b s x p h
  split
  · rename_i s' x' e heq; rw [heq] at hr; exact hr
  · rename_i s' x' pid k heq
    rw [heq] at hr
    obtain ⟨hx, hs⟩ := hr
    simp only at hx hs ⊢
    split <;> exact ⟨bind_good hx (by simp [allGood_cons]), hs⟩

theorem removeAll_good {b C like s x p kind cat f} (h : BG b x) :
    BG b (removeAll C like s x p kind cat f).2.1 ∧ (removeAll C like s x p kind cat f).1.storeKey = s.storeKey := by
  unfold removeAll
  have hr := @resolveP_good b s x p h
  split
  · rename_i s' x' e heq; rw [heq] at hr; exact hr
  · rename_i s' x' pid k heq
    rw [heq] at hr
    obtain ⟨hx, hs⟩ := hr
    simp only at hx hs ⊢
    exact ⟨bind_good hx (by simpa using scopeBound_good b C k pid kind cat f), hs⟩

theorem select_good {b C like s x p kind cat f} (h : BG b x) :
    BG b (select C like s x p kind cat f).2.1 ∧ (select C like s x p kind cat f).1.storeKey = s.storeKey := by
  unfold select
  have hr := @resolveP_good b s x p h
  split
  · rename_i s' x' e heq; rw [heq] at hr; exact hr
  · rename_i s' x' pid k heq
    rw [heq] at hr
    obtain ⟨hx, hs⟩ := hr
    simp only at hx hs ⊢
    exact ⟨bind_good hx (by simpa using scopeBound_good b C k pid kind cat f), hs⟩

theorem fetch_good {b C s x p kind cat name} (h : BG b x) :
    BG b (fetch C s x p kind cat name).2.1 ∧ (fetch C s x p kind cat name).1.storeKey = s.storeKey := by
  unfold fetch
  have hr := @resolveP_good b s x p h
  split
  · rename_i s' x' e heq; rw [heq] at hr; exact hr
  · rename_i s' x' pid k heq
    rw [heq] at hr
    obtain ⟨hx, hs⟩ := hr
    simp only at hx hs ⊢
    exact ⟨bind_good hx (by simp [allGood_cons]), hs⟩

theorem wrapProfileKey_good {b C rng sk x k} (h : BG b x) (hk : b = false → sk.isSome) :
    Good b (wrapProfileKey C rng sk x k).1 ∧ BG b (wrapProfileKey C rng sk x k).2 := by
  unfold wrapProfileKey
  refine ⟨good_wrap b C sk _ k hk, ?_⟩
  simp only; split <;> exact h

theorem createProfile_good {b C rng s x name} (h : BG b x) (hk : b = false → s.storeKey.isSome) :
    BG b (createProfile C rng s x name).2.1 ∧ (createProfile C rng s x name).1.storeKey = s.storeKey := by
  unfold createProfile
  have hx0 : BG b { x with nextKey := x.nextKey + 1 } := h
  have hw := @wrapProfileKey_good b C rng s.storeKey _ x.nextKey hx0 hk
  simp only
  split <;> exact ⟨bind_good hw.2 (by simp [allGood_cons, hw.1]), rfl⟩

theorem removeProfile_good {b s x name} (h : BG b x) :
    BG b (removeProfile s x name).2.1 ∧ (removeProfile s x name).1.storeKey = s.storeKey := by
  unfold removeProfile
  exact ⟨bind_good h (by simp [allGood_cons]), rfl⟩

theorem setDefault_good {b s x name} (h : BG b x) :
    BG b (setDefault s x name).2 ∧ (setDefault s x name).1.storeKey = s.storeKey := by
  unfold setDefault
  exact ⟨bind_good h (by simp [allGood_cons]), rfl⟩

theorem reopen_good {b s x} (h : BG b x) : BG b (reopen s x).2 ∧ (reopen s x).1.storeKey = s.storeKey := by
  unfold reopen
  simp only
  split <;> exact ⟨bind_good h (by simp [allGood_cons]), rfl⟩

theorem newStoreKey_good {b m x} (h : BG b x) : BG b (newStoreKey m x).2 ∧ (m ≠ .none → (newStoreKey m x).1.isSome) := by
  unfold newStoreKey
  cases m <;> simp <;> exact h

theorem rewrapAll_good {b C rng sk} (hk : b = false → sk.isSome) :
    ∀ (ps : List PProfile) (db : PDb) (x : Ctx), BG b x → BG b (rewrapAll C rng sk ps db x).2
  | [], db, x, h => by simpa [rewrapAll] using h
  | p :: ps, db, x, h => by
    simp only [rewrapAll]
    have hw := @wrapProfileKey_good b C rng sk x p.keyId h hk
    exact rewrapAll_good hk ps _ _ (bind_good hw.2 (by simp [allGood_cons, hw.1]))

theorem rekey_good {b C rng s x m} (h : BG b x) (hm : b = false → m ≠ .none) :
    BG b (rekey C rng s x m).2 ∧ (b = false → (rekey C rng s x m).1.storeKey.isSome) := by
  unfold rekey
  have hn := @newStoreKey_good b m x h
  simp only
  refine ⟨bind_good (rewrapAll_good (fun hb => hn.2 (hm hb)) _ _ _ hn.1) (by simp [allGood_cons]), fun hb => hn.2 (hm hb)⟩

theorem provision_good {b C rng x m profile} (h : BG b x) (hm : b = false → m ≠ .none) :
    BG b (provision C rng x m profile).2 ∧ (b = false → (provision C rng x m profile).1.storeKey.isSome) := by
  unfold provision
  have hn := @newStoreKey_good b m x h
  have hx0 : BG b { (newStoreKey m x).2 with nextKey := (newStoreKey m x).2.nextKey + 1 } := hn.1
  have hw := @wrapProfileKey_good b C rng (newStoreKey m x).1 _ (newStoreKey m x).2.nextKey hx0 (fun hb => hn.2 (hm hb))
  simp only
  exact ⟨bind_good hw.2 (by simp [allGood_cons, hw.1]), fun hb => hn.2 (hm hb)⟩

theorem insertKey_good {b C rng s x p n md jwk alg thumbs tags} (h : BG b x) :
    BG b (insertKey C rng s x p n md jwk alg thumbs tags).2.1 ∧
    (insertKey C rng s x p n md jwk alg thumbs tags).1.storeKey = s.storeKey := by
  unfold insertKey; exact update_good h

theorem importRows_good {b C rng profile} :
    ∀ (es : List Entry) (t : PStore) (x : Ctx), BG b x →
      BG b (importRows C rng profile es t x).2.1 ∧ (importRows C rng profile es t x).1.storeKey = t.storeKey
  | [], t, x, h => by simpa [importRows] using h
  | e :: es, t, x, h => by
    simp only [importRows]
    have hu := @update_good b C rng t x profile e.kind true e.cat e.name e.value (some e.tags) h
    split
    · rename_i t' x' err heq; rw [heq] at hu; exact hu
    · rename_i t' x' heq
      rw [heq] at hu
      have := importRows_good (b := b) (C := C) (rng := rng) (profile := profile) es t' x' hu.1
      exact ⟨this.1, this.2.trans hu.2⟩

theorem copyProfiles_good {b C rng like} :
    ∀ (ps : List PProfile) (src t : PStore) (x : Ctx), BG b x → (b = false → t.storeKey.isSome) →
      BG b (copyProfiles C rng like ps src t x).2.2.1 ∧
      (copyProfiles C rng like ps src t x).1.storeKey = src.storeKey ∧
      (copyProfiles C rng like ps src t x).2.1.storeKey = t.storeKey
  | [], src, t, x, h, _ => by simpa [copyProfiles] using h
  | p :: ps, src, t, x, h, hk => by
    simp only [copyProfiles]
    generalize hpn : (String.fromUTF8? (ByteArray.mk p.name.bytes.toArray)).getD "" = pname
    have hs := @select_good b C like src x pname none none none h
    split
    · rename_i src' x' e heq; rw [heq] at hs; exact ⟨hs.1, hs.2, rfl⟩
    · rename_i src' x' k rows heq
      rw [heq] at hs
      split
      · exact ⟨hs.1, hs.2, rfl⟩
      · have hc := @createProfile_good b C rng t x' pname hs.1 hk
        have hs2 := @select_good b C like (createProfile C rng t x' pname).1 (createProfile C rng t x' pname).2.1 pname none none none hc.1
        split
        · rename_i t' x'' e heq2; rw [heq2] at hs2; exact ⟨hs2.1, hs.2, hs2.2.trans hc.2⟩
        · rename_i t' x'' k2 existing heq2
          rw [heq2] at hs2
          split
          · exact ⟨hs2.1, hs.2, hs2.2.trans hc.2⟩
          · have hi := @importRows_good b C rng pname (rows.map (·.plain)) t' x'' hs2.1
            split
            · rename_i t'' x3 e heq3; rw [heq3] at hi; exact ⟨hi.1, hs.2, hi.2.trans (hs2.2.trans hc.2)⟩
            · rename_i t'' x3 heq3
              rw [heq3] at hi
              have hk' : b = false → t''.storeKey.isSome := fun hb => by
                rw [hi.2, hs2.2, hc.2]; exact hk hb
              have := copyProfiles_good (b := b) (C := C) (rng := rng) (like := like) ps src' t'' x3 hi.1 hk'
              exact ⟨this.1, this.2.1.trans hs.2, this.2.2.trans (hi.2.trans (hs2.2.trans hc.2))⟩

theorem copyTo_good {b C rng like src x m} (h : BG b x) (hm : b = false → m ≠ .none) :
    BG b (copyTo C rng like src x m).2.2.1 ∧ (copyTo C rng like src x m).1.storeKey = src.storeKey ∧
    (b = false → (copyTo C rng like src x m).2.1.storeKey.isSome) := by
  unfold copyTo
  have hx0 : BG b (x.bind [Src.metaStr "default_profile"]) := bind_good h (by simp [allGood_cons])
  have hp := @provision_good b C rng _ m (defaultProfile src.db) hx0 hm
  have := copyProfiles_good (b := b) (C := C) (rng := rng) (like := like) src.db.profiles src _ _ hp.1 hp.2
  simp only
  exact ⟨this.1, this.2.1, fun hb => by rw [this.2.2]; exact hp.2 hb⟩

/-! #### histories -/

def Inv (b : Bool) (st : St) : Prop := BG b st.ctx ∧ (b = false → st.main.storeKey.isSome)

theorem step_inv {b C rng like st} (op : Op) (h : Inv b st) (hop : b = false → op.keepsProtected = true) :
    Inv b (step C rng like st op).1 := by
  obtain ⟨hx, hk⟩ := h
  cases op with
  | update p k ins c n v t =>
    have := @update_good b C rng st.main st.ctx p k ins c n v t hx
    exact ⟨this.1, fun hb => by simp only [step]; rw [this.2]; exact hk hb⟩
  | remove p k c n =>
    have := @remove_good b C st.main st.ctx p k c n hx
    exact ⟨this.1, fun hb => by simp only [step]; rw [this.2]; exact hk hb⟩
  | removeAll p k c f =>
    have := @removeAll_good b C like st.main st.ctx p k c f hx
    exact ⟨this.1, fun hb => by simp only [step]; rw [this.2]; exact hk hb⟩
  | fetch p k c n =>
    have := @fetch_good b C st.main st.ctx p k c n hx
    exact ⟨this.1, fun hb => by simp only [step]; rw [this.2]; exact hk hb⟩
  | count p k c f =>
    have := @select_good b C like st.main st.ctx p k c f hx
    exact ⟨this.1, fun hb => by simp only [step]; rw [this.2]; exact hk hb⟩
  | scan p k c f =>
    have := @select_good b C like st.main st.ctx p k c f hx
    exact ⟨this.1, fun hb => by simp only [step]; rw [this.2]; exact hk hb⟩
  | insertKey p n m jwk alg thumbs t =>
    have := @insertKey_good b C rng st.main st.ctx p n m jwk alg thumbs t hx
    exact ⟨this.1, fun hb => by simp only [step]; rw [this.2]; exact hk hb⟩
  | createProfile n =>
    have := @createProfile_good b C rng st.main st.ctx n hx hk
    exact ⟨this.1, fun hb => by simp only [step]; rw [this.2]; exact hk hb⟩
  | removeProfile n =>
    have := @removeProfile_good b st.main st.ctx n hx
    exact ⟨this.1, fun hb => by simp only [step]; rw [this.2]; exact hk hb⟩
  | setDefault n =>
    have := @setDefault_good b st.main st.ctx n hx
    exact ⟨this.1, fun hb => by simp only [step]; rw [this.2]; exact hk hb⟩
  | rekey m =>
    have hm : b = false → m ≠ .none := fun hb hm => by subst hm; simpa [Op.keepsProtected] using hop hb
    have := @rekey_good b C rng st.main st.ctx m hx hm
    exact ⟨this.1, this.2⟩
  | copy m =>
    have hm : b = false → m ≠ .none := fun hb hm => by subst hm; simpa [Op.keepsProtected] using hop hb
    have := @copyTo_good b C rng like st.main st.ctx m hx hm
    exact ⟨this.1, fun hb => by simp only [step]; rw [this.2.1]; exact hk hb⟩
  | checkpoint => exact ⟨hx, hk⟩
  | reopen =>
    have := @reopen_good b st.main st.ctx hx
    exact ⟨this.1, fun hb => by simp only [step]; rw [this.2]; exact hk hb⟩

theorem run_inv {b C rng like} : ∀ (ops : List Op) (st : St), Inv b st → (b = false → ∀ op ∈ ops, op.keepsProtected = true) →
    Inv b (run C rng like st ops).1
  | [], st, h, _ => by simpa [run] using h
  | op :: ops, st, h, hops => by
    simp only [run]
    exact run_inv ops _ (step_inv op h (fun hb => hops hb op (List.mem_cons_self ..)))
      (fun hb o ho => hops hb o (List.mem_cons_of_mem _ ho))

theorem init_inv {b C rng m p} (hm : b = false → m ≠ .none) : Inv b (init C rng m p) := by
  have := @provision_good b C rng {} m p (by simp [BG]) hm
  exact ⟨this.1, this.2⟩

theorem no_plain_secret_bound (C : Crypto) (rng : Nat → Nonce) (like : Bytes → Bytes → Bool) (m : Method) (p : String)
    (ops : List Op) (hm : m ≠ .none) (hops : ∀ op ∈ ops, op.keepsProtected = true) :
    ∀ a ∈ boundArgs (run C rng like (init C rng m p) ops).1, a.prov.isSecretPlain = false := by
  intro a ha
  have h := (run_inv (b := false) (C := C) (rng := rng) (like := like) ops _ (init_inv (fun _ => hm)) (fun _ => hops)).1 a ha
  cases hp : a.prov with
  | secretPlain f => have := h f hp; simp at this
  | _ => rfl

theorem only_profile_key_plain (C : Crypto) (rng : Nat → Nonce) (like : Bytes → Bytes → Bool) (m : Method) (p : String)
    (ops : List Op) :
    ∀ a ∈ boundArgs (run C rng like (init C rng m p) ops).1, ∀ f, a.prov = .secretPlain f → f = .profileKey := by
  intro a ha f hf
  exact ((run_inv (b := true) (C := C) (rng := rng) (like := like) ops _ (init_inv (by simp)) (by simp)).1 a ha f hf).2

/-! #### nonces -/

/-- every value encryption so far used a distinct, already consumed position of the random stream, and its
    result starts with the nonce drawn there -/
def SealedOk (rng : Nat → Nonce) (x : Ctx) : Prop :=
  (∀ e ∈ x.sealed, e.1 < x.ctr ∧ e.2.bytes.take 12 = (rng e.1).val) ∧ (x.sealed.map (·.1)).Pairwise (· < ·)

/-- no value encryption, the stream only advances -/
def Same (x x' : Ctx) : Prop := x'.sealed = x.sealed ∧ x.ctr ≤ x'.ctr

theorem same_refl (x : Ctx) : Same x x := ⟨rfl, Nat.le_refl _⟩
theorem same_trans {x y z : Ctx} (h1 : Same x y) (h2 : Same y z) : Same x z :=
  ⟨h2.1.trans h1.1, Nat.le_trans h1.2 h2.2⟩
theorem same_bind (x : Ctx) (as : List Arg) : Same x (x.bind as) := ⟨rfl, Nat.le_refl _⟩

theorem sealedOk_same {rng x x'} (h : Same x x') (hx : SealedOk rng x) : SealedOk rng x' := by
  obtain ⟨hs, hc⟩ := h
  refine ⟨fun e he => ?_, by rw [hs]; exact hx.2⟩
  rw [hs] at he
  exact ⟨Nat.lt_of_lt_of_le (hx.1 e he).1 hc, (hx.1 e he).2⟩

theorem take12_seal (C : Crypto) (k c n) (r : Nonce) (v) : (C.sealValue k c n r v).bytes.take 12 = r.val := by
  simp only [Crypto.sealValue]
  rw [List.take_append_of_le_length (by rw [r.property]; exact Nat.le_refl _), List.take_of_length_le (by rw [r.property]; exact Nat.le_refl _)]

theorem resolveP_same (s x p) : Same x (resolveP s x p).2.1 := by
  unfold resolveP
  split
  · exact same_refl x
  · simp only; split <;> exact same_bind _ _

theorem sealedOk_push {rng x} (a : Arg) (ha : a.bytes.take 12 = (rng x.ctr).val) (hx : SealedOk rng x) :
    SealedOk rng { x with ctr := x.ctr + 1, sealed := x.sealed ++ [(x.ctr, a)] } := by
  refine ⟨fun e he => ?_, ?_⟩
  · simp only [List.mem_append, List.mem_singleton] at he
    rcases he with he | rfl
    · exact ⟨Nat.lt_succ_of_lt (hx.1 e he).1, (hx.1 e he).2⟩
    · exact ⟨Nat.lt_succ_self _, ha⟩
  · simp only [List.map_append, List.map_cons, List.map_nil]
    rw [List.pairwise_append]
    refine ⟨hx.2, by simp, fun i hi j hj => ?_⟩
    simp only [List.mem_singleton] at hj
    simp only [List.mem_map] at hi
    obtain ⟨e, he, rfl⟩ := hi
    subst hj
    exact (hx.1 e he).1

theorem update_sealed {C rng s x p kind ins cat name value tags} (hx : SealedOk rng x) :
    SealedOk rng (update C rng s x p kind ins cat name value tags).2.1 := by
  unfold update
  have hr := resolveP_same s x p
  split
  · rename_i s' x' e heq; rw [heq] at hr; exact sealedOk_same hr hx
  · rename_i s' x' pid k heq
    rw [heq] at hr
    have hx' := sealedOk_push (rng := rng) (C.sealValue k (Src.category cat) (Src.name name) (rng x'.ctr) (Src.value value))
      (take12_seal ..) (sealedOk_same hr hx)
    simp only
    split
    · split
      · exact sealedOk_same (same_bind _ _) hx'
      · exact sealedOk_same (same_trans (same_bind _ _) (same_bind _ _)) hx'
    · split
      · exact sealedOk_same (same_bind _ _) hx'
      · exact sealedOk_same (same_trans (same_trans (same_bind _ _) (same_bind _ _)) (same_bind _ _)) hx'

theorem remove_same (C s x p kind cat name) : Same x (remove C s x p kind cat name).2.1 := by
  unfold remove
  have hr := resolveP_same s x p
  split
  · rename_i s' x' e heq; rw [heq] at hr; exact hr
  · rename_i s' x' pid k heq; rw [heq] at hr
    simp only; split <;> exact same_trans hr (same_bind _ _)

theorem removeAll_same (C like s x p kind cat f) : Same x (removeAll C like s x p kind cat f).2.1 := by
  unfold removeAll
  have hr := resolveP_same s x p
  split
  · rename_i s' x' e heq; rw [heq] at hr; exact hr
  · rename_i s' x' pid k heq; rw [heq] at hr
    exact same_trans hr (same_bind _ _)

theorem select_same (C like s x p kind cat f) : Same x (select C like s x p kind cat f).2.1 := by
  unfold select
  have hr := resolveP_same s x p
  split
  · rename_i s' x' e heq; rw [heq] at hr; exact hr
  · rename_i s' x' pid k heq; rw [heq] at hr
    exact same_trans hr (same_bind _ _)

theorem fetch_same (C s x p kind cat name) : Same x (fetch C s x p kind cat name).2.1 := by
  unfold fetch
  have hr := resolveP_same s x p
  split
  · rename_i s' x' e heq; rw [heq] at hr; exact hr
  · rename_i s' x' pid k heq; rw [heq] at hr
    exact same_trans hr (same_bind _ _)

theorem wrapProfileKey_same (C rng sk x k) : Same x (wrapProfileKey C rng sk x k).2 := by
  unfold wrapProfileKey
  simp only; split
  · exact ⟨rfl, Nat.le_succ _⟩
  · exact same_refl x

theorem createProfile_same (C rng s x name) : Same x (createProfile C rng s x name).2.1 := by
  unfold createProfile
  have h0 : Same x { x with nextKey := x.nextKey + 1 } := ⟨rfl, Nat.le_refl _⟩
  have hw := wrapProfileKey_same C rng s.storeKey { x with nextKey := x.nextKey + 1 } x.nextKey
  simp only
  split <;> exact same_trans (same_trans h0 hw) (same_bind _ _)

theorem removeProfile_same (s x name) : Same x (removeProfile s x name).2.1 := same_bind _ _
theorem setDefault_same (s x name) : Same x (setDefault s x name).2 := same_bind _ _
theorem reopen_same (s x) : Same x (reopen s x).2 := by
  unfold reopen; simp only; split <;> exact same_bind _ _

theorem newStoreKey_same (m x) : Same x (newStoreKey m x).2 := by
  unfold newStoreKey; cases m <;> exact ⟨rfl, Nat.le_refl _⟩

theorem rewrapAll_same (C rng sk) : ∀ (ps : List PProfile) (db : PDb) (x : Ctx), Same x (rewrapAll C rng sk ps db x).2
  | [], db, x => by simpa [rewrapAll] using same_refl x
  | p :: ps, db, x => by
    simp only [rewrapAll]
    exact same_trans (same_trans (wrapProfileKey_same C rng sk x p.keyId) (same_bind _ _)) (rewrapAll_same C rng sk ps _ _)

theorem rekey_same (C rng s x m) : Same x (rekey C rng s x m).2 := by
  unfold rekey
  exact same_trans (same_trans (newStoreKey_same m x) (rewrapAll_same ..)) (same_bind _ _)

theorem provision_same (C rng x m p) : Same x (provision C rng x m p).2 := by
  unfold provision
  have h0 : Same (newStoreKey m x).2 { (newStoreKey m x).2 with nextKey := (newStoreKey m x).2.nextKey + 1 } := ⟨rfl, Nat.le_refl _⟩
  exact same_trans (same_trans (same_trans (newStoreKey_same m x) h0) (wrapProfileKey_same ..)) (same_bind _ _)

theorem importRows_sealed {C rng profile} :
    ∀ (es : List Entry) (t : PStore) (x : Ctx), SealedOk rng x → SealedOk rng (importRows C rng profile es t x).2.1
  | [], t, x, h => by simpa [importRows] using h
  | e :: es, t, x, h => by
    simp only [importRows]
    have hu := @update_sealed C rng t x profile e.kind true e.cat e.name e.value (some e.tags) h
    split
    · rename_i t' x' err heq; rw [heq] at hu; exact hu
    · rename_i t' x' heq; rw [heq] at hu
      exact importRows_sealed (C := C) (rng := rng) (profile := profile) es t' x' hu

theorem copyProfiles_sealed {C rng like} :
    ∀ (ps : List PProfile) (src t : PStore) (x : Ctx), SealedOk rng x →
      SealedOk rng (copyProfiles C rng like ps src t x).2.2.1
  | [], src, t, x, h => by simpa [copyProfiles] using h
  | p :: ps, src, t, x, h => by
    simp only [copyProfiles]
    generalize hpn : (String.fromUTF8? (ByteArray.mk p.name.bytes.toArray)).getD "" = pname
    have hs := select_same C like src x pname none none none
    split
    · rename_i src' x' e heq; rw [heq] at hs; exact sealedOk_same hs h
    · rename_i src' x' k rows heq
      rw [heq] at hs
      split
      · exact sealedOk_same hs h
      · have hc := createProfile_same C rng t x' pname
        have hs2 := select_same C like (createProfile C rng t x' pname).1 (createProfile C rng t x' pname).2.1 pname none none none
        split
        · rename_i t' x'' e heq2; rw [heq2] at hs2; exact sealedOk_same (same_trans hs (same_trans hc hs2)) h
        · rename_i t' x'' k2 existing heq2
          rw [heq2] at hs2
          have hx'' : SealedOk rng x'' := sealedOk_same (same_trans hs (same_trans hc hs2)) h
          split
          · exact hx''
          · have hi := @importRows_sealed C rng pname (rows.map (·.plain)) t' x'' hx''
            split
            · rename_i t'' x3 e heq3; rw [heq3] at hi; exact hi
            · rename_i t'' x3 heq3
              rw [heq3] at hi
              exact copyProfiles_sealed (C := C) (rng := rng) (like := like) ps src' t'' x3 hi

theorem copyTo_sealed {C rng like src x m} (h : SealedOk rng x) : SealedOk rng (copyTo C rng like src x m).2.2.1 := by
  unfold copyTo
  exact copyProfiles_sealed _ _ _ _ (sealedOk_same (same_trans (same_bind _ _) (provision_same ..)) h)

theorem step_sealed {C rng like st} (op : Op) (h : SealedOk rng st.ctx) : SealedOk rng (step C rng like st op).1.ctx := by
  cases op with
  | update p k ins c n v t => exact update_sealed h
  | remove p k c n => exact sealedOk_same (remove_same ..) h
  | removeAll p k c f => exact sealedOk_same (removeAll_same ..) h
  | fetch p k c n => exact sealedOk_same (fetch_same ..) h
  | count p k c f => exact sealedOk_same (select_same ..) h
  | scan p k c f => exact sealedOk_same (select_same ..) h
  | insertKey p n m jwk alg thumbs t => exact update_sealed h
  | createProfile n => exact sealedOk_same (createProfile_same ..) h
  | removeProfile n => exact sealedOk_same (removeProfile_same st.main st.ctx n) h
  | setDefault n => exact sealedOk_same (setDefault_same st.main st.ctx n) h
  | rekey m => exact sealedOk_same (rekey_same ..) h
  | copy m => exact copyTo_sealed h
  | checkpoint => exact h
  | reopen => exact sealedOk_same (reopen_same ..) h

theorem run_sealed {C rng like} : ∀ (ops : List Op) (st : St), SealedOk rng st.ctx → SealedOk rng (run C rng like st ops).1.ctx
  | [], st, h => by simpa [run] using h
  | op :: ops, st, h => by
    simp only [run]
    exact run_sealed ops _ (step_sealed op h)

theorem init_sealed (C rng m p) : SealedOk rng (init C rng m p).ctx := by
  have h0 : SealedOk rng ({} : Ctx) := ⟨(fun e he => by cases he), List.Pairwise.nil⟩
  exact sealedOk_same (provision_same C rng {} m p) h0

/-- The random stream does not repeat among its first `n` draws.  (`Function.Injective rng` would be an unsatisfiable
    hypothesis: there are only 2^96 nonces.) -/
def InjBelow (rng : Nat → Nonce) (n : Nat) : Prop := ∀ i j, i < n → j < n → rng i = rng j → i = j

theorem sealed_pairwise {rng x} (h : SealedOk rng x) (hinj : InjBelow rng x.ctr) :
    x.sealed.Pairwise (fun a b => rng a.1 ≠ rng b.1) := by
  obtain ⟨h1, h2⟩ := h
  rw [List.pairwise_map] at h2
  have h3 := List.Pairwise.and_mem.mp h2
  refine h3.imp ?_
  intro a b ⟨ha, hb, hab⟩ heq
  have := hinj a.1 b.1 (h1 a ha).1 (h1 b hb).1 heq
  exact Nat.lt_irrefl _ (this ▸ hab)

theorem value_nonces_fresh (C : Crypto) (rng : Nat → Nonce) (like : Bytes → Bytes → Bool) (m : Method) (p : String)
    (ops : List Op) (hinj : InjBelow rng (run C rng like (init C rng m p) ops).1.ctx.ctr) :
    (valueNonces rng (run C rng like (init C rng m p) ops).1).Nodup := by
  have h := run_sealed (C := C) (like := like) ops _ (init_sealed C rng m p)
  unfold valueNonces valueNonceIxs
  rw [List.map_map, List.Nodup, List.pairwise_map]
  exact sealed_pairwise h hinj

theorem sealed_values_nodup (C : Crypto) (rng : Nat → Nonce) (like : Bytes → Bytes → Bool) (m : Method) (p : String)
    (ops : List Op) (hinj : InjBelow rng (run C rng like (init C rng m p) ops).1.ctx.ctr) :
    (sealedValues (run C rng like (init C rng m p) ops).1).Nodup := by
  have h := run_sealed (C := C) (like := like) ops _ (init_sealed C rng m p)
  unfold sealedValues
  generalize (run C rng like (init C rng m p) ops).1.ctx = x at h hinj
  rw [List.Nodup, List.pairwise_map]
  have h3 := List.Pairwise.and_mem.mp (sealed_pairwise h hinj)
  refine h3.imp ?_
  intro a b ⟨ha, hb, hab⟩ heq
  have e1 := (h.1 a ha).2
  have e2 := (h.1 b hb).2
  rw [heq] at e1
  exact hab (Subtype.ext (e1.symm.trans e2))

/-- every stored value is one of the logged encryptions -/
def ValuesLogged (st : St) : Prop := ∀ s ∈ stores st, ∀ it ∈ s.db.items, it.value ∈ st.ctx.sealed.map (·.2)

theorem toyNonce_injBelow : InjBelow toyNonce 256 := by
  intro i j hi hj h
  have h0 : (toyNonce i).val.head? = (toyNonce j).val.head? := by rw [h]
  simp only [toyNonce, List.range_succ_eq_map, List.map_cons, List.head?_cons, Option.some.injEq] at h0
  have := congrArg UInt8.toNat h0
  simp only [UInt8.toNat_ofNat'] at this
  omega

theorem injBelow_mono {rng : Nat → Nonce} {n k : Nat} (h : InjBelow rng n) (hk : k ≤ n) : InjBelow rng k :=
  fun i j hi hj e => h i j (Nat.lt_of_lt_of_le hi hk) (Nat.lt_of_lt_of_le hj hk) e

/-! #### stored columns -/

theorem rowsOk_cascade {db : PDb} (h : RowsOk db) : RowsOk (cascadeTags db) :=
  ⟨h.1, fun t ht => h.2 t (List.mem_filter.mp ht).1⟩

theorem rowsOk_filterItems {db : PDb} (f : PItem → Bool) (h : RowsOk db) : RowsOk { db with items := db.items.filter f } :=
  ⟨fun it hit => h.1 it (List.mem_filter.mp hit).1, h.2⟩

theorem sqlInsertItem_rows {db pid kind c n v g} (h : RowsOk db) (hc : c.prov.profileCipher = some .category)
    (hn : n.prov.profileCipher = some .name) (hv : v.prov.profileCipher = some .value) :
    RowsOk (sqlInsertItem db pid kind c n v g).1 := by
  unfold sqlInsertItem; split
  · exact h
  · refine ⟨fun it hit => ?_, h.2⟩
    simp only [List.mem_append, List.mem_singleton] at hit
    rcases hit with hit | rfl
    · exact h.1 it hit
    · exact ⟨hc, hn, hv⟩

theorem sqlUpdateItem_rows {db pid kind c n v g} (h : RowsOk db) (hv : v.prov.profileCipher = some .value) :
    RowsOk (sqlUpdateItem db pid kind c n v g).1 := by
  unfold sqlUpdateItem; split
  · exact h
  · refine ⟨fun it hit => ?_, h.2⟩
    simp only [List.mem_map] at hit
    obtain ⟨it0, hit0, rfl⟩ := hit
    have := h.1 it0 hit0
    split
    · exact ⟨this.1, this.2.1, hv⟩
    · exact this

theorem sqlDeleteTags_rows {db id} (h : RowsOk db) : RowsOk (sqlDeleteTags db id).1 :=
  ⟨h.1, fun t ht => h.2 t (List.mem_filter.mp ht).1⟩

theorem searchable_pc (C : Crypto) (k f x) : (C.searchable k f x).prov.profileCipher = some f := rfl
theorem sealValue_pc (C : Crypto) (k c n r v) : (C.sealValue k c n r v).prov.profileCipher = some .value := rfl

theorem insertTags_rows (C : Crypto) (k id : Nat) :
    ∀ (ts : List Tag) (db : PDb), RowsOk db → RowsOk (insertTags db id (ts.map (encryptTag C k))).1
  | [], db, h => by simpa [insertTags] using h
  | t :: ts, db, h => by
    simp only [List.map, insertTags, encryptTag]
    apply insertTags_rows C k id ts
    refine ⟨h.1, fun t' ht' => ?_⟩
    simp only [sqlInsertTag, List.mem_append, List.mem_singleton] at ht'
    rcases ht' with ht' | rfl
    · exact h.2 t' ht'
    · refine ⟨rfl, ?_⟩
      cases hp : t.plain <;> simp [Src.tagValue, Crypto.searchable, Prov.profileCipher]

theorem encTags_rows (C : Crypto) (k id : Nat) (tags : Option (List Tag)) (db : PDb) (h : RowsOk db) :
    RowsOk (insertTags db id ((tags.map fun ts => ts.map (encryptTag C k)).getD [])).1 := by
  cases tags with
  | none => simpa [insertTags] using h
  | some ts => exact insertTags_rows C k id ts db h

theorem resolveP_db (s x p) : (resolveP s x p).1.db = s.db := by
  unfold resolveP; split
  · rfl
  · simp only; split <;> rfl

theorem update_rows {C rng s x p kind ins cat name value tags} (h : RowsOk s.db) :
    RowsOk (update C rng s x p kind ins cat name value tags).1.db := by
  unfold update
  have hr := resolveP_db s x p
  split
  · rename_i s' x' e heq; rw [heq] at hr; simp only at hr ⊢; rw [hr]; exact h
  · rename_i s' x' pid k heq
    rw [heq] at hr; simp only at hr
    have h' : RowsOk s'.db := hr ▸ h
    simp only
    split
    · split
      · exact h'
      · exact encTags_rows C k _ tags _ (sqlInsertItem_rows h' (searchable_pc ..) (searchable_pc ..) (sealValue_pc ..))
    · split
      · exact h'
      · exact encTags_rows C k _ tags _ (sqlDeleteTags_rows (sqlUpdateItem_rows h' (sealValue_pc ..)))

theorem remove_rows {C s x p kind cat name} (h : RowsOk s.db) : RowsOk (remove C s x p kind cat name).1.db := by
  unfold remove
  have hr := resolveP_db s x p
  split
  · rename_i s' x' e heq; rw [heq] at hr; simp only at hr ⊢; rw [hr]; exact h
  · rename_i s' x' pid k heq
    rw [heq] at hr; simp only at hr
    have h' : RowsOk s'.db := hr ▸ h
    simp only
    split
    · exact h'
    · exact rowsOk_cascade (rowsOk_filterItems _ h')

theorem removeAll_rows {C like s x p kind cat f} (h : RowsOk s.db) : RowsOk (removeAll C like s x p kind cat f).1.db := by
  unfold removeAll
  have hr := resolveP_db s x p
  split
  · rename_i s' x' e heq; rw [heq] at hr; simp only at hr ⊢; rw [hr]; exact h
  · rename_i s' x' pid k heq
    rw [heq] at hr; simp only at hr
    have h' : RowsOk s'.db := hr ▸ h
    exact rowsOk_cascade (rowsOk_filterItems _ h')

theorem select_db (C like s x p kind cat f) : (select C like s x p kind cat f).1.db = s.db := by
  unfold select
  have hr := resolveP_db s x p
  split
  · rename_i s' x' e heq; rw [heq] at hr; exact hr
  · rename_i s' x' pid k heq; rw [heq] at hr; exact hr

theorem fetch_db (C s x p kind cat name) : (fetch C s x p kind cat name).1.db = s.db := by
  unfold fetch
  have hr := resolveP_db s x p
  split
  · rename_i s' x' e heq; rw [heq] at hr; exact hr
  · rename_i s' x' pid k heq; rw [heq] at hr; exact hr

theorem createProfile_rows {C rng s x name} (h : RowsOk s.db) : RowsOk (createProfile C rng s x name).1.db := by
  unfold createProfile
  simp only
  split
  · exact h
  · unfold sqlInsertProfile; split <;> exact h

theorem removeProfile_rows {s x name} (h : RowsOk s.db) : RowsOk (removeProfile s x name).1.db := by
  unfold removeProfile sqlDeleteProfile
  exact rowsOk_cascade ⟨fun it hit => h.1 it (List.mem_filter.mp hit).1, h.2⟩

theorem rewrapAll_rows (C rng sk) : ∀ (ps : List PProfile) (db : PDb) (x : Ctx), RowsOk db → RowsOk (rewrapAll C rng sk ps db x).1
  | [], db, x, h => by simpa [rewrapAll] using h
  | p :: ps, db, x, h => by
    simp only [rewrapAll]
    exact rewrapAll_rows C rng sk ps _ _ ⟨h.1, h.2⟩

theorem rekey_rows {C rng s x m} (h : RowsOk s.db) : RowsOk (rekey C rng s x m).1.db := by
  unfold rekey
  have := rewrapAll_rows C rng (newStoreKey m x).1 s.db.profiles s.db (newStoreKey m x).2 h
  exact ⟨this.1, this.2⟩

theorem provision_rows (C rng x m p) : RowsOk (provision C rng x m p).1.db :=
  ⟨fun it hit => by simp [provision] at hit, fun t ht => by simp [provision] at ht⟩

theorem reopen_db (s x) : (reopen s x).1.db = s.db := by
  unfold reopen; simp only; split <;> rfl

theorem importRows_rows {C rng profile} :
    ∀ (es : List Entry) (t : PStore) (x : Ctx), RowsOk t.db → RowsOk (importRows C rng profile es t x).1.db
  | [], t, x, h => by simpa [importRows] using h
  | e :: es, t, x, h => by
    simp only [importRows]
    have hu := @update_rows C rng t x profile e.kind true e.cat e.name e.value (some e.tags) h
    split
    · rename_i t' x' err heq; rw [heq] at hu; exact hu
    · rename_i t' x' heq; rw [heq] at hu
      exact importRows_rows (C := C) (rng := rng) (profile := profile) es t' x' hu

theorem copyProfiles_rows {C rng like} :
    ∀ (ps : List PProfile) (src t : PStore) (x : Ctx), RowsOk src.db → RowsOk t.db →
      RowsOk (copyProfiles C rng like ps src t x).1.db ∧ RowsOk (copyProfiles C rng like ps src t x).2.1.db
  | [], src, t, x, h, ht => by simpa [copyProfiles] using ⟨h, ht⟩
  | p :: ps, src, t, x, h, ht => by
    simp only [copyProfiles]
    generalize hpn : (String.fromUTF8? (ByteArray.mk p.name.bytes.toArray)).getD "" = pname
    have hs := select_db C like src x pname none none none
    split
    · rename_i src' x' e heq; rw [heq] at hs; simp only at hs ⊢; exact ⟨hs ▸ h, ht⟩
    · rename_i src' x' k rows heq
      rw [heq] at hs; simp only at hs
      have hsrc' : RowsOk src'.db := hs ▸ h
      split
      · exact ⟨hsrc', ht⟩
      · have hc := @createProfile_rows C rng t x' pname ht
        have hs2 := select_db C like (createProfile C rng t x' pname).1 (createProfile C rng t x' pname).2.1 pname none none none
        split
        · rename_i t' x'' e heq2; rw [heq2] at hs2; simp only at hs2 ⊢; exact ⟨hsrc', hs2 ▸ hc⟩
        · rename_i t' x'' k2 existing heq2
          rw [heq2] at hs2; simp only at hs2
          have ht' : RowsOk t'.db := hs2 ▸ hc
          split
          · exact ⟨hsrc', ht'⟩
          · have hi := @importRows_rows C rng pname (rows.map (·.plain)) t' x'' ht'
            split
            · rename_i t'' x3 e heq3; rw [heq3] at hi; exact ⟨hsrc', hi⟩
            · rename_i t'' x3 heq3
              rw [heq3] at hi
              exact copyProfiles_rows (C := C) (rng := rng) (like := like) ps src' t'' x3 hsrc' hi

theorem copyTo_rows {C rng like src x m} (h : RowsOk src.db) :
    RowsOk (copyTo C rng like src x m).1.db ∧ RowsOk (copyTo C rng like src x m).2.1.db := by
  unfold copyTo
  exact copyProfiles_rows _ _ _ _ h (provision_rows ..)

def StRows (st : St) : Prop := ∀ s ∈ stores st, RowsOk s.db

theorem stRows_mk {st : St} (hm : RowsOk st.main.db) (hc : ∀ c, st.copy = some c → RowsOk c.db) : StRows st := by
  intro s hs
  simp only [stores, List.mem_cons, Option.mem_toList] at hs
  rcases hs with rfl | hs
  · exact hm
  · exact hc s hs

theorem step_rows {C rng like st} (op : Op) (h : StRows st) : StRows (step C rng like st op).1 := by
  have hm : RowsOk st.main.db := h _ (by simp [stores])
  have hc : ∀ c, st.copy = some c → RowsOk c.db := fun c hc => h _ (by simp [stores, hc])
  cases op with
  | update p k ins c n v t => exact stRows_mk (update_rows hm) hc
  | remove p k c n => exact stRows_mk (remove_rows hm) hc
  | removeAll p k c f => exact stRows_mk (removeAll_rows hm) hc
  | fetch p k c n => exact stRows_mk (by simp only [step]; rw [fetch_db]; exact hm) hc
  | count p k c f => exact stRows_mk (by simp only [step]; rw [select_db]; exact hm) hc
  | scan p k c f => exact stRows_mk (by simp only [step]; rw [select_db]; exact hm) hc
  | insertKey p n m jwk alg thumbs t => exact stRows_mk (update_rows hm) hc
  | createProfile n => exact stRows_mk (createProfile_rows hm) hc
  | removeProfile n => exact stRows_mk (removeProfile_rows (x := st.ctx) hm) hc
  | setDefault n => exact stRows_mk (by simp only [step, setDefault, setConfig]; exact ⟨hm.1, hm.2⟩) hc
  | rekey m => exact stRows_mk (rekey_rows hm) hc
  | copy m =>
    have := @copyTo_rows C rng like st.main st.ctx m hm
    exact stRows_mk this.1 (fun c hc => by simp only [step, Option.some.injEq] at hc; exact hc ▸ this.2)
  | checkpoint => exact h
  | reopen => exact stRows_mk (by simp only [step]; rw [reopen_db]; exact hm) hc

theorem run_rows {C rng like} : ∀ (ops : List Op) (st : St), StRows st → StRows (run C rng like st ops).1
  | [], st, h => by simpa [run] using h
  | op :: ops, st, h => by
    simp only [run]
    exact run_rows ops _ (step_rows op h)

theorem init_rows (C rng m p) : StRows (init C rng m p) :=
  stRows_mk (provision_rows ..) (fun c hc => by simp [init] at hc)

theorem stored_record_columns_are_ciphertexts (C : Crypto) (rng : Nat → Nonce) (like : Bytes → Bytes → Bool) (m : Method)
    (p : String) (ops : List Op) :
    ∀ s ∈ stores (run C rng like (init C rng m p) ops).1, RowsOk s.db :=
  run_rows ops _ (init_rows C rng m p)

/-! #### the `profiles` table -/

/-- same `profiles` rows, same store key -/
def PSame (s s' : PStore) : Prop := s'.db.profiles = s.db.profiles ∧ s'.storeKey = s.storeKey

theorem profilesOk_same {s s'} (h : PSame s s') (hs : ProfilesOk s) : ProfilesOk s' := by
  intro p hp; rw [h.1] at hp; rw [h.2]; exact hs p hp

theorem psame_trans {a b c} (h1 : PSame a b) (h2 : PSame b c) : PSame a c := ⟨h2.1.trans h1.1, h2.2.trans h1.2⟩

@[simp] theorem sqlInsertItem_profiles (db pid kind c n v g) : (sqlInsertItem db pid kind c n v g).1.profiles = db.profiles := by
  unfold sqlInsertItem; split <;> rfl
@[simp] theorem sqlUpdateItem_profiles (db pid kind c n v g) : (sqlUpdateItem db pid kind c n v g).1.profiles = db.profiles := by
  unfold sqlUpdateItem; split <;> rfl
@[simp] theorem sqlDeleteTags_profiles (db id) : (sqlDeleteTags db id).1.profiles = db.profiles := rfl
@[simp] theorem insertTags_profiles (id) : ∀ (l : List (Arg × Arg × Bool)) (db : PDb), (insertTags db id l).1.profiles = db.profiles
  | [], db => rfl
  | (n, v, p) :: ts, db => by simp only [insertTags]; rw [insertTags_profiles id ts]; rfl
@[simp] theorem sqlDeleteItem_profiles (db pid kind c n) : (sqlDeleteItem db pid kind c n).1.profiles = db.profiles := rfl
@[simp] theorem sqlDeleteAll_profiles (like db pid kind c f) : (sqlDeleteAll like db pid kind c f).1.profiles = db.profiles := rfl

theorem resolveP_psame (s x p) : PSame s (resolveP s x p).1 := by
  unfold resolveP; split
  · exact ⟨rfl, rfl⟩
  · simp only; split <;> exact ⟨rfl, rfl⟩

theorem update_psame (C rng s x p kind ins cat name value tags) : PSame s (update C rng s x p kind ins cat name value tags).1 := by
  unfold update
  have hr := resolveP_psame s x p
  split
  · rename_i s' x' e heq; rw [heq] at hr; exact hr
  · rename_i s' x' pid k heq
    rw [heq] at hr
    simp only
    split
    · split
      · exact hr
      · exact psame_trans hr ⟨by simp, rfl⟩
    · split
      · exact hr
      · exact psame_trans hr ⟨by simp, rfl⟩

theorem remove_psame (C s x p kind cat name) : PSame s (remove C s x p kind cat name).1 := by
  unfold remove
  have hr := resolveP_psame s x p
  split
  · rename_i s' x' e heq; rw [heq] at hr; exact hr
  · rename_i s' x' pid k heq
    rw [heq] at hr
    simp only
    split
    · exact hr
    · exact psame_trans hr ⟨by simp, rfl⟩

theorem removeAll_psame (C like s x p kind cat f) : PSame s (removeAll C like s x p kind cat f).1 := by
  unfold removeAll
  have hr := resolveP_psame s x p
  split
  · rename_i s' x' e heq; rw [heq] at hr; exact hr
  · rename_i s' x' pid k heq
    rw [heq] at hr
    exact psame_trans hr ⟨by simp, rfl⟩

theorem wrap_prov (C : Crypto) (sk r k) : (C.wrap sk r (Src.profileKey C k)).prov = keyProv sk := by
  cases sk <;> rfl

theorem createProfile_profiles {C rng s x name} (h : ProfilesOk s) : ProfilesOk (createProfile C rng s x name).1 := by
  unfold createProfile
  simp only
  split
  · exact h
  · rename_i id heq
    intro p hp
    simp only [sqlInsertProfile] at hp heq
    split at hp
    · exact h p hp
    · simp only [List.mem_append, List.mem_singleton] at hp
      rcases hp with hp | rfl
      · exact h p hp
      · exact ⟨rfl, by simp only [wrapProfileKey]; exact wrap_prov ..⟩

theorem removeProfile_profiles {s x name} (h : ProfilesOk s) : ProfilesOk (removeProfile s x name).1 := by
  intro p hp
  simp only [removeProfile, sqlDeleteProfile, cascadeTags] at hp
  exact h p (List.mem_filter.mp hp).1

/-- the loop of `rekey`: rows whose id was visited carry a key wrapped under the new store key, names are untouched -/
theorem rewrapAll_profiles (C rng sk) : ∀ (ps : List PProfile) (db : PDb) (x : Ctx) (P : PProfile → Prop),
    (∀ p ∈ db.profiles, p.name.prov = .profileName ∧ (P p ∨ p.key.prov = keyProv sk)) →
    (∀ p q : PProfile, q.id = p.id → q.name = p.name → P p → P q) →
    ∀ p ∈ (rewrapAll C rng sk ps db x).1.profiles,
      p.name.prov = .profileName ∧ ((P p ∧ ¬ p.id ∈ ps.map (·.id)) ∨ p.key.prov = keyProv sk)
  | [], db, x, P, h, _ => by
    intro p hp
    simp only [rewrapAll] at hp
    rcases h p hp with ⟨h1, h2 | h2⟩
    · exact ⟨h1, .inl ⟨h2, by simp⟩⟩
    · exact ⟨h1, .inr h2⟩
  | q :: ps, db, x, P, h, hP => by
    intro p hp
    simp only [rewrapAll] at hp
    have ih := rewrapAll_profiles C rng sk ps (sqlUpdateProfileKey db (wrapProfileKey C rng sk x q.keyId).1 q.id).1
      ((wrapProfileKey C rng sk x q.keyId).2.bind (sqlUpdateProfileKey db (wrapProfileKey C rng sk x q.keyId).1 q.id).2)
      (fun p => P p ∧ p.id ≠ q.id) ?_ ?_ p hp
    · rcases ih with ⟨h1, ⟨⟨hPp, hne⟩, hnot⟩ | h2⟩
      · exact ⟨h1, .inl ⟨hPp, by simp only [List.map_cons, List.mem_cons, not_or]; exact ⟨hne, hnot⟩⟩⟩
      · exact ⟨h1, .inr h2⟩
    · intro p' hp'
      simp only [sqlUpdateProfileKey, List.mem_map] at hp'
      obtain ⟨p0, hp0, rfl⟩ := hp'
      have := h p0 hp0
      split
      · rename_i hid
        exact ⟨this.1, .inr (by simp only [wrapProfileKey]; exact wrap_prov ..)⟩
      · rename_i hid
        rcases this with ⟨h1, h2 | h2⟩
        · exact ⟨h1, .inl ⟨h2, by simpa using hid⟩⟩
        · exact ⟨h1, .inr h2⟩
    · intro a b hid hname ⟨hPa, hne⟩
      exact ⟨hP a b hid hname hPa, by rw [hid]; exact hne⟩

theorem rekey_profiles {C rng s x m} (h : ProfilesOk s) : ProfilesOk (rekey C rng s x m).1 := by
  intro p hp
  simp only [rekey, setConfig] at hp ⊢
  have := rewrapAll_profiles C rng (newStoreKey m x).1 s.db.profiles s.db (newStoreKey m x).2 (fun p => p.id ∈ s.db.profiles.map (·.id))
    (fun p hp => ⟨(h p hp).1, .inl (List.mem_map.mpr ⟨p, hp, rfl⟩)⟩) (fun a b hid _ ha => by rw [hid]; exact ha) p hp
  rcases this with ⟨h1, ⟨hin, hnot⟩ | h2⟩
  · exact absurd hin hnot
  · exact ⟨h1, h2⟩

theorem provision_profiles (C rng x m p) : ProfilesOk (provision C rng x m p).1 := by
  intro q hq
  simp only [provision, List.mem_singleton] at hq ⊢
  subst hq
  exact ⟨rfl, by simp only [wrapProfileKey]; exact wrap_prov ..⟩

theorem select_psame (C like s x p kind cat f) : PSame s (select C like s x p kind cat f).1 := by
  unfold select
  have hr := resolveP_psame s x p
  split
  · rename_i s' x' e heq; rw [heq] at hr; exact hr
  · rename_i s' x' pid k heq; rw [heq] at hr; exact hr

theorem fetch_psame (C s x p kind cat name) : PSame s (fetch C s x p kind cat name).1 := by
  unfold fetch
  have hr := resolveP_psame s x p
  split
  · rename_i s' x' e heq; rw [heq] at hr; exact hr
  · rename_i s' x' pid k heq; rw [heq] at hr; exact hr

theorem reopen_psame (s x) : PSame s (reopen s x).1 := by
  unfold reopen; simp only; split <;> exact ⟨rfl, rfl⟩

theorem importRows_psame {C rng profile} :
    ∀ (es : List Entry) (t : PStore) (x : Ctx), PSame t (importRows C rng profile es t x).1
  | [], t, x => by simp only [importRows]; exact ⟨rfl, rfl⟩
  | e :: es, t, x => by
    simp only [importRows]
    have hu := update_psame C rng t x profile e.kind true e.cat e.name e.value (some e.tags)
    split
    · rename_i t' x' err heq; rw [heq] at hu; exact hu
    · rename_i t' x' heq; rw [heq] at hu
      exact psame_trans hu (importRows_psame (C := C) (rng := rng) (profile := profile) es t' x')

theorem copyProfiles_profiles {C rng like} :
    ∀ (ps : List PProfile) (src t : PStore) (x : Ctx), ProfilesOk src → ProfilesOk t →
      ProfilesOk (copyProfiles C rng like ps src t x).1 ∧ ProfilesOk (copyProfiles C rng like ps src t x).2.1
  | [], src, t, x, h, ht => by simpa [copyProfiles] using ⟨h, ht⟩
  | p :: ps, src, t, x, h, ht => by
    simp only [copyProfiles]
    generalize hpn : (String.fromUTF8? (ByteArray.mk p.name.bytes.toArray)).getD "" = pname
    have hs := select_psame C like src x pname none none none
    split
    · rename_i src' x' e heq; rw [heq] at hs; exact ⟨profilesOk_same hs h, ht⟩
    · rename_i src' x' k rows heq
      rw [heq] at hs
      have hsrc' : ProfilesOk src' := profilesOk_same hs h
      split
      · exact ⟨hsrc', ht⟩
      · have hc := @createProfile_profiles C rng t x' pname ht
        have hs2 := select_psame C like (createProfile C rng t x' pname).1 (createProfile C rng t x' pname).2.1 pname none none none
        split
        · rename_i t' x'' e heq2; rw [heq2] at hs2; exact ⟨hsrc', profilesOk_same hs2 hc⟩
        · rename_i t' x'' k2 existing heq2
          rw [heq2] at hs2
          have ht' : ProfilesOk t' := profilesOk_same hs2 hc
          split
          · exact ⟨hsrc', ht'⟩
          · have hi := @importRows_psame C rng pname (rows.map (·.plain)) t' x''
            split
            · rename_i t'' x3 e heq3; rw [heq3] at hi; exact ⟨hsrc', profilesOk_same hi ht'⟩
            · rename_i t'' x3 heq3
              rw [heq3] at hi
              exact copyProfiles_profiles (C := C) (rng := rng) (like := like) ps src' t'' x3 hsrc' (profilesOk_same hi ht')

def StProfiles (st : St) : Prop := ∀ s ∈ stores st, ProfilesOk s

theorem stProfiles_mk {st : St} (hm : ProfilesOk st.main) (hc : ∀ c, st.copy = some c → ProfilesOk c) : StProfiles st := by
  intro s hs
  simp only [stores, List.mem_cons, Option.mem_toList] at hs
  rcases hs with rfl | hs
  · exact hm
  · exact hc s hs

theorem step_profiles {C rng like st} (op : Op) (h : StProfiles st) : StProfiles (step C rng like st op).1 := by
  have hm : ProfilesOk st.main := h _ (by simp [stores])
  have hc : ∀ c, st.copy = some c → ProfilesOk c := fun c hc => h _ (by simp [stores, hc])
  cases op with
  | update p k ins c n v t => exact stProfiles_mk (profilesOk_same (update_psame ..) hm) hc
  | remove p k c n => exact stProfiles_mk (profilesOk_same (remove_psame ..) hm) hc
  | removeAll p k c f => exact stProfiles_mk (profilesOk_same (removeAll_psame ..) hm) hc
  | fetch p k c n => exact stProfiles_mk (profilesOk_same (fetch_psame ..) hm) hc
  | count p k c f => exact stProfiles_mk (profilesOk_same (select_psame ..) hm) hc
  | scan p k c f => exact stProfiles_mk (profilesOk_same (select_psame ..) hm) hc
  | insertKey p n m jwk alg thumbs t => exact stProfiles_mk (profilesOk_same (update_psame ..) hm) hc
  | createProfile n => exact stProfiles_mk (createProfile_profiles hm) hc
  | removeProfile n => exact stProfiles_mk (removeProfile_profiles (x := st.ctx) hm) hc
  | setDefault n => exact stProfiles_mk (profilesOk_same (s := st.main) ⟨rfl, rfl⟩ hm) hc
  | rekey m => exact stProfiles_mk (rekey_profiles hm) hc
  | copy m =>
    have := copyProfiles_profiles (C := C) (rng := rng) (like := like) st.main.db.profiles st.main
      (provision C rng (st.ctx.bind [Src.metaStr "default_profile"]) m (defaultProfile st.main.db)).1
      (provision C rng (st.ctx.bind [Src.metaStr "default_profile"]) m (defaultProfile st.main.db)).2 hm (provision_profiles _ _ _ _ _)
    exact stProfiles_mk this.1 (fun c hc => by simp only [step, copyTo, Option.some.injEq] at hc; exact hc ▸ this.2)
  | checkpoint => exact h
  | reopen => exact stProfiles_mk (profilesOk_same (reopen_psame ..) hm) hc

theorem run_profiles {C rng like} : ∀ (ops : List Op) (st : St), StProfiles st → StProfiles (run C rng like st ops).1
  | [], st, h => by simpa [run] using h
  | op :: ops, st, h => by
    simp only [run]
    exact run_profiles ops _ (step_profiles op h)

theorem profile_keys_wrapped (C : Crypto) (rng : Nat → Nonce) (like : Bytes → Bytes → Bool) (m : Method)
    (p : String) (ops : List Op) :
    ∀ s ∈ stores (run C rng like (init C rng m p) ops).1, ProfilesOk s :=
  run_profiles ops _ (stProfiles_mk (provision_profiles C rng {} m p) (fun c hc => by simp [init] at hc))

/-! #### live rows and the log of value encryptions -/

/-- the UNIQUE key of `items` (`ix_items_uniq`), on the stored bytes -/
def PItem.ukey (it : PItem) : Nat × Kind × Bytes × Bytes := (it.pid, it.kind, it.cat.bytes, it.name.bytes)

theorem matches_iff (it : PItem) (pid : Nat) (kind : Kind) (cat name : Arg) :
    it.matches pid kind cat name = true ↔ PItem.ukey it = (pid, kind, cat.bytes, name.bytes) := by
  simp [PItem.matches, PItem.ukey, and_assoc]

/-- no two rows of the table share (profile, kind, category, name) -/
def Uniq (l : List PItem) : Prop := l.Pairwise (fun a b => PItem.ukey a ≠ PItem.ukey b)

/-- two rows were sealed at different positions of the random stream -/
def NIx (a b : PItem) : Prop := a.nonceIx ≠ b.nonceIx

theorem nix_symm {a b : PItem} (h : NIx a b) : NIx b a := fun e => h e.symm

/-- `l` (the table operated on) has unique keys; every row of `l` and of `o` (the rows of the other stores) holds the
    value logged at its ghost index; no two of these rows carry the same index -/
def Live (l o : List PItem) (x : Ctx) : Prop :=
  Uniq l ∧ (∀ it ∈ l ++ o, (it.nonceIx, it.value) ∈ x.sealed) ∧ (l ++ o).Pairwise NIx

theorem live_same {l o x x'} (hs : Same x x') (h : Live l o x) : Live l o x' :=
  ⟨h.1, fun it hit => by rw [hs.1]; exact h.2.1 it hit, h.2.2⟩

/-- one more value encryption is logged, the tables stay as they are -/
theorem live_logged {l o x c e} (h : Live l o x) : Live l o { x with ctr := c, sealed := x.sealed ++ [e] } :=
  ⟨h.1, fun it hit => List.mem_append_left _ (h.2.1 it hit), h.2.2⟩

theorem live_filter {l o x} (f : PItem → Bool) (h : Live l o x) : Live (l.filter f) o x := by
  have hsub : (l.filter f ++ o).Sublist (l ++ o) := List.Sublist.append List.filter_sublist (List.Sublist.refl _)
  exact ⟨h.1.sublist List.filter_sublist, fun it hit => h.2.1 it (hsub.subset hit), h.2.2.sublist hsub⟩

theorem live_push {rng l o x} (hx : SealedOk rng x) (h : Live l o x) (new : PItem) (hnew : new.nonceIx = x.ctr)
    (hk : ∀ it ∈ l, PItem.ukey it ≠ PItem.ukey new) :
    Live (l ++ [new]) o { x with ctr := x.ctr + 1, sealed := x.sealed ++ [(x.ctr, new.value)] } := by
  obtain ⟨h1, h2, h3⟩ := h
  have hlt : ∀ it ∈ l ++ o, it.nonceIx < x.ctr := fun it hit => (hx.1 _ (h2 it hit)).1
  refine ⟨?_, ?_, ?_⟩
  · exact List.pairwise_append.mpr ⟨h1, by simp, fun a ha b hb => by
      simp only [List.mem_singleton] at hb; subst hb; exact hk a ha⟩
  · intro it hit
    simp only [List.mem_append, List.mem_singleton] at hit ⊢
    rcases hit with (hit | rfl) | hit
    · exact .inl (h2 it (List.mem_append_left _ hit))
    · exact .inr (by rw [hnew])
    · exact .inl (h2 it (List.mem_append_right _ hit))
  · rw [List.append_assoc, List.pairwise_append] at *
    obtain ⟨p1, p2, p3⟩ := h3
    refine ⟨p1, ?_, ?_⟩
    · simp only [List.singleton_append, List.pairwise_cons]
      refine ⟨fun b hb e => ?_, p2⟩
      have := hlt b (List.mem_append_right _ hb)
      rw [← e, hnew] at this; exact Nat.lt_irrefl _ this
    · intro a ha b hb
      simp only [List.singleton_append, List.mem_cons] at hb
      rcases hb with rfl | hb
      · intro e
        have := hlt a (List.mem_append_left _ ha)
        rw [e, hnew] at this; exact Nat.lt_irrefl _ this
      · exact p3 a ha b hb

theorem live_set {rng l o x} (hx : SealedOk rng x) (h : Live l o x) (m : PItem → Bool) (v : Arg) (pl : Entry)
    (hm : ∀ a ∈ l, ∀ b ∈ l, m a = true → m b = true → PItem.ukey a = PItem.ukey b) :
    Live (l.map fun it => if m it then { it with value := v, nonceIx := x.ctr, plain := pl } else it) o
      { x with ctr := x.ctr + 1, sealed := x.sealed ++ [(x.ctr, v)] } := by
  obtain ⟨h1, h2, h3⟩ := h
  have hlt : ∀ it ∈ l ++ o, it.nonceIx < x.ctr := fun it hit => (hx.1 _ (h2 it hit)).1
  refine ⟨?_, ?_, ?_⟩
  · unfold Uniq
    rw [List.pairwise_map]
    refine h1.imp ?_
    intro a b hab
    have ea : PItem.ukey (if m a then { a with value := v, nonceIx := x.ctr, plain := pl } else a) = PItem.ukey a := by
      split <;> rfl
    have eb : PItem.ukey (if m b then { b with value := v, nonceIx := x.ctr, plain := pl } else b) = PItem.ukey b := by
      split <;> rfl
    rw [ea, eb]; exact hab
  · intro it hit
    simp only [List.mem_append, List.mem_map, List.mem_singleton] at hit ⊢
    rcases hit with ⟨a, ha, rfl⟩ | hit
    · split
      · exact .inr rfl
      · exact .inl (h2 a (List.mem_append_left _ ha))
    · exact .inl (h2 it (List.mem_append_right _ hit))
  · rw [List.pairwise_append] at h3 ⊢
    obtain ⟨p1, p2, p3⟩ := h3
    refine ⟨?_, p2, ?_⟩
    · rw [List.pairwise_map]
      have := List.Pairwise.and_mem.mp (h1.and p1)
      refine this.imp ?_
      intro a b ⟨ha, hb, hk, hn⟩
      have la := hlt a (List.mem_append_left _ ha)
      have lb := hlt b (List.mem_append_left _ hb)
      unfold NIx at hn ⊢
      by_cases ma : m a = true <;> by_cases mb : m b = true <;> simp only [ma, mb, if_true]
      · exact absurd (hm a ha b hb ma mb) hk
      · simp only [Bool.false_eq_true, if_false]; omega
      · simp only [Bool.false_eq_true, if_false]; omega
      · simp only [Bool.false_eq_true, if_false]; exact hn
    · intro a' ha' b hb
      simp only [List.mem_map] at ha'
      obtain ⟨a, ha, rfl⟩ := ha'
      have lb := hlt b (List.mem_append_right _ hb)
      unfold NIx
      split
      · simp only; omega
      · exact p3 a ha b hb

@[simp] theorem insertTags_items (id) : ∀ (l : List (Arg × Arg × Bool)) (db : PDb), (insertTags db id l).1.items = db.items
  | [], db => rfl
  | (n, v, p) :: ts, db => by simp only [insertTags]; rw [insertTags_items id ts]; rfl

theorem sqlInsertItem_live {rng db pid kind c n v g o x} (hx : SealedOk rng x) (h : Live db.items o x) (hg : g.nonceIx = x.ctr) :
    Live (sqlInsertItem db pid kind c n v g).1.items o { x with ctr := x.ctr + 1, sealed := x.sealed ++ [(x.ctr, v)] } := by
  unfold sqlInsertItem
  split
  · exact live_logged h
  · rename_i hany
    refine live_push hx h ⟨_, pid, kind, c, n, v, g.keyId, g.nonceIx, g.plain⟩ hg ?_
    intro it hit e
    apply hany
    rw [List.any_eq_true]
    exact ⟨it, hit, (matches_iff ..).mpr e⟩

theorem sqlUpdateItem_live {rng db pid kind c n v g o x} (hx : SealedOk rng x) (h : Live db.items o x) (hg : g.nonceIx = x.ctr) :
    Live (sqlUpdateItem db pid kind c n v g).1.items o { x with ctr := x.ctr + 1, sealed := x.sealed ++ [(x.ctr, v)] } := by
  unfold sqlUpdateItem
  split
  · exact live_logged h
  · rw [hg]
    exact live_set hx h (fun it => it.matches pid kind c n) v g.plain
      (fun a _ b _ ma mb => ((matches_iff ..).mp ma).trans ((matches_iff ..).mp mb).symm)

theorem update_live {C rng s x p kind ins cat name value tags o} (hx : SealedOk rng x) (h : Live s.db.items o x) :
    Live (update C rng s x p kind ins cat name value tags).1.db.items o (update C rng s x p kind ins cat name value tags).2.1 := by
  unfold update
  have hr := resolveP_same s x p
  have hd := resolveP_db s x p
  split
  · rename_i s' x' e heq; rw [heq] at hr hd; simp only at hd ⊢; rw [hd]; exact live_same hr h
  · rename_i s' x' pid k heq
    rw [heq] at hr hd; simp only at hd
    have hx' : SealedOk rng x' := sealedOk_same hr hx
    have h' : Live s'.db.items o x' := hd ▸ live_same hr h
    simp only
    split
    · have hi := sqlInsertItem_live (pid := pid) (kind := kind) (c := C.searchable k .category (Src.category cat))
        (n := C.searchable k .name (Src.name name)) (v := C.sealValue k (Src.category cat) (Src.name name) (rng x'.ctr) (Src.value value))
        (g := ⟨k, x'.ctr, ⟨kind, cat, name, value, tags.getD []⟩⟩) hx' h' rfl
      split
      · exact live_logged (c := x'.ctr + 1) h'
      · simp only [insertTags_items]; exact hi
    · have hi := sqlUpdateItem_live (pid := pid) (kind := kind) (c := C.searchable k .category (Src.category cat))
        (n := C.searchable k .name (Src.name name)) (v := C.sealValue k (Src.category cat) (Src.name name) (rng x'.ctr) (Src.value value))
        (g := ⟨k, x'.ctr, ⟨kind, cat, name, value, tags.getD []⟩⟩) hx' h' rfl
      split
      · exact live_logged (c := x'.ctr + 1) h'
      · simp only [insertTags_items, sqlDeleteTags]; exact hi

theorem remove_live {C s x p kind cat name o} (h : Live s.db.items o x) :
    Live (remove C s x p kind cat name).1.db.items o (remove C s x p kind cat name).2.1 := by
  unfold remove
  have hr := resolveP_same s x p
  have hd := resolveP_db s x p
  split
  · rename_i s' x' e heq; rw [heq] at hr hd; simp only at hd ⊢; rw [hd]; exact live_same hr h
  · rename_i s' x' pid k heq
    rw [heq] at hr hd; simp only at hd
    have h' : Live s'.db.items o x' := hd ▸ live_same hr h
    simp only
    split
    · exact live_same (same_bind _ _) h'
    · exact live_same (same_bind _ _) (live_filter _ h')

theorem removeAll_live {C like s x p kind cat f o} (h : Live s.db.items o x) :
    Live (removeAll C like s x p kind cat f).1.db.items o (removeAll C like s x p kind cat f).2.1 := by
  unfold removeAll
  have hr := resolveP_same s x p
  have hd := resolveP_db s x p
  split
  · rename_i s' x' e heq; rw [heq] at hr hd; simp only at hd ⊢; rw [hd]; exact live_same hr h
  · rename_i s' x' pid k heq
    rw [heq] at hr hd; simp only at hd
    have h' : Live s'.db.items o x' := hd ▸ live_same hr h
    exact live_same (same_bind _ _) (live_filter _ h')

theorem createProfile_items (C rng s x name) : (createProfile C rng s x name).1.db.items = s.db.items := by
  unfold createProfile
  simp only
  split
  · rfl
  · unfold sqlInsertProfile; split <;> rfl

theorem removeProfile_live {s x name o} (h : Live s.db.items o x) :
    Live (removeProfile s x name).1.db.items o (removeProfile s x name).2.1 :=
  live_same (same_bind _ _) (live_filter _ h)

theorem rewrapAll_items (C rng sk) : ∀ (ps : List PProfile) (db : PDb) (x : Ctx), (rewrapAll C rng sk ps db x).1.items = db.items
  | [], db, x => rfl
  | p :: ps, db, x => by simp only [rewrapAll]; rw [rewrapAll_items C rng sk ps]; rfl

theorem rekey_items (C rng s x m) : (rekey C rng s x m).1.db.items = s.db.items := by
  simp only [rekey, setConfig]; exact rewrapAll_items ..

theorem importRows_live {C rng profile o} :
    ∀ (es : List Entry) (t : PStore) (x : Ctx), SealedOk rng x → Live t.db.items o x →
      Live (importRows C rng profile es t x).1.db.items o (importRows C rng profile es t x).2.1
  | [], t, x, _, h => by simpa [importRows] using h
  | e :: es, t, x, hx, h => by
    simp only [importRows]
    have hu := @update_live C rng t x profile e.kind true e.cat e.name e.value (some e.tags) o hx h
    have hs := @update_sealed C rng t x profile e.kind true e.cat e.name e.value (some e.tags) hx
    split
    · rename_i t' x' err heq; rw [heq] at hu; exact hu
    · rename_i t' x' heq; rw [heq] at hu hs
      exact importRows_live (C := C) (rng := rng) (profile := profile) es t' x' hs hu

/-- `copy_to`: the rows of the source are the "other" rows while the target is filled -/
theorem copyProfiles_live {C rng like} :
    ∀ (ps : List PProfile) (src t : PStore) (x : Ctx), SealedOk rng x → Live t.db.items src.db.items x →
      (copyProfiles C rng like ps src t x).1.db = src.db ∧
      Live (copyProfiles C rng like ps src t x).2.1.db.items src.db.items (copyProfiles C rng like ps src t x).2.2.1
  | [], src, t, x, _, h => by simpa [copyProfiles] using h
  | p :: ps, src, t, x, hx, h => by
    simp only [copyProfiles]
    generalize hpn : (String.fromUTF8? (ByteArray.mk p.name.bytes.toArray)).getD "" = pname
    have hs := select_same C like src x pname none none none
    have hd := select_db C like src x pname none none none
    split
    · rename_i src' x' e heq; rw [heq] at hs hd; exact ⟨hd, live_same hs h⟩
    · rename_i src' x' k rows heq
      rw [heq] at hs hd; simp only at hs hd
      split
      · exact ⟨hd, live_same hs h⟩
      · have hc := createProfile_same C rng t x' pname
        have hci := createProfile_items C rng t x' pname
        have hs2 := select_same C like (createProfile C rng t x' pname).1 (createProfile C rng t x' pname).2.1 pname none none none
        have hd2 := select_db C like (createProfile C rng t x' pname).1 (createProfile C rng t x' pname).2.1 pname none none none
        split
        · rename_i t' x'' e heq2; rw [heq2] at hs2 hd2; simp only at hs2 hd2 ⊢
          rw [hd2, hci]; exact ⟨hd, live_same (same_trans hs (same_trans hc hs2)) h⟩
        · rename_i t' x'' k2 existing heq2
          rw [heq2] at hs2 hd2; simp only at hs2 hd2
          have hsm : Same x x'' := same_trans hs (same_trans hc hs2)
          have hx'' : SealedOk rng x'' := sealedOk_same hsm hx
          have ht' : Live t'.db.items src.db.items x'' := by rw [hd2, hci]; exact live_same hsm h
          split
          · exact ⟨hd, ht'⟩
          · have hi := @importRows_live C rng pname src.db.items (rows.map (·.plain)) t' x'' hx'' ht'
            have his := @importRows_sealed C rng pname (rows.map (·.plain)) t' x'' hx''
            split
            · rename_i t'' x3 e heq3; rw [heq3] at hi; exact ⟨hd, hi⟩
            · rename_i t'' x3 heq3
              rw [heq3] at hi his
              have := copyProfiles_live (C := C) (rng := rng) (like := like) ps src' t'' x3 his (hd ▸ hi)
              rw [hd] at this
              exact ⟨this.1, this.2⟩

theorem live_swap {l o x} (h : Live l o x) (ho : Uniq o) : Live o l x :=
  ⟨ho, fun it hit => h.2.1 it (by simp only [List.mem_append] at hit ⊢; exact hit.symm),
    (List.pairwise_append_comm nix_symm).mp h.2.2⟩

/-- the rows of the copy target, if there is one -/
def copyItems (st : St) : List PItem :=
  match st.copy with
  | none => []
  | some c => c.db.items

/-- the invariant over all live rows of a state -/
def StLive (st : St) : Prop := Live st.main.db.items (copyItems st) st.ctx ∧ Uniq (copyItems st)

theorem copyTo_live {C rng like src x m o} (hx : SealedOk rng x) (h : Live src.db.items o x) :
    Live (copyTo C rng like src x m).1.db.items (copyTo C rng like src x m).2.1.db.items (copyTo C rng like src x m).2.2.1 ∧
    Uniq (copyTo C rng like src x m).2.1.db.items := by
  unfold copyTo
  have hsm : Same x (provision C rng (x.bind [Src.metaStr "default_profile"]) m (defaultProfile src.db)).2 :=
    same_trans (same_bind _ _) (provision_same ..)
  have h0 : Live (provision C rng (x.bind [Src.metaStr "default_profile"]) m (defaultProfile src.db)).1.db.items src.db.items
      (provision C rng (x.bind [Src.metaStr "default_profile"]) m (defaultProfile src.db)).2 := by
    refine live_same hsm ?_
    have hsub : src.db.items.Sublist (src.db.items ++ o) := List.sublist_append_left _ _
    exact ⟨List.Pairwise.nil, fun it hit => h.2.1 it (hsub.subset (by simpa [provision] using hit)),
      by simpa [provision] using h.2.2.sublist hsub⟩
  have := copyProfiles_live (C := C) (rng := rng) (like := like) src.db.profiles src _ _ (sealedOk_same hsm hx) h0
  simp only
  rw [this.1]
  exact ⟨live_swap this.2 h.1, this.2.1⟩

theorem step_live {C rng like st} (op : Op) (hx : SealedOk rng st.ctx) (h : StLive st) : StLive (step C rng like st op).1 := by
  obtain ⟨hl, hu⟩ := h
  cases op with
  | update p k ins c n v t => exact ⟨update_live hx hl, hu⟩
  | remove p k c n => exact ⟨remove_live hl, hu⟩
  | removeAll p k c f => exact ⟨removeAll_live hl, hu⟩
  | fetch p k c n =>
    exact ⟨by simp only [step]; rw [fetch_db]; exact live_same (fetch_same ..) hl, hu⟩
  | count p k c f =>
    exact ⟨by simp only [step]; rw [select_db]; exact live_same (select_same ..) hl, hu⟩
  | scan p k c f =>
    exact ⟨by simp only [step]; rw [select_db]; exact live_same (select_same ..) hl, hu⟩
  | insertKey p n m jwk alg thumbs t => exact ⟨update_live hx hl, hu⟩
  | createProfile n =>
    exact ⟨by simp only [step]; rw [createProfile_items]; exact live_same (createProfile_same ..) hl, hu⟩
  | removeProfile n => exact ⟨removeProfile_live hl, hu⟩
  | setDefault n => exact ⟨live_same (setDefault_same st.main st.ctx n) hl, hu⟩
  | rekey m =>
    exact ⟨by simp only [step]; rw [rekey_items]; exact live_same (rekey_same ..) hl, hu⟩
  | copy m => exact copyTo_live hx hl
  | checkpoint => exact ⟨hl, hu⟩
  | reopen =>
    exact ⟨by simp only [step]; rw [reopen_db]; exact live_same (reopen_same ..) hl, hu⟩

theorem run_live {C rng like} : ∀ (ops : List Op) (st : St), SealedOk rng st.ctx → StLive st → StLive (run C rng like st ops).1
  | [], st, _, h => by simpa [run] using h
  | op :: ops, st, hx, h => by
    simp only [run]
    exact run_live ops _ (step_sealed op hx) (step_live op hx h)

theorem init_live (C rng m p) : StLive (init C rng m p) :=
  ⟨⟨List.Pairwise.nil, fun it hit => by simp [init, provision, copyItems] at hit, by simp [init, provision, copyItems]⟩,
    List.Pairwise.nil⟩

/-- all rows of all stores of a state, main store first -/
theorem stores_items (st : St) : (stores st).flatMap (·.db.items) = st.main.db.items ++ copyItems st := by
  unfold stores copyItems
  cases st.copy <;> simp

theorem stLive_reachable (C : Crypto) (rng : Nat → Nonce) (like : Bytes → Bytes → Bool) (m : Method) (p : String) (ops : List Op) :
    StLive (run C rng like (init C rng m p) ops).1 :=
  run_live ops _ (init_sealed C rng m p) (init_live C rng m p)

/-- every `items.value` column of every store is one of the logged value encryptions -/
theorem values_logged (C : Crypto) (rng : Nat → Nonce) (like : Bytes → Bytes → Bool) (m : Method) (p : String) (ops : List Op) :
    ValuesLogged (run C rng like (init C rng m p) ops).1 := by
  intro s hs it hit
  have h := (stLive_reachable C rng like m p ops).1.2.1 it (by
    rw [← stores_items]; exact List.mem_flatMap.mpr ⟨s, hs, hit⟩)
  exact List.mem_map.mpr ⟨_, h, rfl⟩

/-- …more precisely: the encryption logged at the row's ghost index -/
theorem values_logged_at (C : Crypto) (rng : Nat → Nonce) (like : Bytes → Bytes → Bool) (m : Method) (p : String) (ops : List Op) :
    ∀ s ∈ stores (run C rng like (init C rng m p) ops).1, ∀ it ∈ s.db.items,
      (it.nonceIx, it.value) ∈ (run C rng like (init C rng m p) ops).1.ctx.sealed := by
  intro s hs it hit
  exact (stLive_reachable C rng like m p ops).1.2.1 it (by
    rw [← stores_items]; exact List.mem_flatMap.mpr ⟨s, hs, hit⟩)

/-- Two live rows never hold the same value bytes: the `items.value` columns of ALL rows of ALL stores of a reachable
    state (the store and the target of `copy_to`) are pairwise different byte strings, provided the random stream
    does not repeat among the draws the history consumed. -/
theorem live_values_nodup (C : Crypto) (rng : Nat → Nonce) (like : Bytes → Bytes → Bool) (m : Method) (p : String)
    (ops : List Op) (hinj : InjBelow rng (run C rng like (init C rng m p) ops).1.ctx.ctr) :
    (((stores (run C rng like (init C rng m p) ops).1).flatMap (·.db.items)).map (·.value.bytes)).Nodup := by
  have hs := run_sealed (C := C) (like := like) ops _ (init_sealed C rng m p)
  have hl := (stLive_reachable C rng like m p ops).1
  rw [stores_items]
  generalize (run C rng like (init C rng m p) ops).1 = st at hs hl hinj
  rw [List.Nodup, List.pairwise_map]
  refine (List.Pairwise.and_mem.mp hl.2.2).imp ?_
  intro a b ⟨ha, hb, hab⟩ heq
  obtain ⟨la, ea⟩ := hs.1 _ (hl.2.1 a ha)
  obtain ⟨lb, eb⟩ := hs.1 _ (hl.2.1 b hb)
  simp only at la lb ea eb
  rw [heq] at ea
  exact hab (hinj _ _ la lb (Subtype.ext (ea.symm.trans eb)))

end Lemmas
end Askar.Provenance
