/- Driver for `kind = "c20:…"` cases:
   c20:buf  — operation sequences on SecretBytes (Model A, `AskarModel/Model/SecretBuf.lean`)
   c20:fmt / c20:log / c20:key — formatting, log capture, key drop (Model B, `AskarModel/Model/SecretFmt.lean`) -/
import Driver.Common
import AskarModel.Model.SecretBuf
import AskarModel.Model.SecretFmt

open Lean

namespace Driver.C20
open Askar Askar.SecretBuf
open Askar.SecretFmt (Alg Ty ErrCase LogSite Scenario FmtCfg ObsTy)

/-- data spec `{"s": seed, "n": len}`: byte i = 0x80 + ((s + 37 i + 11 (i / 128)) mod 128) — every content byte has its
    top bit set, which is what the instrumented allocator looks for in released blocks -/
def pat (s n : Nat) : List UInt8 :=
  (List.range n).map fun i => UInt8.ofNat (128 + (s + i * 37 + (i / 128) * 11) % 128)

def data! (j : Json) (k : String) : List UInt8 :=
  match getD? j k with
  | some v => pat (nat! v "s") (nat! v "n")
  | none => []

def parseCtor (j : Json) : Ctor :=
  match str! j "ctor" with
  | "with_capacity" => .withCapacity (nat! j "n")
  | "from" => .fromSlice (data! j "d") (nat! j "extra")
  | "new_with" => .newWith (data! j "d")
  | _ => .default

def parseBufOp (j : Json) : Option BufOp :=
  match str! j "op" with
  | "ensure" => some (.ensureCapacity (nat! j "n"))
  | "reserve" => some (.reserve (nat! j "n"))
  | "extend" => some (.extend (data! j "d"))
  | "write" => some (.extend (data! j "d"))
  | "insert" => some (.insert (nat! j "pos") (data! j "d"))
  | "remove" => some (.remove (nat! j "s") (nat! j "e"))
  | "resize" => some (.resize (nat! j "n"))
  | "bextend" => some (.bextend (data! j "d"))
  | "shrink" => some .shrink
  | "clear" => some .clear
  | "zeroize" => some .zeroize
  | _ => none

def parseOp (j : Json) : Option Op :=
  match str! j "op" with
  | "new" => some (.new (parseCtor j))
  | "clone" => some (.clone (nat! j "i"))
  | "drop" => some (.drop (nat! j "i"))
  | "into_vec" => some (.intoVec (nat! j "i"))
  | "into_boxed" => some (.intoBoxed (nat! j "i"))
  | "ffi_free" => some (.ffiFree (nat! j "i"))
  | _ => (parseBufOp j).map (.buf (nat! j "i"))

def resStr : Res → String
  | .ok => "ok" | .panic => "panic" | .skip => "skip"

def bufJson (diag : Bool) (s : RVec) : List (String × Json) :=
  [("len", jnat s.len), ("v", jvalue s.data)] ++ (if diag then [("cap", jnat s.cap)] else [])

/-- which slot an operation reports on afterwards (the new one for `new`/`clone`) -/
def reportSlot (before : St) (after : St) : Op → Option RVec
  | .new _ | .clone _ => if after.slots.length > before.slots.length then after.slots.getLast? else none
  | .buf i _ => after.slots[i]?
  | .drop _ => none
  | .intoVec i | .intoBoxed i | .ffiFree i => before.slots[i]?     -- the bytes handed to the caller

def eventJson : Event → Json
  | .alloc _ n => Json.arr #[.str "a", jnat n]
  | .free _ cs => Json.arr #[.str "f", jnat cs.length]
  | .realloc _ cs n => Json.arr #[.str "r", jnat cs.length, jnat n]
  | .escape _ cs => Json.arr #[.str "e", jnat cs.length]

def dirty (cs : List Cell) : Bool := cs.any (·.isSome)

def runBuf (j : Json) : Json :=
  let diag := bool! j "diag"
  let P := Params.std
  let rec go (st : St) (ops : List Json) (acc : Array Json) : St × Array Json :=
    match ops with
    | [] => (st, acc)
    | o :: rest =>
      match parseOp o with
      | none => go st rest (acc.push (Json.mkObj [("r", .str "badop")]))
      | some op =>
        let r := step P st op
        let rep := match r.2 with
          | .skip => []
          | _ => match reportSlot st r.1 op with
            | some s =>
              (match op with
               | .intoVec _ | .intoBoxed _ | .ffiFree _ => [("len", jnat s.len), ("v", jvalue s.data)]
               | _ => bufJson diag s)
            | none => []
        go r.1 rest (acc.push (Json.mkObj ([("r", Json.str (resStr r.2))] ++ rep)))
  let (st, outs) := go St.init (arr! j "ops") #[]
  let h := dropAll st.slots st.heap
  let evs := h.log.reverse
  let dirtyFree := (evs.filter fun e => match e with | .free _ cs => dirty cs | _ => false).length
  let reallocData := (evs.filter fun e => match e with | .realloc _ cs _ => dirty cs | _ => false).length
  let fin := [("final", Json.arr (st.slots.map fun s => Json.mkObj (bufJson diag s)).toArray),
              ("dirty_free", jnat dirtyFree), ("realloc_data", jnat reallocData)] ++
             (if diag then [("trace", Json.arr (evs.map eventJson).toArray)] else [])
  Json.arr (outs.push (Json.mkObj fin))

/-! ### Model B -/

def parseAlg (s : String) : Option Alg := Alg.all.find? fun a => a.name == s

def parseTy (s : String) : Option Ty :=
  let parts := s.splitOn ":"
  let head := parts.headD ""
  let arg := (parts.drop 1).headD ""
  match head with
  | "SecretBytes" => some .secretBytes
  | "ArrayKey" => some .arrayKey
  | "PassKey" => some .passKey
  | "Entry" => some .entry
  | "Options" => some (.options (arg.startsWith "query"))
  | "PostgresStoreOptions" => some (.pgOptions (arg.startsWith "query"))
  | "Argon2" => some .argon2
  | "BlsKeyGen" => some .blsKeyGen
  | "RandomDet" => some .randomDet
  | "Encrypted" => some .encrypted
  | "KeyEntry" => some .keyEntry
  | "Store" => some .store
  | "Session" => some .session
  | "JwkParts" => (parseAlg arg).map .jwkParts
  | "Key" => (parseAlg arg).map .key
  | "AnyKey" => (parseAlg arg).map .anyKey
  | "LocalKey" => (parseAlg arg).map .localKey
  | "Error" =>
    match arg with
    | "secret_bytes_len" => some (.error .secretBytesLen)
    | "jwk_mismatch" => some (.error .jwkMismatch)
    | "jwk_garbage" => some (.error .jwkGarbage)
    | "bad_raw_key" => some (.error .badRawKey)
    | "wrong_pass_key" => some (.error .wrongPassKey)
    | "decrypt_bad_tag" => some (.error .decryptBadTag)
    | "storage_garbage_file" => some (.error .storageGarbageFile)
    | "top_garbage_file" => some (.error .topGarbageFile)
    | "storage_on_directory" => some (.error .storageOnDirectory)
    | "storage_missing_dir" => some (.error .storageMissingDir)
    | "storage_unknown_scheme" => some (.error .storageUnknownScheme)
    | "storage_bad_param" => some (.error .storageBadParam)
    | "storage_kind_only" => some (.error .storageKindOnly)
    | "crypto_jwk_garbage" => some (.error .cryptoJwkGarbage)
    | "crypto_secret_len" => some (.error .cryptoSecretLen)
    | "crypto_bad_tag" => some (.error .cryptoBadTag)
    | _ => none
  | "Scan" => some .scan
  | _ => none

def parseObs (s : String) : Option ObsTy :=
  match s with
  | "Obs:SecretBytesAsHex" => some .secretBytesAsHex
  | "Obs:EntryTagPlaintext" => some .entryTagPlaintext
  | "Obs:EntryTagEncrypted" => some .entryTagEncrypted
  | "Obs:EntryTags" => some .entryTags
  | "Obs:TagFilter" => some .tagFilter
  | _ => none

def runFmt (j : Json) : Json :=
  match parseObs (str! j "ty") with
  | some o => Json.mkObj [("leak", .bool (SecretFmt.obsLeaky o)), ("obs", .bool true)]
  | none =>
    match parseTy (str! j "ty") with
    | some (.error c) => Json.mkObj [("leak", .bool (SecretFmt.leaky FmtCfg.current (.error c))), ("chain", jnat c.chain)]
    | some t => Json.mkObj [("leak", .bool (SecretFmt.leaky FmtCfg.current t))]
    | none => jerr "unknown type"

def stepsJson (l : List (String × Bool)) : Json :=
  Json.arr (l.map fun (s, b) => Json.arr #[.str s, .bool b]).toArray

/-- outcome (success / failure) of the steps of the store life cycle the harness walks through while capturing the log -/
def lifecycleSteps : List (String × Bool) :=
  [("provision", true), ("insert", true), ("insert-duplicate", false), ("fetch", true), ("fetch_all", true), ("count", true),
   ("replace-missing", false), ("key-ops", true), ("fetch_all_keys", true), ("scan", true), ("remove_all", true), ("rekey", true),
   ("open", true), ("open-old-key", false), ("open-wrong-pass", false), ("open-missing", false), ("remove", true)]

def runLog (j : Json) : Json :=
  let sc := str! j "scenario"
  let parts := sc.splitOn ":"
  let head := parts.headD ""
  let arg := (parts.drop 1).headD ""
  match head with
  | "lifecycle" =>
    -- file-backed SQLite URI without credentials; the any.rs sites fire (open / provision / remove) together with label-only sites
    let s : Scenario := ⟨[.anyOptions, .label], false⟩
    Json.mkObj [("leak", .bool (s.leaks FmtCfg.current)), ("steps", stepsJson lifecycleSteps)]
  | "uri" =>
    let s : Scenario := ⟨[.anyOptions, .label], true⟩
    let ew := arg.splitOn "/"
    let entry := ew.headD ""
    let which := (ew.drop 1).headD "postgres"
    -- nothing connects; removing a SQLite file that does not exist is `Ok(false)`
    let ok := entry == "remove" && which.startsWith "sqlite"
    Json.mkObj [("leak", .bool (s.leaks FmtCfg.current)), ("steps", stepsJson [(entry ++ "-" ++ which, ok)])]
  | _ => jerr "unknown scenario"

def runKey (j : Json) : Json :=
  let ty := str! j "ty"
  if ty == "Store" then
    -- inline keys moved through boxed futures are outside the model (DESIGN C20, "Partial"): diagnostic only
    Json.mkObj [("dirty_release", .str "diagnostic")]
  else
    let blk : SecretFmt.KeyBlock := ⟨[1, 2, 3]⟩
    Json.mkObj [("dirty_release", .bool ((SecretFmt.dropKey blk).cells.any (· != 0)))]

/-! ### the C API -/

/-- the error chains the C API's JSON is made of are label chains (message = literal text): the model's verdict on the JSON -/
def labelChain : List SecretFmt.ErrLink :=
  [⟨"Backend error", some [.text "Error connecting to database pool"]⟩, ⟨"sqlx", some [.text "error returned from database"]⟩]

def errorJsonLeak : Bool := (SecretFmt.errJson labelChain).any SecretFmt.Tok.isSecret

/-- one exported buffer of `len` bytes (`model_input.lens`): whatever capacity the `SecretBytes` had inside the library (`slack`
    stale cells), `from_secret` + `askar_buffer_free` release exactly `len` cells, all wiped — or nothing for an empty buffer -/
def ffiBuf (len slack : Nat) : Json × Bool :=
  let s : RVec := ⟨1, (List.range len).map (fun i => UInt8.ofNat (128 + i % 128)), List.replicate slack (some 0xAA)⟩
  let h0 : Heap := ⟨2, []⟩
  let r := ffiFromSecret Params.std s h0
  let h := ffiBufferFree r.1 r.2
  -- the release of the exported block is the newest event (if any event is newer than the export)
  let freed : Option (List Cell) :=
    if h.log.length > r.2.log.length then (match h.log.head? with | some (.free _ cs) => some cs | _ => none) else none
  let dirtyAny := h.log.any fun e => match e with | .free _ cs => dirty cs | .realloc _ cs _ => dirty cs | _ => false
  (Json.mkObj [("len", jnat r.1.len),
               ("freed", match freed with | some cs => jnat cs.length | none => Json.null),
               ("nonzero", jnat (match freed with | some cs => (cs.filter (·.isSome)).length | none => 0))], dirtyAny)

def runFfi (j : Json) : Json :=
  let lens := (arr! j "lens").map fun v => v.getNat?.toOption.getD 0
  let slack := nat! j "n" % 7
  let rs := lens.map fun n => ffiBuf n slack
  Json.mkObj [("bufs", Json.arr (rs.map (·.1)).toArray), ("dirty_release", .bool (rs.any (·.2))), ("error_json_leak", .bool errorJsonLeak)]

def ffiLifecycleSteps : List (String × Bool) :=
  [("provision", true), ("insert", true), ("insert-duplicate", false), ("fetch", true), ("fetch_all", true), ("count", true),
   ("replace-missing", false), ("key-ops", true), ("aead-wrong-aad", false), ("key-import-short", false),
   ("key-import-truncated-jwk", false), ("key-import-mismatched-jwk", false), ("fetch_all_keys", true), ("scan", true),
   ("remove_all", true), ("rekey", true), ("open", true), ("open-old-key", false), ("open-wrong-pass", false),
   ("open-missing", false), ("remove", true)]

def runFfiLog (j : Json) : Json :=
  let sc := str! j "scenario"
  let head := (sc.splitOn ":").headD ""
  match head with
  | "lifecycle" =>
    let s : Scenario := ⟨[.ffiLabel, .anyOptions, .label], false⟩
    Json.mkObj [("leak", .bool (s.leaks FmtCfg.current)), ("error_json_leak", .bool errorJsonLeak), ("steps", stepsJson ffiLifecycleSteps)]
  | "uri" =>
    let s : Scenario := ⟨[.ffiLabel, .anyOptions, .label], true⟩
    -- nothing connects; removing a SQLite file that does not exist is `Ok(false)` (a successful call)
    let steps := (["postgres", "postgres-encoded", "postgres-query-encoded", "postgres-adminpw-only", "sqlite-query-encoded", "unknown-scheme", "sqlite", "bad-percent"].map
      fun which => ["open", "provision", "remove"].map fun entry =>
        (entry ++ "-" ++ which, entry == "remove" && (which.startsWith "sqlite" || which == "bad-percent"))).flatten
    Json.mkObj [("leak", .bool (s.leaks FmtCfg.current)), ("error_json_leak", .bool errorJsonLeak), ("steps", stepsJson steps)]
  | _ => jerr "unknown scenario"

def runCase (j : Json) : Json :=
  match str! j "kind" with
  | "c20:ffi" => runFfi j
  | "c20:ffilog" => runFfiLog j
  | "c20:buf" => runBuf j
  | "c20:fmt" => runFmt j
  | "c20:log" => runLog j
  | "c20:key" => runKey j
  | k => jerr ("unknown kind " ++ k)

end Driver.C20
