/-
Logical model of the SQLite backend (askar-storage/src/backend/sqlite/mod.rs + db_utils.rs):
the `items` / `items_tags` / `profiles` tables at the level of decrypted content, the fixed
statements, the key cache, paging and windows.

Encryption is abstracted to *key identities*: every profile key ever generated gets a fresh
number; a stored row remembers the key it was encrypted under.  A row whose key differs from the
session's key can be matched by no encrypted lookup (searchable encryption is keyed) and fails
to decrypt when a scan touches it.  The byte-level layer is Model/Crypto*.lean (C02/C03/C09).

Time: `now` (ms since epoch) is a field of the state, advanced only by explicit `tick` operations
(the correspondence harness moves time by rewriting stored timestamps, see DESIGN C17).
-/
import AskarModel.Model.Wql

namespace Askar.Store
open Askar.Wql

/-- `ErrorKind` names of askar-storage plus `Panic`. -/
inductive Err | backend | busy | custom | duplicate | encryption | input | notFound | unexpected | unsupported | panic
  deriving DecidableEq, Repr, Inhabited

def Err.name : Err → String
  | .backend => "Backend" | .busy => "Busy" | .custom => "Custom" | .duplicate => "Duplicate"
  | .encryption => "Encryption" | .input => "Input" | .notFound => "NotFound"
  | .unexpected => "Unexpected" | .unsupported => "Unsupported" | .panic => "Panic"

/-- `EntryKind as i16`: Kms = 1, Item = 2 -/
abbrev Kind := Nat

structure Item where
  id : Nat
  pid : Nat
  key : Nat                 -- identity of the profile key the row is encrypted under
  kind : Kind
  cat : String
  name : String
  value : Bytes
  tags : List Tag
  expiry : Option Int       -- absolute, ms since epoch
  deriving Repr, Inhabited

structure Profile where
  id : Nat
  name : String
  key : Nat
  deriving Repr, Inhabited

structure Db where
  items : List Item := []
  profiles : List Profile := []
  deriving Repr, Inhabited

/-- A record as returned to the caller. -/
structure Entry where
  kind : Kind
  cat : String
  name : String
  value : Bytes
  tags : List Tag
  deriving Repr, Inhabited, DecidableEq

/-! ### SQLite facts (assumed; validated by the correspondence runs) -/

/-- rowid of a new row: `max(rowid) + 1` (no AUTOINCREMENT: ids are reused after the largest is deleted) -/
def nextId (ids : List Nat) : Nat := ids.foldl max 0 + 1

/-- last representable instant: 9999-12-31T23:59:59Z, in seconds -/
def maxDatetimeSec : Int := 253402300799

/-- `expiry IS NULL OR DATETIME(expiry) > DATETIME('now')` — one-second resolution, truncating;
    `DATETIME` yields NULL (so the comparison is not true) outside years 0000–9999. -/
def live (now : Int) (it : Item) : Bool :=
  match it.expiry with
  | none => true
  | some e => decide (e / 1000 > now / 1000) && decide (e / 1000 ≤ maxDatetimeSec) && decide (-62167219200 ≤ e / 1000)

/-- chrono's representable range for `Utc::now().checked_add_signed(..)` (years ±262143), in ms -/
def chronoMaxMs : Int := 8210298412799999
def chronoMinMs : Int := -8334632851200000

/-- `expiry_timestamp` -/
def expiryTimestamp (now : Int) (ms : Int) : Except Err Int :=
  let t := now + ms
  if t > chronoMaxMs || t < chronoMinMs then .error .unexpected else .ok t

/-! ### Statements -/

/-- the unique index `(profile_id, kind, category, name)` on *stored* (encrypted) columns:
    two rows collide iff same profile, kind, key and plaintext identity -/
def Item.sameIdent (it : Item) (pid key : Nat) (kind : Kind) (cat name : String) : Bool :=
  it.pid == pid && it.key == key && it.kind == kind && it.cat == cat && it.name == name

/-- `kind = ?2 OR ?2 IS NULL`, `category = ?3 OR ?3 IS NULL` (the category bound is encrypted under
    the session key, so it can only equal a column encrypted under the same key) -/
def Item.inScope (it : Item) (pid key : Nat) (kind : Option Kind) (cat : Option String) : Bool :=
  it.pid == pid &&
  (match kind with | none => true | some k => it.kind == k) &&
  (match cat with | none => true | some c => it.key == key && it.cat == c)

/-- The tag filter as the code evaluates it: encoder model + SQL meaning, on the row's stored tags. -/
def matchTags (like : Bytes → Bytes → Bool) (f : Option (Query String)) (tags : List Tag) : Bool :=
  match f with
  | none => true
  | some q => evalFilter like (encodeQuery TagCrypto.toy (tagQuery q)) (tags.map TagCrypto.toy.encTag)

def matchFilter (like : Bytes → Bytes → Bool) (f : Option (Query String)) (it : Item) : Bool :=
  matchTags like f it.tags

/-- `limit_query`: ` LIMIT off, lim` with negative offset = 0 and negative limit = unlimited -/
def window (off : Option Int) (lim : Option Int) (rows : List α) : List α :=
  match off, lim with
  | none, none => rows
  | _, _ =>
    let o := (off.getD 0).toNat
    let l := lim.getD (-1)
    let dropped := rows.drop o
    if l < 0 then dropped else dropped.take l.toNat

/-- insertion sort by id (rows are few; keeps the model free of library sorting lemmas) -/
def insertById (x : Item) : List Item → List Item
  | [] => [x]
  | y :: ys => if x.id ≤ y.id then x :: y :: ys else y :: insertById x ys

def sortById (l : List Item) : List Item := l.foldr insertById []

/-- Rows a SCAN_QUERY execution yields, in the order SQLite yields them when `ORDER BY id` is
    requested; without ORDER BY the order is unspecified (the driver reports it sorted and the
    harness compares as multisets). -/
def selectRows (like : Bytes → Bytes → Bool) (db : Db) (now : Int) (pid key : Nat) (kind : Option Kind) (cat : Option String)
    (f : Option (Query String)) (off lim : Option Int) (desc : Bool) : List Item :=
  let rows := sortById (db.items.filter fun it => it.inScope pid key kind cat && live now it && matchFilter like f it)
  window off lim (if desc then rows.reverse else rows)

/-- `decrypt_scan_entry`: a row under a foreign key fails to decrypt -/
def decryptRow (key : Nat) (it : Item) : Except Err Entry :=
  if it.key == key then .ok ⟨it.kind, it.cat, it.name, it.value, it.tags⟩ else .error .encryption

def decryptRows (key : Nat) : List Item → Except Err (List Entry)
  | [] => .ok []
  | it :: rest =>
    match decryptRow key it, decryptRows key rest with
    | .ok e, .ok es => .ok (e :: es)
    | .error e, _ => .error e
    | _, .error e => .error e

/-- `perform_scan` batching: full pages of `p`, then a final non-empty partial page -/
def batches (p : Nat) (rows : List α) : List (List α) :=
  if _h : p = 0 then [rows] else
  if rows.length ≤ p then (if rows.isEmpty then [] else [rows])
  else rows.take p :: batches p (rows.drop p)
termination_by rows.length
decreasing_by simp; omega

/-- `Scan::fetch_next` driven to exhaustion: the stream is kept only after a full page. -/
def drainScan (p : Nat) : List (List α) → List (List α)
  | [] => []
  | b :: bs => if b.length == p then b :: drainScan p bs else [b]

/-! ### Operations of one session (profile id and key already resolved) -/

structure Sess where
  pid : Nat
  key : Nat
  deriving Repr, Inhabited

def doInsert (db : Db) (now : Int) (s : Sess) (kind : Kind) (cat name : String) (value : Bytes)
    (tags : Option (List Tag)) (expiryMs : Option Int) : Except Err Db :=
  match (match expiryMs with | none => Except.ok none | some ms => (expiryTimestamp now ms).map some) with
  | .error e => .error e
  | .ok exp =>
    if db.items.any (·.sameIdent s.pid s.key kind cat name) then .error .duplicate
    else
      let row : Item := { id := nextId (db.items.map (·.id)), pid := s.pid, key := s.key, kind := kind,
                          cat := cat, name := name, value := value, tags := tags.getD [], expiry := exp }
      .ok { db with items := db.items ++ [row] }

def doReplace (db : Db) (now : Int) (s : Sess) (kind : Kind) (cat name : String) (value : Bytes)
    (tags : Option (List Tag)) (expiryMs : Option Int) : Except Err Db :=
  match (match expiryMs with | none => Except.ok none | some ms => (expiryTimestamp now ms).map some) with
  | .error e => .error e
  | .ok exp =>
    if db.items.any (·.sameIdent s.pid s.key kind cat name) then
      .ok { db with items := db.items.map fun it =>
              if it.sameIdent s.pid s.key kind cat name then { it with value := value, tags := tags.getD [], expiry := exp } else it }
    else .error .notFound

def doRemove (db : Db) (s : Sess) (kind : Kind) (cat name : String) : Except Err Db :=
  if db.items.any (·.sameIdent s.pid s.key kind cat name) then
    .ok { db with items := db.items.filter fun it => !it.sameIdent s.pid s.key kind cat name }
  else .error .notFound

/-- DELETE_ALL_QUERY has no expiry atom: expired rows are removed and counted too -/
def doRemoveAll (like : Bytes → Bytes → Bool) (db : Db) (s : Sess) (kind : Option Kind) (cat : Option String)
    (f : Option (Query String)) : Db × Nat :=
  let hit := fun (it : Item) => it.inScope s.pid s.key kind cat && matchFilter like f it
  ({ db with items := db.items.filter fun it => !hit it }, (db.items.filter hit).length)

def doFetch (db : Db) (now : Int) (s : Sess) (kind : Kind) (cat name : String) : Option Entry :=
  match db.items.find? fun it => it.sameIdent s.pid s.key kind cat name && live now it with
  | none => none
  | some it => some ⟨it.kind, it.cat, it.name, it.value, it.tags⟩

def doCount (like : Bytes → Bytes → Bool) (db : Db) (now : Int) (s : Sess) (kind : Option Kind) (cat : Option String)
    (f : Option (Query String)) : Nat :=
  (db.items.filter fun it => it.inScope s.pid s.key kind cat && live now it && matchFilter like f it).length

def doFetchAll (like : Bytes → Bytes → Bool) (db : Db) (now : Int) (s : Sess) (kind : Option Kind) (cat : Option String)
    (f : Option (Query String)) (lim : Option Int) (desc : Bool) : Except Err (List Entry) :=
  decryptRows s.key (selectRows like db now s.pid s.key kind cat f none lim desc)

/-- pages as `Scan::fetch_next` returns them -/
def doScan (like : Bytes → Bytes → Bool) (page : Nat) (db : Db) (now : Int) (s : Sess) (kind : Option Kind) (cat : Option String)
    (f : Option (Query String)) (off lim : Option Int) (desc : Bool) : Except Err (List (List Entry)) :=
  match decryptRows s.key (selectRows like db now s.pid s.key kind cat f off lim desc) with
  | .error e => .error e
  | .ok es => .ok (drainScan page (batches page es))

/-! ### One call of a session, as data (the quantifier of C01/C04/C07/C16/C17 ranges over lists of these) -/

inductive Op
  | insert (kind : Kind) (cat name : String) (value : Bytes) (tags : Option (List Tag)) (expiryMs : Option Int)
  | replace (kind : Kind) (cat name : String) (value : Bytes) (tags : Option (List Tag)) (expiryMs : Option Int)
  | remove (kind : Kind) (cat name : String)
  | removeAll (kind : Option Kind) (cat : Option String) (f : Option (Query String))
  | fetch (kind : Kind) (cat name : String)
  | fetchAll (kind : Option Kind) (cat : Option String) (f : Option (Query String)) (lim : Option Int) (desc : Bool)
  | count (kind : Option Kind) (cat : Option String) (f : Option (Query String))
  | scan (kind : Option Kind) (cat : Option String) (f : Option (Query String)) (off lim : Option Int) (desc : Bool)
  deriving Repr, Inhabited

inductive Out
  | ok
  | err (e : Err)
  | entry (e : Option Entry)
  | entries (es : List Entry)
  | count (n : Nat)
  | pages (ps : List (List Entry))
  deriving Repr, Inhabited, DecidableEq

/-- One call of a session with resolved profile id and key, at model time `now`. -/
def step (like : Bytes → Bytes → Bool) (page : Nat) (now : Int) (s : Sess) (db : Db) : Op → Db × Out
  | .insert k c n v t e =>
    match doInsert db now s k c n v t e with
    | .ok db' => (db', .ok)
    | .error e => (db, .err e)
  | .replace k c n v t e =>
    match doReplace db now s k c n v t e with
    | .ok db' => (db', .ok)
    | .error e => (db, .err e)
  | .remove k c n =>
    match doRemove db s k c n with
    | .ok db' => (db', .ok)
    | .error e => (db, .err e)
  | .removeAll k c f => let (db', n) := doRemoveAll like db s k c f; (db', .count n)
  | .fetch k c n => (db, .entry (doFetch db now s k c n))
  | .fetchAll k c f lim desc =>
    match doFetchAll like db now s k c f lim desc with
    | .ok es => (db, .entries es)
    | .error e => (db, .err e)
  | .count k c f => (db, .count (doCount like db now s k c f))
  | .scan k c f off lim desc =>
    match doScan like page db now s k c f off lim desc with
    | .ok ps => (db, .pages ps)
    | .error e => (db, .err e)

/-- A whole call sequence; returns the final database and the outputs in order. -/
def run (like : Bytes → Bytes → Bool) (page : Nat) (now : Int) (s : Sess) : Db → List Op → Db × List Out
  | db, [] => (db, [])
  | db, op :: ops =>
    let (db1, o) := step like page now s db op
    let (db2, os) := run like page now s db1 ops
    (db2, o :: os)

/-- consecutive windows of widths `ws` starting at `off`, then the unbounded rest (C16) -/
def consecutive {α} (rows : List α) : Nat → List Nat → List (List α)
  | off, [] => [window (some (off : Int)) none rows]
  | off, w :: ws => window (some (off : Int)) (some (w : Int)) rows :: consecutive rows (off + w) ws


/-- ids increase along the `items` list (the list is in creation order by construction) -/
def Sorted (db : Db) : Prop := (db.items.map (·.id)).Pairwise (· < ·)

/-! ### Profiles and the key cache of one store handle -/

structure Handle where
  cache : List (String × Nat × Nat) := []     -- name ↦ (profile id, key identity)
  nextKey : Nat := 1                           -- fresh key identities
  deriving Repr, Inhabited

def cacheGet (c : List (String × Nat × Nat)) (name : String) : Option (Nat × Nat) :=
  (c.find? (·.1 == name)).map (·.2)

def cachePut (c : List (String × Nat × Nat)) (name : String) (v : Nat × Nat) : List (String × Nat × Nat) :=
  (name, v) :: c.filter (·.1 != name)

/-- `resolve_profile_key`: cache first, table second -/
def resolve (db : Db) (h : Handle) (name : String) : Except Err (Sess × Handle) :=
  match cacheGet h.cache name with
  | some (pid, key) => .ok (⟨pid, key⟩, h)
  | none =>
    match db.profiles.find? (·.name == name) with
    | some p => .ok (⟨p.id, p.key⟩, { h with cache := cachePut h.cache name (p.id, p.key) })
    | none => .error .notFound

def createProfile (db : Db) (h : Handle) (name : String) : Except Err (Db × Handle) :=
  if db.profiles.any (·.name == name) then .error .duplicate
  else
    let id := nextId (db.profiles.map (·.id))
    .ok ({ db with profiles := db.profiles ++ [⟨id, name, h.nextKey⟩] },
         { cache := cachePut h.cache name (id, h.nextKey), nextKey := h.nextKey + 1 })

/-- Does `remove_profile` evict the removed profile from the handle's key cache?  Follows the code
    (after the repair of defect D7: yes; see known-findings.json). -/
def evictOnRemove : Bool := true

/-- `remove_profile`: the row is deleted and items cascade; the cache entry is evicted. -/
def removeProfile (db : Db) (h : Handle) (name : String) (evict : Bool) : (Db × Handle) × Bool :=
  let h' := if evict then { h with cache := h.cache.filter (·.1 != name) } else h
  match db.profiles.find? (·.name == name) with
  | none => ((db, h'), false)
  | some p =>
    (({ items := db.items.filter (·.pid != p.id), profiles := db.profiles.filter (·.name != name) }, h'), true)

/-- `ping`: `SELECT COUNT(*) FROM profiles WHERE id = ?` -/
def ping (db : Db) (s : Sess) : Except Err Unit :=
  if db.profiles.any (·.id == s.pid) then .ok () else .error .notFound

end Askar.Store
