//! askar_harness: generates cases and runs them against the real aries-askar code.
//!   askar_harness gen <prop> --seed N --tier quick|thorough [--count N]   -> case lines on stdout
//!   askar_harness exec [--threads N]   (case lines on stdin)                -> result lines on stdout
mod canon;
mod gen_store;
mod rawsql;
mod rng;
mod store_case;
#[cfg(feature = "c04s")]
mod c04s;
#[cfg(feature = "c02")]
mod c02;
#[cfg(feature = "c03")]
mod c03;
#[cfg(feature = "c06")]
mod c06;
#[cfg(feature = "c06s")]
mod c06s;
#[cfg(feature = "c07h")]
mod c07h;
#[cfg(feature = "c08")]
mod c08;
#[cfg(feature = "c09")]
mod c09;
#[cfg(feature = "c10")]
mod c10;
#[cfg(feature = "c11")]
mod c11;
#[cfg(feature = "c12")]
mod c12;
#[cfg(feature = "c13")]
mod c13;
#[cfg(feature = "c14")]
mod c14;
#[cfg(feature = "c15")]
mod c15;
#[cfg(feature = "c18")]
mod c18;
#[cfg(feature = "c19")]
mod c19;
#[cfg(feature = "c20")]
mod c20;

// C20: the instrumented allocator observes every dealloc / realloc while tracking is on (thread-local flag)
#[cfg(feature = "c20")]
#[global_allocator]
static C20_ALLOC: c20::TrackingAlloc = c20::TrackingAlloc;

use rng::Rng;
use serde_json::{json, Value};
use std::io::{BufRead, Write};
use std::sync::{Arc, Mutex};

fn arg_val(args: &[String], name: &str) -> Option<String> {
    args.iter().position(|a| a == name).and_then(|i| args.get(i + 1).cloned())
}

fn page_size() -> usize {
    std::env::var("VERIF_PAGE_SIZE").ok().and_then(|s| s.parse().ok()).unwrap_or(32)
}

fn gen(prop: &str, seed: u64, thorough: bool, count: Option<usize>) -> Vec<Value> {
    let mut r = Rng::new(seed ^ prop.bytes().fold(0u64, |a, b| a.wrapping_mul(131).wrapping_add(b as u64)));
    let mut out = vec![];
    let n = |q: usize, t: usize| count.unwrap_or(if thorough { t } else { q });
    match prop {
        "C01" => for i in 0..n(300, 6000) { let mut rr = r.fork(); out.push(gen_store::gen_c01(&mut rr, i as u64, thorough)); },
        "C04" => {
            for i in 0..n(300, 6000) { let mut rr = r.fork(); out.push(gen_store::gen_c04(&mut rr, i as u64, thorough)); }
            for i in 0..n(120, 2400) { let mut rr = r.fork(); out.push(gen_store::gen_c04_json_malformed(&mut rr, i as u64, thorough)); }
        },
        "C05" => for i in 0..n(150, 3000) { let mut rr = r.fork(); out.push(gen_store::gen_c05(&mut rr, i as u64, thorough)); },
        "C06" => for i in 0..n(200, 3000) { let mut rr = r.fork(); out.push(gen_store::gen_c06(&mut rr, i as u64, thorough)); },
        #[cfg(feature = "c06")]
        "C06K" => out = c06::gen(&mut r, thorough, count),
        #[cfg(feature = "c06s")]
        "C06S" => out = c06s::gen(&mut r, thorough, count),
        #[cfg(feature = "c07h")]
        "C07H" => out = c07h::gen(&mut r, thorough, count),
        "C07" => for i in 0..n(200, 4000) { let mut rr = r.fork(); out.push(gen_store::gen_c07(&mut rr, i as u64, thorough)); },
        "C16" => for i in 0..n(120, 1500) { let mut rr = r.fork(); out.push(gen_store::gen_c16(&mut rr, i as u64, page_size(), thorough)); },
        "C17" => for i in 0..n(300, 4000) { let mut rr = r.fork(); out.push(gen_store::gen_c17(&mut rr, i as u64, thorough)); },
        #[cfg(feature = "c04s")]
        "C04S" => out = c04s::gen(&mut r, thorough, count),
        #[cfg(feature = "c02")]
        "C02" => out = c02::gen(&mut r, thorough, count),
        #[cfg(feature = "c03")]
        "C03" => out = c03::gen(&mut r, thorough, count),
        #[cfg(feature = "c08")]
        "C08" => out = c08::gen(&mut r, thorough, count),
        #[cfg(feature = "c09")]
        "C09" => out = c09::gen(&mut r, thorough, count),
        #[cfg(feature = "c10")]
        "C10" => out = c10::gen(&mut r, thorough, count),
        #[cfg(feature = "c11")]
        "C11" => out = c11::gen(&mut r, thorough, count),
        #[cfg(feature = "c12")]
        "C12" => out = c12::gen(&mut r, thorough, count),
        #[cfg(feature = "c13")]
        "C13" => out = c13::gen(&mut r, thorough, count),
        #[cfg(feature = "c14")]
        "C14" => out = c14::gen(&mut r, thorough, count),
        #[cfg(feature = "c15")]
        "C15" => out = c15::gen(&mut r, thorough, count),
        #[cfg(feature = "c18")]
        "C18" => out = c18::gen(&mut r, thorough, count),
        #[cfg(feature = "c19")]
        "C19" => out = c19::gen(&mut r, thorough, count),
        #[cfg(feature = "c20")]
        "C20" => out = c20::gen(&mut r, thorough, count),
        _ => { eprintln!("unknown property {}", prop); std::process::exit(2); }
    }
    out
}

fn exec_case(case: &Value, tag: &str) -> Value {
    let kind = case["kind"].as_str().unwrap_or("");
    let res = std::panic::catch_unwind(std::panic::AssertUnwindSafe(|| match kind {
        "store" => store_case::exec(case, tag),
        "c04j" => gen_store::c04j::exec(case, tag),
        #[cfg(feature = "c04s")]
        k if k == "c04s" || k.starts_with("c04s:") => c04s::exec(case, tag),
        #[cfg(feature = "c02")]
        k if k == "c02" || k.starts_with("c02:") => c02::exec(case, tag),
        #[cfg(feature = "c03")]
        k if k == "c03" || k.starts_with("c03:") => c03::exec(case, tag),
        #[cfg(feature = "c06")]
        k if k == "c06" || k.starts_with("c06:") => c06::exec(case, tag),
        #[cfg(feature = "c06s")]
        k if k == "c06s" || k.starts_with("c06s:") => c06s::exec(case, tag),
        #[cfg(feature = "c07h")]
        k if k == "c07h" || k.starts_with("c07h:") => c07h::exec(case, tag),
        #[cfg(feature = "c08")]
        k if k == "c08" || k.starts_with("c08:") => c08::exec(case, tag),
        #[cfg(feature = "c09")]
        k if k == "c09" || k.starts_with("c09:") => c09::exec(case, tag),
        #[cfg(feature = "c10")]
        k if k == "c10" || k.starts_with("c10:") => c10::exec(case, tag),
        #[cfg(feature = "c11")]
        k if k == "c11" || k.starts_with("c11:") => c11::exec(case, tag),
        #[cfg(feature = "c12")]
        k if k == "c12" || k.starts_with("c12:") => c12::exec(case, tag),
        #[cfg(feature = "c13")]
        k if k == "c13" || k.starts_with("c13:") => c13::exec(case, tag),
        #[cfg(feature = "c14")]
        k if k == "c14" || k.starts_with("c14:") => c14::exec(case, tag),
        #[cfg(feature = "c15")]
        k if k == "c15" || k.starts_with("c15:") => c15::exec(case, tag),
        #[cfg(feature = "c18")]
        k if k == "c18" || k.starts_with("c18:") => c18::exec(case, tag),
        #[cfg(feature = "c19")]
        k if k == "c19" || k.starts_with("c19:") => c19::exec(case, tag),
        #[cfg(feature = "c20")]
        k if k == "c20" || k.starts_with("c20:") => c20::exec(case, tag),
        _ => json!({"out": {"err": format!("unknown kind {}", kind)}}),
    }));
    let mut v = match res {
        Ok(v) => v,
        Err(p) => {
            let msg = p.downcast_ref::<String>().cloned().or_else(|| p.downcast_ref::<&str>().map(|s| s.to_string())).unwrap_or_default();
            json!({"out": {"panic": msg.clone()}, "oracle": [{"sig": format!("panic: {}", msg.chars().take(120).collect::<String>()), "msg": msg}]})
        }
    };
    v["id"] = case["id"].clone();
    v
}

fn main() {
    let args: Vec<String> = std::env::args().collect();
    if args.len() < 2 { eprintln!("usage: askar_harness gen|exec ..."); std::process::exit(2); }
    match args[1].as_str() {
        #[cfg(feature = "c06")]
        "child-c06" => c06::child_main(&args[2..]),
        #[cfg(feature = "c06s")]
        "child-c06s" => c06s::child_main(&args[2..]),
        "gen" => {
            let prop = args.get(2).cloned().unwrap_or_default();
            let seed: u64 = arg_val(&args, "--seed").and_then(|s| s.parse().ok()).unwrap_or(1);
            let thorough = arg_val(&args, "--tier").map_or(false, |t| t == "thorough");
            let count = arg_val(&args, "--count").and_then(|s| s.parse().ok());
            let out = std::io::stdout();
            let mut w = std::io::BufWriter::new(out.lock());
            for c in gen(&prop, seed, thorough, count) { writeln!(w, "{}", c).unwrap(); }
        }
        "exec" => {
            let threads: usize = arg_val(&args, "--threads").and_then(|s| s.parse().ok()).unwrap_or(8);
            let stdin = std::io::stdin();
            let cases: Vec<Value> = stdin.lock().lines().filter_map(|l| l.ok()).filter(|l| !l.trim().is_empty())
                .map(|l| serde_json::from_str(&l).expect("case json")).collect();
            // silence the default panic hook (panics are reported per case)
            std::panic::set_hook(Box::new(|_| {}));
            let n = cases.len();
            let cases = Arc::new(cases);
            let next = Arc::new(Mutex::new(0usize));
            let results: Arc<Mutex<Vec<Option<Value>>>> = Arc::new(Mutex::new(vec![None; n]));
            let mut hs = vec![];
            for t in 0..threads.max(1) {
                let (cases, next, results) = (cases.clone(), next.clone(), results.clone());
                hs.push(std::thread::spawn(move || loop {
                    let i = { let mut g = next.lock().unwrap(); let i = *g; *g += 1; i };
                    if i >= cases.len() { break; }
                    let r = exec_case(&cases[i], &format!("{}-{}", t, i));
                    results.lock().unwrap()[i] = Some(r);
                }));
            }
            for h in hs { h.join().ok(); }
            let out = std::io::stdout();
            let mut w = std::io::BufWriter::new(out.lock());
            for r in results.lock().unwrap().iter() { writeln!(w, "{}", r.clone().unwrap_or(json!({"out": {"err": "worker died"}}))).unwrap(); }
            w.flush().unwrap();
            std::fs::remove_dir_all(store_case::scratch_dir()).ok();
        }
        _ => { eprintln!("unknown command"); std::process::exit(2); }
    }
}
