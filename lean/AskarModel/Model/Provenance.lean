/-
C02 — provenance (taint) model of everything the SQLite backend hands to SQLite.

Code followed: every `.bind(..)` / `params.push(..)` of `askar-storage/src/backend/sqlite/mod.rs` and
`provision.rs::init_db`, `db_utils.rs::{encode_tag_filter, init_keys, encode_profile_key}`,
`protect/store_key.rs::wrap_data`, `protect/profile_key.rs::{encrypt, encrypt_searchable, encrypt_entry_tags}`,
`src/store.rs::{insert_key, copy_to}`, `backend/mod.rs::{copy_profile, import_scan}`.

Shape of the model: a data flow with *sources*, *sanitizers* and *sinks*.
* sources (`Src.*`) tag what arrives from the caller: category / name / value / tag name / tag value of an
  encrypted tag / the CBOR of a profile key are `secretPlain`; the value of a plaintext tag is `plainTagValue`;
  profile names are `profileName`; ids, kinds, flags, NULLs, the key reference and config names are `storeMeta`;
* sanitizers are the three encryption entry points (`Crypto.searchable`, `Crypto.sealValue`, `Crypto.wrap`); they are
  the only functions that produce a `cipher` provenance.  `wrap` under the store key `none` is the identity, as
  in `StoreKey::wrap_data`;
* sinks are the SQL statements (`sql*`): each returns the list of arguments bound to it, and the tables
  (`PDb`) are built from exactly those arguments — "SQLite stores what it is given".
The primitives themselves (ChaCha20-Poly1305, HMAC, Argon2, CBOR of the key) are a parameter `Crypto`; the value
nonce comes from an explicit stream `rng : Nat → Nonce` that is advanced by every draw.

Rows carry ghost fields (the key identity they are encrypted under, the index of the nonce, the plaintext entry)
so that the model stays executable without a decryption function; no bound argument is computed from them
except through a source and a sanitizer (re-encryption in `rekey` / `copy`).

C02 histories never set an expiry (C17's subject): the sixth argument of INSERT/UPDATE is NULL (`storeMeta`).
-/
import AskarModel.Model.Store

namespace Askar.Provenance
open Askar.Wql Askar.Store

inductive Field | category | name | value | tagName | tagValue | profileKey
  deriving DecidableEq, Repr, Inhabited

inductive KeyId
  | store (s : Nat)       -- a store key (raw or derived), by identity
  | profile (k : Nat)     -- a profile key, by identity
  deriving DecidableEq, Repr, Inhabited

inductive Prov
  | cipher (key : KeyId) (field : Field)
  | plainTagValue
  | profileName
  | storeMeta
  | secretPlain (field : Field)
  deriving DecidableEq, Repr, Inhabited

def Prov.isCipher : Prov → Bool
  | .cipher _ _ => true
  | _ => false

def Prov.isSecretPlain : Prov → Bool
  | .secretPlain _ => true
  | _ => false

def Field.label : Field → String
  | .category => "category"
  | .name => "name"
  | .value => "value"
  | .tagName => "tag-name"
  | .tagValue => "tag-value"
  | .profileKey => "profile-key"

def Field.code : Field → Nat
  | .category => 1
  | .name => 2
  | .value => 3
  | .tagName => 4
  | .tagValue => 5
  | .profileKey => 6

/-- the class names of the line protocol -/
def Prov.className : Prov → String
  | .cipher (.store _) _ => "cipher:store-key"
  | .cipher (.profile _) f =>
    "cipher:" ++ f.label
  | .plainTagValue => "plain-tag-value"
  | .profileName => "profile-name"
  | .storeMeta => "meta"
  | .secretPlain .profileKey => "secret-plain:profile-key"
  | .secretPlain _ => "secret-plain:record-field"

/-- a byte string bound to a statement parameter, with where it came from -/
structure Arg where
  prov : Prov
  bytes : Bytes
  deriving DecidableEq, Repr, Inhabited

/-- 96-bit nonce -/
abbrev Nonce := { b : Bytes // b.length = 12 }

/-- third-party primitives (parameters; no law is needed by the provenance theorems) -/
structure Crypto where
  /-- `encrypt_searchable` under the sub-keys of profile key `k` chosen by the field: nonce ‖ ciphertext ‖ tag -/
  encSearch : Nat → Field → Bytes → Bytes
  /-- ChaCha20-Poly1305 under the value key derived from (`k`, category, name), nonce `r`: ciphertext ‖ tag -/
  valueBody : Nat → Bytes → Bytes → Nonce → Bytes → Bytes
  /-- ChaCha20-Poly1305 under store key `s`, nonce `r`: ciphertext ‖ tag -/
  wrapBody : Nat → Nonce → Bytes → Bytes
  /-- `ProfileKey::to_bytes` (CBOR) of profile key `k` -/
  profileKeyCbor : Nat → Bytes

/-! ### Sources -/
namespace Src
def category (s : String) : Arg := ⟨.secretPlain .category, utf8 s⟩
def name (s : String) : Arg := ⟨.secretPlain .name, utf8 s⟩
def value (b : Bytes) : Arg := ⟨.secretPlain .value, b⟩
def tagName (s : String) : Arg := ⟨.secretPlain .tagName, utf8 s⟩
/-- `EntryTag::Plaintext(_, v)` declares `v` public; `EntryTag::Encrypted(_, v)` does not -/
def tagValue (plain : Bool) (s : String) : Arg :=
  if plain then ⟨.plainTagValue, utf8 s⟩ else ⟨.secretPlain .tagValue, utf8 s⟩
def profileName (s : String) : Arg := ⟨.profileName, utf8 s⟩
def profileKey (C : Crypto) (k : Nat) : Arg := ⟨.secretPlain .profileKey, C.profileKeyCbor k⟩
def metaStr (s : String) : Arg := ⟨.storeMeta, utf8 s⟩
def nat (n : Nat) : Arg := metaStr (toString n)
def optNat : Option Nat → Arg
  | none => metaStr "NULL"
  | some n => nat n
def null : Arg := metaStr "NULL"
def flag (b : Bool) : Arg := metaStr (if b then "1" else "0")
end Src

/-! ### Sanitizers -/

/-- `ProfileKeyImpl::encrypt_searchable` (category, name, tag name, tag value) -/
def Crypto.searchable (C : Crypto) (k : Nat) (f : Field) (x : Arg) : Arg :=
  ⟨.cipher (.profile k) f, C.encSearch k f x.bytes⟩

/-- `encrypt_entry_value`: `derive_value_key(category, name)`, then `encrypt` with a drawn nonce, nonce prepended -/
def Crypto.sealValue (C : Crypto) (k : Nat) (cat name : Arg) (r : Nonce) (v : Arg) : Arg :=
  ⟨.cipher (.profile k) .value, r.val ++ C.valueBody k cat.bytes name.bytes r v.bytes⟩

/-- `StoreKey::wrap_data`: identity when there is no store key -/
def Crypto.wrap (C : Crypto) (sk : Option Nat) (r : Nonce) (x : Arg) : Arg :=
  match sk with
  | none => x
  | some s => ⟨.cipher (.store s) .profileKey, r.val ++ C.wrapBody s r x.bytes⟩

/-- `encrypt_entry_tags`, one tag: the name is always encrypted, the value only for `Encrypted` -/
def encryptTag (C : Crypto) (k : Nat) (t : Tag) : Arg × Arg × Bool :=
  (C.searchable k .tagName (Src.tagName t.name),
   if t.plain then Src.tagValue true t.value else C.searchable k .tagValue (Src.tagValue false t.value),
   t.plain)

/-! ### Tag filters: the arguments `encode_tag_filter` produces, with provenance -/

def nameArg (C : Crypto) (k : Nat) (n : TagName) : Arg := C.searchable k .tagName (Src.tagName n.str)

def valueArg (C : Crypto) (k : Nat) (plain : Bool) (v : String) : Arg :=
  if plain then Src.tagValue true v else C.searchable k .tagValue (Src.tagValue false v)

/-- `SUBSTR(value, 1, 12)` comparison argument: a slice keeps the provenance of what is sliced -/
def Arg.prefix12 (a : Arg) : Arg := ⟨a.prov, a.bytes.take 12⟩

def opArgs (C : Crypto) (k : Nat) (op : CmpOp) (n : TagName) (v : String) : List Arg :=
  let ev := valueArg C k n.isPlain v
  match n.isPlain, op.prefixOp with
  | false, some _ => if ev.bytes.length > 12 then [nameArg C k n, ev, ev.prefix12] else [nameArg C k n, ev]
  | _, _ => [nameArg C k n, ev]

mutual
def filterArgs (C : Crypto) (k : Nat) : Query TagName → List Arg
  | .and qs => filterArgsList C k qs
  | .or qs => filterArgsList C k qs
  | .not q => filterArgs C k q
  | .cmp op n v => opArgs C k op n v
  | .isIn n vs => nameArg C k n :: vs.map (valueArg C k n.isPlain)
  | .exist ns => ns.map (nameArg C k)
def filterArgsList (C : Crypto) (k : Nat) : List (Query TagName) → List Arg
  | [] => []
  | q :: qs => filterArgs C k q ++ filterArgsList C k qs
end

/-- the encoder's view of the same key (Model/Wql.lean) -/
def tagCrypto (C : Crypto) (k : Nat) : TagCrypto where
  encName s := C.encSearch k .tagName (utf8 s)
  encValue s := C.encSearch k .tagValue (utf8 s)

/-- `encode_tag_filter`: clause from the WQL encoder, arguments with provenance -/
def encodeFilter (C : Crypto) (k : Nat) (f : Option (Query String)) : Option Clause × List Arg :=
  match f with
  | none => (none, [])
  | some q => ((encodeQuery (tagCrypto C k) (tagQuery q)).1, filterArgs C k (tagQuery q))

/-! ### Tables -/

structure PItem where
  id : Nat
  pid : Nat
  kind : Kind
  cat : Arg
  name : Arg
  value : Arg
  -- ghost
  keyId : Nat
  nonceIx : Nat
  plain : Entry
  deriving Repr, Inhabited

structure PTag where
  id : Nat
  itemId : Nat
  name : Arg
  value : Arg
  plain : Bool
  deriving Repr, Inhabited

structure PProfile where
  id : Nat
  name : Arg
  key : Arg
  keyId : Nat   -- ghost: what `load_key` yields
  deriving Repr, Inhabited

structure PDb where
  items : List PItem := []
  tags : List PTag := []
  profiles : List PProfile := []
  config : List (String × Arg) := []
  deriving Repr, Inhabited

structure Ghost where
  keyId : Nat
  nonceIx : Nat
  plain : Entry
  deriving Repr, Inhabited

/-! ### Sinks: the statements, each returning what was bound to it -/

def PItem.matches (it : PItem) (pid : Nat) (kind : Kind) (cat name : Arg) : Bool :=
  it.pid == pid && it.kind == kind && it.cat.bytes == cat.bytes && it.name.bytes == name.bytes

/-- INSERT_QUERY (`INSERT OR IGNORE`): `none` = 0 rows affected -/
def sqlInsertItem (db : PDb) (pid : Nat) (kind : Kind) (cat name value : Arg) (g : Ghost) : PDb × Option Nat × List Arg :=
  let bound := [Src.nat pid, Src.nat kind, cat, name, value, Src.null]
  if db.items.any (·.matches pid kind cat name) then (db, none, bound)
  else
    let id := nextId (db.items.map (·.id))
    ({ db with items := db.items ++ [⟨id, pid, kind, cat, name, value, g.keyId, g.nonceIx, g.plain⟩] }, some id, bound)

/-- UPDATE_QUERY … RETURNING id -/
def sqlUpdateItem (db : PDb) (pid : Nat) (kind : Kind) (cat name value : Arg) (g : Ghost) : PDb × Option Nat × List Arg :=
  let bound := [Src.nat pid, Src.nat kind, cat, name, value, Src.null]
  match db.items.find? (·.matches pid kind cat name) with
  | none => (db, none, bound)
  | some hit =>
    ({ db with items := db.items.map fun it =>
        if it.matches pid kind cat name then { it with value := value, nonceIx := g.nonceIx, plain := g.plain } else it },
      some hit.id, bound)

/-- TAG_DELETE_QUERY -/
def sqlDeleteTags (db : PDb) (itemId : Nat) : PDb × List Arg :=
  ({ db with tags := db.tags.filter (·.itemId != itemId) }, [Src.nat itemId])

/-- TAG_INSERT_QUERY -/
def sqlInsertTag (db : PDb) (itemId : Nat) (name value : Arg) (plain : Bool) : PDb × List Arg :=
  ({ db with tags := db.tags ++ [⟨nextId (db.tags.map (·.id)), itemId, name, value, plain⟩] },
   [Src.nat itemId, name, value, Src.flag plain])

/-- the loop over `enc_tags` in `perform_insert` -/
def insertTags (db : PDb) (itemId : Nat) : List (Arg × Arg × Bool) → PDb × List Arg
  | [] => (db, [])
  | (n, v, p) :: ts =>
    let (db1, b1) := sqlInsertTag db itemId n v p
    let (db2, b2) := insertTags db1 itemId ts
    (db2, b1 ++ b2)

/-- rows of `items_tags` cascade with their item -/
def cascadeTags (db : PDb) : PDb :=
  { db with tags := db.tags.filter fun t => db.items.any (·.id == t.itemId) }

/-- DELETE_QUERY; returns rows affected -/
def sqlDeleteItem (db : PDb) (pid : Nat) (kind : Kind) (cat name : Arg) : PDb × Nat × List Arg :=
  let hit := db.items.filter (·.matches pid kind cat name)
  (cascadeTags { db with items := db.items.filter fun it => !it.matches pid kind cat name }, hit.length,
   [Src.nat pid, Src.nat kind, cat, name])

def rowTags (db : PDb) (it : PItem) : List EncTag :=
  (db.tags.filter (·.itemId == it.id)).map fun t => ⟨t.name.bytes, t.value.bytes, t.plain⟩

/-- the WHERE clause shared by COUNT / SCAN / DELETE_ALL (no expiry in C02 histories), evaluated on stored bytes
    against the *bound* argument bytes -/
def inScope (like : Bytes → Bytes → Bool) (db : PDb) (pid : Nat) (kind : Option Kind) (cat : Option Arg)
    (filter : Option Clause × List Arg) (it : PItem) : Bool :=
  it.pid == pid &&
  (match kind with | none => true | some k => it.kind == k) &&
  (match cat with | none => true | some c => it.cat.bytes == c.bytes) &&
  evalFilter like (filter.1, filter.2.map (·.bytes)) (rowTags db it)

def scopeBound (pid : Nat) (kind : Option Kind) (cat : Option Arg) (filter : Option Clause × List Arg) : List Arg :=
  [Src.nat pid, Src.optNat kind, cat.getD Src.null] ++ (match filter.1 with | none => [] | some _ => filter.2)

/-- DELETE_ALL_QUERY + filter -/
def sqlDeleteAll (like : Bytes → Bytes → Bool) (db : PDb) (pid : Nat) (kind : Option Kind) (cat : Option Arg)
    (filter : Option Clause × List Arg) : PDb × Nat × List Arg :=
  let hit := db.items.filter (inScope like db pid kind cat filter)
  (cascadeTags { db with items := db.items.filter fun it => !inScope like db pid kind cat filter it }, hit.length,
   scopeBound pid kind cat filter)

/-- COUNT_QUERY / SCAN_QUERY + filter: the selected rows -/
def sqlSelect (like : Bytes → Bytes → Bool) (db : PDb) (pid : Nat) (kind : Option Kind) (cat : Option Arg)
    (filter : Option Clause × List Arg) : List PItem × List Arg :=
  (db.items.filter (inScope like db pid kind cat filter), scopeBound pid kind cat filter)

/-- FETCH_QUERY -/
def sqlFetch (db : PDb) (pid : Nat) (kind : Kind) (cat name : Arg) : Option PItem × List Arg :=
  (db.items.find? (·.matches pid kind cat name), [Src.nat pid, Src.nat kind, cat, name])

/-- `INSERT OR IGNORE INTO profiles (name, profile_key)` -/
def sqlInsertProfile (db : PDb) (name key : Arg) (keyId : Nat) : PDb × Option Nat × List Arg :=
  if db.profiles.any (·.name.bytes == name.bytes) then (db, none, [name, key])
  else
    let id := nextId (db.profiles.map (·.id))
    ({ db with profiles := db.profiles ++ [⟨id, name, key, keyId⟩] }, some id, [name, key])

/-- `DELETE FROM profiles WHERE name=?` with cascade to items and tags -/
def sqlDeleteProfile (db : PDb) (name : Arg) : PDb × Bool × List Arg :=
  let gone := (db.profiles.filter (·.name.bytes == name.bytes)).map (·.id)
  (cascadeTags { db with profiles := db.profiles.filter (·.name.bytes != name.bytes),
                         items := db.items.filter fun it => !gone.contains it.pid },
   !gone.isEmpty, [name])

/-- `SELECT id, profile_key FROM profiles WHERE name=?1` -/
def sqlSelectProfile (db : PDb) (name : Arg) : Option PProfile × List Arg :=
  (db.profiles.find? (·.name.bytes == name.bytes), [name])

/-- `UPDATE profiles SET profile_key=?1 WHERE id=?2` -/
def sqlUpdateProfileKey (db : PDb) (key : Arg) (pid : Nat) : PDb × List Arg :=
  ({ db with profiles := db.profiles.map fun p => if p.id == pid then { p with key := key } else p }, [key, Src.nat pid])

/-- CONFIG_UPDATE_QUERY / `UPDATE config SET value=?1 WHERE name='key'` / the config rows of `init_db` -/
def setConfig (db : PDb) (name : String) (value : Arg) : PDb :=
  { db with config := (name, value) :: db.config.filter (·.1 != name) }

/-! ### One store handle, and what every store of the process shares -/

inductive Method | raw | kdf (level : String) | none
  deriving DecidableEq, Repr, Inhabited

def Method.uri : Method → String
  | .raw => "raw"
  | .kdf level => "kdf:argon2i:" ++ level ++ "?salt=<salt>"
  | .none => "none"

structure PStore where
  db : PDb := {}
  storeKey : Option Nat := none
  cache : List (String × Nat × Nat) := []     -- KeyCache: name ↦ (profile id, profile key identity)
  deriving Repr, Inhabited

/-- process-wide: the random stream position, fresh key identities, and the two logs the theorems talk about -/
structure Ctx where
  ctr : Nat := 0
  nextKey : Nat := 1
  bound : List Arg := []              -- every argument bound so far, in order
  sealed : List (Nat × Arg) := []     -- every value encryption so far: (index of the nonce drawn, result)
  deriving Repr, Inhabited

def Ctx.bind (x : Ctx) (as : List Arg) : Ctx := { x with bound := x.bound ++ as }

/-- `resolve_profile_key`: cache first, `profiles` second (`load_key` = unwrap under the store key + parse) -/
def resolveP (s : PStore) (x : Ctx) (profile : String) : PStore × Ctx × Except Err (Nat × Nat) :=
  match cacheGet s.cache profile with
  | some (pid, k) => (s, x, .ok (pid, k))
  | none =>
    let r := sqlSelectProfile s.db (Src.profileName profile)
    match r.1 with
    | some p => ({ s with cache := cachePut s.cache profile (p.id, p.keyId) }, x.bind r.2, .ok (p.id, p.keyId))
    | none => (s, x.bind r.2, .error .notFound)

/-- `BackendSession::update` for Insert / Replace (`perform_insert`) -/
def update (C : Crypto) (rng : Nat → Nonce) (s : PStore) (x : Ctx) (profile : String) (kind : Kind) (ins : Bool)
    (cat name : String) (value : Bytes) (tags : Option (List Tag)) : PStore × Ctx × Except Err Unit :=
  match resolveP s x profile with
  | (s, x, .error e) => (s, x, .error e)
  | (s, x, .ok (pid, k)) =>
    let catA := Src.category cat
    let nameA := Src.name name
    let encValue := C.sealValue k catA nameA (rng x.ctr) (Src.value value)
    let g : Ghost := ⟨k, x.ctr, ⟨kind, cat, name, value, tags.getD []⟩⟩
    let x := { x with ctr := x.ctr + 1, sealed := x.sealed ++ [(x.ctr, encValue)] }
    let encCat := C.searchable k .category catA
    let encName := C.searchable k .name nameA
    let encTags := tags.map fun ts => ts.map (encryptTag C k)
    if ins then
      let r := sqlInsertItem s.db pid kind encCat encName encValue g
      let x := x.bind r.2.2
      match r.2.1 with
      | none => (s, x, .error .duplicate)
      | some id =>
        let t := insertTags r.1 id (encTags.getD [])
        ({ s with db := t.1 }, x.bind t.2, .ok ())
    else
      let r := sqlUpdateItem s.db pid kind encCat encName encValue g
      let x := x.bind r.2.2
      match r.2.1 with
      | none => (s, x, .error .notFound)
      | some id =>
        let d := sqlDeleteTags r.1 id
        let t := insertTags d.1 id (encTags.getD [])
        ({ s with db := t.1 }, (x.bind d.2).bind t.2, .ok ())

/-- `BackendSession::update` for Remove (`perform_remove`) -/
def remove (C : Crypto) (s : PStore) (x : Ctx) (profile : String) (kind : Kind) (cat name : String) :
    PStore × Ctx × Except Err Unit :=
  match resolveP s x profile with
  | (s, x, .error e) => (s, x, .error e)
  | (s, x, .ok (pid, k)) =>
    let r := sqlDeleteItem s.db pid kind (C.searchable k .category (Src.category cat)) (C.searchable k .name (Src.name name))
    if r.2.1 == 0 then (s, x.bind r.2.2, .error .notFound) else ({ s with db := r.1 }, x.bind r.2.2, .ok ())

def encCatOpt (C : Crypto) (k : Nat) (cat : Option String) : Option Arg :=
  cat.map fun c => C.searchable k .category (Src.category c)

/-- `remove_all` -/
def removeAll (C : Crypto) (like : Bytes → Bytes → Bool) (s : PStore) (x : Ctx) (profile : String) (kind : Option Kind)
    (cat : Option String) (f : Option (Query String)) : PStore × Ctx × Except Err Nat :=
  match resolveP s x profile with
  | (s, x, .error e) => (s, x, .error e)
  | (s, x, .ok (pid, k)) =>
    let r := sqlDeleteAll like s.db pid kind (encCatOpt C k cat) (encodeFilter C k f)
    ({ s with db := r.1 }, x.bind r.2.2, .ok r.2.1)

/-- `count`, and the row selection of `scan` / `fetch_all` (`perform_scan`); rows under a foreign key fail to decrypt -/
def select (C : Crypto) (like : Bytes → Bytes → Bool) (s : PStore) (x : Ctx) (profile : String) (kind : Option Kind)
    (cat : Option String) (f : Option (Query String)) : PStore × Ctx × Except Err (Nat × List PItem) :=
  match resolveP s x profile with
  | (s, x, .error e) => (s, x, .error e)
  | (s, x, .ok (pid, k)) =>
    let r := sqlSelect like s.db pid kind (encCatOpt C k cat) (encodeFilter C k f)
    (s, x.bind r.2, .ok (k, r.1))

/-- `fetch` -/
def fetch (C : Crypto) (s : PStore) (x : Ctx) (profile : String) (kind : Kind) (cat name : String) :
    PStore × Ctx × Except Err Bool :=
  match resolveP s x profile with
  | (s, x, .error e) => (s, x, .error e)
  | (s, x, .ok (pid, k)) =>
    let r := sqlFetch s.db pid kind (C.searchable k .category (Src.category cat)) (C.searchable k .name (Src.name name))
    (s, x.bind r.2, .ok r.1.isSome)

/-- `encode_profile_key` for a new or reloaded profile key: one nonce is drawn iff there is a store key -/
def wrapProfileKey (C : Crypto) (rng : Nat → Nonce) (sk : Option Nat) (x : Ctx) (keyId : Nat) : Arg × Ctx :=
  (C.wrap sk (rng x.ctr) (Src.profileKey C keyId), if sk.isSome then { x with ctr := x.ctr + 1 } else x)

/-- `create_profile` -/
def createProfile (C : Crypto) (rng : Nat → Nonce) (s : PStore) (x : Ctx) (name : String) : PStore × Ctx × Except Err Unit :=
  let keyId := x.nextKey
  let x := { x with nextKey := x.nextKey + 1 }
  let w := wrapProfileKey C rng s.storeKey x keyId
  let r := sqlInsertProfile s.db (Src.profileName name) w.1 keyId
  match r.2.1 with
  | none => (s, w.2.bind r.2.2, .error .duplicate)
  | some id => ({ s with db := r.1, cache := cachePut s.cache name (id, keyId) }, w.2.bind r.2.2, .ok ())

/-- `remove_profile` (evicts the cache entry: defect D7 is repaired in the current tree) -/
def removeProfile (s : PStore) (x : Ctx) (name : String) : PStore × Ctx × Bool :=
  let r := sqlDeleteProfile s.db (Src.profileName name)
  ({ s with db := r.1, cache := s.cache.filter (·.1 != name) }, x.bind r.2.2, r.2.1)

/-- `set_default_profile` -/
def setDefault (s : PStore) (x : Ctx) (name : String) : PStore × Ctx :=
  ({ s with db := setConfig s.db "default_profile" (Src.profileName name) },
   x.bind [Src.metaStr "default_profile", Src.profileName name])

/-- `StoreKeyMethod::resolve` for a new key: a fresh identity unless the method is `none` -/
def newStoreKey (m : Method) (x : Ctx) : Option Nat × Ctx :=
  match m with
  | .none => (none, x)
  | _ => (some x.nextKey, { x with nextKey := x.nextKey + 1 })

/-- the loop of `rekey` over the rows of `profiles`: unwrap (ghost), wrap under the new key, UPDATE -/
def rewrapAll (C : Crypto) (rng : Nat → Nonce) (sk : Option Nat) : List PProfile → PDb → Ctx → PDb × Ctx
  | [], db, x => (db, x)
  | p :: ps, db, x =>
    let w := wrapProfileKey C rng sk x p.keyId
    let r := sqlUpdateProfileKey db w.1 p.id
    rewrapAll C rng sk ps r.1 (w.2.bind r.2)

/-- `rekey` -/
def rekey (C : Crypto) (rng : Nat → Nonce) (s : PStore) (x : Ctx) (m : Method) : PStore × Ctx :=
  let n := newStoreKey m x
  let r := rewrapAll C rng n.1 s.db.profiles s.db n.2
  let ref := Src.metaStr m.uri
  ({ db := setConfig r.1 "key" ref, storeKey := n.1, cache := [] }, r.2.bind [ref])

/-- `provision` of a new file (`init_keys` + `init_db`) -/
def provision (C : Crypto) (rng : Nat → Nonce) (x : Ctx) (m : Method) (profile : String) : PStore × Ctx :=
  let n := newStoreKey m x
  let keyId := n.2.nextKey
  let w := wrapProfileKey C rng n.1 { n.2 with nextKey := n.2.nextKey + 1 } keyId
  let pn := Src.profileName profile
  let ref := Src.metaStr m.uri
  let db : PDb := { profiles := [⟨1, pn, w.1, keyId⟩],
                    config := [("default_profile", pn), ("key", ref), ("version", Src.metaStr "1")] }
  -- bound: ?1 profile name, ?2 key reference, ?3 wrapped profile key; then `SELECT id FROM profiles WHERE name = ?1`
  ({ db := db, storeKey := n.1, cache := [(profile, 1, keyId)] }, w.2.bind [pn, ref, w.1, pn])

def defaultProfile (db : PDb) : String :=
  match db.config.find? (·.1 == "default_profile") with
  | some (_, a) => (String.fromUTF8? (ByteArray.mk a.bytes.toArray)).getD ""
  | none => ""

/-- `open` of the existing file with the right key: a fresh cache holding the default profile -/
def reopen (s : PStore) (x : Ctx) : PStore × Ctx :=
  let name := defaultProfile s.db
  let r := sqlSelectProfile s.db (Src.profileName name)
  match r.1 with
  | some p => ({ s with cache := [(name, p.id, p.keyId)] }, x.bind r.2)
  | none => ({ s with cache := [] }, x.bind r.2)

/-- `insert_key`: the KMS record is an ordinary `update(Kms, Insert, "cryptokey", name, CBOR(KeyParams), tags)` -/
def cborHead (major : Nat) (n : Nat) : Bytes :=
  if n < 24 then [UInt8.ofNat (major * 32 + n)]
  else if n < 256 then [UInt8.ofNat (major * 32 + 24), UInt8.ofNat n]
  else if n < 65536 then [UInt8.ofNat (major * 32 + 25), UInt8.ofNat (n / 256), UInt8.ofNat (n % 256)]
  else UInt8.ofNat (major * 32 + 26) :: Bytes.be32 n

def cborText (s : String) : Bytes := cborHead 3 (utf8 s).length ++ utf8 s

/-- `KeyParams::to_bytes` without a key reference -/
def keyParamsCbor (metadata : Option String) (data : Bytes) : Bytes :=
  match metadata with
  | none => cborHead 5 1 ++ cborText "data" ++ cborHead 2 data.length ++ data
  | some m => cborHead 5 2 ++ cborText "meta" ++ cborText m ++ cborText "data" ++ cborHead 2 data.length ++ data

def kmsTags (alg : String) (thumbs : List String) (tags : Option (List Tag)) : List Tag :=
  (if alg.isEmpty then [] else [⟨false, "alg", alg⟩]) ++ thumbs.map (fun t => ⟨false, "thumb", t⟩) ++
    (tags.getD []).map fun t => { t with name := "user:" ++ t.name }

def kmsKind : Kind := 1

def insertKey (C : Crypto) (rng : Nat → Nonce) (s : PStore) (x : Ctx) (profile name : String) (metadata : Option String)
    (jwk : Bytes) (alg : String) (thumbs : List String) (tags : Option (List Tag)) : PStore × Ctx × Except Err Unit :=
  update C rng s x profile kmsKind true "cryptokey" name (keyParamsCbor metadata jwk) (some (kmsTags alg thumbs tags))

/-- `import_scan`: every decrypted source entry is inserted through `update` on the target -/
def importRows (C : Crypto) (rng : Nat → Nonce) (profile : String) : List Entry → PStore → Ctx → PStore × Ctx × Except Err Unit
  | [], t, x => (t, x, .ok ())
  | e :: es, t, x =>
    match update C rng t x profile e.kind true e.cat e.name e.value (some e.tags) with
    | (t, x, .error err) => (t, x, .error err)
    | (t, x, .ok ()) => importRows C rng profile es t x

/-- `copy_profile` for the profiles of the source, in id order -/
def copyProfiles (C : Crypto) (rng : Nat → Nonce) (like : Bytes → Bytes → Bool) :
    List PProfile → PStore → PStore → Ctx → PStore × PStore × Ctx × Except Err Unit
  | [], src, t, x => (src, t, x, .ok ())
  | p :: ps, src, t, x =>
    let pname := (String.fromUTF8? (ByteArray.mk p.name.bytes.toArray)).getD ""
    -- source scan (all kinds, no category, no filter)
    match select C like src x pname none none none with
    | (src, x, .error e) => (src, t, x, .error e)
    | (src, x, .ok (k, rows)) =>
      if rows.any (·.keyId != k) then (src, t, x, .error .encryption) else
      -- target: create_profile (Duplicate is ignored), count, import
      let c := createProfile C rng t x pname
      match select C like c.1 c.2.1 pname none none none with
      | (t, x, .error e) => (src, t, x, .error e)
      | (t, x, .ok (_, existing)) =>
        if !existing.isEmpty then (src, t, x, .error .input) else
        match importRows C rng pname (rows.map (·.plain)) t x with
        | (t, x, .error e) => (src, t, x, .error e)
        | (t, x, .ok ()) => copyProfiles C rng like ps src t x

/-- `Store::copy_to` a new file -/
def copyTo (C : Crypto) (rng : Nat → Nonce) (like : Bytes → Bytes → Bool) (src : PStore) (x : Ctx) (m : Method) :
    PStore × PStore × Ctx × Except Err Unit :=
  -- get_default_profile binds the config name; list_profiles binds nothing
  let x := x.bind [Src.metaStr "default_profile"]
  let t := provision C rng x m (defaultProfile src.db)
  copyProfiles C rng like src.db.profiles src t.1 t.2

/-! ### Histories -/

inductive Op
  | update (profile : String) (kind : Kind) (ins : Bool) (cat name : String) (value : Bytes) (tags : Option (List Tag))
  | remove (profile : String) (kind : Kind) (cat name : String)
  | removeAll (profile : String) (kind : Option Kind) (cat : Option String) (f : Option (Query String))
  | fetch (profile : String) (kind : Kind) (cat name : String)
  | count (profile : String) (kind : Option Kind) (cat : Option String) (f : Option (Query String))
  | scan (profile : String) (kind : Option Kind) (cat : Option String) (f : Option (Query String))
  | insertKey (profile name : String) (metadata : Option String) (jwk : Bytes) (alg : String) (thumbs : List String)
      (tags : Option (List Tag))
  | createProfile (name : String)
  | removeProfile (name : String)
  | setDefault (name : String)
  | rekey (m : Method)
  | copy (m : Method)
  | checkpoint
  | reopen
  deriving Repr, Inhabited

inductive Out
  | ok
  | err (e : Err)
  | n (k : Nat)
  | found (b : Bool)
  | removed (b : Bool)
  deriving Repr, Inhabited, DecidableEq

structure St where
  main : PStore := {}
  copy : Option PStore := none
  ctx : Ctx := {}
  deriving Repr, Inhabited

def outUnit : Except Err Unit → Out
  | .ok () => .ok
  | .error e => .err e

def step (C : Crypto) (rng : Nat → Nonce) (like : Bytes → Bytes → Bool) (st : St) : Op → St × Out
  | .update p k ins c n v t =>
    let (s, x, r) := update C rng st.main st.ctx p k ins c n v t
    ({ st with main := s, ctx := x }, outUnit r)
  | .remove p k c n =>
    let (s, x, r) := remove C st.main st.ctx p k c n
    ({ st with main := s, ctx := x }, outUnit r)
  | .removeAll p k c f =>
    let (s, x, r) := removeAll C like st.main st.ctx p k c f
    ({ st with main := s, ctx := x }, match r with | .ok n => .n n | .error e => .err e)
  | .fetch p k c n =>
    let (s, x, r) := fetch C st.main st.ctx p k c n
    ({ st with main := s, ctx := x }, match r with | .ok b => .found b | .error e => .err e)
  | .count p k c f =>
    let (s, x, r) := select C like st.main st.ctx p k c f
    ({ st with main := s, ctx := x }, match r with | .ok (_, rows) => .n rows.length | .error e => .err e)
  | .scan p k c f =>
    let (s, x, r) := select C like st.main st.ctx p k c f
    ({ st with main := s, ctx := x },
      match r with
      | .ok (key, rows) => if rows.any (·.keyId != key) then .err .encryption else .n rows.length
      | .error e => .err e)
  | .insertKey p n m jwk alg thumbs t =>
    let (s, x, r) := insertKey C rng st.main st.ctx p n m jwk alg thumbs t
    ({ st with main := s, ctx := x }, outUnit r)
  | .createProfile n =>
    let (s, x, r) := createProfile C rng st.main st.ctx n
    ({ st with main := s, ctx := x }, outUnit r)
  | .removeProfile n =>
    let (s, x, r) := removeProfile st.main st.ctx n
    ({ st with main := s, ctx := x }, .removed r)
  | .setDefault n =>
    let (s, x) := setDefault st.main st.ctx n
    ({ st with main := s, ctx := x }, .ok)
  | .rekey m =>
    let (s, x) := rekey C rng st.main st.ctx m
    ({ st with main := s, ctx := x }, .ok)
  | .copy m =>
    let (s, t, x, r) := copyTo C rng like st.main st.ctx m
    ({ main := s, copy := some t, ctx := x }, outUnit r)
  | .checkpoint => (st, .ok)
  | .reopen =>
    let (s, x) := reopen st.main st.ctx
    ({ st with main := s, ctx := x }, .ok)

def run (C : Crypto) (rng : Nat → Nonce) (like : Bytes → Bytes → Bool) : St → List Op → St × List Out
  | st, [] => (st, [])
  | st, op :: ops =>
    let (st1, o) := step C rng like st op
    let (st2, os) := run C rng like st1 ops
    (st2, o :: os)

/-- the store right after `provision` -/
def init (C : Crypto) (rng : Nat → Nonce) (m : Method) (profile : String) : St :=
  let (s, x) := provision C rng {} m profile
  { main := s, copy := none, ctx := x }

/-! ### What the theorems and the driver read off a state -/

def boundArgs (st : St) : List Arg := st.ctx.bound

/-- rng indices of all value encryptions so far -/
def valueNonceIxs (st : St) : List Nat := st.ctx.sealed.map (·.1)

/-- the nonces themselves -/
def valueNonces (rng : Nat → Nonce) (st : St) : List Nonce := (valueNonceIxs st).map rng

/-- every stored-value byte string ever produced -/
def sealedValues (st : St) : List Bytes := st.ctx.sealed.map (·.2.bytes)

def stores (st : St) : List PStore := st.main :: st.copy.toList

/-- a history that never makes the store unprotected -/
def Op.keepsProtected : Op → Bool
  | .rekey .none => false
  | .copy .none => false
  | _ => true

/-! ### A toy instance for the driver (lengths as in the real scheme: +12 nonce, +16 tag; CBOR key 235 bytes) -/

def toyNonce (i : Nat) : Nonce :=
  ⟨(List.range 12).map fun j => UInt8.ofNat (i / 256 ^ j % 256), by simp⟩

def toyTag : Bytes := List.replicate 16 0

def Crypto.toy : Crypto where
  encSearch k f b :=
    toyPrefix (UInt8.ofNat k :: UInt8.ofNat f.code :: b) ++ b ++ toyTag
  valueBody _ _ _ _ v := v ++ toyTag
  wrapBody _ _ b := b ++ toyTag
  profileKeyCbor k := (List.range 235).map fun i => UInt8.ofNat ((k * 31 + i) % 256)

end Askar.Provenance
