//! Writes the C09 golden corpus with the UNMODIFIED PINNED tree (path deps on a scratch worktree of 62dd35a).
use askar_storage::any::AnyBackend;
use askar_storage::backend::{Backend, BackendSession, ManageBackend, OrderBy};
use askar_storage::entry::{EntryKind, EntryOperation, EntryTag};
use askar_storage::future::block_on;
use askar_storage::{Argon2Level, KdfMethod, PassKey, StoreKeyMethod};
use serde_json::{json, Map, Value};

fn jvalue(v: &[u8]) -> Value { json!(hex::encode(v)) }

fn tag_json(t: &EntryTag) -> (bool, String, String) {
    match t { EntryTag::Encrypted(n, v) => (false, n.clone(), v.clone()), EntryTag::Plaintext(n, v) => (true, n.clone(), v.clone()) }
}

fn dump(b: &AnyBackend, profile: &str) -> Value {
    block_on(async {
        let mut scan = b.scan(Some(profile.to_string()), None, None, None, None, None, Some(OrderBy::Id), false).await.unwrap();
        let mut all = vec![];
        while let Some(rows) = scan.fetch_next().await.unwrap() {
            for e in rows.iter() {
                let mut tags: Vec<(bool, String, String)> = e.tags.iter().map(tag_json).collect();
                tags.sort();
                all.push(json!({"k": match e.kind { EntryKind::Kms => 1, EntryKind::Item => 2 }, "c": e.category, "n": e.name, "v": jvalue(e.value.as_ref()),
                                "t": tags.iter().map(|(p, n, v)| json!([if *p { 1 } else { 0 }, n, v])).collect::<Vec<_>>()}));
            }
        }
        Value::Array(all)
    })
}

fn main() {
    let out = std::env::args().nth(1).expect("output dir");
    let methods: Vec<(&str, &str, StoreKeyMethod, Option<&str>)> = vec![
        ("raw", "raw", StoreKeyMethod::RawKey, Some("7Z8ftDAzMvoyXnGEJye8DurzgFQXLAbYCaeeesM7UKHa")),
        ("none", "none", StoreKeyMethod::Unprotected, None),
        ("kdf-int", "kdf:int", StoreKeyMethod::DeriveKey(KdfMethod::Argon2i(Argon2Level::Interactive)), Some("golden pass phrase")),
        ("kdf-mod", "kdf:mod", StoreKeyMethod::DeriveKey(KdfMethod::Argon2i(Argon2Level::Moderate)), Some("пароль-\u{1F511}")),
    ];
    let e = |n: &str, v: &str| EntryTag::Encrypted(n.to_string(), v.to_string());
    let p = |n: &str, v: &str| EntryTag::Plaintext(n.to_string(), v.to_string());
    let long_value: Vec<u8> = (0..700u32).map(|i| (i * 7 % 251) as u8).collect();
    // (profile, kind, category, name, value, tags, expiry_ms)
    let content: Vec<(&str, EntryKind, &str, &str, Vec<u8>, Vec<EntryTag>, Option<i64>)> = vec![
        ("default", EntryKind::Item, "category", "name", b"value".to_vec(), vec![e("enc", "tag value"), p("plain", "visible")], None),
        ("default", EntryKind::Item, "category", "name-2", b"".to_vec(), vec![], None),
        ("default", EntryKind::Item, "", "", vec![0xff, 0xfe, 0x00, 0x80], vec![e("", ""), p("", "")], None),
        ("default", EntryKind::Item, "ca\u{301}t-\u{1F600}", "名前", "значение-値-\u{1F511}".as_bytes().to_vec(), vec![e("ü", "\u{10FFFF}"), e("ü", "2"), p("t:1", "a%c"), p("t:1", "a%c")], None),
        ("default", EntryKind::Item, "category", "long", long_value.clone(), vec![e("a\u{0}b", "a\u{0}z")], Some(100 * 365 * 86_400_000)),
        ("default", EntryKind::Kms, "key", "key-1", b"\xa1\x63key\x58\x20 not really a key, 32 bytes long!".to_vec(), vec![e("alg", "ed25519"), e("thumb", "0123456789abcdef0123456789abcdef0123456789a"), p("user:x", "1")], None),
        ("default", EntryKind::Kms, "category", "name", b"kms twin of item category/name".to_vec(), vec![], None),
        ("второй профиль", EntryKind::Item, "category", "name", b"same identity, other profile".to_vec(), vec![e("enc", "tag value"), p("plain", "visible")], None),
        ("второй профиль", EntryKind::Kms, "key", "key-1", b"k".to_vec(), vec![p("~", "x")], None),
        ("второй профиль", EntryKind::Item, "c1 ", "n'\"\\", vec![0u8; 64], vec![e("$exist", "10")], None),
    ];
    for (file, method_name, method, pass) in methods {
        let path = format!("{}/{}.db", out, file);
        for sfx in ["", "-wal", "-shm"] { std::fs::remove_file(format!("{}{}", path, sfx)).ok(); }
        let uri = format!("sqlite://{}", path);
        let pk = || match pass { Some(x) => PassKey::from(x.to_string()), None => PassKey::from(None::<&'static str>) };
        let b = block_on(async { uri.as_str().provision_backend(method.clone(), pk(), Some("default".to_string()), true).await }).expect("provision");
        block_on(async {
            b.create_profile(Some("второй профиль".to_string())).await.unwrap();
            for (prof, kind, c, n, v, tags, exp) in &content {
                let mut s = b.session(Some(prof.to_string()), false).unwrap();
                s.update(*kind, EntryOperation::Insert, c, n, Some(v), Some(tags), *exp).await.unwrap();
                s.close(true).await.unwrap();
            }
            // one replace and one remove, so the file has seen UPDATE and DELETE too
            let mut s = b.session(Some("default".to_string()), false).unwrap();
            s.update(EntryKind::Item, EntryOperation::Replace, "category", "name-2", Some(b"replaced"), Some(&[p("replaced", "yes")]), None).await.unwrap();
            s.update(EntryKind::Item, EntryOperation::Insert, "category", "gone", Some(b"x"), None, None).await.unwrap();
            s.update(EntryKind::Item, EntryOperation::Remove, "category", "gone", None, None, None).await.unwrap();
            s.close(true).await.unwrap();
        });
        let mut profiles = Map::new();
        let names = block_on(async { b.list_profiles().await.unwrap() });
        for n in &names { profiles.insert(n.clone(), dump(&b, n)); }
        let default = block_on(async { b.get_default_profile().await.unwrap() });
        block_on(async move { b.close().await.unwrap(); drop(b); });
        // fold the WAL into the main file and leave a single .db (rollback-journal mode header; the library switches back on open)
        unsafe {
            use libsqlite3_sys as ffi;
            let c = std::ffi::CString::new(path.clone()).unwrap();
            let mut db = std::ptr::null_mut();
            assert_eq!(ffi::sqlite3_open_v2(c.as_ptr(), &mut db, ffi::SQLITE_OPEN_READWRITE, std::ptr::null()), ffi::SQLITE_OK);
            let sql = std::ffi::CString::new("PRAGMA wal_checkpoint(TRUNCATE);").unwrap();
            assert_eq!(ffi::sqlite3_exec(db, sql.as_ptr(), None, std::ptr::null_mut(), std::ptr::null_mut()), ffi::SQLITE_OK);
            ffi::sqlite3_close(db);
        }
        for sfx in ["-wal", "-shm"] { std::fs::remove_file(format!("{}{}", path, sfx)).ok(); }
        let meta = json!({"file": file, "method": method_name, "pass": pass.unwrap_or(""), "default_profile": default, "profiles": profiles,
                          "written_by": "aries-askar pinned tree 62dd35a (unmodified), askar-storage public API", "generator": "tools/golden_gen (see golden/README)"});
        std::fs::write(format!("{}/{}.json", out, file), serde_json::to_string_pretty(&meta).unwrap()).unwrap();
        println!("{} ok: {} bytes", file, std::fs::metadata(&path).unwrap().len());
    }
}
