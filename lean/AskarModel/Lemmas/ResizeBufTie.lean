/-
C12 — the TIE between the two models of the AEAD / key-wrap operations:

* `Model/Aead.lean`: every operation as a pure FUNCTION on byte lists (`streamEncrypt`, `cbcHmacDecrypt`, `kwEncrypt`, …);
* `Model/ResizeBuf.lean`: the same operations as PROGRAMS over the `ResizeBuffer` trait (`streamEncryptP`, …).

`opP_run_cap`: the program, run over the list implementation (`specImpl`) from `⟨input, cap⟩` with a capacity that admits
the one growth the operation performs, computes EXACTLY the function of `Model/Aead.lean` on `input` (`encOut` / `decOut`
state the correspondence of the result types: ok-with-buffer-and-return-value / error / panic, one to one);
`opP_run_spec` is the instance `cap = none` (`Vec<u8>`, `SecretBytes`).

The programs write through `as_mut()`, which cannot change the length of the buffer; the functions of `Model/Aead.lean`
take whatever list the primitive returns.  The two therefore agree exactly for primitives that work IN PLACE (output as
long as the input: `AeadInPlace`, `BlockInPlace` — part of `Lawful` for the block cipher and for AEAD
encryption, an additional — true — assumption for AEAD decryption); `…_needs_inPlace` are witnesses that the hypothesis
cannot be dropped (a primitive that is not length preserving: the program panics on the write through `as_mut()`, the
function returns the longer list).  Core Lean only.
-/
import AskarModel.Model.ResizeBuf
import AskarModel.Lemmas.Aead
import AskarModel.Lemmas.ResizeBuf

namespace Askar.ResizeBuf.Tie
open Askar.Aead Askar.ResizeBuf Askar.Crypto

/-! ### correspondence of the result types -/

/-- an `encrypt_in_place` result of `Model/Aead.lean` (buffer, returned position) as the result of a program run over a
    list buffer with capacity `cap`: `ok (buf, n)` ↦ `ok (⟨buf, cap⟩, n)`, errors and panics unchanged -/
def encOut (cap : Option Nat) : Res (Bytes × Nat) → Res (LBuf × Nat)
  | .ok (buf, n) => .ok (⟨buf, cap⟩, n)
  | .err e => .err e
  | .panic p => .panic p

/-- a `decrypt_in_place` result of `Model/Aead.lean` (the buffer afterwards): `ok buf` ↦ `ok (⟨buf, cap⟩, ())` -/
def decOut (cap : Option Nat) : Res Bytes → Res (LBuf × Unit)
  | .ok buf => .ok (⟨buf, cap⟩, ())
  | .err e => .err e
  | .panic p => .panic p

/-! ### the primitives work in place -/

/-- a detached AEAD that works in place: the ciphertext is as long as the message, the tag has the declared size, and an
    accepted ciphertext decrypts to a message of its own length -/
structure AeadInPlace (A : AeadPrim) : Prop where
  enc_len : ∀ k n a m c t, A.enc k n a m = some (c, t) → c.length = m.length
  tag_len : ∀ k n a m c t, A.enc k n a m = some (c, t) → t.length = A.tagLen
  dec_len : ∀ k n a c t m, A.dec k n a c t = some m → m.length = c.length

/-- a block function that maps 16-byte blocks to 16-byte blocks, both directions -/
structure BlockInPlace (C : BlockCipher) : Prop where
  enc_len : ∀ k b, b.length = 16 → (C.enc k b).length = 16
  dec_len : ∀ k b, b.length = 16 → (C.dec k b).length = 16

theorem BlockInPlace.of_lawful {C : BlockCipher} (h : C.Lawful) : BlockInPlace C := ⟨h.enc_len, h.dec_len⟩

/-- `Lawful` gives the encryption half; the decryption half (`dec_len`) is not part of `AeadPrim.Lawful` -/
theorem AeadInPlace.of_lawful {A : AeadPrim} (h : A.Lawful)
    (hd : ∀ k n a c t m, A.dec k n a c t = some m → m.length = c.length) : AeadInPlace A :=
  ⟨fun k n a m c t he => (h.enc_len k n a m c t he).1, fun k n a m c t he => (h.enc_len k n a m c t he).2, hd⟩

structure PrimsInPlace (P : Prims) : Prop where
  aes128 : BlockInPlace P.aes128
  aes256 : BlockInPlace P.aes256
  gcm128 : AeadInPlace P.gcm128
  gcm256 : AeadInPlace P.gcm256
  c20p : AeadInPlace P.c20p
  xc20p : AeadInPlace P.xc20p

/-! ### running a program over the list implementation, step by step -/

theorem step_eq_bind {β γ : Type} (r : Res β) (k : β → Res γ) : step r k = (r >>= k) := by cases r <;> rfl

@[simp] theorem run_ret {α β : Type} (I : BufImpl β) (a : α) (b : β) : (Prog.ret a).run I b = .ok (b, a) := rfl
@[simp] theorem run_fail {α β : Type} (I : BufImpl β) (e : Err) (b : β) : (Prog.fail e : Prog α).run I b = .err e := rfl
@[simp] theorem run_panic {α β : Type} (I : BufImpl β) (p : Panic) (b : β) : (Prog.panic p : Prog α).run I b = .panic p := rfl
@[simp] theorem run_view {α : Type} (k : Bytes → Prog α) (b : LBuf) : (Prog.view k).run specImpl b = (k b.data).run specImpl b := rfl

theorem run_ite {α β : Type} (I : BufImpl β) (c : Prop) [Decidable c] (p q : Prog α) (b : β) :
    (if c then p else q).run I b = if c then p.run I b else q.run I b := by
  split <;> rfl

@[simp] theorem run_lift_ok {α β γ : Type} (I : BufImpl β) (c : γ) (k : γ → Prog α) (b : β) :
    (Prog.lift (.ok c) k).run I b = (k c).run I b := rfl
@[simp] theorem run_lift_err {α β γ : Type} (I : BufImpl β) (e : Err) (k : γ → Prog α) (b : β) :
    (Prog.lift (.err e) k).run I b = .err e := rfl
@[simp] theorem run_lift_panic {α β γ : Type} (I : BufImpl β) (p : Panic) (k : γ → Prog α) (b : β) :
    (Prog.lift (.panic p) k).run I b = .panic p := rfl

theorem run_setView_ok {α : Type} (v : Bytes) (k : Prog α) (d : Bytes) (cap : Option Nat) (h : v.length = d.length) :
    (Prog.setView v k).run specImpl ⟨d, cap⟩ = k.run specImpl ⟨v, cap⟩ := by
  simp [Prog.run, specImpl, LBuf.setView, h, step]

theorem run_setView_bad {α : Type} (v : Bytes) (k : Prog α) (d : Bytes) (cap : Option Nat) (h : v.length ≠ d.length) :
    (Prog.setView v k).run specImpl ⟨d, cap⟩ = .panic .copyLen := by
  simp [Prog.run, specImpl, LBuf.setView, h, step]

theorem run_write_ok {α : Type} (x : Bytes) (k : Prog α) (d : Bytes) (cap : Option Nat)
    (h : fits cap (d.length + x.length) = true) :
    (Prog.write x k).run specImpl ⟨d, cap⟩ = k.run specImpl ⟨d ++ x, cap⟩ := by
  simp [Prog.run, specImpl, LBuf.write, h, step]

theorem run_insert0_ok {α : Type} (x : Bytes) (k : Prog α) (d : Bytes) (cap : Option Nat)
    (h : fits cap (d.length + x.length) = true) :
    (Prog.insert 0 x k).run specImpl ⟨d, cap⟩ = k.run specImpl ⟨x ++ d, cap⟩ := by
  simp [Prog.run, specImpl, LBuf.insert, h, step]

theorem run_remove0_ok {α : Type} (e : Nat) (k : Prog α) (d : Bytes) (cap : Option Nat) (h : e ≤ d.length) :
    (Prog.remove 0 e k).run specImpl ⟨d, cap⟩ = k.run specImpl ⟨d.drop e, cap⟩ := by
  simp [Prog.run, specImpl, LBuf.remove, h, step]

theorem run_resize_ok {α : Type} (n : Nat) (k : Prog α) (d : Bytes) (cap : Option Nat) (h : fits cap n = true) :
    (Prog.resize n k).run specImpl ⟨d, cap⟩ = k.run specImpl ⟨d.take n ++ zeros (n - d.length), cap⟩ := by
  simp [Prog.run, specImpl, LBuf.resize, h, step]

/-- the trait's default `buffer_extend(len)` over a list that may grow by `len`: `len` zero bytes are appended -/
theorem run_extend_ok {α : Type} (len : Nat) (k : Prog α) (d : Bytes) (cap : Option Nat)
    (h : fits cap (d.length + len) = true) :
    (extendP len k).run specImpl ⟨d, cap⟩ = k.run specImpl ⟨d ++ zeros len, cap⟩ := by
  unfold extendP
  rw [run_view, run_resize_ok _ _ _ _ h, run_view]
  have e1 : d.take (d.length + len) ++ zeros (d.length + len - d.length) = d ++ zeros len := by
    rw [List.take_of_length_le (by omega), Nat.add_sub_cancel_left]
  simp only [e1]
  have e2 : sliceRange (d ++ zeros len) d.length (d.length + len) = .ok (((d ++ zeros len).take (d.length + len)).drop d.length) := by
    simp [sliceRange, zeros]
  rw [e2, run_lift_ok]

theorem fits_none (n : Nat) : fits none n = true := rfl

theorem fits_mono (cap : Option Nat) (m n : Nat) (h : m ≤ n) (hn : fits cap n = true) : fits cap m = true := by
  cases cap with
  | none => rfl
  | some c => simp [fits] at hn ⊢; omega

/-! ### GCM / ChaCha20-Poly1305 wrappers -/

theorem streamEncryptP_run_cap (A : AeadPrim) (hA : ∀ k n a m c t, A.enc k n a m = some (c, t) → c.length = m.length)
    (nonceLen : Nat) (key nonce aad input : Bytes) (cap : Option Nat)
    (hfit : ∀ ct tag, A.enc key nonce aad input = some (ct, tag) → fits cap (input.length + tag.length) = true) :
    (streamEncryptP A nonceLen key nonce aad).run specImpl ⟨input, cap⟩
      = encOut cap (streamEncrypt A nonceLen key input nonce aad) := by
  unfold streamEncryptP streamEncrypt
  by_cases hn : nonce.length = nonceLen
  · simp only [hn, ne_eq, not_true_eq_false, if_false, fromSlice, if_true, run_lift_ok, run_view, Lemmas.bind_ok']
    cases he : A.enc key nonce aad input with
    | none => rfl
    | some p =>
      obtain ⟨ct, tag⟩ := p
      have hl := hA _ _ _ _ _ _ he
      simp only []
      rw [run_setView_ok _ _ _ _ hl, run_view, run_write_ok _ _ _ _ (by rw [hl]; exact hfit ct tag he)]
      simp [encOut, hl]
  · simp [hn, encOut]

theorem streamDecryptP_run_cap (A : AeadPrim) (hA : ∀ k n a c t m, A.dec k n a c t = some m → m.length = c.length)
    (nonceLen : Nat) (shortKind : Kind) (key nonce aad input : Bytes) (cap : Option Nat)
    (hfit : fits cap input.length = true) :
    (streamDecryptP A nonceLen shortKind key nonce aad).run specImpl ⟨input, cap⟩
      = decOut cap (streamDecrypt A nonceLen shortKind key input nonce aad) := by
  unfold streamDecryptP streamDecrypt
  by_cases hn : nonce.length = nonceLen
  · by_cases hb : input.length < A.tagLen
    · simp [hn, hb, decOut]
    · have h1 : input.length - A.tagLen ≤ input.length := by omega
      have h2 : (input.drop (input.length - A.tagLen)).length = A.tagLen := by simp; omega
      simp only [hn, hb, ne_eq, not_true_eq_false, if_false, fromSlice, if_true, run_lift_ok, run_view, Lemmas.bind_ok',
        sliceFrom, sliceTo, h1, h2]
      cases hd : A.dec key nonce aad (input.take (input.length - A.tagLen)) (input.drop (input.length - A.tagLen)) with
      | none => rfl
      | some pt =>
        have hl : pt.length = input.length - A.tagLen := by
          rw [hA _ _ _ _ _ _ hd, List.length_take]; omega
        simp only []
        rw [run_setView_ok _ _ _ _ (by rw [List.length_append, List.length_drop, hl]; omega), run_resize_ok _ _ _ _ (fits_mono cap _ _ h1 hfit)]
        simp [decOut, List.take_left' hl, hl, zeros]
  · simp [hn, decOut]

/-! ### AES-CBC-HMAC -/

theorem copyInto_length (buf : Bytes) (lo hi : Nat) (src r : Bytes) (h : copyInto buf lo hi src = .ok r) :
    r.length = buf.length := by
  unfold copyInto at h
  by_cases h1 : lo ≤ hi ∧ hi ≤ buf.length
  · by_cases h2 : src.length = hi - lo
    · simp only [h1, and_self, if_true, h2] at h
      cases h
      simp [List.length_take, h2]; omega
    · simp [h1, h2] at h
  · simp [h1] at h

theorem cbcHmacEncryptP_run_cap (C : BlockCipher) (hC : ∀ k b, b.length = 16 → (C.enc k b).length = 16) (M : Mac) (K : Nat)
    (key nonce aad input : Bytes) (cap : Option Nat)
    (hfit : fits cap (input.length + (cbcPaddingLength input.length + K)) = true) :
    (cbcHmacEncryptP C M K key nonce aad).run specImpl ⟨input, cap⟩
      = encOut cap (cbcHmacEncrypt C M K key input nonce aad) := by
  unfold cbcHmacEncryptP cbcHmacEncrypt
  by_cases hn : nonce.length = 16
  case neg => simp [hn, encOut]
  by_cases hK : K > M.outLen
  case pos => simp [hn, hK, encOut]
  by_cases ha : aadTooLong aad = true
  case pos => simp [hn, hK, ha, encOut]
  simp only [hn, hK, ha, ne_eq, not_true_eq_false, if_false, run_view, Bool.false_eq_true]
  rw [run_extend_ok _ _ _ _ hfit]
  by_cases hk1 : K ≤ key.length
  case neg => simp [sliceFrom, hk1, encOut]
  by_cases hk2 : key.length - K = K
  case neg => simp [sliceFrom, hk1, fromSlice, hk2, encOut]
  have hpl := Askar.Aead.Lemmas.pkcs7Pad_length 16 (by decide) input
  have hctl : (Cbc.encrypt (C.enc (key.drop K)) nonce (Cbc.pkcs7Pad 16 input)).length
      = input.length + cbcPaddingLength input.length := by
    rw [Askar.Aead.Lemmas.cbc_encrypt_length _ (hC _) _ _ hn, hpl, Nat.mul_div_cancel _ (by decide : 0 < 16),
      ← Askar.Aead.Lemmas.pad_len_eq]
    omega
  have e7 : ¬ (input.length / 16 + 1) * 16 > (input ++ zeros (cbcPaddingLength input.length + K)).length := by
    rw [Askar.Aead.Lemmas.pad_len_eq]; simp [zeros]
  have e8 : (input ++ zeros (cbcPaddingLength input.length + K)).drop (input.length + cbcPaddingLength input.length) = zeros K := by
    rw [List.drop_append]; simp [zeros, List.drop_replicate]
  simp only [sliceFrom, hk1, if_true, fromSlice, List.length_drop, hk2, hn, Askar.Aead.Lemmas.bind_ok, run_lift_ok, run_view, e7, if_false,
    List.take_left' rfl, e8]
  generalize Cbc.encrypt (C.enc (key.drop K)) nonce (Cbc.pkcs7Pad 16 input) = ct at hctl
  rw [run_setView_ok _ _ _ _ (by simp [hctl, zeros]; omega)]
  have e10 : input.length + cbcPaddingLength input.length ≤ (ct ++ zeros K).length := by simp [hctl]
  simp only [sliceTo, hk1, if_true, run_lift_ok, run_view, e10, Askar.Aead.Lemmas.bind_ok, List.take_left' hctl]
  generalize M.mac (key.take K) (macInput aad nonce ct) = mac
  by_cases hm : K ≤ mac.length
  case neg => simp [hm, encOut]
  simp only [hm, if_true, run_lift_ok, Askar.Aead.Lemmas.bind_ok]
  cases hci : copyInto (ct ++ zeros K) (input.length + cbcPaddingLength input.length)
      (input.length + cbcPaddingLength input.length + K) (mac.take K) with
  | ok buf3 =>
    have hl := copyInto_length _ _ _ _ _ hci
    simp only [run_lift_ok, Askar.Aead.Lemmas.bind_ok]
    rw [run_setView_ok _ _ _ _ hl]
    rfl
  | err e => rfl
  | panic p => rfl

theorem decBlocks_all_length (dec : Bytes → Bytes) (hlen : ∀ b, b.length = 16 → (dec b).length = 16) :
    ∀ (cs : List Bytes) (prev : Bytes), prev.length = 16 → (∀ c ∈ cs, c.length = 16) →
      ∀ p ∈ Cbc.decBlocks dec prev cs, p.length = 16
  | [], _, _, _ => by simp [Cbc.decBlocks]
  | c :: cs, prev, hprev, h => by
    have hc : c.length = 16 := h c (by simp)
    intro p hp
    simp only [Cbc.decBlocks, List.mem_cons] at hp
    cases hp with
    | inl h1 => subst h1; rw [Askar.Aead.Lemmas.xor_length, hlen _ hc, hprev]; rfl
    | inr h1 => exact decBlocks_all_length dec hlen cs c hc (fun q hq => h q (by simp [hq])) p h1

theorem decBlocks_length (dec : Bytes → Bytes) : ∀ (cs : List Bytes) (prev : Bytes), (Cbc.decBlocks dec prev cs).length = cs.length
  | [], _ => by simp [Cbc.decBlocks]
  | c :: cs, prev => by simp [Cbc.decBlocks, decBlocks_length dec cs]

theorem cbc_decrypt_length (dec : Bytes → Bytes) (hlen : ∀ b, b.length = 16 → (dec b).length = 16)
    (iv data : Bytes) (hiv : iv.length = 16) : (Cbc.decrypt dec iv data).length = 16 * (data.length / 16) := by
  unfold Cbc.decrypt
  rw [Askar.Aead.Lemmas.flatten_length_of_all 16 _
      (decBlocks_all_length dec hlen _ iv hiv (Askar.Aead.Lemmas.chunks_all_length 16 data)),
    decBlocks_length, Askar.Aead.Lemmas.chunks_length]

/-- what PKCS#7 removal returns is a prefix of its input -/
theorem pkcs7Unpad_take (k : Nat) (b pt : Bytes) (h : Cbc.pkcs7Unpad k b = some pt) :
    pt = b.take pt.length ∧ pt.length ≤ b.length := by
  unfold Cbc.pkcs7Unpad at h
  split at h
  · cases h
  · rename_i last _
    simp only at h
    split at h
    · cases h
    · split at h
      · cases h
        simp [List.length_take]
      · cases h

theorem cbcHmacDecryptP_run_cap (fixed : Bool) (C : BlockCipher) (hC : ∀ k b, b.length = 16 → (C.dec k b).length = 16)
    (M : Mac) (K : Nat) (key nonce aad input : Bytes) (cap : Option Nat) (hfit : fits cap input.length = true) :
    (cbcHmacDecryptP fixed C M K key nonce aad).run specImpl ⟨input, cap⟩
      = decOut cap (cbcHmacDecrypt fixed C M K key input nonce aad) := by
  unfold cbcHmacDecryptP cbcHmacDecrypt
  by_cases hn : nonce.length = 16
  case neg => simp [hn, decOut]
  by_cases ha : aadTooLong aad = true
  case pos => simp [hn, ha, decOut]
  by_cases hb : input.length < K
  case pos => simp [hn, ha, hb, decOut]
  have h1 : input.length - K ≤ input.length := by omega
  have h2 : input.length - (input.length - K) = K := by omega
  simp only [hn, ha, hb, ne_eq, not_true_eq_false, if_false, run_view, Bool.false_eq_true, sliceFrom, sliceTo, h1, if_true,
    fromSlice, List.length_drop, h2, Askar.Aead.Lemmas.bind_ok, run_lift_ok]
  by_cases hk1 : K ≤ key.length
  case neg => simp [hk1, decOut]
  simp only [hk1, if_true, run_lift_ok, Askar.Aead.Lemmas.bind_ok]
  generalize M.mac (key.take K) (macInput aad nonce (input.take (input.length - K))) = mac
  by_cases hm : K ≤ mac.length
  case neg => simp [hm, decOut]
  simp only [hm, if_true, run_lift_ok, Askar.Aead.Lemmas.bind_ok]
  generalize decide (input.drop (input.length - K) = mac.take K) = tagMatch
  by_cases hf : (fixed && !tagMatch) = true
  case pos => simp [hf, decOut]
  rw [if_neg hf, if_neg hf]
  by_cases hk2 : key.length - K = K
  case neg => simp [hk2, decOut]
  simp only [List.length_drop, hk2, if_true, run_lift_ok, Askar.Aead.Lemmas.bind_ok]
  cases hd : cbcDecryptPadded (C.dec (key.drop K)) nonce (input.take (input.length - K)) with
  | none => rfl
  | some pt =>
    simp only []
    cases tagMatch with
    | false => rfl
    | true =>
      simp only [Bool.not_true, Bool.false_eq_true, if_false]
      have hcl : (input.take (input.length - K)).length = input.length - K := by rw [List.length_take]; omega
      unfold cbcDecryptPadded at hd
      rw [hcl] at hd
      by_cases hmod : (input.length - K) % 16 = 0
      case neg => simp [hmod] at hd
      simp only [hmod, ne_eq, not_true_eq_false, if_false] at hd
      have hdl := cbc_decrypt_length (C.dec (key.drop K)) (hC _) nonce (input.take (input.length - K)) hn
      rw [hcl] at hdl
      have hdl' : (Cbc.decrypt (C.dec (key.drop K)) nonce (input.take (input.length - K))).length = input.length - K := by
        rw [hdl]; have := Nat.div_add_mod (input.length - K) 16; omega
      obtain ⟨hpt, hptl⟩ := pkcs7Unpad_take 16 _ pt hd
      generalize Cbc.decrypt (C.dec (key.drop K)) nonce (input.take (input.length - K)) = D at hdl' hpt hptl
      rw [run_setView_ok _ _ _ _ (by rw [List.length_append, List.length_drop, hdl']; omega),
        run_resize_ok _ _ _ _ (fits_mono cap _ _ (by omega) hfit)]
      have e1 : (D ++ input.drop (input.length - K)).take pt.length = pt := by
        rw [List.take_append_of_le_length hptl]; exact hpt.symm
      have e2 : pt.length - (D ++ input.drop (input.length - K)).length = 0 := by
        rw [List.length_append]; omega
      rw [e1, e2]
      simp [decOut, zeros]

/-! ### AES key wrap -/

theorem kwWrapStep_len (enc : Bytes → Bytes) (hlen : ∀ b, b.length = 16 → (enc b).length = 16) (t : Nat) (iv c : Bytes)
    (hiv : iv.length = 8) (hc : c.length = 8) :
    (kwWrapStep enc t iv c).1.length = 8 ∧ (kwWrapStep enc t iv c).2.length = 8 := by
  have hb : (iv ++ c).length = 16 := by simp [hiv, hc]
  have hel := hlen _ hb
  constructor
  · simp only [kwWrapStep, Askar.Aead.Lemmas.xor_length, List.length_take, hel, Askar.Aead.Lemmas.be64_length]; rfl
  · simp only [kwWrapStep, List.length_drop, hel]

theorem kwWrapPass_len (enc : Bytes → Bytes) (hlen : ∀ b, b.length = 16 → (enc b).length = 16) (base : Nat) :
    ∀ (cs : List Bytes) (iv : Bytes) (i : Nat), iv.length = 8 → (∀ c ∈ cs, c.length = 8) →
      (kwWrapPass enc base iv cs i).1.length = 8 ∧ (∀ c ∈ (kwWrapPass enc base iv cs i).2, c.length = 8)
  | [], iv, i, hiv, _ => by simp [kwWrapPass, hiv]
  | c :: cs, iv, i, hiv, h => by
    have hc : c.length = 8 := h c (by simp)
    obtain ⟨s2, s3⟩ := kwWrapStep_len enc hlen (base + i + 1) iv c hiv hc
    obtain ⟨r2, r3⟩ := kwWrapPass_len enc hlen base cs (kwWrapStep enc (base + i + 1) iv c).1 (i + 1) s2
      (fun d hd => h d (by simp [hd]))
    refine ⟨by simpa only [kwWrapPass] using r2, ?_⟩
    intro d hd
    simp only [kwWrapPass, List.mem_cons] at hd
    cases hd with
    | inl e => rw [e]; exact s3
    | inr e => exact r3 d e

theorem kwWrapPasses_len (enc : Bytes → Bytes) (hlen : ∀ b, b.length = 16 → (enc b).length = 16) (blocks : Nat) :
    ∀ (k j : Nat) (iv : Bytes) (cs : List Bytes), iv.length = 8 → (∀ c ∈ cs, c.length = 8) →
      (kwWrapPasses enc blocks k j iv cs).1.length = 8 ∧ (∀ c ∈ (kwWrapPasses enc blocks k j iv cs).2, c.length = 8)
      ∧ (kwWrapPasses enc blocks k j iv cs).2.length = cs.length
  | 0, _, iv, cs, hiv, h => by simp [kwWrapPasses, hiv]; exact h
  | k + 1, j, iv, cs, hiv, h => by
    obtain ⟨p2, p3⟩ := kwWrapPass_len enc hlen (blocks * j) cs iv 0 hiv h
    obtain ⟨r2, r3, r4⟩ := kwWrapPasses_len enc hlen blocks k (j + 1) _ _ p2 p3
    refine ⟨by simpa only [kwWrapPasses] using r2, by simpa only [kwWrapPasses] using r3, ?_⟩
    simp only [kwWrapPasses]; rw [r4, Askar.Aead.Lemmas.kwWrapPass_length]

theorem kwUnwrapStep_len (dec : Bytes → Bytes) (hlen : ∀ b, b.length = 16 → (dec b).length = 16) (t : Nat) (iv c : Bytes)
    (hiv : iv.length = 8) (hc : c.length = 8) :
    (kwUnwrapStep dec t iv c).1.length = 8 ∧ (kwUnwrapStep dec t iv c).2.length = 8 := by
  have hb : (Cbc.xor iv (Bytes.be64 t) ++ c).length = 16 := by
    simp [Askar.Aead.Lemmas.xor_length, Askar.Aead.Lemmas.be64_length, hiv, hc]
  have hel := hlen _ hb
  constructor
  · simp only [kwUnwrapStep, List.length_take, hel]; rfl
  · simp only [kwUnwrapStep, List.length_drop, hel]

theorem kwUnwrapPass_len (dec : Bytes → Bytes) (hlen : ∀ b, b.length = 16 → (dec b).length = 16) (base : Nat) :
    ∀ (cs : List Bytes) (iv : Bytes) (i : Nat), iv.length = 8 → (∀ c ∈ cs, c.length = 8) →
      (kwUnwrapPass dec base iv cs i).1.length = 8 ∧ (∀ c ∈ (kwUnwrapPass dec base iv cs i).2, c.length = 8)
  | [], iv, i, hiv, _ => by simp [kwUnwrapPass, hiv]
  | c :: cs, iv, i, hiv, h => by
    have hc : c.length = 8 := h c (by simp)
    obtain ⟨r2, r3⟩ := kwUnwrapPass_len dec hlen base cs iv (i + 1) hiv (fun d hd => h d (by simp [hd]))
    obtain ⟨s2, s3⟩ := kwUnwrapStep_len dec hlen (base + i + 1) (kwUnwrapPass dec base iv cs (i + 1)).1 c r2 hc
    refine ⟨by simpa only [kwUnwrapPass] using s2, ?_⟩
    intro d hd
    simp only [kwUnwrapPass, List.mem_cons] at hd
    cases hd with
    | inl e => rw [e]; exact s3
    | inr e => exact r3 d e

theorem kwUnwrapPasses_len (dec : Bytes → Bytes) (hlen : ∀ b, b.length = 16 → (dec b).length = 16) (blocks : Nat) :
    ∀ (k j : Nat) (iv : Bytes) (cs : List Bytes), iv.length = 8 → (∀ c ∈ cs, c.length = 8) →
      (kwUnwrapPasses dec blocks k j iv cs).1.length = 8 ∧ (∀ c ∈ (kwUnwrapPasses dec blocks k j iv cs).2, c.length = 8)
  | 0, _, iv, cs, hiv, h => by simp [kwUnwrapPasses, hiv]; exact h
  | k + 1, j, iv, cs, hiv, h => by
    obtain ⟨r2, r3⟩ := kwUnwrapPasses_len dec hlen blocks k (j + 1) iv cs hiv h
    obtain ⟨p2, p3⟩ := kwUnwrapPass_len dec hlen (blocks * j) _ _ 0 r2 r3
    exact ⟨by simpa only [kwUnwrapPasses] using p2, by simpa only [kwUnwrapPasses] using p3⟩

theorem kwEncryptP_run_cap (C : BlockCipher) (hC : ∀ k b, b.length = 16 → (C.enc k b).length = 16)
    (key nonce aad input : Bytes) (cap : Option Nat) (hfit : fits cap (input.length + 8) = true) :
    (kwEncryptP C key nonce aad).run specImpl ⟨input, cap⟩ = encOut cap (kwEncrypt C key input nonce aad) := by
  unfold kwEncryptP kwEncrypt
  by_cases h1 : nonce.isEmpty = true
  case neg => simp [h1, encOut]
  by_cases h2 : aad.isEmpty = true
  case neg => simp [h1, h2, encOut]
  by_cases h3 : input.length % 8 = 0
  case neg => simp [h1, h2, h3, encOut]
  simp only [h1, h2, h3, Bool.not_true, Bool.false_eq_true, if_false, ne_eq, not_true_eq_false, run_view]
  rw [run_insert0_ok _ _ _ _ (by simpa [zeros] using hfit)]
  have hn : 8 * (input.length / 8) = input.length := by have := Nat.div_add_mod input.length 8; omega
  have e1 : 8 ≤ (zeros 8 ++ input).length := by simp [zeros]
  have e2 : (zeros 8 ++ input).drop 8 = input := List.drop_left' (by simp [zeros])
  have e3 : (zeros 8 ++ input).take 8 = zeros 8 := List.take_left' (by simp [zeros])
  obtain ⟨r2, r3, r4⟩ := kwWrapPasses_len (C.enc key) (hC key) (input.length / 8) 6 0 kwIv (Cbc.chunks 8 input)
    Askar.Aead.Lemmas.kwIv_length (Askar.Aead.Lemmas.chunks_all_length 8 input)
  simp only [run_view, sliceFrom, e1, if_true, run_lift_ok, Askar.Aead.Lemmas.bind_ok, e2, e3, hn, List.drop_length,
    List.append_nil]
  generalize kwWrapPasses (C.enc key) (input.length / 8) 6 0 kwIv (Cbc.chunks 8 input) = r at r2 r3 r4
  have hfl : r.2.flatten.length = input.length := by
    rw [Askar.Aead.Lemmas.flatten_length_of_all 8 _ r3, r4, Askar.Aead.Lemmas.chunks_length, hn]
  cases hci : copyInto (zeros 8 ++ r.2.flatten) 0 8 r.1 with
  | ok buf3 =>
    have hl := copyInto_length _ _ _ _ _ hci
    have hl' : buf3.length = input.length + 8 := by rw [hl]; simp [zeros, hfl]; try omega
    simp only [run_lift_ok, Askar.Aead.Lemmas.bind_ok]
    rw [run_setView_ok _ _ _ _ (by rw [hl']; simp [zeros]; try omega)]
    simp [encOut, hl']
  | err e => rfl
  | panic p => rfl

theorem kwDecryptP_run_cap (C : BlockCipher) (hC : ∀ k b, b.length = 16 → (C.dec k b).length = 16)
    (key nonce aad input : Bytes) (cap : Option Nat) :
    (kwDecryptP C key nonce aad).run specImpl ⟨input, cap⟩ = decOut cap (kwDecrypt C key input nonce aad) := by
  unfold kwDecryptP kwDecrypt
  by_cases h1 : nonce.isEmpty = true
  case neg => simp [h1, decOut]
  by_cases h2 : aad.isEmpty = true
  case neg => simp [h1, h2, decOut]
  by_cases h3 : input.length % 8 = 0
  case neg => simp [h1, h2, h3, decOut]
  by_cases h4 : input.length / 8 < 1
  case pos =>
    have h4' : input.length < 8 := by omega
    simp [h1, h2, h3, h4, h4', decOut]
  have h5 : 8 ≤ input.length := by omega
  have e5 : 0 ≤ 8 ∧ 8 ≤ input.length := ⟨by omega, h5⟩
  have e6 : (input.take 8).length = 8 := by simp [List.length_take]; omega
  have e7 : 8 * ((input.drop 8).length / 8) = (input.drop 8).length := by
    rw [List.length_drop]; have := Nat.div_add_mod (input.length - 8) 8; omega
  simp only [h1, h2, h3, h4, Bool.not_true, Bool.false_eq_true, if_false, ne_eq, not_true_eq_false, run_view, sliceRange, e5,
    and_self, if_true, Askar.Aead.Lemmas.bind_ok, List.drop_zero, tryInto8, e6, run_lift_ok, drainFront]
  rw [run_remove0_ok _ _ _ _ h5]
  obtain ⟨_, r3⟩ := kwUnwrapPasses_len (C.dec key) (hC key) (input.length / 8 - 1) 6 0 (input.take 8)
    (Cbc.chunks 8 (input.drop 8)) e6 (Askar.Aead.Lemmas.chunks_all_length 8 _)
  have r4 := Askar.Aead.Lemmas.kwUnwrapPasses_length (C.dec key) (input.length / 8 - 1) 6 0 (input.take 8)
    (Cbc.chunks 8 (input.drop 8))
  simp only [run_view, e7, List.drop_length, List.append_nil]
  generalize kwUnwrapPasses (C.dec key) (input.length / 8 - 1) 6 0 (input.take 8) (Cbc.chunks 8 (input.drop 8)) = r at r3 r4
  have hfl : r.2.flatten.length = (input.drop 8).length := by
    rw [Askar.Aead.Lemmas.flatten_length_of_all 8 _ r3, r4, Askar.Aead.Lemmas.chunks_length, e7]
  rw [run_setView_ok _ _ _ _ hfl]
  by_cases hiv : r.1 = kwIv
  · simp [hiv, decOut]
  · simp [hiv, decOut]

/-! ### dispatch (`AnyKey::encrypt_in_place` / `decrypt_in_place`) -/

/-- the number of bytes `encrypt_in_place` adds to a message of `n` bytes (tag; padding + tag; the key-wrap IV block) -/
def encGrowth (P : Prims) (k : Key) (n : Nat) : Nat :=
  match k.alg with
  | .A128Gcm => P.gcm128.tagLen
  | .A256Gcm => P.gcm256.tagLen
  | .A128CbcHs256 => cbcPaddingLength n + 16
  | .A256CbcHs512 => cbcPaddingLength n + 32
  | .A128Kw => 8
  | .A256Kw => 8
  | .C20P => P.c20p.tagLen
  | .XC20P => P.xc20p.tagLen
  | .Ed25519 => 0

/-- with the tag sizes of the Rust instantiation this is what a caller computes from the public API:
    `aead_padding(msg_len) + aead_params().tag_length` -/
theorem encGrowth_eq (P : Prims) (hP : P.Lawful) (k : Key) (n : Nat) :
    encGrowth P k n = aeadPadding k n + k.alg.params.2 := by
  obtain ⟨alg, bytes⟩ := k
  cases alg <;> simp [encGrowth, aeadPadding, Alg.params, hP.gcm128_tag, hP.gcm256_tag, hP.c20p_tag, hP.xc20p_tag]

theorem encryptInPlaceP_run_cap (P : Prims) (hP : PrimsInPlace P) (k : Key) (nonce aad input : Bytes) (cap : Option Nat)
    (hfit : fits cap (input.length + encGrowth P k input.length) = true) :
    (encryptInPlaceP P k nonce aad).run specImpl ⟨input, cap⟩ = encOut cap (encryptInPlace P k input nonce aad) := by
  obtain ⟨alg, bytes⟩ := k
  cases alg <;> simp only [encryptInPlaceP, encryptInPlace, encGrowth] at hfit ⊢
  · exact streamEncryptP_run_cap _ hP.gcm128.enc_len _ _ _ _ _ _
      (fun ct tag he => by rw [hP.gcm128.tag_len _ _ _ _ _ _ he]; exact hfit)
  · exact streamEncryptP_run_cap _ hP.gcm256.enc_len _ _ _ _ _ _
      (fun ct tag he => by rw [hP.gcm256.tag_len _ _ _ _ _ _ he]; exact hfit)
  · exact cbcHmacEncryptP_run_cap _ hP.aes128.enc_len _ _ _ _ _ _ _ hfit
  · exact cbcHmacEncryptP_run_cap _ hP.aes256.enc_len _ _ _ _ _ _ _ hfit
  · exact kwEncryptP_run_cap _ hP.aes128.enc_len _ _ _ _ _ hfit
  · exact kwEncryptP_run_cap _ hP.aes256.enc_len _ _ _ _ _ hfit
  · exact streamEncryptP_run_cap _ hP.c20p.enc_len _ _ _ _ _ _
      (fun ct tag he => by rw [hP.c20p.tag_len _ _ _ _ _ _ he]; exact hfit)
  · exact streamEncryptP_run_cap _ hP.xc20p.enc_len _ _ _ _ _ _
      (fun ct tag he => by rw [hP.xc20p.tag_len _ _ _ _ _ _ he]; exact hfit)
  · rfl

theorem decryptInPlaceP_run_cap (fixed : Bool) (P : Prims) (hP : PrimsInPlace P) (k : Key) (nonce aad input : Bytes)
    (cap : Option Nat) (hfit : fits cap input.length = true) :
    (decryptInPlaceP fixed P k nonce aad).run specImpl ⟨input, cap⟩ = decOut cap (decryptInPlace fixed P k input nonce aad) := by
  obtain ⟨alg, bytes⟩ := k
  cases alg <;> simp only [decryptInPlaceP, decryptInPlace]
  · exact streamDecryptP_run_cap _ hP.gcm128.dec_len _ _ _ _ _ _ _ hfit
  · exact streamDecryptP_run_cap _ hP.gcm256.dec_len _ _ _ _ _ _ _ hfit
  · exact cbcHmacDecryptP_run_cap _ _ hP.aes128.dec_len _ _ _ _ _ _ _ hfit
  · exact cbcHmacDecryptP_run_cap _ _ hP.aes256.dec_len _ _ _ _ _ _ _ hfit
  · exact kwDecryptP_run_cap _ hP.aes128.dec_len _ _ _ _ _
  · exact kwDecryptP_run_cap _ hP.aes256.dec_len _ _ _ _ _
  · exact streamDecryptP_run_cap _ hP.c20p.dec_len _ _ _ _ _ _ _ hfit
  · exact streamDecryptP_run_cap _ hP.xc20p.dec_len _ _ _ _ _ _ _ hfit
  · rfl

/-! ### the statements of the task: the program over `specImpl` without capacity computes the function -/

theorem streamEncryptP_run_spec (A : AeadPrim) (hA : ∀ k n a m c t, A.enc k n a m = some (c, t) → c.length = m.length)
    (nonceLen : Nat) (key nonce aad input : Bytes) :
    (streamEncryptP A nonceLen key nonce aad).run specImpl ⟨input, none⟩
      = encOut none (streamEncrypt A nonceLen key input nonce aad) :=
  streamEncryptP_run_cap A hA nonceLen key nonce aad input none (fun _ _ _ => rfl)

theorem streamDecryptP_run_spec (A : AeadPrim) (hA : ∀ k n a c t m, A.dec k n a c t = some m → m.length = c.length)
    (nonceLen : Nat) (shortKind : Kind) (key nonce aad input : Bytes) :
    (streamDecryptP A nonceLen shortKind key nonce aad).run specImpl ⟨input, none⟩
      = decOut none (streamDecrypt A nonceLen shortKind key input nonce aad) :=
  streamDecryptP_run_cap A hA nonceLen shortKind key nonce aad input none rfl

theorem cbcHmacEncryptP_run_spec (C : BlockCipher) (hC : ∀ k b, b.length = 16 → (C.enc k b).length = 16) (M : Mac) (K : Nat)
    (key nonce aad input : Bytes) :
    (cbcHmacEncryptP C M K key nonce aad).run specImpl ⟨input, none⟩
      = encOut none (cbcHmacEncrypt C M K key input nonce aad) :=
  cbcHmacEncryptP_run_cap C hC M K key nonce aad input none rfl

theorem cbcHmacDecryptP_run_spec (fixed : Bool) (C : BlockCipher) (hC : ∀ k b, b.length = 16 → (C.dec k b).length = 16)
    (M : Mac) (K : Nat) (key nonce aad input : Bytes) :
    (cbcHmacDecryptP fixed C M K key nonce aad).run specImpl ⟨input, none⟩
      = decOut none (cbcHmacDecrypt fixed C M K key input nonce aad) :=
  cbcHmacDecryptP_run_cap fixed C hC M K key nonce aad input none rfl

theorem kwEncryptP_run_spec (C : BlockCipher) (hC : ∀ k b, b.length = 16 → (C.enc k b).length = 16)
    (key nonce aad input : Bytes) :
    (kwEncryptP C key nonce aad).run specImpl ⟨input, none⟩ = encOut none (kwEncrypt C key input nonce aad) :=
  kwEncryptP_run_cap C hC key nonce aad input none rfl

theorem kwDecryptP_run_spec (C : BlockCipher) (hC : ∀ k b, b.length = 16 → (C.dec k b).length = 16)
    (key nonce aad input : Bytes) :
    (kwDecryptP C key nonce aad).run specImpl ⟨input, none⟩ = decOut none (kwDecrypt C key input nonce aad) :=
  kwDecryptP_run_cap C hC key nonce aad input none

theorem encryptInPlaceP_run_spec (P : Prims) (hP : PrimsInPlace P) (k : Key) (nonce aad input : Bytes) :
    (encryptInPlaceP P k nonce aad).run specImpl ⟨input, none⟩ = encOut none (encryptInPlace P k input nonce aad) :=
  encryptInPlaceP_run_cap P hP k nonce aad input none rfl

theorem decryptInPlaceP_run_spec (fixed : Bool) (P : Prims) (hP : PrimsInPlace P) (k : Key) (nonce aad input : Bytes) :
    (decryptInPlaceP fixed P k nonce aad).run specImpl ⟨input, none⟩
      = decOut none (decryptInPlace fixed P k input nonce aad) :=
  decryptInPlaceP_run_cap fixed P hP k nonce aad input none rfl

/-! ### over a fixed buffer: `Writer<[u8]>` (repaired variant) with enough capacity -/

/-- a `Writer` run `x` against a run `r` over the list with a capacity: the same returned value, the list's bytes before the
    position, position = their number, slice length = the capacity; the same error; nothing where the list run panics -/
def WriterOut {α : Type} (r : Res (LBuf × α)) (x : Res (Writer × α)) : Prop :=
  match r with
  | .ok (l, a) => ∃ rest', l.cap = some (l.data.length + rest'.length) ∧ x = .ok (⟨l.data ++ rest', l.data.length⟩, a)
  | .err e => x = .err e
  | .panic _ => True

/-- `writer_run_agrees` with the length of the slice kept -/
theorem writer_run_out {α : Type} (prog : Prog α) (input rest : Bytes) :
    WriterOut (prog.run specImpl ⟨input, some (input.length + rest.length)⟩)
      (prog.run (writerImpl true) ⟨input ++ rest, input.length⟩) := by
  have h := Lemmas.run_refines (writerImpl true) Lemmas.WRel False Lemmas.writer_refines prog _ _
    (Lemmas.wrel_mk input rest _ rfl)
  revert h
  cases prog.run specImpl ⟨input, some (input.length + rest.length)⟩ with
  | ok p =>
    obtain ⟨l', a⟩ := p
    intro h
    rcases h with ⟨b', hx, hR⟩ | ⟨hf, _⟩
    · obtain ⟨D, rest', rfl, rfl⟩ := Lemmas.wrel_split b' l' hR
      exact ⟨rest', rfl, hx⟩
    · exact hf.elim
  | err e =>
    intro h
    rcases h with hx | ⟨hf, _⟩
    · exact hx
    · exact hf.elim
  | panic p => intro _; trivial

/-- the outcome of an `encrypt_in_place` over a Writer whose slice has `total` bytes, against the function's result -/
def WriterEnc (total : Nat) (r : Res (Bytes × Nat)) (x : Res (Writer × Nat)) : Prop :=
  match r with
  | .ok (buf, n) => ∃ rest', buf.length + rest'.length = total ∧ x = .ok (⟨buf ++ rest', buf.length⟩, n)
  | .err e => x = .err e
  | .panic _ => True

def WriterDec (total : Nat) (r : Res Bytes) (x : Res (Writer × Unit)) : Prop :=
  match r with
  | .ok buf => ∃ rest', buf.length + rest'.length = total ∧ x = .ok (⟨buf ++ rest', buf.length⟩, ())
  | .err e => x = .err e
  | .panic _ => True

theorem writerEnc_of_cap (prog : Prog Nat) (input rest : Bytes) (r : Res (Bytes × Nat))
    (h : prog.run specImpl ⟨input, some (input.length + rest.length)⟩ = encOut (some (input.length + rest.length)) r) :
    WriterEnc (input.length + rest.length) r (prog.run (writerImpl true) ⟨input ++ rest, input.length⟩) := by
  have hw := writer_run_out prog input rest
  rw [h] at hw
  cases r with
  | ok p =>
    obtain ⟨buf, n⟩ := p
    obtain ⟨rest', hc, hx⟩ := hw
    simp only [Option.some.injEq] at hc
    exact ⟨rest', hc.symm, hx⟩
  | err e => exact hw
  | panic p => trivial

theorem writerDec_of_cap (prog : Prog Unit) (input rest : Bytes) (r : Res Bytes)
    (h : prog.run specImpl ⟨input, some (input.length + rest.length)⟩ = decOut (some (input.length + rest.length)) r) :
    WriterDec (input.length + rest.length) r (prog.run (writerImpl true) ⟨input ++ rest, input.length⟩) := by
  have hw := writer_run_out prog input rest
  rw [h] at hw
  cases r with
  | ok buf =>
    obtain ⟨rest', hc, hx⟩ := hw
    simp only [Option.some.injEq] at hc
    exact ⟨rest', hc.symm, hx⟩
  | err e => exact hw
  | panic p => trivial

theorem fits_some (c n : Nat) (h : n ≤ c) : fits (some c) n = true := by simp [fits, h]

theorem writer_encryptInPlace (P : Prims) (hP : PrimsInPlace P) (k : Key) (nonce aad input rest : Bytes)
    (hcap : encGrowth P k input.length ≤ rest.length) :
    WriterEnc (input.length + rest.length) (encryptInPlace P k input nonce aad)
      ((encryptInPlaceP P k nonce aad).run (writerImpl true) ⟨input ++ rest, input.length⟩) :=
  writerEnc_of_cap _ input rest _ (encryptInPlaceP_run_cap P hP k nonce aad input _ (fits_some _ _ (by omega)))

theorem writer_decryptInPlace (fixed : Bool) (P : Prims) (hP : PrimsInPlace P) (k : Key) (nonce aad input rest : Bytes) :
    WriterDec (input.length + rest.length) (decryptInPlace fixed P k input nonce aad)
      ((decryptInPlaceP fixed P k nonce aad).run (writerImpl true) ⟨input ++ rest, input.length⟩) :=
  writerDec_of_cap _ input rest _ (decryptInPlaceP_run_cap fixed P hP k nonce aad input _ (fits_some _ _ (by omega)))

theorem writer_cbcHmacEncrypt (C : BlockCipher) (hC : ∀ k b, b.length = 16 → (C.enc k b).length = 16) (M : Mac) (K : Nat)
    (key nonce aad input rest : Bytes) (hcap : cbcPaddingLength input.length + K ≤ rest.length) :
    WriterEnc (input.length + rest.length) (cbcHmacEncrypt C M K key input nonce aad)
      ((cbcHmacEncryptP C M K key nonce aad).run (writerImpl true) ⟨input ++ rest, input.length⟩) :=
  writerEnc_of_cap _ input rest _ (cbcHmacEncryptP_run_cap C hC M K key nonce aad input _ (fits_some _ _ (by omega)))

theorem writer_cbcHmacDecrypt (fixed : Bool) (C : BlockCipher) (hC : ∀ k b, b.length = 16 → (C.dec k b).length = 16) (M : Mac)
    (K : Nat) (key nonce aad input rest : Bytes) :
    WriterDec (input.length + rest.length) (cbcHmacDecrypt fixed C M K key input nonce aad)
      ((cbcHmacDecryptP fixed C M K key nonce aad).run (writerImpl true) ⟨input ++ rest, input.length⟩) :=
  writerDec_of_cap _ input rest _ (cbcHmacDecryptP_run_cap fixed C hC M K key nonce aad input _ (fits_some _ _ (by omega)))

theorem writer_kwEncrypt (C : BlockCipher) (hC : ∀ k b, b.length = 16 → (C.enc k b).length = 16)
    (key nonce aad input rest : Bytes) (hcap : 8 ≤ rest.length) :
    WriterEnc (input.length + rest.length) (kwEncrypt C key input nonce aad)
      ((kwEncryptP C key nonce aad).run (writerImpl true) ⟨input ++ rest, input.length⟩) :=
  writerEnc_of_cap _ input rest _ (kwEncryptP_run_cap C hC key nonce aad input _ (fits_some _ _ (by omega)))

theorem writer_kwDecrypt (C : BlockCipher) (hC : ∀ k b, b.length = 16 → (C.dec k b).length = 16)
    (key nonce aad input rest : Bytes) :
    WriterDec (input.length + rest.length) (kwDecrypt C key input nonce aad)
      ((kwDecryptP C key nonce aad).run (writerImpl true) ⟨input ++ rest, input.length⟩) :=
  writerDec_of_cap _ input rest _ (kwDecryptP_run_cap C hC key nonce aad input _)

/-- the same for ANY Writer with its position inside the slice (`input` = the bytes before the position) -/
theorem writer_split (w : Writer) (hw : w.pos ≤ w.inner.length) :
    ∃ input rest, w = ⟨input ++ rest, input.length⟩ ∧ input = w.inner.take w.pos ∧ w.inner.length = input.length + rest.length := by
  obtain ⟨inner, pos⟩ := w
  obtain ⟨a, b, hab, ha⟩ := Lemmas.split_at inner pos hw
  subst hab ha
  exact ⟨a, b, rfl, (List.take_left' rfl).symm, by simp⟩

theorem writer_encrypt_any (P : Prims) (hP : PrimsInPlace P) (k : Key) (nonce aad : Bytes) (w : Writer)
    (hw : w.pos ≤ w.inner.length) (hcap : w.pos + encGrowth P k w.pos ≤ w.inner.length) :
    match encryptInPlace P k (w.inner.take w.pos) nonce aad with
    | .ok (buf, n) => ∃ w', (encryptInPlaceP P k nonce aad).run (writerImpl true) w = .ok (w', n) ∧
        w'.inner.take w'.pos = buf ∧ w'.pos = buf.length ∧ w'.inner.length = w.inner.length
    | .err e => (encryptInPlaceP P k nonce aad).run (writerImpl true) w = .err e
    | .panic _ => True := by
  obtain ⟨input, rest, rfl, hin, hlen⟩ := writer_split w hw
  simp only at hin hlen hcap
  rw [← hin]
  have h := writer_encryptInPlace P hP k nonce aad input rest (by omega)
  revert h
  cases encryptInPlace P k input nonce aad with
  | ok p =>
    obtain ⟨buf, n⟩ := p
    rintro ⟨rest', hl, hx⟩
    exact ⟨_, hx, List.take_left' rfl, rfl, by simp only [List.length_append]; omega⟩
  | err e => exact id
  | panic p => intro _; trivial

theorem writer_decrypt_any (fixed : Bool) (P : Prims) (hP : PrimsInPlace P) (k : Key) (nonce aad : Bytes) (w : Writer)
    (hw : w.pos ≤ w.inner.length) :
    match decryptInPlace fixed P k (w.inner.take w.pos) nonce aad with
    | .ok buf => ∃ w', (decryptInPlaceP fixed P k nonce aad).run (writerImpl true) w = .ok (w', ()) ∧
        w'.inner.take w'.pos = buf ∧ w'.pos = buf.length ∧ w'.inner.length = w.inner.length
    | .err e => (decryptInPlaceP fixed P k nonce aad).run (writerImpl true) w = .err e
    | .panic _ => True := by
  obtain ⟨input, rest, rfl, hin, hlen⟩ := writer_split w hw
  simp only at hin hlen
  rw [← hin]
  have h := writer_decryptInPlace fixed P hP k nonce aad input rest
  revert h
  cases decryptInPlace fixed P k input nonce aad with
  | ok buf =>
    rintro ⟨rest', hl, hx⟩
    exact ⟨_, hx, List.take_left' rfl, rfl, by simp only [List.length_append]; omega⟩
  | err e => exact id
  | panic p => intro _; trivial

/-! ### `crypto_box` / `crypto_box_open` (their list functions live in `Model/Ecdh.lean`; here: what the programs compute) -/

/-- `crypto_box`: the buffer afterwards is tag ‖ ciphertext -/
theorem cryptoBoxP_run_cap (sealF : Bytes → Bytes × Bytes) (input : Bytes) (cap : Option Nat)
    (hct : (sealF input).1.length = input.length) (hfit : fits cap (input.length + (sealF input).2.length) = true) :
    (cryptoBoxP sealF).run specImpl ⟨input, cap⟩ = .ok (⟨(sealF input).2 ++ (sealF input).1, cap⟩, ()) := by
  unfold cryptoBoxP
  rw [run_view, run_setView_ok _ _ _ _ hct, run_insert0_ok _ _ _ _ (by rw [hct]; exact hfit)]
  rfl

theorem cryptoBoxP_run_spec (sealF : Bytes → Bytes × Bytes) (input : Bytes) (hct : (sealF input).1.length = input.length) :
    (cryptoBoxP sealF).run specImpl ⟨input, none⟩ = .ok (⟨(sealF input).2 ++ (sealF input).1, none⟩, ()) :=
  cryptoBoxP_run_cap sealF input none hct rfl

/-- `crypto_box_open`: short input, rejected tag, or the plaintext alone (the tag is removed from the front) -/
theorem cryptoBoxOpenP_run_cap (tagLen : Nat) (shortErr decErr : Err) (opn : Bytes → Bytes → Option Bytes)
    (hlen : ∀ ct tag pt, opn ct tag = some pt → pt.length = ct.length) (input : Bytes) (cap : Option Nat) :
    (cryptoBoxOpenP tagLen shortErr decErr opn).run specImpl ⟨input, cap⟩ =
      if input.length < tagLen then .err shortErr else
      match opn (input.drop tagLen) (input.take tagLen) with
      | none => .err decErr
      | some pt => .ok (⟨pt, cap⟩, ()) := by
  unfold cryptoBoxOpenP
  by_cases hb : input.length < tagLen
  · simp [hb]
  · have h1 : tagLen ≤ input.length := by omega
    simp only [run_view, hb, if_false, sliceTo, sliceFrom, h1, if_true, run_lift_ok]
    cases ho : opn (input.drop tagLen) (input.take tagLen) with
    | none => rfl
    | some pt =>
      have hl := hlen _ _ _ ho
      have ht : (input.take tagLen).length = tagLen := by rw [List.length_take]; omega
      simp only []
      rw [run_setView_ok _ _ _ _ (by rw [List.length_append, hl, ht, List.length_drop]; omega),
        run_remove0_ok _ _ _ _ (by rw [List.length_append, ht]; omega), List.drop_left' ht]
      rfl

/-! ### the toy primitives work in place; the hypothesis cannot be dropped -/

theorem xorByte_length (c : UInt8) (b : Bytes) : (xorByte c b).length = b.length := by simp [xorByte]

theorem toyAead_inPlace : AeadInPlace toyAead :=
  AeadInPlace.of_lawful Askar.Aead.Lemmas.toyAead_lawful (by
    intro k n a c t m h
    simp only [toyAead] at h
    split at h
    · cases h; exact xorByte_length _ _
    · cases h)

theorem toyPrims_inPlace : PrimsInPlace toyPrims :=
  ⟨BlockInPlace.of_lawful Askar.Aead.Lemmas.toyCipher_lawful, BlockInPlace.of_lawful Askar.Aead.Lemmas.toyCipher_lawful,
   toyAead_inPlace, toyAead_inPlace, toyAead_inPlace, toyAead_inPlace⟩

/-- an "AEAD" whose ciphertext is one byte longer than the message / whose plaintext is one byte longer than the ciphertext:
    cannot be run in place -/
def growingAead : AeadPrim := ⟨1, fun _ _ _ m => some (m ++ [0], [0]), fun _ _ _ c _ => some (c ++ [0])⟩

/-- for it the function of `Model/Aead.lean` returns the longer list, the program panics on the write through `as_mut()`
    (a slice cannot grow): the hypothesis `enc_len` of `streamEncryptP_run_spec` is needed -/
theorem streamEncrypt_needs_inPlace :
    streamEncrypt growingAead 0 [] [7] [] [] = .ok ([7, 0, 0], 1) ∧
    (streamEncryptP growingAead 0 [] [] []).run specImpl ⟨[7], none⟩ = .panic .copyLen := by
  constructor <;> decide

/-- the same for decryption (`dec_len`, which `AeadPrim.Lawful` does not contain) -/
theorem streamDecrypt_needs_inPlace :
    streamDecrypt growingAead 0 .Invalid [] [7, 0] [] [] = .ok [7, 0] ∧
    (streamDecryptP growingAead 0 .Invalid [] [] []).run specImpl ⟨[7, 0], none⟩ = .panic .copyLen := by
  constructor <;> decide

/-- a "block cipher" whose output is one byte longer than its input: key wrap of 8 bytes in the function model returns
    22 bytes, the program's write through `as_mut()` (16 bytes) panics -/
def growingCipher : BlockCipher := ⟨fun _ b => b ++ [0], fun _ b => b ++ [0]⟩

theorem kwEncrypt_needs_inPlace :
    (match kwEncrypt growingCipher [] (zeros 8) [] [] with | .ok (buf, n) => decide (buf.length = 22 ∧ n = 22) | _ => false) = true ∧
    (kwEncryptP growingCipher [] [] []).run specImpl ⟨zeros 8, none⟩ = .panic .copyLen := by
  constructor <;> decide

/-! ### two theorems of C12 transferred to fixed buffers -/

theorem cbcHmac_roundtrip_over_writer (fixed : Bool) (C : BlockCipher) (hC : C.Lawful) (M : Mac) (hM : M.Lawful) (K : Nat)
    (key m nonce aad rest : Bytes) (hn : nonce.length = 16) (ha : aadTooLong aad = false) (hk : key.length = 2 * K)
    (hK : K ≤ M.outLen) (hcap : cbcPaddingLength m.length + K ≤ rest.length) :
    ∃ buf rest' rest'',
      cbcHmacEncrypt C M K key m nonce aad = .ok (buf, m.length + cbcPaddingLength m.length) ∧
      (cbcHmacEncryptP C M K key nonce aad).run (writerImpl true) ⟨m ++ rest, m.length⟩
        = .ok (⟨buf ++ rest', buf.length⟩, m.length + cbcPaddingLength m.length) ∧
      buf.length = m.length + cbcPaddingLength m.length + K ∧
      buf.length + rest'.length = m.length + rest.length ∧
      (cbcHmacDecryptP fixed C M K key nonce aad).run (writerImpl true) ⟨buf ++ rest', buf.length⟩
        = .ok (⟨m ++ rest'', m.length⟩, ()) ∧
      m.length + rest''.length = m.length + rest.length := by
  obtain ⟨buf, he, hl, hd⟩ := Askar.Aead.Lemmas.cbcHmac_roundtrip fixed C hC M hM K key m nonce aad hn ha hk hK
  have h1 := writer_cbcHmacEncrypt C hC.enc_len M K key nonce aad m rest hcap
  rw [he] at h1
  obtain ⟨rest', hlen, hx⟩ := h1
  have h2 := writer_cbcHmacDecrypt fixed C hC.dec_len M K key nonce aad buf rest'
  rw [hd] at h2
  obtain ⟨rest'', hlen2, hx2⟩ := h2
  exact ⟨buf, rest', rest'', he, hx, hl, hlen, hx2, by omega⟩

theorem kw_model_refines_rfc3394_over_writer (C : BlockCipher) (hC : C.Lawful) (key : Bytes) :
    (∀ p rest : Bytes, p.length % 8 = 0 → 8 ≤ rest.length →
      ∃ rest', (kwEncryptP C key [] []).run (writerImpl true) ⟨p ++ rest, p.length⟩ =
          .ok (⟨(KeyWrap.wrapWith (Askar.Aead.Lemmas.liftBA (C.enc key)) KeyWrap.defaultIV p.toByteArray).toList ++ rest',
                p.length + 8⟩, p.length + 8)
        ∧ rest'.length + 8 = rest.length) ∧
    (∀ c rest : Bytes,
      match KeyWrap.unwrapWith (Askar.Aead.Lemmas.liftBA (C.dec key)) KeyWrap.defaultIV c.toByteArray with
      | some p => ∃ rest', (kwDecryptP C key [] []).run (writerImpl true) ⟨c ++ rest, c.length⟩ =
            .ok (⟨p.toList ++ rest', p.toList.length⟩, ())
          ∧ p.toList.length + rest'.length = c.length + rest.length
      | none => (kwDecryptP C key [] []).run (writerImpl true) ⟨c ++ rest, c.length⟩ =
            .err ⟨.Encryption, if c.length % 8 ≠ 0 then .kwLen else .default⟩) := by
  constructor
  · intro p rest hp hcap
    have h := writer_kwEncrypt C hC.enc_len key [] [] p rest hcap
    obtain ⟨buf, he, hl, _⟩ := Askar.Aead.Lemmas.kw_roundtrip C hC key p hp
    have he' := Askar.Aead.Lemmas.kwEncrypt_is_rfc3394 C hC key p hp
    rw [he] at he'
    injection he' with he'
    injection he' with hb _
    rw [he] at h
    obtain ⟨rest', hlen, hx⟩ := h
    subst hb
    rw [hl] at hx
    exact ⟨rest', hx, by omega⟩
  · intro c rest
    have h := writer_kwDecrypt C hC.dec_len key [] [] c rest
    rw [Askar.Aead.Lemmas.kwDecrypt_is_rfc3394 C hC key c] at h
    revert h
    cases KeyWrap.unwrapWith (Askar.Aead.Lemmas.liftBA (C.dec key)) KeyWrap.defaultIV c.toByteArray with
    | some p => rintro ⟨rest', hlen, hx⟩; exact ⟨rest', hx, hlen⟩
    | none => exact id

end Askar.ResizeBuf.Tie
