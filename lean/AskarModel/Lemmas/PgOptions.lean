/-
Helper lemmas for Props/C08Pg.lean: `PostgresStoreOptions::new` (Model/PgOptions.lean).
-/
import AskarModel.Model.PgOptions
import AskarModel.Lemmas.Uri
import AskarModel.Lemmas.UriOpts

namespace Askar.PgOptions
open Askar.Uri

/-! ### the query map under `remove` -/

theorem mapGet_filter_ne (m : QueryMap) {k k' : Str} (h : k ≠ k') :
    mapGet (m.filter fun e => e.1 ≠ k') k = mapGet m k := by
  unfold mapGet
  rw [List.find?_filter]
  congr 2
  funext a
  by_cases hk : a.1 = k
  · have : ¬ a.1 = k' := fun h' => h (hk.symm.trans h')
    simp [hk, this, h]
  · simp [hk]

theorem mapGet_filter_self (m : QueryMap) (k : Str) : mapGet (m.filter fun e => e.1 ≠ k) k = none := by
  unfold mapGet
  rw [List.find?_filter]
  have : (fun a : Str × Str => decide (decide (a.1 ≠ k) = true ∧ decide (a.1 = k) = true)) = fun _ => false := by
    funext a; by_cases hk : a.1 = k <;> simp [hk]
  rw [this]; simp

theorem mapGet_none_of_not_mem (m : QueryMap) (k : Str) (h : k ∉ m.map (·.1)) : mapGet m k = none := by
  induction m with
  | nil => rfl
  | cons e t ih =>
    simp only [List.map_cons, List.mem_cons, not_or] at h
    have : ¬ e.1 = k := fun h' => h.1 h'.symm
    simp only [mapGet, List.find?, this, decide_false] at ih ⊢
    exact ih h.2

/-- the seven removals together: what is left are the bindings of all other keys, in their order -/
theorem filter_seven (m : QueryMap) :
    ((((((m.filter fun e => e.1 ≠ kConnect).filter fun e => e.1 ≠ kIdle).filter fun e => e.1 ≠ kMax).filter
      fun e => e.1 ≠ kMin).filter fun e => e.1 ≠ kSchema).filter fun e => e.1 ≠ kAdminAcct).filter fun e => e.1 ≠ kAdminPass
    = m.filter fun e => !consumed.contains e.1 := by
  simp only [List.filter_filter]
  congr 1
  funext e
  simp [consumed, Bool.and_comm, Bool.and_assoc, Bool.and_left_comm]

/-! ### normal form of `pgNew`: every `remove` looks at the ORIGINAL map (the seven names are distinct) -/

/-- the part of `new` after the four numbers -/
def pgTail (o : Options) (ct it maxc minc : Nat) : Except Fail PgOpts :=
  if o.path.length < 2 then .error .input
  else if !boundaryAt1 o.path then .error .panic
  else if !(match mapGet o.query kSchema with | some s => validIdent s | none => true) then .error .input
  else if !validIdent (o.path.drop 1) then .error .input
  else if !validIdent (usernameOf o) then .error .input
  else .ok { connectTimeout := ct, idleTimeout := it, maxConnections := maxc, minConnections := minc,
             uriOpts := withoutConsumed o, adminOpts := adminExpected o,
             host := o.host, name := o.path.drop 1, username := usernameOf o, schema := mapGet o.query kSchema }

theorem pgNew_eq (o : Options) : pgNew o =
    match numOf 64 defaultConnectTimeout (mapGet o.query kConnect) with
    | .error e => .error e
    | .ok ct =>
    match numOf 64 defaultIdleTimeout (mapGet o.query kIdle) with
    | .error e => .error e
    | .ok it =>
    match numOf 32 defaultMaxConnections (mapGet o.query kMax) with
    | .error e => .error e
    | .ok maxc =>
    match numOf 32 defaultMinConnections (mapGet o.query kMin) with
    | .error e => .error e
    | .ok minc => pgTail o ct it maxc minc := by
  unfold pgNew mapRemove pgTail withoutConsumed adminExpected
  simp (disch := decide) only [mapGet_filter_ne, filter_seven]
  rfl

/-! ### outcome tables -/

/-- the schema parameter, if given, is a valid identifier -/
def schemaOk (o : Options) : Bool :=
  match mapGet o.query kSchema with
  | some s => validIdent s
  | none => true

theorem schemaOk_iff (o : Options) : schemaOk o = true ↔ ∀ s, mapGet o.query kSchema = some s → validIdent s = true := by
  unfold schemaOk
  cases mapGet o.query kSchema <;> simp

/-- the record a successful call returns -/
def pgValue (o : Options) (ct it maxc minc : Nat) : PgOpts :=
  { connectTimeout := ct, idleTimeout := it, maxConnections := maxc, minConnections := minc,
    uriOpts := withoutConsumed o, adminOpts := adminExpected o,
    host := o.host, name := o.path.drop 1, username := usernameOf o, schema := mapGet o.query kSchema }

theorem pgTail_ok_iff (o : Options) (ct it maxc minc : Nat) (r : PgOpts) :
    pgTail o ct it maxc minc = .ok r ↔
      2 ≤ o.path.length ∧ boundaryAt1 o.path = true ∧ schemaOk o = true ∧ validIdent (o.path.drop 1) = true ∧
      validIdent (usernameOf o) = true ∧ r = pgValue o ct it maxc minc := by
  unfold pgTail pgValue
  change (if o.path.length < 2 then _ else if (!boundaryAt1 o.path) = true then _ else if (!schemaOk o) = true then _ else _) = _ ↔ _
  by_cases h1 : o.path.length < 2
  · simp [h1]; omega
  · have h1' : 2 ≤ o.path.length := by omega
    cases h2 : boundaryAt1 o.path <;> cases h3 : schemaOk o <;> cases h4 : validIdent (o.path.drop 1) <;>
      cases h5 : validIdent (usernameOf o) <;> simp [h1, h1', eq_comm]

theorem pgTail_input_iff (o : Options) (ct it maxc minc : Nat) :
    pgTail o ct it maxc minc = .error .input ↔
      o.path.length < 2 ∨ (boundaryAt1 o.path = true ∧
        (schemaOk o = false ∨ validIdent (o.path.drop 1) = false ∨ validIdent (usernameOf o) = false)) := by
  unfold pgTail
  change (if o.path.length < 2 then _ else if (!boundaryAt1 o.path) = true then _ else if (!schemaOk o) = true then _ else _) = _ ↔ _
  by_cases h1 : o.path.length < 2
  · simp [h1]
  · cases h2 : boundaryAt1 o.path <;> cases h3 : schemaOk o <;> cases h4 : validIdent (o.path.drop 1) <;>
      cases h5 : validIdent (usernameOf o) <;> simp [h1]

theorem pgTail_panic_iff (o : Options) (ct it maxc minc : Nat) :
    pgTail o ct it maxc minc = .error .panic ↔ 2 ≤ o.path.length ∧ boundaryAt1 o.path = false := by
  unfold pgTail
  change (if o.path.length < 2 then _ else if (!boundaryAt1 o.path) = true then _ else if (!schemaOk o) = true then _ else _) = _ ↔ _
  by_cases h1 : o.path.length < 2
  · simp [h1]; omega
  · have h1' : 2 ≤ o.path.length := by omega
    cases h2 : boundaryAt1 o.path <;> cases h3 : schemaOk o <;> cases h4 : validIdent (o.path.drop 1) <;>
      cases h5 : validIdent (usernameOf o) <;> simp [h1, h1']

/-- a numeric parameter is present and its text is refused by `FromStr` -/
def numBad (o : Options) (bits : Nat) (k : Str) : Prop := ∃ v, mapGet o.query k = some v ∧ parseUnsigned bits v = none

theorem numOf_err_iff (bits d : Nat) (x : Option Str) (e : Fail) :
    numOf bits d x = .error e ↔ e = .input ∧ ∃ v, x = some v ∧ parseUnsigned bits v = none := by
  cases x with
  | none => simp [numOf]
  | some v =>
    cases h : parseUnsigned bits v <;> simp [numOf, h, eq_comm]

theorem numOf_ok_iff (bits d : Nat) (x : Option Str) (n : Nat) :
    numOf bits d x = .ok n ↔ (x = none ∧ n = d) ∨ ∃ v, x = some v ∧ parseUnsigned bits v = some n := by
  cases x with
  | none => simp [numOf, eq_comm]
  | some v =>
    cases h : parseUnsigned bits v <;> simp [numOf, h, eq_comm]

theorem pgNew_ok_iff (o : Options) (r : PgOpts) :
    pgNew o = .ok r ↔
      numOf 64 defaultConnectTimeout (mapGet o.query kConnect) = .ok r.connectTimeout ∧
      numOf 64 defaultIdleTimeout (mapGet o.query kIdle) = .ok r.idleTimeout ∧
      numOf 32 defaultMaxConnections (mapGet o.query kMax) = .ok r.maxConnections ∧
      numOf 32 defaultMinConnections (mapGet o.query kMin) = .ok r.minConnections ∧
      2 ≤ o.path.length ∧ boundaryAt1 o.path = true ∧ schemaOk o = true ∧ validIdent (o.path.drop 1) = true ∧
      validIdent (usernameOf o) = true ∧
      r = pgValue o r.connectTimeout r.idleTimeout r.maxConnections r.minConnections := by
  rw [pgNew_eq]
  cases h1 : numOf 64 defaultConnectTimeout (mapGet o.query kConnect) with
  | error e => simp
  | ok ct =>
  cases h2 : numOf 64 defaultIdleTimeout (mapGet o.query kIdle) with
  | error e => simp
  | ok it =>
  cases h3 : numOf 32 defaultMaxConnections (mapGet o.query kMax) with
  | error e => simp
  | ok maxc =>
  cases h4 : numOf 32 defaultMinConnections (mapGet o.query kMin) with
  | error e => simp
  | ok minc =>
  simp only [pgTail_ok_iff, Except.ok.injEq]
  constructor
  · rintro ⟨a, b, c, d, e, rfl⟩
    exact ⟨rfl, rfl, rfl, rfl, a, b, c, d, e, rfl⟩
  · rintro ⟨rfl, rfl, rfl, rfl, a, b, c, d, e, f⟩
    exact ⟨a, b, c, d, e, f⟩

theorem not_numBad_of_ok {o : Options} {bits d : Nat} {k : Str} {n : Nat}
    (h : numOf bits d (mapGet o.query k) = .ok n) : ¬ numBad o bits k := by
  rintro ⟨v, hv, hp⟩
  rw [hv] at h
  simp [numOf, hp] at h

theorem numBad_of_err {o : Options} {bits d : Nat} {k : Str} {e : Fail}
    (h : numOf bits d (mapGet o.query k) = .error e) : e = .input ∧ numBad o bits k :=
  (numOf_err_iff bits d _ e).1 h

/-- the four numeric parameters are acceptable (absent, or a text `FromStr` takes) -/
def numsOk (o : Options) : Prop :=
  ¬ numBad o 64 kConnect ∧ ¬ numBad o 64 kIdle ∧ ¬ numBad o 32 kMax ∧ ¬ numBad o 32 kMin

theorem pgNew_input_iff (o : Options) :
    pgNew o = .error .input ↔
      ¬ numsOk o ∨ o.path.length < 2 ∨ (boundaryAt1 o.path = true ∧
        (schemaOk o = false ∨ validIdent (o.path.drop 1) = false ∨ validIdent (usernameOf o) = false)) := by
  rw [pgNew_eq]
  unfold numsOk
  cases h1 : numOf 64 defaultConnectTimeout (mapGet o.query kConnect) with
  | error e => have := numBad_of_err h1; simp [this.1, this.2]
  | ok ct =>
  have n1 := not_numBad_of_ok h1
  cases h2 : numOf 64 defaultIdleTimeout (mapGet o.query kIdle) with
  | error e => have := numBad_of_err h2; simp [this.1, this.2]
  | ok it =>
  have n2 := not_numBad_of_ok h2
  cases h3 : numOf 32 defaultMaxConnections (mapGet o.query kMax) with
  | error e => have := numBad_of_err h3; simp [this.1, this.2]
  | ok maxc =>
  have n3 := not_numBad_of_ok h3
  cases h4 : numOf 32 defaultMinConnections (mapGet o.query kMin) with
  | error e => have := numBad_of_err h4; simp [this.1, this.2]
  | ok minc =>
  have n4 := not_numBad_of_ok h4
  simp only [pgTail_input_iff, n1, n2, n3, n4, not_false_eq_true, and_self, not_true_eq_false, false_or]

theorem pgNew_panic_iff (o : Options) :
    pgNew o = .error .panic ↔ numsOk o ∧ 2 ≤ o.path.length ∧ boundaryAt1 o.path = false := by
  rw [pgNew_eq]
  unfold numsOk
  cases h1 : numOf 64 defaultConnectTimeout (mapGet o.query kConnect) with
  | error e => have := numBad_of_err h1; simp [this.1, this.2]
  | ok ct =>
  have n1 := not_numBad_of_ok h1
  cases h2 : numOf 64 defaultIdleTimeout (mapGet o.query kIdle) with
  | error e => have := numBad_of_err h2; simp [this.1, this.2]
  | ok it =>
  have n2 := not_numBad_of_ok h2
  cases h3 : numOf 32 defaultMaxConnections (mapGet o.query kMax) with
  | error e => have := numBad_of_err h3; simp [this.1, this.2]
  | ok maxc =>
  have n3 := not_numBad_of_ok h3
  cases h4 : numOf 32 defaultMinConnections (mapGet o.query kMin) with
  | error e => have := numBad_of_err h4; simp [this.1, this.2]
  | ok minc =>
  have n4 := not_numBad_of_ok h4
  simp only [pgTail_panic_iff, n1, n2, n3, n4, not_false_eq_true, and_self, true_and]

theorem pgNew_total (o : Options) : (∃ r, pgNew o = .ok r) ∨ pgNew o = .error .input ∨ pgNew o = .error .panic := by
  cases h : pgNew o with
  | ok r => exact Or.inl ⟨r, rfl⟩
  | error e => cases e <;> simp

/-! ### a path that comes out of `parse_uri` never makes the slice panic -/

set_option maxRecDepth 16384 in
theorem cont_ranges : ∀ n, n < 256 → isCont (UInt8.ofNat n) = true →
    ¬ (UInt8.ofNat n < 0x80) ∧ ¬ (0xC2 ≤ UInt8.ofNat n ∧ UInt8.ofNat n ≤ 0xDF) ∧
    ¬ (0xE0 ≤ UInt8.ofNat n ∧ UInt8.ofNat n ≤ 0xEF) ∧ ¬ (0xF0 ≤ UInt8.ofNat n ∧ UInt8.ofNat n ≤ 0xF4) := by decide

theorem lossyStep_cont (b0 : UInt8) (rest : Str) (h : isCont b0 = true) : (lossyStep b0 rest).2 = false := by
  have := cont_ranges b0.toNat b0.toNat_lt (by simpa using h)
  simp only [UInt8.ofNat_toNat] at this
  obtain ⟨h1, h2, h3, h4⟩ := this
  simp [lossyStep, h1, h2, h3, h4]

/-- the first byte `from_utf8_lossy` writes is never a continuation byte -/
theorem boundaryAt1_slash_lossy (t : Str) : boundaryAt1 (0x2F :: lossyAux 0 t) = true := by
  cases t with
  | nil => simp [lossyAux, boundaryAt1]
  | cons b0 rest =>
    simp only [lossyAux]
    cases hst : (lossyStep b0 rest).2 with
    | false => simp [replacement, boundaryAt1, isCont]
    | true =>
      have : isCont b0 = false := by
        cases hc : isCont b0 with
        | false => rfl
        | true => rw [lossyStep_cont b0 rest hc] at hst; cases hst
      simp [boundaryAt1, this]

theorem dec_slash (t : Str) : dec (0x2F :: t) = 0x2F :: lossyAux 0 (pctDecode t) := by
  unfold dec
  rw [pctDecode_cons_ne t (by decide)]
  simp [lossy, lossyAux, lossyStep]

theorem dropWhile_slash (l : Str) :
    l.dropWhile (· ≠ 0x2F) = [] ∨ ∃ t, l.dropWhile (· ≠ 0x2F) = 0x2F :: t := by
  induction l with
  | nil => exact Or.inl rfl
  | cons a t ih =>
    by_cases h : a = 0x2F
    · subst h; exact Or.inr ⟨t, by simp [List.dropWhile]⟩
    · simpa [List.dropWhile, h] using ih

/-- what `parse_uri` yields as path: nothing, or `/` followed by text whose first byte is a character boundary -/
theorem parseUri_path (s : Str) : (parseUri s).path = [] ∨ ((parseUri s).path.head? = some 0x2F ∧ boundaryAt1 (parseUri s).path = true) := by
  have : ∃ X : Str, (parseUri s).path = dec (X.dropWhile (· ≠ 0x2F)) := ⟨_, rfl⟩
  obtain ⟨X, hX⟩ := this
  rw [hX]
  rcases dropWhile_slash X with h | ⟨t, h⟩
  · rw [h]; exact Or.inl dec_nil
  · rw [h, dec_slash]; exact Or.inr ⟨rfl, boundaryAt1_slash_lossy _⟩

theorem pgNewOfUri_no_panic (s : Str) : pgNewOfUri s ≠ .error .panic := by
  intro h
  have hp := (pgNew_panic_iff (parseUri s)).1 h
  rcases parseUri_path s with h0 | ⟨_, hb⟩
  · rw [h0] at hp; simp at hp
  · rw [hb] at hp; simp at hp

/-! ### well-formedness of the two serialised values -/

theorem wf_of_wfp {o : Options} (w : WFp o) : o.WF = true := by
  simp only [Options.WF, Bool.and_eq_true, Bool.or_eq_true, Bool.not_eq_true', decide_eq_true_eq,
    List.all_eq_true, List.contains_eq_mem, decide_eq_false_iff_not, List.isEmpty_iff]
  refine ⟨⟨⟨⟨⟨⟨⟨⟨⟨⟨⟨⟨⟨⟨⟨⟨⟨⟨w.vs, w.vu⟩, w.vp⟩, w.vh⟩, w.vpa⟩, w.vf⟩, w.vq⟩, w.nd⟩, w.h1⟩, w.h2⟩, w.h3⟩, w.h4⟩, w.p0⟩, w.p2⟩,
    w.p3⟩, w.p4⟩, ?_⟩, ?_⟩, ?_⟩
  · cases h : noUserInfo o with
    | false => exact Or.inl rfl
    | true => exact Or.inr (w.hat h)
  · by_cases hs : o.scheme = []
    · right
      cases h : noUserInfo o with
      | true =>
        rcases (w.sc hs).1 h with h' | h'
        · simp [h']
        · simp [h']
      | false => simp [(w.sc hs).2 h]
    · left; simpa [List.isEmpty_iff] using hs
  · by_cases hs : o.scheme = []
    · exact Or.inl (Or.inl (Or.inl hs))
    · cases h : noUserInfo o with
      | false => exact Or.inl (Or.inl (Or.inr rfl))
      | true =>
        by_cases hh : o.host = []
        · exact Or.inr (w.sl hs h hh)
        · exact Or.inl (Or.inr (by simpa [List.isEmpty_iff] using hh))

theorem mapGet_some_mem {m : QueryMap} {k v : Str} (h : mapGet m k = some v) : ∃ kv ∈ m, kv.1 = k ∧ kv.2 = v := by
  unfold mapGet at h
  cases hf : m.find? (fun e => e.1 = k) with
  | none => simp [hf] at h
  | some kv =>
    simp only [hf, Option.map_some, Option.some.injEq] at h
    exact ⟨kv, List.mem_of_find?_eq_some hf, by simpa using List.find?_some hf, h⟩

theorem wfp_withoutConsumed {o : Options} (w : WFp o) : WFp (withoutConsumed o) :=
  ⟨w.vs, w.vu, w.vp, w.vh, w.vpa, w.vf,
   fun kv h => w.vq kv (List.mem_filter.1 h).1,
   w.nd.sublist (List.filter_sublist.map (fun e : Str × Str => e.1)),
   w.h1, w.h2, w.h3, w.h4, w.p0, w.p2, w.p3, w.p4, w.hat, w.sc, w.sl⟩

theorem wf_withoutConsumed {o : Options} (h : o.WF = true) : (withoutConsumed o).WF = true :=
  wf_of_wfp (wfp_withoutConsumed (wfp_of_wf h))

theorem validUtf8_getD {o : Options} (w : WFp o) (k d : Str) (hd : validUtf8 d = true) :
    validUtf8 ((mapGet o.query k).getD d) = true := by
  cases h : mapGet o.query k with
  | none => exact hd
  | some v =>
    obtain ⟨kv, hm, _, h2⟩ := mapGet_some_mem h
    simpa [h2] using (w.vq kv hm).2

theorem adminPath_facts :
    validUtf8 sAdminPath = true ∧ sAdminPath.head? = some 0x2F ∧ (0x3F : UInt8) ∉ sAdminPath ∧ (0x23 : UInt8) ∉ sAdminPath ∧
    hasEscape sAdminPath = false ∧ (0x40 : UInt8) ∉ sAdminPath ∧ startsWith2Slash sAdminPath = false := by
  refine ⟨by decide, by decide, by decide, by decide, by decide, by decide, by decide⟩

/-- sufficient for the admin options to be inside the domain of the URI syntax: there is a scheme, and the host has no `@` -/
theorem wfp_adminExpected {o : Options} (w : WFp o) (hs : o.scheme ≠ []) (hat : (0x40 : UInt8) ∉ o.host) :
    WFp (adminExpected o) :=
  ⟨w.vs, validUtf8_getD w kAdminAcct o.user w.vu, validUtf8_getD w kAdminPass o.password w.vp, w.vh, adminPath_facts.1, w.vf,
   fun kv h => w.vq kv (List.mem_filter.1 h).1,
   w.nd.sublist (List.filter_sublist.map (fun e : Str × Str => e.1)),
   w.h1, w.h2, w.h3, w.h4, Or.inr adminPath_facts.2.1, adminPath_facts.2.2.1, adminPath_facts.2.2.2.1, adminPath_facts.2.2.2.2.1,
   fun _ hm => by
     rcases List.mem_append.1 hm with h | h
     · exact hat h
     · exact adminPath_facts.2.2.2.2.2.1 h,
   fun h => absurd h hs,
   fun _ _ _ => adminPath_facts.2.2.2.2.2.2⟩

theorem wf_adminExpected {o : Options} (h : o.WF = true) (hs : o.scheme ≠ []) (hat : (0x40 : UInt8) ∉ o.host) :
    (adminExpected o).WF = true :=
  wf_of_wfp (wfp_adminExpected (wfp_of_wf h) hs hat)

/-! ### the two derived URIs read back -/

theorem pgNew_ok_fields {o : Options} {r : PgOpts} (h : pgNew o = .ok r) :
    r.uriOpts = withoutConsumed o ∧ r.adminOpts = adminExpected o ∧ r.host = o.host ∧ r.name = o.path.drop 1 ∧
    r.username = usernameOf o ∧ r.schema = mapGet o.query kSchema := by
  have hr := ((pgNew_ok_iff o r).1 h).2.2.2.2.2.2.2.2.2
  rw [hr]
  exact ⟨rfl, rfl, rfl, rfl, rfl, rfl⟩

theorem intoUriWith_amp (hf : Askar.Generated.Flags.uriQueryAmpersand = true) (qs : List (Str × Str)) (o : Options) :
    intoUriWith qs o = intoUriSep [0x26] qs o := by
  have hs : queryPairSeparator = [0x26] := by unfold queryPairSeparator; rw [hf]; rfl
  unfold intoUriWith; rw [hs]

theorem uri_reads_back (hf : Askar.Generated.Flags.uriQueryAmpersand = true) (o : Options) (hwf : o.WF = true)
    (r : PgOpts) (h : pgNew o = .ok r) (qs : List (Str × Str)) (hp : qs.Perm r.uriOpts.query) :
    (parseUri (r.uriWith qs)).Equiv (withoutConsumed o) := by
  have hu := (pgNew_ok_fields h).1
  unfold PgOpts.uriWith
  rw [hu] at hp ⊢
  rw [intoUriWith_amp hf]
  exact roundtrip_equiv_amp _ (wf_withoutConsumed hwf) qs hp

theorem admin_reads_back (hf : Askar.Generated.Flags.uriQueryAmpersand = true) (o : Options)
    (hadm : (adminExpected o).WF = true)
    (r : PgOpts) (h : pgNew o = .ok r) (qs : List (Str × Str)) (hp : qs.Perm r.adminOpts.query) :
    (parseUri (r.adminUriWith qs)).Equiv (adminExpected o) := by
  have hu := (pgNew_ok_fields h).2.1
  unfold PgOpts.adminUriWith
  rw [hu] at hp ⊢
  rw [intoUriWith_amp hf]
  exact roundtrip_equiv_amp _ hadm qs hp

theorem not_consumed_of_mem_filter {m : QueryMap} {kv : Str × Str} (h : kv ∈ m.filter fun e => !consumed.contains e.1) :
    kv ∈ m ∧ kv.1 ∉ consumed := by
  have := List.mem_filter.1 h
  exact ⟨this.1, by simpa using this.2⟩

theorem mapGet_withoutConsumed (o : Options) (k : Str) (hk : k ∈ consumed) : mapGet (withoutConsumed o).query k = none := by
  apply mapGet_none_of_not_mem
  intro hm
  obtain ⟨kv, hkv, rfl⟩ := List.mem_map.1 hm
  exact (not_consumed_of_mem_filter hkv).2 hk

theorem mapGet_withoutConsumed_other (o : Options) (k : Str) (hk : k ∉ consumed) :
    mapGet (withoutConsumed o).query k = mapGet o.query k := by
  unfold withoutConsumed mapGet
  simp only
  rw [List.find?_filter]
  congr 2
  funext a
  by_cases ha : a.1 = k
  · subst ha; simp [hk]
  · simp [ha]

/-! ### witnesses: the admin credentials can take the options out of the domain of the URI syntax -/

/-- `h/db?admin_account=adm`: no scheme, no user — inside `WF`; with the admin account the text is `adm:@h/postgres`, whose
    first `:` ends a scheme -/
def adminWitness : Options :=
  { host := [0x68], path := [0x2F, 0x64, 0x62], query := [(kAdminAcct, [0x61, 0x64, 0x6D])] }

/-- `postgres://u:@a@b/db?admin_account=&admin_password=`: user-info in front of a host with `@` — inside `WF`; with both
    admin credentials empty no user-info is written and the `@` of the host ends one -/
def adminWitness2 : Options :=
  { scheme := sPostgres, user := [0x75], host := [0x61, 0x40, 0x62], path := [0x2F, 0x64, 0x62],
    query := [(kAdminAcct, []), (kAdminPass, [])] }

theorem adminWitness_wf : adminWitness.WF = true := by decide
theorem adminWitness2_wf : adminWitness2.WF = true := by decide

theorem adminWitness_ok : pgNew adminWitness = .ok (pgValue adminWitness 30 300 10 0) := by rfl
theorem adminWitness2_ok : pgNew adminWitness2 = .ok (pgValue adminWitness2 30 300 10 0) := by rfl

theorem adminWitness_scheme : (parseUri (intoUriWith [] (adminExpected adminWitness))).scheme = [0x61, 0x64, 0x6D] := by decide
theorem adminWitness2_user : (parseUri (intoUriWith [] (adminExpected adminWitness2))).user = [0x61] := by decide

/-! ### the fields of an accepted call -/

theorem numOf_reads {bits d : Nat} {x : Option Str} {n : Nat} (h : numOf bits d x = .ok n) : NumReads x bits d n := by
  cases x with
  | none => simpa [numOf, NumReads, eq_comm] using h
  | some v =>
    cases hp : parseUnsigned bits v with
    | none => simp [numOf, hp] at h
    | some m => simpa [numOf, NumReads, hp] using h

theorem numOf_lt {bits d : Nat} {x : Option Str} {n : Nat} (hd : d < 2 ^ bits) (h : numOf bits d x = .ok n) : n < 2 ^ bits := by
  have := numOf_reads h
  cases x with
  | none => simp only [NumReads] at this; omega
  | some v => exact parseUnsigned_lt this

theorem numeric_fields (o : Options) (r : PgOpts) (h : pgNew o = .ok r) :
    NumReads (mapGet o.query kConnect) 64 30 r.connectTimeout ∧ NumReads (mapGet o.query kIdle) 64 300 r.idleTimeout ∧
    NumReads (mapGet o.query kMax) 32 10 r.maxConnections ∧ NumReads (mapGet o.query kMin) 32 0 r.minConnections ∧
    r.connectTimeout < 2 ^ 64 ∧ r.idleTimeout < 2 ^ 64 ∧ r.maxConnections < 2 ^ 32 ∧ r.minConnections < 2 ^ 32 := by
  obtain ⟨h1, h2, h3, h4, _⟩ := (pgNew_ok_iff o r).1 h
  exact ⟨numOf_reads h1, numOf_reads h2, numOf_reads h3, numOf_reads h4,
    numOf_lt (by decide) h1, numOf_lt (by decide) h2, numOf_lt (by decide) h3, numOf_lt (by decide) h4⟩

theorem validIdent_iff (s : Str) : validIdent s = true ↔ s ≠ [] ∧ (0x22 : UInt8) ∉ s ∧ (0x00 : UInt8) ∉ s := by
  simp [validIdent, and_assoc]

theorem usernameOf_eq (o : Options) : usernameOf o = if o.user = [] then sPostgres else o.user := by
  unfold usernameOf
  by_cases h : o.user = [] <;> simp [h]

theorem ident_fields (o : Options) (r : PgOpts) (h : pgNew o = .ok r) :
    r.name = o.path.drop 1 ∧ r.name ≠ [] ∧ (0x22 : UInt8) ∉ r.name ∧ (0x00 : UInt8) ∉ r.name ∧
    r.username = (if o.user = [] then sPostgres else o.user) ∧ r.username ≠ [] ∧ (0x22 : UInt8) ∉ r.username ∧
      (0x00 : UInt8) ∉ r.username ∧
    r.schema = mapGet o.query kSchema ∧ (∀ s, r.schema = some s → s ≠ [] ∧ (0x22 : UInt8) ∉ s ∧ (0x00 : UInt8) ∉ s) ∧
    r.host = o.host := by
  obtain ⟨_, _, _, _, _, _, hs, hn, hu, _⟩ := (pgNew_ok_iff o r).1 h
  obtain ⟨_, _, fh, fn, fu, fs⟩ := pgNew_ok_fields h
  have hn' := (validIdent_iff _).1 hn
  have hu' := (validIdent_iff _).1 hu
  rw [fn, fu, fs, fh]
  refine ⟨rfl, hn'.1, hn'.2.1, hn'.2.2, usernameOf_eq o, hu'.1, hu'.2.1, hu'.2.2, rfl, ?_, rfl⟩
  intro s hsome
  exact (validIdent_iff s).1 ((schemaOk_iff o).1 hs s hsome)

theorem consumed_absent (o : Options) (r : PgOpts) (h : pgNew o = .ok r) :
    (∀ kv ∈ r.uriOpts.query, kv.1 ∉ consumed) ∧ (∀ kv ∈ r.adminOpts.query, kv.1 ∉ consumed) ∧
    (∀ k ∈ consumed, mapGet r.uriOpts.query k = none ∧ mapGet r.adminOpts.query k = none) := by
  obtain ⟨fu, fa, _⟩ := pgNew_ok_fields h
  rw [fu, fa]
  refine ⟨fun kv hkv => (not_consumed_of_mem_filter hkv).2, fun kv hkv => (not_consumed_of_mem_filter hkv).2, ?_⟩
  intro k hk
  exact ⟨mapGet_withoutConsumed o k hk, mapGet_withoutConsumed o k hk⟩

theorem consumed_absent_parsed (hf : Askar.Generated.Flags.uriQueryAmpersand = true)
    (o : Options) (hwf : o.WF = true) (hadm : (adminExpected o).WF = true) (r : PgOpts) (h : pgNew o = .ok r)
    (qs : List (Str × Str)) (hp : qs.Perm r.uriOpts.query) (qa : List (Str × Str)) (ha : qa.Perm r.adminOpts.query) :
    (∀ kv ∈ (parseUri (r.uriWith qs)).query, kv.1 ∉ consumed) ∧
    (∀ kv ∈ (parseUri (r.adminUriWith qa)).query, kv.1 ∉ consumed) := by
  have e1 := (uri_reads_back hf o hwf r h qs hp).2.2.2.2.2.2
  have e2 := (admin_reads_back hf o hadm r h qa ha).2.2.2.2.2.2
  exact ⟨fun kv hkv => (not_consumed_of_mem_filter (e1.mem_iff.1 hkv)).2,
         fun kv hkv => (not_consumed_of_mem_filter (e2.mem_iff.1 hkv)).2⟩

end Askar.PgOptions
