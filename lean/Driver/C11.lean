/- Driver for `kind = "c11"` (and `"c11:raw"`) cases: the key-management layer over the logical store model.
   Executable instances of the two abstract parameters of `Model/KeyStore.lean`:
   * `cbor`   — the RFC 8949 encoding serde_cbor produces for `KeyParams` (and a strict decoder of that form);
   * `keyOps` — a table of the case's keys (algorithm, thumbprints, secret JWK, raw bytes), as computed by the
                generator with the library itself; import follows `from_jwk_any` (no `oct` branch). -/
import Driver.Common
import Driver.Store
import AskarModel.Model.KeyStore
import AskarModel.Model.Like
import AskarModel.Model.Seed

open Lean Askar Askar.Wql Askar.Store Askar.KeyStore

namespace Driver.C11

/-! ### concrete CBOR -/

def beBytes (k : Nat) (n : Nat) : Bytes := (List.range k).reverse.map fun i => UInt8.ofNat (n / 256 ^ i % 256)

def cborHead (major n : Nat) : Bytes :=
  let m := major * 32
  if n < 24 then [UInt8.ofNat (m + n)]
  else if n < 256 then UInt8.ofNat (m + 24) :: beBytes 1 n
  else if n < 65536 then UInt8.ofNat (m + 25) :: beBytes 2 n
  else if n < 4294967296 then UInt8.ofNat (m + 26) :: beBytes 4 n
  else UInt8.ofNat (m + 27) :: beBytes 8 n

def cborText (s : String) : Bytes := cborHead 3 (utf8 s).length ++ utf8 s
def cborBytes (b : Bytes) : Bytes := cborHead 2 b.length ++ b

def encRef : KeyRef → Bytes
  | .mobileSecureElement => cborText "MobileSecureElement"
  | .any s => cborHead 5 1 ++ cborText "Any" ++ cborText s

def cborEnc (p : KeyParams) : Bytes :=
  cborHead 5 ((if p.meta.isSome then 1 else 0) + (if p.ref.isSome then 1 else 0) + (if p.data.isSome then 1 else 0)) ++
  (match p.meta with | some m => cborText "meta" ++ cborText m | none => []) ++
  (match p.ref with | some r => cborText "ref" ++ encRef r | none => []) ++
  (match p.data with | some d => cborText "data" ++ cborBytes d | none => [])

def beNat (b : Bytes) : Nat := b.foldl (fun a x => a * 256 + x.toNat) 0

/-- major type, argument, rest (definite lengths only) -/
def parseHead : Bytes → Option (Nat × Nat × Bytes)
  | [] => none
  | b :: rest =>
    let major := b.toNat / 32
    let ai := b.toNat % 32
    if ai < 24 then some (major, ai, rest)
    else
      let k := if ai == 24 then 1 else if ai == 25 then 2 else if ai == 26 then 4 else if ai == 27 then 8 else 0
      if k == 0 || rest.length < k then none else some (major, beNat (rest.take k), rest.drop k)

def parseBlob (major : Nat) (b : Bytes) : Option (Bytes × Bytes) :=
  match parseHead b with
  | some (m, n, rest) => if m == major && n ≤ rest.length then some (rest.take n, rest.drop n) else none
  | none => none

def parseText (b : Bytes) : Option (String × Bytes) :=
  match parseBlob 3 b with
  | some (t, rest) => (String.fromUTF8? (ByteArray.mk t.toArray)).map fun s => (s, rest)
  | none => none

def parseRef (b : Bytes) : Option (KeyRef × Bytes) :=
  match parseHead b with
  | some (3, _, _) =>
    match parseText b with
    | some ("MobileSecureElement", rest) => some (.mobileSecureElement, rest)
    | _ => none
  | some (5, 1, rest) =>
    match parseText rest with
    | some ("Any", rest) => (parseText rest).map fun (s, r) => (.any s, r)
    | _ => none
  | _ => none

def parseFields : Nat → KeyParams → Bytes → Option KeyParams
  | 0, p, [] => some p
  | 0, _, _ => none
  | n + 1, p, b =>
    match parseText b with
    | some ("meta", rest) =>
      if p.meta.isSome then none else
      match parseText rest with
      | some (m, rest) => parseFields n { p with «meta» := some m } rest
      | none => none
    | some ("ref", rest) =>
      if p.ref.isSome then none else
      match parseRef rest with
      | some (r, rest) => parseFields n { p with ref := some r } rest
      | none => none
    | some ("data", rest) =>
      if p.data.isSome then none else
      match parseBlob 2 rest with
      | some (d, rest) => parseFields n { p with data := some d } rest
      | none => none
    | _ => none

def cborDec (b : Bytes) : Option KeyParams :=
  match parseHead b with
  | some (5, n, rest) => parseFields n ⟨none, none, none⟩ rest
  | _ => none

def cbor : Cbor := ⟨cborEnc, cborDec⟩

/-! ### key table -/

structure DKey where
  alg : String
  thumbs : List String
  jwk : Except Err Bytes
  sec : Json
  pub : Json
  deriving Inhabited

def errOfName : String → Err
  | "Backend" => .backend | "Busy" => .busy | "Custom" => .custom | "Duplicate" => .duplicate
  | "Encryption" => .encryption | "Input" => .input | "NotFound" => .notFound
  | "Unsupported" => .unsupported | _ => .unexpected

def algOfName (s : String) : Option Sign.KeyAlg := Sign.KeyAlg.all.find? fun a => a.name == s

/-- `LocalKey::from_seed` by the model (`Model/Seed.lean` over the ChaCha20 / SHA-256 / HKDF specifications): the secret bytes -/
def seedResult (alg : String) (seed : Bytes) (method : Option String) : Json :=
  match algOfName alg with
  | none => jerr "BadOp"
  | some a =>
    match Seed.fromSeed Seed.Std.prims Seed.seedStrictCurrent a seed method with
    | .ok sk => Json.mkObj [("sec", jhex sk)]
    | .err e => jerr e.name
    | .panic _ => jerr "Panic"

/-- a seeded key of the table: its secret bytes are PREDICTED from the recipe (algorithm, seed, method), not taken from the table;
    everything else about a key (thumbprints, JWK, public bytes) is the library's own export -/
def predictedSec (j : Json) : Option Json :=
  let m : Option (Option String) := match str! j "how" with
    | "seed" => some none
    | "seed_empty" => some (some "")
    | "bls_keygen" => some (some "bls_keygen")
    | _ => none
  m.map fun method =>
    match seedResult (str! j "alg") (hex! j "mat") method with
    | .obj o => (o.get? "sec").getD (Json.mkObj [("model", seedResult (str! j "alg") (hex! j "mat") method)])
    | x => x

def parseKey (j : Json) : DKey :=
  { alg := str! j "alg", thumbs := (arr! j "thumbs").map asStr,
    jwk := match j.getObjVal? "jwk" with
      | .ok (.str s) => .ok ((Bytes.ofHex s).getD [])
      | .ok v => .error (errOfName (str! v "err"))
      | _ => .error .unexpected,
    sec := (predictedSec j).getD ((j.getObjVal? "sec").toOption.getD .null), pub := (j.getObjVal? "pub").toOption.getD .null }

/-- `Box::<AnyKey>::from_jwk_slice` on the table: a JWK that some key of the case exports imports back to that key
    when `from_jwk_any` has a branch for its algorithm; anything else is not a JWK the generator produces
    (the raw stream uses the bytes `junk`: a parse error, `Input`). -/
def keyOps (table : List DKey) : KeyOps DKey where
  alg k := k.alg
  thumbs k := .ok k.thumbs
  encode k := k.jwk
  decode b :=
    match table.find? fun k => match k.jwk with | .ok x => x == b | .error _ => false with
    | some k => if jwkImportable symmetricJwkImport k.alg then .ok k else .error .unsupported
    | none => .error .input
  fromId _ _ := .error .unsupported
  asStr b := String.fromUTF8? (ByteArray.mk b.toArray)

/-! ### JSON forms -/

def jopt (s : Option String) : Json := match s with | some x => .str x | none => .null

def jkeyEntry (O : KeyOps DKey) (e : KeyEntry) : Json :=
  let load := match loadLocalKey O e with
    | .error x => jerr x.name
    | .ok k => Json.mkObj [("alg", .str k.alg), ("sec", k.sec), ("pub", k.pub), ("thumbs", .arr (k.thumbs.map Json.str).toArray)]
  Json.mkObj [("n", .str e.name), ("alg", jopt e.alg), ("meta", jopt e.metadata), ("local", .bool e.isLocal),
    ("t", .arr (e.tags.map Driver.Store.jtag).toArray), ("load", load)]

def parseRefJ (j : Json) : Option KeyRef :=
  match getD? j "ref" with
  | none => none
  | some (.str _) => some .mobileSecureElement
  | some v => some (.any (str! v "any"))

structure St where
  db : Db
  now : Int

def sess : Sess := ⟨1, 0⟩

def stepOp (table : List DKey) (st : St) (j : Json) : St × Json :=
  let O := keyOps table
  let n := str! j "n"
  let tags := Driver.Store.parseTags j "t"
  let unit (r : Except Err Db) : St × Json :=
    match r with
    | .ok db => ({ st with db := db }, "ok")
    | .error e => (st, jerr e.name)
  match str! j "op" with
  | "insert_key" =>
    unit (insertKey cbor O st.db st.now sess n (table.getD (nat! j "key") default) (strOpt j "meta") (parseRefJ j) tags (intOpt j "e"))
  | "update_key" => unit (updateKey cbor st.db st.now sess n (strOpt j "meta") tags (intOpt j "e"))
  | "remove_key" => unit (removeKey st.db sess n)
  | "fetch_key" =>
    match fetchKey cbor st.db st.now sess n with
    | .ok none => (st, .null)
    | .ok (some e) => (st, jkeyEntry O e)
    | .error x => (st, jerr x.name)
  | "fetch_all_keys" =>
    match fetchAllKeys cbor sqliteLike prefixAfterTilde st.db st.now sess (strOpt j "alg") (strOpt j "thumb")
        (Driver.Store.filterOpt j "f") (intOpt j "lim") with
    | .error x => (st, jerr x.name)
    | .ok es =>
      match intOpt j "lim" with
      | some l => if l ≥ 0 then (st, Json.mkObj [("count", jnat es.length)]) else (st, rows es O)
      | none => (st, rows es O)
  | "item_fetch" =>
    match doFetch st.db st.now sess 2 cryptoKey n with
    | none => (st, .null)
    | some e => (st, Driver.Store.jentry e)
  | "from_seed" => (st, seedResult (str! j "alg") (hex! j "seed") (strOpt j "method"))
  | "raw_insert" => unit (doInsert st.db st.now sess (nat! j "k") cryptoKey n (hex! j "v") tags none)
  -- the dump is a scan: expired rows are not shown
  | "dump" => (st, Driver.Store.jentries true ((sortById (st.db.items.filter (live st.now))).map toEntry))
  | _ => (st, jerr "BadOp")
where
  rows (es : List KeyEntry) (O : KeyOps DKey) : Json :=
    Json.mkObj [("rows", .arr ((Driver.Store.sortBy (fun a b => Bytes.lt (utf8 a.name) (utf8 b.name)) es).map (jkeyEntry O)).toArray)]

def runCase (j : Json) : Json :=
  let table := (arr! j "keys").map parseKey
  let st0 : St := { db := { profiles := [⟨1, "default", 0⟩] }, now := int! j "now" }
  .arr ((arr! j "ops").foldl (fun (acc : St × Array Json) op =>
    let (st', o) := stepOp table acc.1 op
    (st', acc.2.push o)) (st0, #[])).2

end Driver.C11
