//! C04 (structure channel) and direct totality campaigns through the cfg-guarded hooks (see DESIGN.md section 6).
use crate::rng::Rng;
use serde_json::{json, Value};

pub fn gen(_r: &mut Rng, _thorough: bool, _count: Option<usize>) -> Vec<Value> {
    vec![]
}

pub fn exec(_case: &Value, _tag: &str) -> Value {
    json!({"out": {"err": "not implemented"}})
}
