/-
C12 (buffer dimension) — executable model of `askar-crypto/src/buffer`:

* the CONTRACT of `trait ResizeBuffer` (`buffer/mod.rs`): insert / remove / resize / extend / write and the writes
  through `as_mut()` as LIST operations on the visible bytes, with an optional capacity (`LBuf`, `specImpl`).
  `Vec<u8>` and `SecretBytes` are the instance without capacity (`buffer/mod.rs:55-83`, `buffer/secret.rs:262-284`);
* `Writer<'_, [u8]>` (`buffer/writer.rs:39-118`) — the public fixed-size in-place buffer — with its INDEX ARITHMETIC as
  written (`copy_within`, the index loop, `self.pos ± diff`), every bounds / overflow check an explicit `panic`, in two
  variants behind `fixed : Bool`:  `false` = the tree as it is (`splice` copies from `range.end - diff`; `buffer_resize(len)`
  sets `pos := pos + len`), `true` = `/verif/proposals/C12-writer-resize-buffer.diff`;
* the in-place operations of `alg/chacha20.rs`, `alg/aes/{mod,cbc_hmac,key_wrap}.rs` as PROGRAMS over the buffer
  interface (`Prog`, one constructor per trait method, `Prog.run` interprets a program over any implementation): the
  same checks, in the same order, as `Model/Aead.lean`, but with the buffer calls the Rust makes instead of list values.

Core Lean only.
-/
import AskarModel.Model.Aead
import AskarModel.Generated.Flags

namespace Askar.ResizeBuf
open Askar.Aead Askar.Crypto

/-- **The switch for the `Writer<[u8]>` defect** (finding D38): `false` = today's source.  To be replaced by a flag
    extracted from `askar-crypto/src/buffer/writer.rs` (see the report): repaired iff the file neither contains
    `range.end - diff)..self.pos` nor `let len = self.pos + len;`. -/
def writerFixed : Bool := Askar.Generated.Flags.writerResizeBufferFixed

def exceeded : Err := ⟨.ExceededBuffer, .default⟩

/-! ### the contract: list semantics with a capacity -/

/-- the visible bytes and the capacity (`none` = growable: `Vec<u8>`, `SecretBytes`) -/
structure LBuf where
  data : Bytes
  cap : Option Nat
  deriving DecidableEq, Repr

def fits (cap : Option Nat) (n : Nat) : Bool :=
  match cap with
  | none => true
  | some c => decide (n ≤ c)

/-- `buffer_write`: append -/
def LBuf.write (b : LBuf) (d : Bytes) : Res LBuf :=
  if fits b.cap (b.data.length + d.length) then .ok { b with data := b.data ++ d } else .err exceeded

/-- `buffer_insert(pos, data)`; precondition `pos ≤ len` (`Vec::splice` panics otherwise) -/
def LBuf.insert (b : LBuf) (pos : Nat) (d : Bytes) : Res LBuf :=
  if !fits b.cap (b.data.length + d.length) then .err exceeded
  else if pos > b.data.length then .panic .sliceOob
  else .ok { b with data := b.data.take pos ++ d ++ b.data.drop pos }

/-- `buffer_remove(s..e)`; precondition `s ≤ e ≤ len` (`Vec::drain` panics otherwise) -/
def LBuf.remove (b : LBuf) (s e : Nat) : Res LBuf :=
  if s ≤ e ∧ e ≤ b.data.length then .ok { b with data := b.data.take s ++ b.data.drop e } else .panic .drainOob

/-- `buffer_resize(len)`: "truncating or padding it with zeroes" — `len` is the ABSOLUTE new length -/
def LBuf.resize (b : LBuf) (len : Nat) : Res LBuf :=
  if !fits b.cap len then .err exceeded
  else .ok { b with data := b.data.take len ++ zeros (len - b.data.length) }

/-- writes through `as_mut()`: the length cannot change -/
def LBuf.setView (b : LBuf) (v : Bytes) : Res LBuf :=
  if v.length = b.data.length then .ok { b with data := v } else .panic .copyLen

/-! ### `Writer<'_, [u8]>` -/

/-- `inner`: the whole slice handed to `from_slice_position`; `pos`: the writer position -/
structure Writer where
  inner : Bytes
  pos : Nat
  deriving DecidableEq, Repr

/-- `<[u8]>::copy_within(s..e, dest)`: panics unless `s ≤ e ≤ len` and `dest ≤ len - (e - s)`; overlapping ranges
    behave like `memmove` -/
def copyWithin (b : Bytes) (s e dest : Nat) : Res Bytes :=
  if s ≤ e ∧ e ≤ b.length ∧ dest + (e - s) ≤ b.length then
    .ok (b.take dest ++ (b.take e).drop s ++ b.drop (dest + (e - s)))
  else .panic .sliceOob

/-- `as_ref()` / `as_mut()`: `&self.inner[..self.pos]` -/
def Writer.view (w : Writer) : Res Bytes := sliceTo w.inner w.pos

/-- writes through `as_mut()` -/
def Writer.setView (w : Writer) (v : Bytes) : Res Writer := do
  let old ← w.view
  if v.length = old.length then .ok ⟨v ++ w.inner.drop w.pos, w.pos⟩ else .panic .copyLen

/-- `buffer_write` (lines 86-96) -/
def Writer.write (w : Writer) (d : Bytes) : Res Writer :=
  let endPos := w.pos + d.length
  if endPos > w.inner.length then .err exceeded
  else do
    let inner ← copyInto w.inner w.pos endPos d
    .ok ⟨inner, endPos⟩

/-- `buffer_insert(p, d)` = `splice(p..p, d)` (lines 40-70, 99-101); `rem_len = 0`, `diff = ins_len = |d|`.
    CURRENT: `copy_within((range.end - diff)..self.pos, range.end)` — `range.end - diff` underflows whenever `|d| > p`.
    REPAIRED: `copy_within(range.end..self.pos, range.end + diff)`. -/
def Writer.insert (fixed : Bool) (w : Writer) (p : Nat) (d : Bytes) : Res Writer :=
  if d.length = 0 then .ok w                                      -- arm `_ => {}`, empty index loop
  else
    let diff := d.length
    if w.pos + diff > w.inner.length then .err exceeded
    else do
      let moved ←
        if fixed then copyWithin w.inner p w.pos (p + diff)
        else if diff > p then Res.panic .arithOverflow
        else copyWithin w.inner (p - diff) w.pos p
      -- `for idx in 0..ins_len { self.inner[range.start + idx] = … }`
      let inner ← copyInto moved p (p + diff) d
      .ok ⟨inner, w.pos + diff⟩

/-- `buffer_remove(s..e)` (lines 103-109) -/
def Writer.remove (w : Writer) (s e : Nat) : Res Writer :=
  if e < s then .panic .assertFailed
  else do
    let inner ← copyWithin w.inner e w.pos s
    if e - s > w.pos then Res.panic .arithOverflow else
    .ok ⟨inner, w.pos - (e - s)⟩

/-- `buffer_resize(len)` (lines 111-117).
    CURRENT: `let len = self.pos + len;` — the argument is ADDED to the position, nothing is zeroed.
    REPAIRED: `len` is the new position; bytes uncovered by growing are zeroed (`inner[pos..len].fill(0)`). -/
def Writer.resize (fixed : Bool) (w : Writer) (len : Nat) : Res Writer :=
  if fixed then
    if len > w.inner.length then .err exceeded
    else if len > w.pos then
      if w.pos ≤ w.inner.length then .ok ⟨w.inner.take w.pos ++ zeros (len - w.pos) ++ w.inner.drop len, len⟩
      else .panic .sliceOob
    else .ok ⟨w.inner, len⟩
  else
    let len' := w.pos + len
    if len' > w.inner.length then .err exceeded else .ok ⟨w.inner, len'⟩

/-! ### the interface, programs over it -/

/-- the methods of `ResizeBuffer` (+ `WriteBuffer`, `AsRef`, `AsMut`) of one implementation -/
structure BufImpl (β : Type) where
  view : β → Res Bytes
  setView : β → Bytes → Res β
  write : β → Bytes → Res β
  insert : β → Nat → Bytes → Res β
  remove : β → Nat → Nat → Res β
  resize : β → Nat → Res β

def specImpl : BufImpl LBuf :=
  ⟨fun b => .ok b.data, LBuf.setView, LBuf.write, LBuf.insert, LBuf.remove, LBuf.resize⟩

def writerImpl (fixed : Bool) : BufImpl Writer :=
  ⟨Writer.view, Writer.setView, Writer.write, Writer.insert fixed, Writer.remove, Writer.resize fixed⟩

/-- a computation that talks to the buffer only through the trait methods -/
inductive Prog (α : Type) where
  | ret (a : α)
  | fail (e : Err)
  | panic (p : Panic)
  | view (k : Bytes → Prog α)
  | setView (v : Bytes) (k : Prog α)
  | write (d : Bytes) (k : Prog α)
  | insert (pos : Nat) (d : Bytes) (k : Prog α)
  | remove (s e : Nat) (k : Prog α)
  | resize (len : Nat) (k : Prog α)

/-- continue with the value of a pure step of the model (`Res`), propagating its error / panic -/
def Prog.lift {α γ : Type} (r : Res γ) (k : γ → Prog α) : Prog α :=
  match r with
  | .ok c => k c
  | .err e => .fail e
  | .panic p => .panic p

/-- one buffer call followed by the rest -/
def step {β γ : Type} (r : Res β) (k : β → Res γ) : Res γ :=
  match r with
  | .ok b => k b
  | .err e => .err e
  | .panic p => .panic p

def Prog.run {α β : Type} (I : BufImpl β) : Prog α → β → Res (β × α)
  | .ret a, b => .ok (b, a)
  | .fail e, _ => .err e
  | .panic p, _ => .panic p
  | .view k, b => step (I.view b) fun v => (k v).run I b
  | .setView v k, b => step (I.setView b v) fun b' => k.run I b'
  | .write d k, b => step (I.write b d) fun b' => k.run I b'
  | .insert p d k, b => step (I.insert b p d) fun b' => k.run I b'
  | .remove s e k, b => step (I.remove b s e) fun b' => k.run I b'
  | .resize n k, b => step (I.resize b n) fun b' => k.run I b'

/-- the trait's DEFAULT method `buffer_extend(len)` (`buffer/mod.rs:45-50`):
    `pos = as_ref().len(); end = pos + len; buffer_resize(end)?; &mut as_mut()[pos..end]` -/
def extendP {α : Type} (len : Nat) (k : Prog α) : Prog α :=
  .view fun v =>
    let pos := v.length
    .resize (pos + len) (.view fun v' => Prog.lift (sliceRange v' pos (pos + len)) fun _ => k)

/-- the raw operations of the trait, as data (op-sequence cases and the refinement theorem) -/
inductive Op where
  | write (d : Bytes)
  | insert (pos : Nat) (d : Bytes)
  | remove (s e : Nat)
  | resize (len : Nat)
  | extend (len : Nat)
  | setView (v : Bytes)
  deriving DecidableEq, Repr

def Prog.ofOps : List Op → Prog Unit
  | [] => .ret ()
  | .write d :: r => .write d (Prog.ofOps r)
  | .insert p d :: r => .insert p d (Prog.ofOps r)
  | .remove s e :: r => .remove s e (Prog.ofOps r)
  | .resize n :: r => .resize n (Prog.ofOps r)
  | .extend n :: r => extendP n (Prog.ofOps r)
  | .setView v :: r => .setView v (Prog.ofOps r)

/-! ### the in-place operations as programs -/

/-- `encrypt_in_place` of `AesKey<AesGcm>` / `Chacha20Key` (`alg/aes/mod.rs:188-205`, `alg/chacha20.rs:157-174`) -/
def streamEncryptP (A : AeadPrim) (nonceLen : Nat) (key nonce aad : Bytes) : Prog Nat :=
  if nonce.length ≠ nonceLen then .fail ⟨.InvalidNonce, .default⟩
  else Prog.lift (fromSlice nonce nonceLen) fun n =>
    .view fun buffer =>                                                       -- buffer.as_mut()
      match A.enc key n aad buffer with
      | none => .fail ⟨.Encryption, .aeadEncrypt⟩
      | some (ct, tag) =>
        .setView ct (.view fun v => .write tag (.ret v.length))               -- ctext_len; buffer_write(tag)

/-- `decrypt_in_place` of the same (`alg/aes/mod.rs:208-235`, `alg/chacha20.rs:177-200`) -/
def streamDecryptP (A : AeadPrim) (nonceLen : Nat) (shortKind : Kind) (key nonce aad : Bytes) : Prog Unit :=
  if nonce.length ≠ nonceLen then .fail ⟨.InvalidNonce, .default⟩
  else .view fun buffer =>
    if buffer.length < A.tagLen then .fail ⟨shortKind, .invalidSize⟩
    else
      let tagStart := buffer.length - A.tagLen
      Prog.lift (fromSlice nonce nonceLen) fun n =>
      Prog.lift (do fromSlice (← sliceFrom buffer tagStart) A.tagLen) fun tag =>
      Prog.lift (sliceTo buffer tagStart) fun ct =>
        match A.dec key n aad ct tag with
        | none => .fail aeadDecErr
        | some pt => .setView (pt ++ buffer.drop tagStart) (.resize tagStart (.ret ()))   -- buffer_resize(tag_start)

/-- `encrypt_in_place` of `AesKey<AesCbcHmac>` (`alg/aes/cbc_hmac.rs:76-119`) -/
def cbcHmacEncryptP (C : BlockCipher) (M : Mac) (K : Nat) (key nonce aad : Bytes) : Prog Nat :=
  if nonce.length ≠ 16 then .fail ⟨.InvalidNonce, .default⟩
  else if K > M.outLen then .fail ⟨.Encryption, .cbcTagSize⟩
  else if aadTooLong aad then .fail ⟨.Encryption, .cbcAadSize⟩
  else .view fun buffer =>
    let msgLen := buffer.length
    let padLen := cbcPaddingLength msgLen
    extendP (padLen + K) <|                                                   -- buffer_extend(pad_len + TagSize)
    Prog.lift (do fromSlice (← sliceFrom key K) K) fun encKey =>
    Prog.lift (fromSlice nonce 16) fun iv =>
    .view fun buf1 =>                                                         -- encrypt_padded_mut(buffer.as_mut(), msg_len)
      if (msgLen / 16 + 1) * 16 > buf1.length then .fail ⟨.Encryption, .cbcEncrypt⟩ else
      let ct := Cbc.encrypt (C.enc encKey) iv (Cbc.pkcs7Pad 16 (buf1.take msgLen))
      let ctextEnd := msgLen + padLen
      .setView (ct ++ buf1.drop ctextEnd) <|
      Prog.lift (sliceTo key K) fun macKey =>
      .view fun buf2 =>
        Prog.lift (sliceTo buf2 ctextEnd) fun ctv =>
        let mac := M.mac macKey (macInput aad nonce ctv)
        Prog.lift (sliceTo mac K) fun macT =>
        Prog.lift (copyInto buf2 ctextEnd (ctextEnd + K) macT) fun buf3 =>
        .setView buf3 (.ret ctextEnd)

/-- `decrypt_in_place` of the same (`alg/aes/cbc_hmac.rs:121-166`); `fixed` as in `Aead.cbcHmacDecrypt` (D5) -/
def cbcHmacDecryptP (fixed : Bool) (C : BlockCipher) (M : Mac) (K : Nat) (key nonce aad : Bytes) : Prog Unit :=
  if nonce.length ≠ 16 then .fail ⟨.InvalidNonce, .default⟩
  else if aadTooLong aad then .fail ⟨.Encryption, .cbcAadSize⟩
  else .view fun buffer =>
    if buffer.length < K then .fail ⟨.Encryption, .invalidSize⟩
    else
      let ctextEnd := buffer.length - K
      Prog.lift (do fromSlice (← sliceFrom buffer ctextEnd) K) fun tag =>
      Prog.lift (sliceTo key K) fun macKey =>
      Prog.lift (sliceTo buffer ctextEnd) fun ctv =>
      let mac := M.mac macKey (macInput aad nonce ctv)
      Prog.lift (sliceTo mac K) fun macT =>
      let tagMatch : Bool := decide (tag = macT)
      if fixed && !tagMatch then .fail aeadDecErr else
      Prog.lift (do fromSlice (← sliceFrom key K) K) fun encKey =>
      Prog.lift (fromSlice nonce 16) fun iv =>
      Prog.lift (sliceTo buffer ctextEnd) fun ctBuf =>
        match cbcDecryptPadded (C.dec encKey) iv ctBuf with
        | none => .fail cbcDecErr
        | some pt =>
          if !tagMatch then .fail aeadDecErr else
          -- the blocks are decrypted in place (padding included), then `buffer_resize(dec_len)`
          .setView (Cbc.decrypt (C.dec encKey) iv ctBuf ++ buffer.drop ctextEnd) (.resize pt.length (.ret ()))

/-- `encrypt_in_place` of `AesKey<AesKeyWrap>` (`alg/aes/key_wrap.rs:64-103`) -/
def kwEncryptP (C : BlockCipher) (key nonce aad : Bytes) : Prog Nat :=
  if !nonce.isEmpty then .fail ⟨.Unsupported, .kwNonce⟩
  else if !aad.isEmpty then .fail ⟨.Unsupported, .kwAad⟩
  else .view fun buffer =>
    if buffer.length % 8 ≠ 0 then .fail ⟨.Unsupported, .kwLen⟩
    else
      let blocks := buffer.length / 8
      .insert 0 (zeros 8) <|                                                  -- buffer_insert(0, &[0u8; 8])
      .view fun buf1 =>
        Prog.lift (sliceFrom buf1 8) fun body =>
        let r := kwWrapPasses (C.enc key) blocks 6 0 kwIv (Cbc.chunks 8 body)
        let buf2 := buf1.take 8 ++ r.2.flatten ++ body.drop (8 * (body.length / 8))
        Prog.lift (copyInto buf2 0 8 r.1) fun buf3 =>
        .setView buf3 (.ret (buffer.length + 8))                              -- Ok(buf_len)

/-- `decrypt_in_place` of the same (`alg/aes/key_wrap.rs:105-149`) -/
def kwDecryptP (C : BlockCipher) (key nonce aad : Bytes) : Prog Unit :=
  if !nonce.isEmpty then .fail ⟨.Unsupported, .kwNonce⟩
  else if !aad.isEmpty then .fail ⟨.Unsupported, .kwAad⟩
  else .view fun buffer =>
    if buffer.length % 8 ≠ 0 then .fail ⟨.Encryption, .kwLen⟩
    else if buffer.length / 8 < 1 then .fail ⟨.Encryption, .default⟩
    else
      let blocks := buffer.length / 8 - 1
      Prog.lift (do tryInto8 (← sliceRange buffer 0 8)) fun iv0 =>
      .remove 0 8 <|                                                          -- buffer_remove(0..8)
      .view fun body =>
        let r := kwUnwrapPasses (C.dec key) blocks 6 0 iv0 (Cbc.chunks 8 body)
        .setView (r.2.flatten ++ body.drop (8 * (body.length / 8))) <|
        if r.1 = kwIv then .ret () else .fail ⟨.Encryption, .default⟩

/-- `AnyKey::encrypt_in_place` -/
def encryptInPlaceP (P : Prims) (k : Key) (nonce aad : Bytes) : Prog Nat :=
  match k.alg with
  | .A128Gcm => streamEncryptP P.gcm128 12 k.bytes nonce aad
  | .A256Gcm => streamEncryptP P.gcm256 12 k.bytes nonce aad
  | .A128CbcHs256 => cbcHmacEncryptP P.aes128 P.hmac256 16 k.bytes nonce aad
  | .A256CbcHs512 => cbcHmacEncryptP P.aes256 P.hmac512 32 k.bytes nonce aad
  | .A128Kw => kwEncryptP P.aes128 k.bytes nonce aad
  | .A256Kw => kwEncryptP P.aes256 k.bytes nonce aad
  | .C20P => streamEncryptP P.c20p 12 k.bytes nonce aad
  | .XC20P => streamEncryptP P.xc20p 24 k.bytes nonce aad
  | .Ed25519 => .fail unsupportedErr

/-- `AnyKey::decrypt_in_place` -/
def decryptInPlaceP (fixed : Bool) (P : Prims) (k : Key) (nonce aad : Bytes) : Prog Unit :=
  match k.alg with
  | .A128Gcm => streamDecryptP P.gcm128 12 .Encryption k.bytes nonce aad
  | .A256Gcm => streamDecryptP P.gcm256 12 .Encryption k.bytes nonce aad
  | .A128CbcHs256 => cbcHmacDecryptP fixed P.aes128 P.hmac256 16 k.bytes nonce aad
  | .A256CbcHs512 => cbcHmacDecryptP fixed P.aes256 P.hmac512 32 k.bytes nonce aad
  | .A128Kw => kwDecryptP P.aes128 k.bytes nonce aad
  | .A256Kw => kwDecryptP P.aes256 k.bytes nonce aad
  | .C20P => streamDecryptP P.c20p 12 .Invalid k.bytes nonce aad
  | .XC20P => streamDecryptP P.xc20p 24 .Invalid k.bytes nonce aad
  | .Ed25519 => .fail unsupportedErr

/-- `crypto_box` (`encrypt/crypto_box.rs:48-64`) after the key / nonce checks: the message is encrypted in place,
    the tag is PREPENDED with `buffer_insert(0, tag)`; `sealF m = (ct, tag)` -/
def cryptoBoxP (sealF : Bytes → Bytes × Bytes) : Prog Unit :=
  .view fun m => .setView (sealF m).1 (.insert 0 (sealF m).2 (.ret ()))

/-- `crypto_box_open` (`encrypt/crypto_box.rs:67-88`) after the key / nonce checks; `open ct tag` -/
def cryptoBoxOpenP (tagLen : Nat) (shortErr decErr : Err) (opn : Bytes → Bytes → Option Bytes) : Prog Unit :=
  .view fun buffer =>
    if buffer.length < tagLen then .fail shortErr
    else
      Prog.lift (sliceTo buffer tagLen) fun tag =>
      Prog.lift (sliceFrom buffer tagLen) fun ct =>
        match opn ct tag with
        | none => .fail decErr
        | some pt => .setView (tag ++ pt) (.remove 0 tagLen (.ret ()))

/-! ### small wrappers named by the coverage audit (row 20) -/

/-- `LocalKey::aead_random_nonce`: the LENGTH of the nonce returned (the bytes are random) -/
def aeadRandomNonceLen (k : Key) : Nat := k.alg.params.1

/-- `LocalKey::from_seed`: the `method` dispatch (`src/kms/local_key.rs:57-70`) in front of key generation:
    `none` = `None | Some("")`.  Returns the error raised before any key is generated, if any. -/
def fromSeedGuard (method : Option String) (seedLen : Nat) : Option Err :=
  match method with
  | none => none
  | some "" => none
  | some "bls_keygen" => if seedLen < 32 then some ⟨.Usage, .default⟩ else none     -- `BlsKeyGen::new`
  | some _ => some ⟨.Unsupported, .default⟩

/-- `kdf::argon2::Argon2::new`: `salt.len() < SALT_LENGTH (= 16)` is a `Usage` error -/
def argon2NewGuard (saltLen : Nat) : Option Err :=
  if saltLen < 16 then some ⟨.Usage, .default⟩ else none

end Askar.ResizeBuf
