/-
Helper lemmas for the buffer dimension of C12 (`Model/ResizeBuf.lean`): the generic simulation argument
(`run_refines`: an implementation whose six methods refine the list contract runs EVERY program like the contract),
the repaired `Writer<[u8]>` refines the contract (`writer_refines`), a capacity only adds `ExceededBuffer`
(`capacity_refines`), and the witnesses against the current `Writer<[u8]>`.  Core Lean only.
-/
import AskarModel.Model.ResizeBuf

namespace Askar.ResizeBuf.Lemmas
open Askar.Aead Askar.ResizeBuf

@[simp] theorem bind_ok' {α β : Type} (a : α) (f : α → Res β) : (Res.ok a >>= f) = f a := rfl

/-! ### outcomes of an implementation against the contract -/

/-- one method call: `x` (implementation) against `y` (contract).  Where the contract's precondition is violated
    (`y` is a panic — `Vec` panics there too) nothing is required.  `weak` additionally allows the implementation to
    answer `ExceededBuffer` (used for "a capacity only adds ExceededBuffer"; `weak = False` is exact refinement). -/
def StepRel {β : Type} (R : β → LBuf → Prop) (weak : Prop) (x : Res β) (y : Res LBuf) : Prop :=
  match y with
  | .ok l' => (∃ b', x = .ok b' ∧ R b' l') ∨ (weak ∧ x = .err exceeded)
  | .err e => x = .err e ∨ (weak ∧ x = .err exceeded)
  | .panic _ => True

/-- a whole run: same returned value, related final buffers — or the same error -/
def RunRel {α β : Type} (R : β → LBuf → Prop) (weak : Prop) (x : Res (β × α)) (y : Res (LBuf × α)) : Prop :=
  match y with
  | .ok (l', a) => (∃ b', x = .ok (b', a) ∧ R b' l') ∨ (weak ∧ x = .err exceeded)
  | .err e => x = .err e ∨ (weak ∧ x = .err exceeded)
  | .panic _ => True

/-- every method of `I` refines the contract under the representation relation `R` -/
structure Refines {β : Type} (I : BufImpl β) (R : β → LBuf → Prop) (weak : Prop) : Prop where
  view : ∀ b l, R b l → I.view b = .ok l.data
  setView : ∀ b l v, R b l → StepRel R weak (I.setView b v) (l.setView v)
  write : ∀ b l d, R b l → StepRel R weak (I.write b d) (l.write d)
  insert : ∀ b l p d, R b l → StepRel R weak (I.insert b p d) (l.insert p d)
  remove : ∀ b l s e, R b l → StepRel R weak (I.remove b s e) (l.remove s e)
  resize : ∀ b l n, R b l → StepRel R weak (I.resize b n) (l.resize n)

theorem runRel_exceeded {α β : Type} (R : β → LBuf → Prop) (weak : Prop) (hw : weak) (y : Res (LBuf × α)) :
    RunRel R weak (.err exceeded : Res (β × α)) y := by
  cases y with
  | ok p => exact Or.inr ⟨hw, rfl⟩
  | err e => exact Or.inr ⟨hw, rfl⟩
  | panic p => trivial

theorem step_rel {α β : Type} (R : β → LBuf → Prop) (weak : Prop) (x : Res β) (y : Res LBuf) (hs : StepRel R weak x y)
    (kx : β → Res (β × α)) (ky : LBuf → Res (LBuf × α)) (hk : ∀ b' l', R b' l' → RunRel R weak (kx b') (ky l')) :
    RunRel R weak (step x kx) (step y ky) := by
  cases y with
  | ok l' =>
    rcases hs with ⟨b', hx, hR⟩ | ⟨hw, hx⟩
    · subst hx; exact hk b' l' hR
    · subst hx; exact runRel_exceeded R weak hw _
  | err e =>
    rcases hs with hx | ⟨hw, hx⟩
    · subst hx; exact Or.inl rfl
    · subst hx; exact Or.inr ⟨hw, rfl⟩
  | panic p => trivial

/-- **The simulation argument**: an implementation that refines the contract method by method runs every program —
    hence every in-place operation — like the contract. -/
theorem run_refines {α β : Type} (I : BufImpl β) (R : β → LBuf → Prop) (weak : Prop) (h : Refines I R weak) :
    ∀ (prog : Prog α) (b : β) (l : LBuf), R b l → RunRel R weak (prog.run I b) (prog.run specImpl l) := by
  intro prog
  induction prog with
  | ret a => intro b l hR; exact Or.inl ⟨b, rfl, hR⟩
  | fail e => intro b l _; exact Or.inl rfl
  | panic p => intro b l _; trivial
  | view k ih =>
    intro b l hR
    simp only [Prog.run, h.view b l hR]
    exact ih l.data b l hR
  | setView v k ih =>
    intro b l hR
    exact step_rel R weak _ _ (h.setView b l v hR) _ _ (fun b' l' hR' => ih b' l' hR')
  | write d k ih =>
    intro b l hR
    exact step_rel R weak _ _ (h.write b l d hR) _ _ (fun b' l' hR' => ih b' l' hR')
  | insert p d k ih =>
    intro b l hR
    exact step_rel R weak _ _ (h.insert b l p d hR) _ _ (fun b' l' hR' => ih b' l' hR')
  | remove s e k ih =>
    intro b l hR
    exact step_rel R weak _ _ (h.remove b l s e hR) _ _ (fun b' l' hR' => ih b' l' hR')
  | resize n k ih =>
    intro b l hR
    exact step_rel R weak _ _ (h.resize b l n hR) _ _ (fun b' l' hR' => ih b' l' hR')

/-! ### a capacity only adds `ExceededBuffer` -/

/-- the same visible bytes; the left buffer may have a capacity, the right one (Vec, SecretBytes) has none -/
def CapRel (b l : LBuf) : Prop := b.data = l.data ∧ l.cap = none

theorem capacity_refines : Refines specImpl CapRel True := by
  refine ⟨?_, ?_, ?_, ?_, ?_, ?_⟩
  · intro b l ⟨hd, _⟩; simp [specImpl, hd]
  · rintro ⟨d0, bc⟩ ⟨ld, lc⟩ v ⟨hd, hc⟩
    simp only at hd hc; subst hd hc
    by_cases hv : v.length = d0.length
    · have hr : LBuf.setView ⟨d0, none⟩ v = .ok ⟨v, none⟩ := by simp [LBuf.setView, hv]
      have hl : specImpl.setView ⟨d0, bc⟩ v = .ok ⟨v, bc⟩ := by simp [specImpl, LBuf.setView, hv]
      rw [hr, hl]; exact Or.inl ⟨_, rfl, rfl, rfl⟩
    · have hr : LBuf.setView ⟨d0, none⟩ v = .panic .copyLen := by simp [LBuf.setView, hv]
      rw [hr]; trivial
  · rintro ⟨d0, bc⟩ ⟨ld, lc⟩ d ⟨hd, hc⟩
    simp only at hd hc; subst hd hc
    have hr : LBuf.write ⟨d0, none⟩ d = .ok ⟨d0 ++ d, none⟩ := by simp [LBuf.write, fits]
    rw [hr]
    by_cases hf : fits bc (d0.length + d.length) = true
    · have hl : specImpl.write ⟨d0, bc⟩ d = .ok ⟨d0 ++ d, bc⟩ := by simp [specImpl, LBuf.write, hf]
      rw [hl]; exact Or.inl ⟨_, rfl, rfl, rfl⟩
    · have hl : specImpl.write ⟨d0, bc⟩ d = .err exceeded := by simp [specImpl, LBuf.write, hf]
      rw [hl]; exact Or.inr ⟨trivial, rfl⟩
  · rintro ⟨d0, bc⟩ ⟨ld, lc⟩ p d ⟨hd, hc⟩
    simp only at hd hc; subst hd hc
    by_cases hp : p > d0.length
    · have hr : LBuf.insert ⟨d0, none⟩ p d = .panic .sliceOob := by simp [LBuf.insert, fits, hp]
      rw [hr]; trivial
    · have hr : LBuf.insert ⟨d0, none⟩ p d = .ok ⟨d0.take p ++ d ++ d0.drop p, none⟩ := by simp [LBuf.insert, fits, hp]
      rw [hr]
      by_cases hf : fits bc (d0.length + d.length) = true
      · have hl : specImpl.insert ⟨d0, bc⟩ p d = .ok ⟨d0.take p ++ d ++ d0.drop p, bc⟩ := by simp [specImpl, LBuf.insert, hf, hp]
        rw [hl]; exact Or.inl ⟨_, rfl, rfl, rfl⟩
      · have hl : specImpl.insert ⟨d0, bc⟩ p d = .err exceeded := by simp [specImpl, LBuf.insert, hf]
        rw [hl]; exact Or.inr ⟨trivial, rfl⟩
  · rintro ⟨d0, bc⟩ ⟨ld, lc⟩ s e ⟨hd, hc⟩
    simp only at hd hc; subst hd hc
    by_cases hse : s ≤ e ∧ e ≤ d0.length
    · have hr : LBuf.remove ⟨d0, none⟩ s e = .ok ⟨d0.take s ++ d0.drop e, none⟩ := by simp [LBuf.remove, hse]
      have hl : specImpl.remove ⟨d0, bc⟩ s e = .ok ⟨d0.take s ++ d0.drop e, bc⟩ := by simp [specImpl, LBuf.remove, hse]
      rw [hr, hl]; exact Or.inl ⟨_, rfl, rfl, rfl⟩
    · have hr : LBuf.remove ⟨d0, none⟩ s e = .panic .drainOob := by simp only [LBuf.remove, hse, if_false]
      rw [hr]; trivial
  · rintro ⟨d0, bc⟩ ⟨ld, lc⟩ n ⟨hd, hc⟩
    simp only at hd hc; subst hd hc
    have hr : LBuf.resize ⟨d0, none⟩ n = .ok ⟨d0.take n ++ zeros (n - d0.length), none⟩ := by simp [LBuf.resize, fits]
    rw [hr]
    by_cases hf : fits bc n = true
    · have hl : specImpl.resize ⟨d0, bc⟩ n = .ok ⟨d0.take n ++ zeros (n - d0.length), bc⟩ := by simp [specImpl, LBuf.resize, hf]
      rw [hl]; exact Or.inl ⟨_, rfl, rfl, rfl⟩
    · have hl : specImpl.resize ⟨d0, bc⟩ n = .err exceeded := by simp [specImpl, LBuf.resize, hf]
      rw [hl]; exact Or.inr ⟨trivial, rfl⟩

/-! ### the repaired `Writer<[u8]>` refines the contract -/

/-- representation: the position is inside the slice, the bytes before it are the list, the slice length is the capacity -/
def WRel (w : Writer) (l : LBuf) : Prop :=
  w.pos ≤ w.inner.length ∧ w.inner.take w.pos = l.data ∧ l.cap = some w.inner.length

theorem split_at {α : Type} (l : List α) (k : Nat) (h : k ≤ l.length) : ∃ a b, l = a ++ b ∧ a.length = k :=
  ⟨l.take k, l.drop k, (List.take_append_drop k l).symm, by simp [List.length_take]; omega⟩

theorem take3 {α : Type} (a b c : List α) (k : Nat) (h : a.length + b.length = k) : (a ++ (b ++ c)).take k = a ++ b := by
  rw [← List.append_assoc]; exact List.take_left' (by simp; omega)

theorem drop3 {α : Type} (a b c : List α) (k : Nat) (h : a.length + b.length = k) : (a ++ (b ++ c)).drop k = c := by
  rw [← List.append_assoc]; exact List.drop_left' (by simp; omega)

theorem zeros_length (n : Nat) : (zeros n).length = n := by simp [zeros]

/-- unpack the representation: `inner = D ++ rest`, `|D| = pos`, `D` is the list -/
theorem wrel_split (w : Writer) (l : LBuf) (h : WRel w l) :
    ∃ D rest, w = ⟨D ++ rest, D.length⟩ ∧ l = ⟨D, some (D.length + rest.length)⟩ := by
  obtain ⟨inner, pos⟩ := w
  obtain ⟨data, cap⟩ := l
  obtain ⟨h1, h2, h3⟩ := h
  simp only at h1 h2 h3
  obtain ⟨a, b, hab, ha⟩ := split_at inner pos h1
  subst hab
  rw [List.take_left' ha] at h2
  subst h2 ha h3
  exact ⟨a, b, rfl, by simp⟩

theorem wrel_mk (D rest : Bytes) (c : Nat) (hc : c = D.length + rest.length) : WRel ⟨D ++ rest, D.length⟩ ⟨D, some c⟩ := by
  refine ⟨by simp, List.take_left' rfl, by simp [hc]⟩

theorem writer_view (D rest : Bytes) : Writer.view ⟨D ++ rest, D.length⟩ = .ok D := by
  simp [Writer.view, sliceTo, List.take_left' rfl]

theorem writer_refines : Refines (writerImpl true) WRel False := by
  refine ⟨?_, ?_, ?_, ?_, ?_, ?_⟩
  · -- view
    intro w l h
    obtain ⟨D, rest, rfl, rfl⟩ := wrel_split w l h
    exact writer_view D rest
  · -- setView
    intro w l v h
    obtain ⟨D, rest, rfl, rfl⟩ := wrel_split w l h
    by_cases hv : v.length = D.length
    · have hr : LBuf.setView ⟨D, some (D.length + rest.length)⟩ v = .ok ⟨v, some (D.length + rest.length)⟩ := by
        simp [LBuf.setView, hv]
      have hl : (writerImpl true).setView ⟨D ++ rest, D.length⟩ v = .ok ⟨v ++ rest, v.length⟩ := by
        show Writer.setView _ _ = _
        unfold Writer.setView
        rw [writer_view]
        simp [hv, List.drop_left' rfl, Lemmas.bind_ok']
      rw [hr, hl]
      exact Or.inl ⟨_, rfl, wrel_mk v rest _ (by omega)⟩
    · have hr : LBuf.setView ⟨D, some (D.length + rest.length)⟩ v = .panic .copyLen := by simp [LBuf.setView, hv]
      rw [hr]; trivial
  · -- write
    intro w l d h
    obtain ⟨D, rest, rfl, rfl⟩ := wrel_split w l h
    by_cases hf : D.length + d.length ≤ D.length + rest.length
    · have hr : LBuf.write ⟨D, some (D.length + rest.length)⟩ d = .ok ⟨D ++ d, some (D.length + rest.length)⟩ := by
        simp [LBuf.write, fits, hf]
      obtain ⟨Z, T, rfl, hZ⟩ := split_at rest d.length (by omega)
      have hl : (writerImpl true).write ⟨D ++ (Z ++ T), D.length⟩ d = .ok ⟨(D ++ d) ++ T, (D ++ d).length⟩ := by
        show Writer.write _ _ = _
        have h1 : ¬ (D.length + d.length > (D ++ (Z ++ T)).length) := by simp; omega
        have h2 : D.length ≤ D.length + d.length ∧ D.length + d.length ≤ (D ++ (Z ++ T)).length := by simp; omega
        simp only [Writer.write, h1, if_false, copyInto, h2, and_self, if_true, Nat.add_sub_cancel_left,
          List.take_left' rfl, drop3 D Z T (D.length + d.length) (by omega), Lemmas.bind_ok']
        simp
      rw [hr, hl]
      exact Or.inl ⟨_, rfl, wrel_mk (D ++ d) T _ (by simp at hf ⊢; omega)⟩
    · have hr : LBuf.write ⟨D, some (D.length + rest.length)⟩ d = .err exceeded := by simp [LBuf.write, fits, hf]
      have hl : (writerImpl true).write ⟨D ++ rest, D.length⟩ d = .err exceeded := by
        show Writer.write _ _ = _
        have h1 : D.length + d.length > (D ++ rest).length := by simp; omega
        simp only [Writer.write, h1, if_true]
      rw [hr, hl]; exact Or.inl rfl
  · -- insert
    intro w l q d h
    obtain ⟨D, rest, rfl, rfl⟩ := wrel_split w l h
    by_cases hf : D.length + d.length ≤ D.length + rest.length
    · by_cases hq : q > D.length
      · have hr : LBuf.insert ⟨D, some (D.length + rest.length)⟩ q d = .panic .sliceOob := by simp [LBuf.insert, fits, hf, hq]
        rw [hr]; trivial
      · have hr : LBuf.insert ⟨D, some (D.length + rest.length)⟩ q d
            = .ok ⟨D.take q ++ d ++ D.drop q, some (D.length + rest.length)⟩ := by simp [LBuf.insert, fits, hf, hq]
        rw [hr]
        by_cases hd : d.length = 0
        · have hl : (writerImpl true).insert ⟨D ++ rest, D.length⟩ q d = .ok ⟨D ++ rest, D.length⟩ := by
            show Writer.insert true _ _ _ = _
            simp [Writer.insert, hd]
          have hd' : d = [] := List.eq_nil_of_length_eq_zero hd
          rw [hl, hd']
          refine Or.inl ⟨_, rfl, ?_⟩
          simpa using wrel_mk D rest _ rfl
        · obtain ⟨A, B, rfl, hA⟩ := split_at D q (by omega)
          obtain ⟨Z, T, rfl, hZ⟩ := split_at rest d.length (by omega)
          have hl : (writerImpl true).insert ⟨(A ++ B) ++ (Z ++ T), (A ++ B).length⟩ q d
              = .ok ⟨((A ++ d) ++ B) ++ T, ((A ++ d) ++ B).length⟩ := by
            show Writer.insert true _ _ _ = _
            have h1 : ¬ ((A ++ B).length + d.length > ((A ++ B) ++ (Z ++ T)).length) := by simp; omega
            have hcw : copyWithin ((A ++ B) ++ (Z ++ T)) q (A ++ B).length (q + d.length)
                = .ok (((A ++ B) ++ (Z ++ T)).take (q + d.length) ++ B ++ T) := by
              unfold copyWithin
              rw [if_pos (by simp; omega)]
              have e1 : (((A ++ B) ++ (Z ++ T)).take (A ++ B).length).drop q = B := by
                rw [List.take_left' rfl, List.drop_left' hA]
              have e2 : ((A ++ B) ++ (Z ++ T)).drop (q + d.length + ((A ++ B).length - q)) = T := by
                have : (A ++ B) ++ (Z ++ T) = ((A ++ B) ++ Z) ++ T := by simp
                rw [this]; exact List.drop_left' (by simp; omega)
              rw [e1, e2]
            have hX : (((A ++ B) ++ (Z ++ T)).take (q + d.length)).length = q + d.length := by
              simp [List.length_take]; omega
            have hXq : (((A ++ B) ++ (Z ++ T)).take (q + d.length)).take q = A := by
              rw [List.take_take, Nat.min_eq_left (by omega)]
              have : (A ++ B) ++ (Z ++ T) = A ++ (B ++ (Z ++ T)) := by simp
              rw [this]; exact List.take_left' hA
            have hci : copyInto (((A ++ B) ++ (Z ++ T)).take (q + d.length) ++ B ++ T) q (q + d.length) d
                = .ok (A ++ d ++ (B ++ T)) := by
              unfold copyInto
              rw [if_pos (by simp [List.length_take]; omega), if_pos (by omega)]
              have e1 : (((A ++ B) ++ (Z ++ T)).take (q + d.length) ++ B ++ T).take q = A := by
                rw [List.append_assoc, List.take_append_of_le_length (by omega), hXq]
              have e2 : (((A ++ B) ++ (Z ++ T)).take (q + d.length) ++ B ++ T).drop (q + d.length) = B ++ T := by
                rw [List.append_assoc]; exact List.drop_left' hX
              rw [e1, e2]
            simp only [Writer.insert, hd, if_false, h1, if_true, hcw, Lemmas.bind_ok', hci]
            simp; omega
          rw [hl]
          refine Or.inl ⟨_, rfl, ?_⟩
          have e : List.take q (A ++ B) ++ d ++ List.drop q (A ++ B) = (A ++ d) ++ B := by
            rw [List.take_left' hA, List.drop_left' hA]
          rw [e]
          exact wrel_mk ((A ++ d) ++ B) T _ (by simp; omega)
    · have hr : LBuf.insert ⟨D, some (D.length + rest.length)⟩ q d = .err exceeded := by simp [LBuf.insert, fits, hf]
      have hl : (writerImpl true).insert ⟨D ++ rest, D.length⟩ q d = .err exceeded := by
        show Writer.insert true _ _ _ = _
        have hd : ¬ d.length = 0 := by omega
        have h1 : D.length + d.length > (D ++ rest).length := by simp; omega
        simp only [Writer.insert, hd, if_false, h1, if_true]
      rw [hr, hl]; exact Or.inl rfl
  · -- remove
    intro w l s e h
    obtain ⟨D, rest, rfl, rfl⟩ := wrel_split w l h
    by_cases hse : s ≤ e ∧ e ≤ D.length
    · have hr : LBuf.remove ⟨D, some (D.length + rest.length)⟩ s e = .ok ⟨D.take s ++ D.drop e, some (D.length + rest.length)⟩ := by
        simp [LBuf.remove, hse]
      rw [hr]
      obtain ⟨AB, C, rfl, hAB⟩ := split_at D e hse.2
      obtain ⟨A, B, rfl, hA⟩ := split_at AB s (by omega)
      have hl : (writerImpl true).remove ⟨((A ++ B) ++ C) ++ rest, ((A ++ B) ++ C).length⟩ s e
          = .ok ⟨(A ++ C) ++ (((A ++ B) ++ C) ++ rest).drop (s + C.length), (A ++ C).length⟩ := by
        show Writer.remove _ _ _ = _
        have hcw : copyWithin (((A ++ B) ++ C) ++ rest) e ((A ++ B) ++ C).length s
            = .ok (A ++ C ++ (((A ++ B) ++ C) ++ rest).drop (s + C.length)) := by
          unfold copyWithin
          rw [if_pos (by simp at hAB ⊢; omega)]
          have e1 : ((((A ++ B) ++ C) ++ rest).take ((A ++ B) ++ C).length).drop e = C := by
            rw [List.take_left' rfl, List.drop_left' hAB]
          have e0 : (((A ++ B) ++ C) ++ rest).take s = A := by
            have : ((A ++ B) ++ C) ++ rest = A ++ (B ++ (C ++ rest)) := by simp
            rw [this]; exact List.take_left' hA
          have e2 : s + (((A ++ B) ++ C).length - e) = s + C.length := by simp at hAB ⊢; omega
          rw [e0, e1, e2]
        have h0 : ¬ e < s := by omega
        have h2 : ¬ (e - s > ((A ++ B) ++ C).length) := by simp at hAB ⊢; omega
        simp only [Writer.remove, h0, if_false, hcw, Lemmas.bind_ok', h2]
        simp at hAB ⊢; omega
      rw [hl]
      refine Or.inl ⟨_, rfl, ?_⟩
      have e : List.take s ((A ++ B) ++ C) ++ List.drop e ((A ++ B) ++ C) = A ++ C := by
        rw [List.drop_left' hAB]
        have : (A ++ B) ++ C = A ++ (B ++ C) := by simp
        rw [this, List.take_left' hA]
      rw [e]
      exact wrel_mk (A ++ C) _ _ (by simp at hAB ⊢; omega)
    · have hr : LBuf.remove ⟨D, some (D.length + rest.length)⟩ s e = .panic .drainOob := by
        simp only [LBuf.remove, hse, if_false]
      rw [hr]; trivial
  · -- resize
    intro w l n h
    obtain ⟨D, rest, rfl, rfl⟩ := wrel_split w l h
    by_cases hf : n ≤ D.length + rest.length
    · have hr : LBuf.resize ⟨D, some (D.length + rest.length)⟩ n
          = .ok ⟨D.take n ++ zeros (n - D.length), some (D.length + rest.length)⟩ := by simp [LBuf.resize, fits, hf]
      rw [hr]
      by_cases hg : n > D.length
      · obtain ⟨Z, T, rfl, hZ⟩ := split_at rest (n - D.length) (by omega)
        have hl : (writerImpl true).resize ⟨D ++ (Z ++ T), D.length⟩ n
            = .ok ⟨(D ++ zeros (n - D.length)) ++ T, (D ++ zeros (n - D.length)).length⟩ := by
          show Writer.resize true _ _ = _
          have h1 : ¬ (n > (D ++ (Z ++ T)).length) := by simp at hf ⊢; omega
          have h3 : D.length ≤ (D ++ (Z ++ T)).length := by simp
          simp only [Writer.resize, if_true, h1, if_false, hg, h3, List.take_left' rfl, drop3 D Z T n (by omega)]
          simp [zeros_length]; omega
        rw [hl, List.take_of_length_le (by omega)]
        exact Or.inl ⟨_, rfl, wrel_mk _ T _ (by simp [zeros_length] at hf ⊢; omega)⟩
      · have hl : (writerImpl true).resize ⟨D ++ rest, D.length⟩ n = .ok ⟨D ++ rest, n⟩ := by
          show Writer.resize true _ _ = _
          have h1 : ¬ (n > (D ++ rest).length) := by simp; omega
          simp only [Writer.resize, if_true, h1, if_false, hg]
        rw [hl]
        refine Or.inl ⟨_, rfl, ?_⟩
        have hz : n - D.length = 0 := by omega
        refine ⟨by simp; omega, ?_, by simp⟩
        simp [hz, zeros, List.take_append_of_le_length (show n ≤ D.length by omega)]
    · have hr : LBuf.resize ⟨D, some (D.length + rest.length)⟩ n = .err exceeded := by simp [LBuf.resize, fits, hf]
      have hl : (writerImpl true).resize ⟨D ++ rest, D.length⟩ n = .err exceeded := by
        show Writer.resize true _ _ = _
        have h1 : n > (D ++ rest).length := by simp; omega
        simp only [Writer.resize, if_true, h1]
      rw [hr, hl]; exact Or.inl rfl

/-! ### what the refinement means for a run, spelled out -/

/-- a run over the repaired Writer against the run over the list with the slice length as capacity: same visible bytes,
    position = their number, same returned value; same error; no panic unless the contract's run panics -/
theorem writer_run_agrees {α : Type} (prog : Prog α) (input rest : Bytes) :
    match prog.run specImpl ⟨input, some (input.length + rest.length)⟩ with
    | .ok (l', a) => ∃ rest', prog.run (writerImpl true) ⟨input ++ rest, input.length⟩ = .ok (⟨l'.data ++ rest', l'.data.length⟩, a)
    | .err e => prog.run (writerImpl true) ⟨input ++ rest, input.length⟩ = .err e
    | .panic _ => True := by
  have h := run_refines (writerImpl true) WRel False writer_refines prog _ _ (wrel_mk input rest _ rfl)
  revert h
  cases prog.run specImpl ⟨input, some (input.length + rest.length)⟩ with
  | ok p =>
    obtain ⟨l', a⟩ := p
    intro h
    rcases h with ⟨b', hx, hR⟩ | ⟨hf, _⟩
    · obtain ⟨D, rest', rfl, rfl⟩ := wrel_split b' l' hR
      exact ⟨rest', hx⟩
    · exact hf.elim
  | err e =>
    intro h
    rcases h with hx | ⟨hf, _⟩
    · exact hx
    · exact hf.elim
  | panic p => intro _; trivial

/-! ### the current `Writer<[u8]>` does not -/

/-- `buffer_insert(0, [0; 8])` on a 16-byte prefix of a 24-byte slice (what AES-KW wrap does first): `0 - 8` -/
theorem current_insert_panics :
    Writer.insert false ⟨zeros 24, 16⟩ 0 (zeros 8) = .panic .arithOverflow := by decide

/-- `buffer_resize(11)` at position 27 of a 91-byte slice (ChaCha20-Poly1305 decrypt of an 11-byte message's box):
    the position becomes 38 -/
theorem current_resize_adds :
    Writer.resize false ⟨zeros 91, 27⟩ 11 = .ok ⟨zeros 91, 38⟩ := by decide

theorem current_not_refines : ¬ Refines (writerImpl false) WRel False := by
  intro h
  have hR : WRel ⟨zeros 24, 16⟩ ⟨zeros 16, some 24⟩ := ⟨by decide, by decide, by decide⟩
  have h1 := h.insert ⟨zeros 24, 16⟩ ⟨zeros 16, some 24⟩ 0 (zeros 8) hR
  have e1 : (writerImpl false).insert ⟨zeros 24, 16⟩ 0 (zeros 8) = .panic .arithOverflow := current_insert_panics
  have e2 : LBuf.insert ⟨zeros 16, some 24⟩ 0 (zeros 8) = .ok ⟨zeros 24, some 24⟩ := by decide
  rw [e1, e2] at h1
  rcases h1 with ⟨b', hb, _⟩ | ⟨hf, _⟩
  · cases hb
  · exact hf

/-- the same for `buffer_resize` alone (a repair of `splice` only would not be enough) -/
theorem current_resize_not_refines :
    ¬ StepRel WRel False ((writerImpl false).resize ⟨zeros 91, 27⟩ 11) (LBuf.resize ⟨zeros 27, some 91⟩ 11) := by
  have e1 : (writerImpl false).resize ⟨zeros 91, 27⟩ 11 = .ok ⟨zeros 91, 38⟩ := current_resize_adds
  have e2 : LBuf.resize ⟨zeros 27, some 91⟩ 11 = .ok ⟨zeros 11, some 91⟩ := by decide
  rw [e1, e2]
  intro h
  rcases h with ⟨b', hb, hR⟩ | ⟨hf, _⟩
  · cases hb
    have : (zeros 91).take 38 = zeros 11 := hR.2.1
    exact absurd (congrArg List.length this) (by decide)
  · exact hf

/-- at the level of an in-place operation (toy primitives): the box of an 11-byte message, decrypted through the current
    Writer with 64 spare bytes, is "Ok" with position 38 — the list run gives the 11 bytes of the message -/
theorem current_decrypt_wrong_position :
    ((decryptInPlaceP true toyPrims ⟨.C20P, zeros 32⟩ (zeros 12) []).run specImpl
        ⟨List.replicate 27 7, none⟩ = .ok (⟨List.replicate 11 7, none⟩, ())) ∧
    ((decryptInPlaceP true toyPrims ⟨.C20P, zeros 32⟩ (zeros 12) []).run (writerImpl false)
        ⟨List.replicate 27 7 ++ zeros 64, 27⟩ = .ok (⟨List.replicate 27 7 ++ zeros 64, 38⟩, ())) := by
  constructor <;> decide

/-- … and AES-KW wrap of 16 bytes through the current Writer panics, whatever the spare capacity -/
theorem current_kw_wrap_panics :
    (encryptInPlaceP toyPrims ⟨.A128Kw, zeros 16⟩ [] []).run (writerImpl false) ⟨zeros 16 ++ zeros 72, 16⟩
      = .panic .arithOverflow := by decide

end Askar.ResizeBuf.Lemmas
