/-
C12 — the tie of `Lemmas/ResizeBufTie.lean` for the two programs whose list FUNCTIONS live in `Model/Ecdh.lean` (C15):
`cryptoBoxP` / `cryptoBoxOpenP` (the part of `crypto_box` / `crypto_box_open` after the key and nonce checks), run over the
list implementation without capacity, compute `Ecdh.cryptoBox` / `Ecdh.cryptoBoxOpen`.  `Ecdh.CErr` carries the error kind
only, so both error exits of `crypto_box_open` are compared with one `Err` value.  Core Lean only.
-/
import AskarModel.Lemmas.ResizeBufTie
import AskarModel.Lemmas.Ecdh

namespace Askar.ResizeBuf.Tie
open Askar.Aead Askar.ResizeBuf

/-- a result of the list functions of `Model/Ecdh.lean` in the result type of a program run (`e`: the `Encryption` error) -/
def boxOut (e : Err) : Askar.Ecdh.Res Bytes → Res (LBuf × Unit)
  | .ok b => .ok (⟨b, none⟩, ())
  | .err _ => .err e
  | .panic => .panic .sliceOob

theorem cryptoBoxP_run_ecdh (B : Askar.Ecdh.BoxOps) (hct : ∀ k n m, (B.sealBox k n m).1.length = m.length)
    (rp ss : Askar.Ecdh.Key) (sk : Bytes) (hs : ss.secret = some sk) (nonce input : Bytes) (hn : nonce.length = 24) (e : Err) :
    (cryptoBoxP (B.sealBox (B.beforenm sk rp.pub) nonce)).run specImpl ⟨input, none⟩
      = boxOut e (Askar.Ecdh.cryptoBox B rp ss input nonce) := by
  rw [Askar.Ecdh.cryptoBox_eq B rp ss sk hs input nonce hn, cryptoBoxP_run_spec _ _ (hct _ _ _)]
  rfl

theorem cryptoBoxOpenP_run_ecdh (B : Askar.Ecdh.BoxOps) (hlen : ∀ k n c t m, B.openBox k n c t = some m → m.length = c.length)
    (rs sp : Askar.Ecdh.Key) (sk : Bytes) (hs : rs.secret = some sk) (nonce input : Bytes) (hn : nonce.length = 24) (e : Err) :
    (cryptoBoxOpenP 16 e e (B.openBox (B.beforenm sk sp.pub) nonce)).run specImpl ⟨input, none⟩
      = boxOut e (Askar.Ecdh.cryptoBoxOpen B rs sp input nonce) := by
  rw [cryptoBoxOpenP_run_cap 16 e e _ (fun ct tag pt h => hlen _ _ _ _ _ h) input none]
  by_cases hb : input.length < 16
  · obtain ⟨e', he'⟩ := Askar.Ecdh.cryptoBoxOpen_short B rs sp input nonce hb
    rw [he', if_pos hb]; rfl
  · rw [if_neg hb, Askar.Ecdh.cryptoBoxOpen_eq B rs sp sk hs input nonce hn (by omega)]
    cases B.openBox (B.beforenm sk sp.pub) nonce (input.drop 16) (input.take 16) <;> rfl

end Askar.ResizeBuf.Tie
