/-
Poly1305 one-time authenticator (RFC 8439 §2.5) — executable SPECIFICATION written from the RFC
with unbounded naturals, exactly as §2.5.1 states it.  ORACLE for differential runs; validated
against RFC 8439 §2.5.2 in `selfTest` (THESE ARE TESTS).
-/
import AskarModel.Crypto.Aes

namespace Askar.Crypto.Poly1305

/-- little-endian number of `n` bytes starting at `off` (bytes beyond the end are absent) -/
def leNum (b : ByteArray) (off n : Nat) : Nat := Id.run do
  let mut acc := 0
  for i in [0:n] do
    let k := n - 1 - i
    if off + k < b.size then acc := acc * 256 + (b.get! (off + k)).toNat else acc := acc * 256
  return acc

def p : Nat := 2 ^ 130 - 5

/-- §2.5.1 -/
def mac (key msg : ByteArray) : ByteArray := Id.run do
  let r := leNum key 0 16 &&& 0x0ffffffc0ffffffc0ffffffc0fffffff
  let s := leNum key 16 16
  let mut acc := 0
  for i in [0:(msg.size + 15) / 16] do
    let len := min 16 (msg.size - 16 * i)
    let n := leNum msg (16 * i) len + 2 ^ (8 * len)
    acc := ((acc + n) * r) % p
  let t := (acc + s) % 2 ^ 128
  return ((List.range 16).map fun i => UInt8.ofNat (t / 2 ^ (8 * i) % 256)).toByteArray

/-- TEST: RFC 8439 §2.5.2 -/
def selfTest : Bool :=
  Sha2.toHex (mac (Aes.ofHexL "85d6be7857556d337f4452fe42d506a80103808afb0db2fd4abff6af4149f51b")
    "Cryptographic Forum Research Group".toUTF8) == "a8061dc1305136c6c22b8baf0c0127a9"

end Askar.Crypto.Poly1305
