"""C15 — ECDH, ECDH-ES/1PU and crypto_box agree on both sides and with the specs."""

CFG = {
    "feature": "c15",
    "gens": ["C15"],
    "rule": (
        "three case kinds. (a) c15:kdf: one key agreement, mode es|1pu, keys given as secret bytes per party (ephemeral, sender, recipient) "
        "on one of X25519 / P-256 / P-384 / secp256k1 (random scalars plus 1, 2, all-ones, clamp-only values), target key algorithm over "
        "all 8 symmetric algorithms (+ a non-symmetric one), alg-id / apu / apv over the length classes {0, 1, 127, 128, 129, 255..257, 1024, "
        "JOSE names, four zero bytes}, cc_tag over {0, 1, 16, 32, 124, 125, 127, 128, 129, 1024, random}; executed on BOTH sides through "
        "kms::derive_key_ecdh_es/1pu (receive=false with the sender's view of the keys, receive=true with the recipient's), plus the raw "
        "DH outputs in both directions (KeyExchange::key_exchange_bytes), LocalKey::to_key_exchange, and 6-9 single-input perturbations "
        "(bit flip / drop / append / prepend in alg, apu, apv, tag; another key pair for each party; a byte moved across the apu|apv "
        "boundary; another target). Fixed part: the full product curve x target x mode (64 cases), RFC 7518 app. C, RFC 8037 A.6, ECDH-1PU "
        "draft app. A and B. Malformed stream (~1/3): mismatched curves, Ed25519 keys, public-only keys, arbitrary X25519 public keys "
        "(zero, one, >= p, high bit set). (b) c15:box: crypto_box / crypto_box_open, messages of 0,1,15,16,17,31..33,63..65,200 bytes, "
        "~15 altered open attempts each (bit flips at the ends, at the tag|ciphertext boundary and at random, truncations, extension, nonce "
        "bit flip, nonce of wrong length, other recipient, other sender, raw strings of 0..40 bytes), EVERY single-bit flip for boxes of "
        "<= 36 bytes; the libsodium vector of askar's unit test; one case opening all raw lengths 0..40. (c) c15:seal: a deterministic sealed "
        "box assembled from its documented parts with the ephemeral key of the case, crypto_box_seal_open, the library's randomised "
        "crypto_box_seal (length, round trip, and opening BY PARTS with the independently computed BLAKE2b nonce), altered attempts, every "
        "single-bit flip for messages <= 8 bytes, raw lengths 0..60, askar's libsodium sealed-box vector. "
        "non-trivial: kdf = both sides returned a key and >= 3 perturbations changed it; box/seal = the round trip succeeded and >= 5 altered "
        "attempts were made. distinct = hash of the case"
    ),
    "assumptions": [
        "Diffie-Hellman (x25519-dalek, p256, p384, k256), SHA-256, X25519+HSalsa20 key agreement, XSalsa20-Poly1305 and BLAKE2b are parameters "
        "of the model (DhLaws: fixed output length, dh a (pub b) = dh b (pub a); hash length 32; BoxLaws: lengths, open(seal) = id, symmetric "
        "key agreement); the driver instantiates them with executable specifications written from RFC 7748, SEC 1, FIPS 180-4, the Salsa20 / "
        "NaCl papers and RFC 7693, so the run validates the real crates against those specifications byte for byte",
        "'changing any input changes the key' = kdfInput_injective_* + collision resistance of SHA-256; 'no other key/nonce/ciphertext opens' "
        "= box_open_only_sealed + unforgeability of XSalsa20-Poly1305 (BoxIdeal.auth); both computational, exercised not proved",
        "crypto_box 0.9.1 reduces the clamped X25519 scalar mod the group order before the ladder; the driver's box-key instance does the "
        "same. For public keys in the prime-order subgroup (all honestly generated keys) this equals libsodium; for points with a torsion "
        "component or on the twist it does not (the model follows the code there)",
        "X25519 peer public keys of small order give Z = 0 for every secret key (askar makes no all-zero check, RFC 7748 leaves it optional): "
        "such cases are counted (feat z_all_zero) and excluded from the perturbation oracle",
        "the ephemeral key of crypto_box_seal is random: the randomised seal is compared by length / round trip / opening by parts only",
    ],
    "trusted_base": [
        "harness/src/c15.rs: hand-written SHA-256 and BLAKE2b (self-tested against FIPS 180-4 / RFC 7693 vectors at start), the reference "
        "Concat-KDF assembled from RFC 7518 4.6.2 and the ECDH-1PU draft 2.3, the expected-error table (key length > 32, tag > 128)",
        "lean/Driver/C15.lean with AskarModel/Crypto/{X25519,NaclBox,Ec,Sha2,Poly1305}.lean: JSON protocol and executable primitive specifications "
        "(self tests: RFC 7748 5.2/6.1, NaCl box key, RFC 7693 app. A, libsodium box vector)",
    ],
}


def nontrivial(rec):
    case = rec["case"]
    kind = case.get("kind")
    out = rec["impl"].get("out")
    if not isinstance(out, dict):
        return False
    if kind == "c15:kdf":
        s, r = out.get("send"), out.get("recv")
        if not (isinstance(s, str) and isinstance(r, str)):
            return False
        changed = sum(1 for p in out.get("perturbed") or [] if isinstance(p, str) and p != s)
        return changed >= 3 or bool(case.get("expect"))
    if kind in ("c15:box", "c15:seal"):
        ok = isinstance(out.get("open"), str) and not isinstance(out.get("open"), dict)
        return ok and (len(case.get("muts") or []) >= 5 or bool(case.get("expect")) or bool(case.get("expect_open")))
    return False
