/- Driver for `kind = "c14"` (and `"c14:…"`) cases. -/
import Driver.Common

open Lean

namespace Driver.C14

def runCase (_j : Json) : Json := jerr "not implemented"

end Driver.C14
