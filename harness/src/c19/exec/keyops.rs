//! C19, coverage gap (a): the 17 `askar_key_*` entry points that were never called.  One op per entry
//! point, each twinned with the same `LocalKey` / `kms::*` call on the same bytes: deterministic
//! operations are compared by value, randomised ones by a round trip through the OTHER API.
//! The oracle judges the arguments on its own (NULL out-pointer, NULL handle, negative length,
//! algorithm string that is not UTF-8 ⇒ an error code and nothing written); the verdict of the
//! Rust API on the same arguments is what the C API must report otherwise.
use super::*;
use aries_askar::kms::{self, KeyAlg, LocalKey};
use std::str::FromStr;

/// material produced by an encrypting op, kept for the decrypting op that refers to it
#[derive(Clone, Default)]
pub struct Sealed { pub ct: Vec<u8>, pub tag: Vec<u8>, pub nonce: Vec<u8>, pub aad: Vec<u8>, pub msg: Vec<u8>, pub alg: String }

pub struct BufArg { _own: Vec<u8>, pub buf: ByteBuf, pub eff: Vec<u8>, pub neg: bool }

/// a `ByteBuffer` argument: hex text | {"nulldata": n} (len n > 0, data NULL: read as empty) |
/// {"neglen": hex} (len -1 with a valid pointer: outside the header's contract)
pub fn buf_arg(v: &Value) -> BufArg {
    if let Some(n) = v.get("nulldata").and_then(|n| n.as_i64()) {
        return BufArg { _own: vec![], buf: ByteBuf { len: n, data: std::ptr::null() }, eff: vec![], neg: false };
    }
    if let Some(h) = v.get("neglen").and_then(|h| h.as_str()) {
        let own = hex::decode(h).unwrap_or_default();
        let own = if own.is_empty() { vec![0u8] } else { own };
        let p = own.as_ptr();
        return BufArg { _own: own, buf: ByteBuf { len: -1, data: p }, eff: vec![], neg: true };
    }
    let own = value_from_json(v);
    let p = if own.is_empty() { std::ptr::null() } else { own.as_ptr() };
    BufArg { eff: own.clone(), buf: ByteBuf { len: own.len() as i64, data: p }, _own: own, neg: false }
}

fn key_ptr(run: &Run, v: &Value) -> usize {
    match v.as_u64().and_then(|s| run.slots.get(s as usize)) { Some(Slot::Key(p)) => *p, _ => 0 }
}

fn twin_alg(v: &Value) -> Result<KeyAlg, aries_askar::Error> {
    // `alg.as_opt_str().unwrap_or_default()`: NULL and invalid UTF-8 read as ""
    KeyAlg::from_str(v.as_str().unwrap_or("")).map_err(aries_askar::Error::from)
}

fn secret_of(p: usize) -> Result<Vec<u8>, Code> {
    let mut sb = SecretBuf { len: 0, data: std::ptr::null_mut() };
    let c = unsafe { askar_key_get_secret_bytes(P(p as *const u8), &mut sb) };
    if c == 0 { Ok(take_buf(sb)) } else { Err(c) }
}
fn public_of(p: usize) -> Result<Vec<u8>, Code> {
    let mut sb = SecretBuf { len: 0, data: std::ptr::null_mut() };
    let c = unsafe { askar_key_get_public_bytes(P(p as *const u8), &mut sb) };
    if c == 0 { Ok(take_buf(sb)) } else { Err(c) }
}

/// the key behind a C handle is the key the Rust API produced: algorithm, public and secret bytes
fn compare_key(run: &mut Run, i: usize, op: &Value, name: &str, p: usize, t: &LocalKey) {
    let mut diffs = vec![];
    let mut s: *const c_char = std::ptr::null();
    let c = unsafe { askar_key_get_algorithm(P(p as *const u8), &mut s) };
    if c != 0 || take_str(s).as_deref() != Some(t.algorithm().as_str()) { diffs.push("algorithm"); }
    match (t.to_public_bytes(), public_of(p)) {
        (Ok(w), Ok(g)) => if w.as_ref() != g.as_slice() { diffs.push("public_bytes") },
        (Err(e), Err(c)) => if kind_name(&e) != code_name(c) { diffs.push("public_bytes:error-kind") },
        _ => diffs.push("public_bytes:status"),
    }
    match (t.to_secret_bytes(), secret_of(p)) {
        (Ok(w), Ok(g)) => if w.as_ref() != g.as_slice() { diffs.push("secret_bytes") },
        (Err(e), Err(c)) => if kind_name(&e) != code_name(c) { diffs.push("secret_bytes:error-kind") },
        _ => diffs.push("secret_bytes:status"),
    }
    for d in diffs { run.fail(i, op, format!("{}:rust-vs-ffi:{}", name, d), json!({})); }
}

fn verdict<T>(r: &Result<T, aries_askar::Error>) -> Value { match r { Ok(_) => json!("ok"), Err(e) => json!(kind_name(e)) } }

/// the oracle's judgement of one synchronous call: `fault` = an argument that is malformed whatever the
/// Rust API would say; otherwise the code must be the Rust API's verdict
fn judge<T>(run: &mut Run, i: usize, op: &Value, name: &str, ret: Code, fault: Option<&str>, twin: &Option<Result<T, aries_askar::Error>>) {
    if let Some(f) = fault {
        if ret == 0 { run.fail(i, op, format!("{}:{}->Success", name, f), json!({})); }
        return;
    }
    match twin {
        Some(Ok(_)) if ret != 0 => run.fail(i, op, format!("{}:rust:ok->ffi:{}", name, code_name(ret)), json!({"error": current_error()})),
        Some(Err(e)) if kind_name(e) != code_name(ret) => run.fail(i, op, format!("{}:rust:err:{}->ffi:{}", name, kind_name(e), code_name(ret)), json!({"rust": e.to_string()})),
        _ => {}
    }
}

fn enc_parts(e: &EncryptedBuf) -> Option<(Vec<u8>, Vec<u8>, Vec<u8>, Vec<u8>)> {
    let all = take_buf(e.buffer);
    let (t, n) = (e.tag_pos, e.nonce_pos);
    if t < 0 || n < t || n as usize > all.len() { return None; }
    let (t, n) = (t as usize, n as usize);
    Some((all[..t].to_vec(), all[t..n].to_vec(), all[n..].to_vec(), all))
}

fn mutate(s: &Sealed, m: &str) -> Sealed {
    let mut x = s.clone();
    let flip = |v: &mut Vec<u8>| { if let Some(b) = v.first_mut() { *b ^= 0x80; } else { v.push(1); } };
    match m {
        "ct" => flip(&mut x.ct), "tag" => flip(&mut x.tag), "nonce" => flip(&mut x.nonce), "aad" => flip(&mut x.aad),
        "short_tag" => { x.tag.pop(); } "long_tag" => x.tag.push(0), "no_tag" => x.tag.clear(),
        "short_nonce" => { x.nonce.pop(); } "long_nonce" => x.nonce.push(0), "no_nonce" => x.nonce.clear(),
        "short_ct" => { x.ct.pop(); } "empty_ct" => x.ct.clear(),
        "tag_in_ct" => { let t = std::mem::take(&mut x.tag); x.ct.extend_from_slice(&t); }
        _ => {}
    }
    x
}

fn bb(v: &[u8]) -> ByteBuf { ByteBuf { len: v.len() as i64, data: if v.is_empty() { std::ptr::null() } else { v.as_ptr() } } }

pub fn is_key_op(name: &str) -> bool {
    matches!(name, "key_from_jwk" | "key_from_public" | "key_from_secret" | "key_convert" | "key_exchange" | "aead_params" | "aead_padding"
        | "aead_encrypt" | "aead_decrypt" | "key_wrap" | "key_unwrap" | "cbox" | "cbox_open" | "cbox_seal" | "cbox_seal_open" | "ecdh_es" | "ecdh_1pu"
        | "key_free" | "buffer_free_probe")
}

/// store a freshly made key handle with its twin
fn keep_key(run: &mut Run, i: usize, p: usize, t: Option<LocalKey>) {
    run.set_slot(i, Slot::Key(p));
    if let Some(t) = t { run.twin_keys.insert(p, t); }
}

pub fn step_key(run: &mut Run, i: usize, op: &Value) -> Value {
    let name = op["op"].as_str().unwrap_or("").to_string();
    let null_out = op["null_out"].as_bool().unwrap_or(false);
    let alg = cstr_arg(&op["alg"]);
    let keys: Vec<usize> = op["keys"].as_array().map(|a| a.iter().map(|k| key_ptr(run, k)).collect()).unwrap_or_default();
    let bufs: Vec<BufArg> = op["bufs"].as_array().map(|a| a.iter().map(buf_arg).collect()).unwrap_or_default();
    let kp = |k: usize| P(keys.get(k).copied().unwrap_or(0) as *const u8);
    let tk = |run: &Run, k: usize| -> Option<LocalKey> {
        // LocalKey is not Clone: rebuild the twin from its bytes each time it is needed
        let p = keys.get(k).copied().unwrap_or(0);
        run.twin_keys.get(&p).and_then(|t| match t.to_secret_bytes() {
            Ok(b) => LocalKey::from_secret_bytes(t.algorithm(), b.as_ref()).ok(),
            Err(_) => t.to_public_bytes().ok().and_then(|b| LocalKey::from_public_bytes(t.algorithm(), b.as_ref()).ok()),
        })
    };
    let null_key = keys.iter().any(|k| *k == 0);
    let neg = bufs.iter().any(|b| b.neg);
    // faults in the order the oracle reports them (any one of them demands an error code)
    let fault = if null_out { Some("null-out") } else if is_bad_utf8(&op["alg"]) { Some("alg-not-utf8") } else if null_key { Some("null-handle") } else if neg { Some("negative-length") } else { None };
    let mut tw = Value::Null;
    let out = match name.as_str() {
        "key_from_jwk" | "key_from_public" | "key_from_secret" => {
            let mut k = P(std::ptr::null());
            let o = if null_out { std::ptr::null_mut() } else { &mut k as *mut P };
            let ret = unsafe { match name.as_str() {
                "key_from_jwk" => askar_key_from_jwk(bufs[0].buf, o),
                "key_from_public" => askar_key_from_public_bytes(alg.ptr, bufs[0].buf, o),
                _ => askar_key_from_secret_bytes(alg.ptr, bufs[0].buf, o),
            } };
            let twin = if neg { None } else { Some(match name.as_str() {
                "key_from_jwk" => LocalKey::from_jwk_slice(&bufs[0].eff),
                "key_from_public" => twin_alg(&op["alg"]).and_then(|a| LocalKey::from_public_bytes(a, &bufs[0].eff)),
                _ => twin_alg(&op["alg"]).and_then(|a| LocalKey::from_secret_bytes(a, &bufs[0].eff)),
            }) };
            if let Some(t) = &twin { tw = verdict(t); }
            judge(run, i, op, &name, ret, fault, &twin);
            if ret == 0 && !k.0.is_null() {
                if let Some(Ok(t)) = &twin { compare_key(run, i, op, &name, k.0 as usize, t); }
                keep_key(run, i, k.0 as usize, twin.and_then(|t| t.ok()));
            }
            jsync(ret, Value::Null)
        }
        "key_convert" | "key_exchange" | "ecdh_es" | "ecdh_1pu" | "key_unwrap" => {
            let mut k = P(std::ptr::null());
            let o = if null_out { std::ptr::null_mut() } else { &mut k as *mut P };
            let recv = op["receive"].as_i64().unwrap_or(0) as i8;
            let sealed = op["from"].as_u64().and_then(|j| run.sealed.get(&(j as usize)).cloned()).map(|s| mutate(&s, op["mut"].as_str().unwrap_or("")));
            let ret = unsafe { match name.as_str() {
                "key_convert" => askar_key_convert(kp(0), alg.ptr, o),
                "key_exchange" => askar_key_from_key_exchange(alg.ptr, kp(0), kp(1), o),
                "ecdh_es" => askar_key_derive_ecdh_es(alg.ptr, kp(0), kp(1), bufs[0].buf, bufs[1].buf, bufs[2].buf, recv, o),
                "ecdh_1pu" => askar_key_derive_ecdh_1pu(alg.ptr, kp(0), kp(1), kp(2), bufs[0].buf, bufs[1].buf, bufs[2].buf, bufs[3].buf, recv, o),
                _ => { let s = sealed.clone().unwrap_or_default(); askar_key_unwrap_key(kp(0), alg.ptr, bb(&s.ct), bb(&s.nonce), bb(&s.tag), o) }
            } };
            let twin: Option<Result<LocalKey, aries_askar::Error>> = if neg || null_key { None } else {
                let ks: Vec<Option<LocalKey>> = (0..keys.len()).map(|k| tk(run, k)).collect();
                if ks.iter().any(|k| k.is_none()) { None } else {
                    let ks: Vec<LocalKey> = ks.into_iter().map(|k| k.unwrap()).collect();
                    let a = twin_alg(&op["alg"]);
                    Some(match name.as_str() {
                        "key_convert" => a.and_then(|a| ks[0].convert_key(a)),
                        "key_exchange" => a.and_then(|a| ks[0].to_key_exchange(a, &ks[1])),
                        "ecdh_es" => a.and_then(|a| kms::derive_key_ecdh_es(a, &ks[0], &ks[1], &bufs[0].eff, &bufs[1].eff, &bufs[2].eff, recv == 1)),
                        "ecdh_1pu" => a.and_then(|a| kms::derive_key_ecdh_1pu(a, &ks[0], &ks[1], &ks[2], &bufs[0].eff, &bufs[1].eff, &bufs[2].eff, &bufs[3].eff, recv == 1)),
                        _ => { let s = sealed.clone().unwrap_or_default();
                               // the handle is loaded before the algorithm is parsed; either failure is an error of the same call
                               match a { Ok(a) => ks[0].unwrap_key(a, (s.ct.as_slice(), s.tag.as_slice()), &s.nonce), Err(e) => Err(e) } }
                    })
                }
            };
            if let Some(t) = &twin { tw = verdict(t); }
            judge(run, i, op, &name, ret, fault, &twin);
            if ret == 0 && !k.0.is_null() {
                if let Some(Ok(t)) = &twin { compare_key(run, i, op, &name, k.0 as usize, t); }
                if name == "key_unwrap" && op["mut"].as_str().unwrap_or("").is_empty() {
                    // round trip: the unwrapped key is the key that was wrapped (claimed when it is unwrapped as the type it had;
                    // a key type may normalise foreign bytes)
                    let same_alg = match (&sealed, &twin) { (Some(s), Some(Ok(t))) => s.alg == t.algorithm().as_str(), _ => false };
                    if let (true, Some(s), Ok(g)) = (same_alg, &sealed, secret_of(k.0 as usize)) { if g != s.msg { run.fail(i, op, "key_unwrap:roundtrip:secret-differs".into(), json!({})); } }
                }
                keep_key(run, i, k.0 as usize, twin.and_then(|t| t.ok()));
            }
            jsync(ret, Value::Null)
        }
        "aead_params" => {
            let mut ap = AeadParams { nonce_length: -7, tag_length: -7 };
            let ret = unsafe { askar_key_aead_get_params(kp(0), if null_out { std::ptr::null_mut() } else { &mut ap }) };
            let twin = tk(run, 0).map(|k| k.aead_params());
            if let Some(t) = &twin { tw = verdict(t); }
            judge(run, i, op, &name, ret, fault, &twin);
            if let (0, Some(Ok(p))) = (ret, &twin) { if (p.nonce_length as i32, p.tag_length as i32) != (ap.nonce_length, ap.tag_length) { run.fail(i, op, "aead_params:rust-vs-ffi:value".into(), json!({})); } }
            if ret != 0 && ap.nonce_length != -7 { run.fail(i, op, "aead_params:error-but-out-written".into(), json!({})); }
            jsync(ret, if ret == 0 { json!({"nonce": ap.nonce_length, "tag": ap.tag_length}) } else { Value::Null })
        }
        "aead_padding" => {
            let len = op["len"].as_i64().unwrap_or(0);
            let mut pad: i32 = -7;
            let ret = unsafe { askar_key_aead_get_padding(kp(0), len, if null_out { std::ptr::null_mut() } else { &mut pad }) };
            let fault = if fault.is_none() && len < 0 { Some("negative-length") } else if null_out { Some("null-out") } else if len < 0 { Some("negative-length") } else { fault };
            let twin: Option<Result<usize, aries_askar::Error>> = if len < 0 { None } else { tk(run, 0).map(|k| Ok(k.aead_padding(len as usize))) };
            if let Some(t) = &twin { tw = verdict(t); }
            judge(run, i, op, &name, ret, fault, &twin);
            if let (0, Some(Ok(p))) = (ret, &twin) { if *p as i32 != pad { run.fail(i, op, "aead_padding:rust-vs-ffi:value".into(), json!({"rust": p, "ffi": pad})); } }
            jsync(ret, if ret == 0 { json!(pad) } else { Value::Null })
        }
        "aead_encrypt" | "key_wrap" => {
            let mut eb = EncryptedBuf { buffer: SecretBuf { len: 0, data: std::ptr::null_mut() }, tag_pos: -7, nonce_pos: -7 };
            let o = if null_out { std::ptr::null_mut() } else { &mut eb as *mut EncryptedBuf };
            let wrap = name == "key_wrap";
            let ret = unsafe { if wrap { askar_key_wrap_key(kp(0), kp(1), bufs[0].buf, o) } else { askar_key_aead_encrypt(kp(0), bufs[0].buf, bufs[1].buf, bufs[2].buf, o) } };
            let (msg, nonce, aad): (Vec<u8>, Vec<u8>, Vec<u8>) = if wrap {
                (run.twin_keys.get(&keys.get(1).copied().unwrap_or(0)).and_then(|k| k.to_secret_bytes().ok()).map(|b| b.to_vec()).unwrap_or_default(), bufs[0].eff.clone(), vec![])
            } else { (bufs[0].eff.clone(), bufs[1].eff.clone(), bufs[2].eff.clone()) };
            let twin = if neg || null_key { None } else { match (tk(run, 0), if wrap { tk(run, 1) } else { None }) {
                (Some(k), Some(o2)) if wrap => Some(k.wrap_key(&o2, &nonce)),
                (Some(k), _) if !wrap => Some(k.aead_encrypt(&msg, &nonce, &aad)),
                _ => None,
            } };
            if let Some(t) = &twin { tw = verdict(t); }
            judge(run, i, op, &name, ret, fault, &twin);
            if ret != 0 {
                if eb.tag_pos != -7 { run.fail(i, op, format!("{}:error-but-out-written", name), json!({})); }
                jsync(ret, Value::Null)
            } else {
                let (tp, np, blen) = (eb.tag_pos, eb.nonce_pos, eb.buffer.len);
                match enc_parts(&eb) {
                    None => { run.fail(i, op, format!("{}:encrypted-buffer-positions-out-of-range", name), json!({"tag_pos": tp, "nonce_pos": np, "len": blen})); }
                    Some((ct, tag, n2, all)) => {
                        if let Some(Ok(t)) = &twin {
                            let random_nonce = !wrap && nonce.is_empty() && !n2.is_empty();
                            if !random_nonce {
                                // deterministic: equal by value, positions included
                                if t.as_ref() != all.as_slice() || t.ciphertext() != ct.as_slice() || t.tag() != tag.as_slice() || t.nonce() != n2.as_slice() { run.fail(i, op, format!("{}:rust-vs-ffi:value", name), json!({})); }
                            } else if let Some(k) = tk(run, 0) {
                                // randomised: what the C API sealed opens under the Rust API, and the other way round
                                match k.aead_decrypt((ct.as_slice(), tag.as_slice()), &n2, &aad) { Ok(p) if p.as_ref() == msg.as_slice() => {}, _ => run.fail(i, op, "aead_encrypt:roundtrip:ffi-ciphertext-rejected-by-rust".into(), json!({})) }
                                let mut sb = SecretBuf { len: 0, data: std::ptr::null_mut() };
                                let c = unsafe { askar_key_aead_decrypt(kp(0), bb(t.ciphertext()), bb(t.nonce()), bb(t.tag()), bb(&aad), &mut sb) };
                                if c != 0 || take_buf(sb) != msg { run.fail(i, op, "aead_encrypt:roundtrip:rust-ciphertext-rejected-by-ffi".into(), json!({"code": code_name(c)})); }
                            }
                        }
                        let walg = if wrap { run.twin_keys.get(&keys.get(1).copied().unwrap_or(0)).map(|k| k.algorithm().as_str().to_string()).unwrap_or_default() } else { String::new() };
                        run.sealed.insert(i, Sealed { ct, tag, nonce: n2, aad, msg, alg: walg });
                    }
                }
                jsync(ret, json!({"tag_pos": tp, "nonce_pos": np, "len": blen}))
            }
        }
        "aead_decrypt" | "cbox_open" | "cbox_seal_open" => {
            let s = op["from"].as_u64().and_then(|j| run.sealed.get(&(j as usize)).cloned()).map(|s| mutate(&s, op["mut"].as_str().unwrap_or(""))).unwrap_or_default();
            // explicit buffers override the referenced material (NULL-data and negative-length probes)
            let ov = |k: usize, d: &Vec<u8>| -> (ByteBuf, Vec<u8>) { match bufs.get(k) { Some(b) if !op["bufs"][k].is_null() => (b.buf, b.eff.clone()), _ => (bb(d), d.clone()) } };
            let ((bct, ect), (bn, en), (bt, et), (ba, ea)) = (ov(0, &s.ct), ov(1, &s.nonce), ov(2, &s.tag), ov(3, &s.aad));
            let mut sb = SecretBuf { len: -7, data: std::ptr::null_mut() };
            let o = if null_out { std::ptr::null_mut() } else { &mut sb as *mut SecretBuf };
            let ret = unsafe { match name.as_str() {
                "aead_decrypt" => askar_key_aead_decrypt(kp(0), bct, bn, bt, ba, o),
                "cbox_open" => askar_key_crypto_box_open(kp(0), kp(1), bct, bn, o),
                _ => askar_key_crypto_box_seal_open(kp(0), bct, o),
            } };
            let twin: Option<Result<Vec<u8>, aries_askar::Error>> = if neg || null_key { None } else { match name.as_str() {
                "aead_decrypt" => tk(run, 0).map(|k| k.aead_decrypt((ect.as_slice(), et.as_slice()), &en, &ea).map(|b| b.to_vec())),
                "cbox_open" => match (tk(run, 0), tk(run, 1)) { (Some(a), Some(b)) => Some(kms::crypto_box_open(&a, &b, &ect, &en).map(|b| b.to_vec())), _ => None },
                _ => tk(run, 0).map(|k| kms::crypto_box_seal_open(&k, &ect).map(|b| b.to_vec())),
            } };
            if let Some(t) = &twin { tw = verdict(t); }
            judge(run, i, op, &name, ret, fault, &twin);
            if ret != 0 {
                if sb.len != -7 { run.fail(i, op, format!("{}:error-but-out-written", name), json!({})); }
                jsync(ret, Value::Null)
            } else {
                let got = take_buf(sb);
                if let Some(Ok(t)) = &twin { if *t != got { run.fail(i, op, format!("{}:rust-vs-ffi:value", name), json!({})); } }
                let pristine = op["mut"].as_str().unwrap_or("").is_empty() && op["bufs"].as_array().map_or(true, |a| a.iter().all(|b| b.is_null()));
                if pristine && got != s.msg { run.fail(i, op, format!("{}:roundtrip:plaintext-differs", name), json!({})); }
                if !pristine && got != s.msg && name != "aead_decrypt" { run.fail(i, op, format!("{}:tampered-input-accepted", name), json!({"mut": op["mut"]})); }
                jsync(ret, jvalue(&got))
            }
        }
        "cbox" | "cbox_seal" => {
            let mut sb = SecretBuf { len: -7, data: std::ptr::null_mut() };
            let o = if null_out { std::ptr::null_mut() } else { &mut sb as *mut SecretBuf };
            let seal = name == "cbox_seal";
            let ret = unsafe { if seal { askar_key_crypto_box_seal(kp(0), bufs[0].buf, o) } else { askar_key_crypto_box(kp(0), kp(1), bufs[0].buf, bufs[1].buf, o) } };
            let msg = bufs[0].eff.clone();
            let nonce = if seal { vec![] } else { bufs[1].eff.clone() };
            let twin: Option<Result<Vec<u8>, aries_askar::Error>> = if neg || null_key { None } else if seal { tk(run, 0).map(|k| kms::crypto_box_seal(&k, &msg)) }
                else { match (tk(run, 0), tk(run, 1)) { (Some(a), Some(b)) => Some(kms::crypto_box(&a, &b, &msg, &nonce)), _ => None } };
            if let Some(t) = &twin { tw = verdict(t); }
            judge(run, i, op, &name, ret, fault, &twin);
            if ret != 0 {
                if sb.len != -7 { run.fail(i, op, format!("{}:error-but-out-written", name), json!({})); }
                jsync(ret, Value::Null)
            } else {
                let got = take_buf(sb);
                if let Some(Ok(t)) = &twin {
                    if !seal { if *t != got { run.fail(i, op, "cbox:rust-vs-ffi:value".into(), json!({})); } }
                    else if let Some(k) = tk(run, 0) {
                        // sealed boxes use a fresh ephemeral key: compare by round trip through the other API
                        // (a public-only recipient key cannot open anything: then only the lengths are compared)
                        let can_open = kms::crypto_box_seal_open(&k, t).is_ok();
                        if !can_open { if t.len() != got.len() { run.fail(i, op, "cbox_seal:rust-vs-ffi:length".into(), json!({})); } }
                        else { match kms::crypto_box_seal_open(&k, &got) { Ok(p) if p.as_ref() == msg.as_slice() => {}, _ => run.fail(i, op, "cbox_seal:roundtrip:ffi-ciphertext-rejected-by-rust".into(), json!({})) } }
                        let mut sb2 = SecretBuf { len: 0, data: std::ptr::null_mut() };
                        let c = unsafe { askar_key_crypto_box_seal_open(kp(0), bb(t), &mut sb2) };
                        let back = take_buf(sb2);
                        // a public-only recipient cannot open (an error of the same kind on both sides is fine)
                        if c == 0 && back != msg { run.fail(i, op, "cbox_seal:roundtrip:rust-ciphertext-opened-to-other-text".into(), json!({})); }
                        if c != 0 && kms::crypto_box_seal_open(&k, t).is_ok() { run.fail(i, op, "cbox_seal:roundtrip:rust-ciphertext-rejected-by-ffi".into(), json!({"code": code_name(c)})); }
                    }
                }
                let l = got.len();
                run.sealed.insert(i, Sealed { ct: got, tag: vec![], nonce, aad: vec![], msg, alg: String::new() });
                jsync(ret, json!({"len": l}))
            }
        }
        "key_free" => {
            let p = keys.get(0).copied().unwrap_or(0);
            unsafe { askar_key_free(P(p as *const u8)) };   // NULL is a documented no-op
            if let Some(s) = op["keys"][0].as_u64() { run.set_slot(s as usize, Slot::None); }
            run.twin_keys.remove(&p);
            jsync(0, Value::Null)
        }
        "buffer_free_probe" => {
            // (e) `askar_buffer_free`: NULL data with len 0 and len > 0, a zero-length result, a real result
            unsafe { askar_buffer_free(SecretBuf { len: 0, data: std::ptr::null_mut() }) };
            unsafe { askar_buffer_free(SecretBuf { len: 7, data: std::ptr::null_mut() }) };
            let mut sb = SecretBuf { len: 0, data: std::ptr::null_mut() };
            if unsafe { askar_key_crypto_box_random_nonce(&mut sb) } == 0 { let n = take_buf(sb); if n.len() != 24 { run.fail(i, op, "crypto_box_random_nonce:length".into(), json!({"len": n.len()})); } }
            jsync(0, json!("ok"))
        }
        _ => json!({"err": "BadOp"}),
    };
    // every error return goes through `set_last_error`: the slot must hold exactly this code
    if let Some(r) = out.get("r").and_then(|r| r.as_str()) {
        if r != "Success" {
            let text = current_error();
            let code = serde_json::from_str::<Value>(&text).ok().and_then(|v| v["code"].as_i64()).unwrap_or(-1);
            if code_name(code) != r { run.fail(i, op, format!("{}:error-{}-not-recorded:slot-{}", name, r, code_name(code)), json!({"text": text})); }
        }
    }
    run.tw.push((i, tw));
    out
}
