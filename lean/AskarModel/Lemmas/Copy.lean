/-
Helper lemmas for C18 (store copy / profile copy / Indy migration).  The property theorems of
Props/C18.lean refer to the lemmas of the same name in namespace `Askar.Copy.Lemmas`.
-/
import AskarModel.Model.Copy
import AskarModel.Model.IndyMigration
import AskarModel.Lemmas.Refine
import AskarModel.Lemmas.Expiry

namespace Askar.Copy
open Askar.Store Askar.Wql

namespace Lemmas
open Askar.Store.Lemmas

/-! ### import_scan -/

/-- what a successful import adds: one row per entry, in order, under the target session's profile id and key,
    without expiry; nothing else changes -/
theorem importRows_ok (now : Int) (sd : Sess) : ∀ (es : List Entry) (db : Db) (n : Nat) (db' : Db) (n' : Nat),
    importRows now sd none db n es = .ok (db', n') →
    ∃ rows : List Item, db'.items = db.items ++ rows ∧ rows.map toEntry = es ∧
      (∀ r ∈ rows, r.pid = sd.pid ∧ r.key = sd.key ∧ r.expiry = none) ∧ db'.profiles = db.profiles ∧
      n' = n + es.length := by
  intro es
  induction es with
  | nil =>
    intro db n db' n' h
    simp only [importRows, Except.ok.injEq, Prod.mk.injEq] at h
    obtain ⟨rfl, rfl⟩ := h
    exact ⟨[], by simp, rfl, by simp, rfl, by simp⟩
  | cons e es ih =>
    intro db n db' n' h
    simp only [importRows, reduceCtorEq, if_false, doInsert_none] at h
    split at h
    · cases h
    · rename_i db1 hins
      split at hins
      · cases hins
      · injection hins with hins
        subst hins
        obtain ⟨rows, hitems, hmap, hrows, hprof, hn⟩ := ih _ _ _ _ h
        refine ⟨({ id := nextId (db.items.map (·.id)), pid := sd.pid, key := sd.key, kind := e.kind, cat := e.cat,
                   name := e.name, value := e.value, tags := e.tags, expiry := none } : Item) :: rows,
                ?_, ?_, ?_, hprof, by simp [hn]; omega⟩
        · simp only [hitems, List.append_assoc, List.singleton_append, Option.getD_some]
        · simp only [List.map_cons, hmap, toEntry]
        · intro r hr
          simp only [List.mem_cons] at hr
          rcases hr with rfl | hr
          · exact ⟨rfl, rfl, rfl⟩
          · exact hrows r hr

theorem importScan_ok (now : Int) (sd : Sess) : ∀ (ps : List (List Entry)) (db : Db) (n : Nat) (db' : Db) (n' : Nat),
    importScan now sd none db n ps = .ok (db', n') →
    ∃ rows : List Item, db'.items = db.items ++ rows ∧ rows.map toEntry = ps.flatten ∧
      (∀ r ∈ rows, r.pid = sd.pid ∧ r.key = sd.key ∧ r.expiry = none) ∧ db'.profiles = db.profiles ∧
      n' = n + ps.flatten.length := by
  intro ps
  induction ps with
  | nil =>
    intro db n db' n' h
    simp only [importScan, Except.ok.injEq, Prod.mk.injEq] at h
    obtain ⟨rfl, rfl⟩ := h
    exact ⟨[], by simp, rfl, by simp, rfl, by simp⟩
  | cons p ps ih =>
    intro db n db' n' h
    simp only [importScan] at h
    split at h
    · cases h
    · rename_i db1 n1 hp
      obtain ⟨r1, hi1, hm1, hr1, hp1, hn1⟩ := importRows_ok now sd p db n db1 n1 hp
      obtain ⟨r2, hi2, hm2, hr2, hp2, hn2⟩ := ih _ _ _ _ h
      refine ⟨r1 ++ r2, ?_, ?_, ?_, by rw [hp2, hp1], by simp [hn2, hn1]; omega⟩
      · rw [hi2, hi1, List.append_assoc]
      · simp [hm1, hm2]
      · intro r hr
        rcases List.mem_append.mp hr with hr | hr
        · exact hr1 r hr
        · exact hr2 r hr

/-! ### the source scan -/

theorem decryptRows_inv (key : Nat) : ∀ (l : List Item) (es : List Entry), decryptRows key l = .ok es →
    es = l.map toEntry ∧ ∀ it ∈ l, it.key = key := by
  intro l
  induction l with
  | nil => intro es h; simp only [decryptRows, Except.ok.injEq] at h; subst h; simp
  | cons x l ih =>
    intro es h
    simp only [decryptRows] at h
    split at h
    · rename_i e es' hx hl
      injection h with h
      subst h
      obtain ⟨hes, hk⟩ := ih _ hl
      simp only [decryptRow] at hx
      split at hx
      · rename_i hkey
        injection hx with hx
        subst hx
        refine ⟨by simp [hes, toEntry], ?_⟩
        intro it hit
        simp only [List.mem_cons] at hit
        rcases hit with rfl | hit
        · simpa using hkey
        · exact hk it hit
      · cases hx
    · cases h
    · cases h

/-- the rows the copy's scan selects: every live row of the profile -/
def scanRows (now : Int) (ss : Sess) (db : Db) : List Item :=
  sortById (db.items.filter fun it => it.pid == ss.pid && live now it)

theorem selectRows_all (db : Db) (now : Int) (ss : Sess) :
    selectRows noLike db now ss.pid ss.key none none none none none false = scanRows now ss db := by
  simp [selectRows, scanRows, window, Item.inScope, matchFilter, matchTags]

/-- a successful scan of all kinds: the pages concatenate to every live row of the profile, in id order,
    whatever the page size, and every one of those rows is under the session's key -/
theorem doScan_all (page : Nat) (db : Db) (now : Int) (ss : Sess) (pages : List (List Entry))
    (h : doScan noLike page db now ss none none none none none false = .ok pages) :
    pages.flatten = (scanRows now ss db).map toEntry ∧ ∀ it ∈ scanRows now ss db, it.key = ss.key := by
  simp only [doScan, selectRows_all] at h
  split at h
  · cases h
  · rename_i es hd
    injection h with h
    subst h
    obtain ⟨hes, hk⟩ := decryptRows_inv _ _ _ hd
    exact ⟨by rw [drain_batches, batches_flatten, hes], hk⟩

theorem scanRows_sorted (now : Int) (ss : Sess) (db : Db) (hs : Sorted db) :
    (scanRows now ss db).map toEntry = liveAbs now ss db := by
  unfold scanRows liveAbs
  rw [sortById_of_sorted _ (sorted_filter _ _ hs)]

/-! ### logical dumps -/

theorem doCount_all (db : Db) (now : Int) (sd : Sess) :
    doCount noLike db now sd none none none = (liveAbs now sd db).length := by
  simp [doCount, liveAbs, Item.inScope, matchFilter, matchTags]

theorem liveAbs_append (now : Int) (sd : Sess) (db db' : Db) (rows : List Item)
    (hi : db'.items = db.items ++ rows) (hr : ∀ r ∈ rows, r.pid = sd.pid ∧ r.key = sd.key ∧ r.expiry = none) :
    liveAbs now sd db' = liveAbs now sd db ++ rows.map toEntry := by
  unfold liveAbs
  rw [hi, List.filter_append, List.map_append]
  congr 2
  apply List.filter_eq_self.mpr
  intro r hr'
  obtain ⟨hp, _, he⟩ := hr r hr'
  simp [hp, live_of_none now r he]

/-- rows of other profiles are not touched -/
theorem liveAbs_append_other (now : Int) (s sd : Sess) (db db' : Db) (rows : List Item) (hne : s.pid ≠ sd.pid)
    (hi : db'.items = db.items ++ rows) (hr : ∀ r ∈ rows, r.pid = sd.pid ∧ r.key = sd.key ∧ r.expiry = none) :
    liveAbs now s db' = liveAbs now s db := by
  unfold liveAbs
  rw [hi, List.filter_append]
  have : rows.filter (fun it => it.pid == s.pid && live now it) = [] := by
    apply List.filter_eq_nil_iff.mpr
    intro r hr'
    have := (hr r hr').1
    simp
    intro h
    exact absurd (h.symm.trans this) hne
  simp [this]

/-! ### key cache -/

theorem resolve_stable (db db' : Db) (h h' : Handle) (name : String) (s : Sess)
    (hr : resolve db h name = .ok (s, h')) : resolve db' h' name = .ok (s, h') := by
  unfold resolve at hr
  cases hg : cacheGet h.cache name with
  | some v =>
    obtain ⟨pid, key⟩ := v
    simp only [hg, Except.ok.injEq, Prod.mk.injEq] at hr
    obtain ⟨rfl, rfl⟩ := hr
    simp [resolve, hg]
  | none =>
    simp only [hg] at hr
    split at hr
    · rename_i p hp
      simp only [Except.ok.injEq, Prod.mk.injEq] at hr
      obtain ⟨rfl, rfl⟩ := hr
      simp [resolve, cacheGet_cachePut_self]
    · cases hr

/-! ### copy_profile -/

/-- the target when the import begins: after `create_profile`, whose Duplicate error is ignored -/
def afterCreate (dst : StoreSt) (toP : String) : StoreSt :=
  match createProfile dst.db dst.h toP with
  | .ok (db, h) => { dst with db := db, h := h }
  | .error _ => dst

theorem afterCreate_items (dst : StoreSt) (toP : String) : (afterCreate dst toP).db.items = dst.db.items := by
  unfold afterCreate
  split
  · rename_i db h hc
    unfold createProfile at hc
    split at hc
    · cases hc
    · injection hc with hc
      injection hc with h1 h2
      subst h1
      rfl
  · rfl

theorem afterCreate_default (dst : StoreSt) (toP : String) : (afterCreate dst toP).default = dst.default := by
  unfold afterCreate
  split <;> rfl

theorem copyInto_eq (page : Nat) (now : Int) (fault : Option Nat) (n : Nat) (srcDb : Option Db) (ss : Sess)
    (dst : StoreSt) (toP : String) :
    copyInto page now fault n srcDb ss dst toP =
      match resolve (afterCreate dst toP).db (afterCreate dst toP).h toP with
      | .error e => (afterCreate dst toP, n, .error e)
      | .ok (sd, hd) =>
        if doCount noLike (afterCreate dst toP).db now sd none none none > 0 then
          ({ afterCreate dst toP with h := hd }, n, .error .input)
        else
          match doScan noLike page (srcDb.getD (afterCreate dst toP).db) now ss none none none none none false with
          | .error e => ({ afterCreate dst toP with h := hd }, n, .error e)
          | .ok pages =>
            match importScan now sd fault (afterCreate dst toP).db n pages with
            | .error e => ({ afterCreate dst toP with h := hd }, n, .error e)
            | .ok (db', n') => ({ afterCreate dst toP with h := hd, db := db' }, n', .ok ()) := by
  unfold copyInto afterCreate
  cases createProfile dst.db dst.h toP with
  | ok v => rfl
  | error e => rfl

/-- What a successful `copy_profile` did to the target (`d` = the target when the import began). -/
theorem copyInto_ok (page : Nat) (now : Int) (n : Nat) (srcDb : Option Db) (ss : Sess) (dst : StoreSt) (toP : String)
    (dst' : StoreSt) (n' : Nat) (h : copyInto page now none n srcDb ss dst toP = (dst', n', .ok ())) :
    ∃ (sd : Sess) (rows : List Item),
      resolve (afterCreate dst toP).db (afterCreate dst toP).h toP = .ok (sd, dst'.h) ∧
      liveAbs now sd (afterCreate dst toP).db = [] ∧
      dst'.db.items = dst.db.items ++ rows ∧
      rows.map toEntry = (scanRows now ss (srcDb.getD (afterCreate dst toP).db)).map toEntry ∧
      (∀ r ∈ rows, r.pid = sd.pid ∧ r.key = sd.key ∧ r.expiry = none) ∧
      (∀ it ∈ scanRows now ss (srcDb.getD (afterCreate dst toP).db), it.key = ss.key) ∧
      dst'.db.profiles = (afterCreate dst toP).db.profiles ∧ dst'.default = dst.default ∧
      n' = n + rows.length := by
  rw [copyInto_eq] at h
  split at h
  · cases h
  · rename_i sd hd hres
    split at h
    · cases h
    · rename_i hcount
      split at h
      · cases h
      · rename_i pages hscan
        split at h
        · cases h
        · rename_i db1 n1 himp
          simp only [Prod.mk.injEq, and_true] at h
          obtain ⟨rfl, rfl⟩ := h
          obtain ⟨rows, hitems, hmap, hrows, hprof, hn⟩ := importScan_ok now sd pages _ _ _ _ himp
          obtain ⟨hflat, hkeys⟩ := doScan_all page _ now ss pages hscan
          refine ⟨sd, rows, hres, ?_, ?_, ?_, hrows, hkeys, hprof, afterCreate_default dst toP, ?_⟩
          · have : (liveAbs now sd (afterCreate dst toP).db).length = 0 := by
              rw [← doCount_all]; omega
            exact List.length_eq_zero_iff.mp this
          · rw [hitems, afterCreate_items]
          · rw [hmap, hflat]
          · rw [hn, ← hmap, List.length_map]

/-- **all-or-nothing per profile**: whatever makes `copy_profile` fail — a refused target, an undecryptable source
    page, a Duplicate, an injected statement fault at any insert — the target's rows are what they were. -/
theorem copyInto_error (page : Nat) (now : Int) (fault : Option Nat) (n : Nat) (srcDb : Option Db) (ss : Sess)
    (dst : StoreSt) (toP : String) (dst' : StoreSt) (n' : Nat) (e : Err)
    (h : copyInto page now fault n srcDb ss dst toP = (dst', n', .error e)) :
    dst'.db.items = dst.db.items ∧ dst'.default = dst.default := by
  rw [copyInto_eq] at h
  have hi := afterCreate_items dst toP
  have hdf := afterCreate_default dst toP
  split at h
  · simp only [Prod.mk.injEq] at h; obtain ⟨rfl, _, _⟩ := h; exact ⟨hi, hdf⟩
  · split at h
    · simp only [Prod.mk.injEq] at h; obtain ⟨rfl, _, _⟩ := h; exact ⟨hi, hdf⟩
    · split at h
      · simp only [Prod.mk.injEq] at h; obtain ⟨rfl, _, _⟩ := h; exact ⟨hi, hdf⟩
      · split at h
        · simp only [Prod.mk.injEq] at h; obtain ⟨rfl, _, _⟩ := h; exact ⟨hi, hdf⟩
        · simp only [Prod.mk.injEq, reduceCtorEq, and_false] at h

theorem liveAbs_nil_no_live (now : Int) (sd : Sess) (db : Db) (h : liveAbs now sd db = []) :
    ∀ it ∈ db.items, it.pid = sd.pid → live now it = false := by
  intro it hit hp
  unfold liveAbs at h
  have h' := List.map_eq_nil_iff.mp h
  have := List.filter_eq_nil_iff.mp h' it hit
  simpa [hp] using this

theorem copyProfile_unfold (page : Nat) (now : Int) (fault : Option Nat) (n : Nat) (src dst : StoreSt) (P P' : String)
    (ss : Sess) (hs : Handle) (hsrc : resolve src.db src.h P = .ok (ss, hs)) :
    copyProfile page now fault n src dst P P' =
      ({ src with h := hs }, (copyInto page now fault n (some src.db) ss dst P').1,
        (copyInto page now fault n (some src.db) ss dst P').2.1, (copyInto page now fault n (some src.db) ss dst P').2.2) := by
  simp only [copyProfile, hsrc]

/-- **copy_profile_exact** -/
theorem copy_profile_exact (page : Nat) (now : Int) (n : Nat) (src dst : StoreSt) (P P' : String)
    (src' dst' : StoreSt) (n' : Nat) (hsorted : Sorted src.db)
    (h : copyProfile page now none n src dst P P' = (src', dst', n', .ok ())) :
    ∃ ss sd : Sess,
      resolve src.db src.h P = .ok (ss, src'.h) ∧ resolve dst'.db dst'.h P' = .ok (sd, dst'.h) ∧
      liveAbs now sd dst'.db = liveAbs now ss src.db ∧
      (∀ it ∈ dst'.db.items, it.pid = sd.pid → live now it = true → it.key = sd.key) ∧
      (∀ s : Sess, s.pid ≠ sd.pid → liveAbs now s dst'.db = liveAbs now s dst.db) ∧
      src'.db = src.db ∧ src'.default = src.default := by
  cases hsrc : resolve src.db src.h P with
  | error e => simp [copyProfile, hsrc] at h
  | ok v =>
    obtain ⟨ss, hs⟩ := v
    rw [copyProfile_unfold _ _ _ _ _ _ _ _ ss hs hsrc] at h
    simp only [Prod.mk.injEq] at h
    obtain ⟨rfl, h1, h2, h3⟩ := h
    have hc : copyInto page now none n (some src.db) ss dst P' = (dst', n', .ok ()) := by
      rw [← h1, ← h2, ← h3]
    obtain ⟨sd, rows, hres, hempty, hitems, hmap, hrows, hkeys, hprof, hdef, hn⟩ := copyInto_ok _ _ _ _ _ _ _ _ _ hc
    simp only [Option.getD_some] at hmap hkeys
    have hitems' : dst'.db.items = (afterCreate dst P').db.items ++ rows := by rw [afterCreate_items]; exact hitems
    refine ⟨ss, sd, rfl, resolve_stable _ _ _ _ _ _ hres, ?_, ?_, ?_, rfl, rfl⟩
    · rw [liveAbs_append now sd _ _ rows hitems' hrows, hempty, hmap, scanRows_sorted _ _ _ hsorted]; rfl
    · intro it hit hp hl
      rw [hitems'] at hit
      rcases List.mem_append.mp hit with hit | hit
      · have := liveAbs_nil_no_live _ _ _ hempty it hit hp
        rw [this] at hl; cases hl
      · exact (hrows it hit).2.1
    · intro s hne
      have h1 := liveAbs_append_other now s sd (afterCreate dst P').db dst'.db rows hne hitems' hrows
      rw [h1]
      unfold liveAbs
      rw [afterCreate_items]

/-- **copy_all_or_nothing**: a failed `copy_profile`, for whatever reason and with a statement fault at any insert,
    leaves the target's rows exactly as they were; the source is never written. -/
theorem copy_all_or_nothing (page : Nat) (now : Int) (fault : Option Nat) (n : Nat) (src dst : StoreSt) (P P' : String)
    (src' dst' : StoreSt) (n' : Nat) (e : Err)
    (h : copyProfile page now fault n src dst P P' = (src', dst', n', .error e)) :
    dst'.db.items = dst.db.items ∧ dst'.default = dst.default ∧ src'.db = src.db := by
  cases hsrc : resolve src.db src.h P with
  | error e' =>
    simp only [copyProfile, hsrc, Prod.mk.injEq] at h
    obtain ⟨rfl, rfl, _, _⟩ := h
    exact ⟨rfl, rfl, rfl⟩
  | ok v =>
    obtain ⟨ss, hs⟩ := v
    rw [copyProfile_unfold _ _ _ _ _ _ _ _ ss hs hsrc] at h
    simp only [Prod.mk.injEq] at h
    obtain ⟨rfl, h1, h2, h3⟩ := h
    have hc : copyInto page now fault n (some src.db) ss dst P' = (dst', n', .error e) := by
      rw [← h1, ← h2, ← h3]
    obtain ⟨hi, hd⟩ := copyInto_error _ _ _ _ _ _ _ _ _ _ _ hc
    exact ⟨hi, hd, rfl⟩

/-- the source is never written, whatever the outcome -/
theorem copy_source_unchanged (page : Nat) (now : Int) (fault : Option Nat) (n : Nat) (src dst : StoreSt) (P P' : String) :
    (copyProfile page now fault n src dst P P').1.db = src.db ∧
    (copyProfile page now fault n src dst P P').1.default = src.default := by
  cases hsrc : resolve src.db src.h P with
  | error e' => simp [copyProfile, hsrc]
  | ok v =>
    obtain ⟨ss, hs⟩ := v
    rw [copyProfile_unfold _ _ _ _ _ _ _ _ ss hs hsrc]
    exact ⟨rfl, rfl⟩

theorem afterCreate_existing (dst : StoreSt) (toP : String) (hex : dst.db.profiles.any (·.name == toP) = true) :
    afterCreate dst toP = dst := by
  simp [afterCreate, createProfile, hex]

/-- **copy_refuses_nonempty**: a target profile that exists and holds at least one live record is refused with an
    Input error before anything is read from the source or written to the target -/
theorem copy_refuses_nonempty (page : Nat) (now : Int) (fault : Option Nat) (n : Nat) (src dst : StoreSt) (P P' : String)
    (ss sd : Sess) (hs hd : Handle)
    (hsrc : resolve src.db src.h P = .ok (ss, hs))
    (hex : dst.db.profiles.any (·.name == P') = true)
    (hdst : resolve dst.db dst.h P' = .ok (sd, hd))
    (hne : liveAbs now sd dst.db ≠ []) :
    copyProfile page now fault n src dst P P' = ({ src with h := hs }, { dst with h := hd }, n, .error .input) := by
  rw [copyProfile_unfold _ _ _ _ _ _ _ _ ss hs hsrc, copyInto_eq, afterCreate_existing dst P' hex]
  have hpos : doCount noLike dst.db now sd none none none > 0 := by
    rw [doCount_all]
    exact List.length_pos_iff.mpr hne
  simp only [hdst, hpos, if_true]

/-! ### copy inside one store -/

theorem copyProfileWithin_unfold (page : Nat) (now : Int) (fault : Option Nat) (st : StoreSt) (P P' : String)
    (ss : Sess) (hs : Handle) (hsrc : resolve st.db st.h P = .ok (ss, hs)) :
    copyProfileWithin page now fault st P P' =
      ((copyInto page now fault 0 none ss { st with h := hs } P').1, (copyInto page now fault 0 none ss { st with h := hs } P').2.2) := by
  simp only [copyProfileWithin, hsrc]

/-- **copy_within_exact**: `copy_profile(b, b, P, P')` — the target profile ends with exactly the live records of the
    source profile, every other profile of the store (the source profile included) keeps its records. -/
theorem copy_within_exact (page : Nat) (now : Int) (st st' : StoreSt) (P P' : String) (hsorted : Sorted st.db)
    (h : copyProfileWithin page now none st P P' = (st', .ok ())) :
    ∃ ss sd : Sess, (∃ hs, resolve st.db st.h P = .ok (ss, hs)) ∧ resolve st'.db st'.h P' = .ok (sd, st'.h) ∧
      liveAbs now sd st'.db = liveAbs now ss st.db ∧
      (∀ s : Sess, s.pid ≠ sd.pid → liveAbs now s st'.db = liveAbs now s st.db) ∧
      st'.default = st.default := by
  cases hsrc : resolve st.db st.h P with
  | error e => simp [copyProfileWithin, hsrc] at h
  | ok v =>
    obtain ⟨ss, hs⟩ := v
    rw [copyProfileWithin_unfold _ _ _ _ _ _ ss hs hsrc] at h
    simp only [Prod.mk.injEq] at h
    obtain ⟨h1, h3⟩ := h
    have hc : copyInto page now none 0 none ss { st with h := hs } P' =
        (st', (copyInto page now none 0 none ss { st with h := hs } P').2.1, .ok ()) := by
      rw [← h1, ← h3]
    obtain ⟨sd, rows, hres, hempty, hitems, hmap, hrows, hkeys, hprof, hdef, hn⟩ := copyInto_ok _ _ _ _ _ _ _ _ _ hc
    simp only [Option.getD_none] at hmap hkeys
    have hai : (afterCreate { st with h := hs } P').db.items = st.db.items := afterCreate_items _ _
    have hitems' : st'.db.items = (afterCreate { st with h := hs } P').db.items ++ rows := by rw [hai]; exact hitems
    have hsorted' : Sorted (afterCreate { st with h := hs } P').db := by unfold Sorted; rw [hai]; exact hsorted
    refine ⟨ss, sd, ⟨hs, rfl⟩, resolve_stable _ _ _ _ _ _ hres, ?_, ?_, hdef⟩
    · rw [liveAbs_append now sd _ _ rows hitems' hrows, hempty, hmap, scanRows_sorted _ _ _ hsorted']
      unfold liveAbs; rw [hai]; rfl
    · intro s hne
      rw [liveAbs_append_other now s sd _ st'.db rows hne hitems' hrows]
      unfold liveAbs; rw [hai]

/-! ### the target's keys do not matter -/

/-- **copy_independent_of_target_method**: two copies of the same source profile into any two targets (whatever their
    key method, pass key, profile keys, profile ids, other content) that both succeed give the same logical content. -/
theorem copy_independent_of_target_method (page : Nat) (now : Int) (n₁ n₂ : Nat) (src dst₁ dst₂ : StoreSt) (P P₁ P₂ : String)
    (s₁ d₁ s₂ d₂ : StoreSt) (m₁ m₂ : Nat) (hsorted : Sorted src.db)
    (h₁ : copyProfile page now none n₁ src dst₁ P P₁ = (s₁, d₁, m₁, .ok ()))
    (h₂ : copyProfile page now none n₂ src dst₂ P P₂ = (s₂, d₂, m₂, .ok ())) :
    ∃ sd₁ sd₂ : Sess, resolve d₁.db d₁.h P₁ = .ok (sd₁, d₁.h) ∧ resolve d₂.db d₂.h P₂ = .ok (sd₂, d₂.h) ∧
      liveAbs now sd₁ d₁.db = liveAbs now sd₂ d₂.db := by
  obtain ⟨ss₁, sd₁, hr₁, hd₁, he₁, _⟩ := copy_profile_exact _ _ _ _ _ _ _ _ _ _ hsorted h₁
  obtain ⟨ss₂, sd₂, hr₂, hd₂, he₂, _⟩ := copy_profile_exact _ _ _ _ _ _ _ _ _ _ hsorted h₂
  refine ⟨sd₁, sd₂, hd₁, hd₂, ?_⟩
  rw [hr₁] at hr₂
  injection hr₂ with hr₂
  injection hr₂ with hss _
  rw [he₁, he₂, hss]

/-! ### when the copy succeeds -/

theorem resolve_afterCreate (dst : StoreSt) (toP : String) :
    ∃ sd hd, resolve (afterCreate dst toP).db (afterCreate dst toP).h toP = .ok (sd, hd) := by
  unfold afterCreate
  cases hc : createProfile dst.db dst.h toP with
  | ok v =>
    obtain ⟨db, h⟩ := v
    unfold createProfile at hc
    split at hc
    · cases hc
    · injection hc with hc
      injection hc with h1 h2
      subst h1 h2
      have : resolve ({ dst.db with profiles := dst.db.profiles ++ [⟨nextId (dst.db.profiles.map (·.id)), toP, dst.h.nextKey⟩] } : Db)
          { cache := cachePut dst.h.cache toP (nextId (dst.db.profiles.map (·.id)), dst.h.nextKey), nextKey := dst.h.nextKey + 1 } toP =
          .ok (⟨nextId (dst.db.profiles.map (·.id)), dst.h.nextKey⟩,
               { cache := cachePut dst.h.cache toP (nextId (dst.db.profiles.map (·.id)), dst.h.nextKey), nextKey := dst.h.nextKey + 1 }) := by
        simp [resolve, cacheGet_cachePut_self]
      exact ⟨_, _, this⟩
  | error e =>
    unfold createProfile at hc
    split at hc
    · rename_i hany
      simp only [resolve]
      cases hg : cacheGet dst.h.cache toP with
      | some v => exact ⟨_, _, rfl⟩
      | none =>
        obtain ⟨p, hp, hn⟩ := List.any_eq_true.mp hany
        cases hf : dst.db.profiles.find? (·.name == toP) with
        | some q => exact ⟨_, _, rfl⟩
        | none =>
          have := List.find?_eq_none.mp hf p hp
          exact absurd hn this
    · cases hc

/-- identities of a list of entries are pairwise distinct -/
def DistinctIdents (es : List Entry) : Prop :=
  es.Pairwise fun a b => ¬(a.kind = b.kind ∧ a.cat = b.cat ∧ a.name = b.name)

theorem importRows_succeeds (now : Int) (sd : Sess) : ∀ (es : List Entry) (db : Db) (n : Nat),
    DistinctIdents es →
    (∀ it ∈ db.items, ∀ e ∈ es, ¬(it.pid = sd.pid ∧ it.key = sd.key ∧ it.kind = e.kind ∧ it.cat = e.cat ∧ it.name = e.name)) →
    ∃ r, importRows now sd none db n es = .ok r := by
  intro es
  induction es with
  | nil => intro db n _ _; exact ⟨_, rfl⟩
  | cons e es ih =>
    intro db n hd hfree
    simp only [DistinctIdents, List.pairwise_cons] at hd
    have hno : (db.items.any (·.sameIdent sd.pid sd.key e.kind e.cat e.name)) = false := by
      apply Bool.eq_false_iff.mpr
      intro hany
      obtain ⟨it, hit, hs⟩ := List.any_eq_true.mp hany
      exact hfree it hit e (by simp) ((sameIdent_iff it _ _ _ _ _).mp hs)
    simp only [importRows, reduceCtorEq, if_false, doInsert_none, hno, Bool.false_eq_true]
    apply ih _ _ hd.2
    intro it hit e' he' hc
    simp only [List.mem_append, List.mem_singleton] at hit
    rcases hit with hit | rfl
    · exact hfree it hit e' (by simp [he']) hc
    · exact hd.1 e' he' ⟨hc.2.2.1, hc.2.2.2.1, hc.2.2.2.2⟩

theorem importScan_succeeds (now : Int) (sd : Sess) : ∀ (ps : List (List Entry)) (db : Db) (n : Nat),
    DistinctIdents ps.flatten →
    (∀ it ∈ db.items, ∀ e ∈ ps.flatten, ¬(it.pid = sd.pid ∧ it.key = sd.key ∧ it.kind = e.kind ∧ it.cat = e.cat ∧ it.name = e.name)) →
    ∃ r, importScan now sd none db n ps = .ok r := by
  intro ps
  induction ps with
  | nil => intro db n _ _; exact ⟨_, rfl⟩
  | cons p ps ih =>
    intro db n hd hfree
    simp only [List.flatten_cons, DistinctIdents, List.pairwise_append] at hd
    obtain ⟨hdp, hdps, hcross⟩ := hd
    obtain ⟨⟨db1, n1⟩, hp⟩ := importRows_succeeds now sd p db n hdp (fun it hit e he => hfree it hit e (by simp [he]))
    obtain ⟨rows, hitems, hmap, hrows, _, _⟩ := importRows_ok now sd p db n db1 n1 hp
    simp only [importScan, hp]
    apply ih _ _ hdps
    intro it hit e he hc
    rw [hitems] at hit
    rcases List.mem_append.mp hit with hit | hit
    · exact hfree it hit e (by simp [he]) hc
    · have : toEntry it ∈ p := by rw [← hmap]; exact List.mem_map_of_mem hit
      exact hcross (toEntry it) this e he ⟨hc.2.2.1, hc.2.2.2.1, hc.2.2.2.2⟩

/-- **copy_into_fresh_succeeds**: `copy_profile` succeeds whenever the source profile exists, its live rows decrypt
    under its key and carry pairwise distinct identities (the unique index), and the target profile holds no row at
    all (new, or really empty — not merely "all expired", see `import_into_logically_empty_refuted`). -/
theorem copy_into_fresh_succeeds (page : Nat) (now : Int) (n : Nat) (src dst : StoreSt) (P P' : String)
    (ss : Sess) (hs : Handle) (hsrc : resolve src.db src.h P = .ok (ss, hs))
    (hkey : ∀ it ∈ src.db.items, it.pid = ss.pid → live now it = true → it.key = ss.key)
    (huniq : DistinctIdents (liveAbs now ss src.db)) (hsorted : Sorted src.db)
    (hfresh : ∀ sd hd, resolve (afterCreate dst P').db (afterCreate dst P').h P' = .ok (sd, hd) →
      ∀ it ∈ dst.db.items, it.pid ≠ sd.pid) :
    ∃ dst' n', copyProfile page now none n src dst P P' = ({ src with h := hs }, dst', n', .ok ()) := by
  obtain ⟨sd, hd, hres⟩ := resolve_afterCreate dst P'
  have hnone := hfresh sd hd hres
  rw [copyProfile_unfold _ _ _ _ _ _ _ _ ss hs hsrc, copyInto_eq]
  simp only [hres, Option.getD_some]
  have hcount : ¬ doCount noLike (afterCreate dst P').db now sd none none none > 0 := by
    rw [doCount_all]
    have : liveAbs now sd (afterCreate dst P').db = [] := by
      unfold liveAbs
      rw [afterCreate_items]
      apply List.map_eq_nil_iff.mpr
      apply List.filter_eq_nil_iff.mpr
      intro it hit
      have := hnone it hit
      simp [this]
    simp [this]
  simp only [hcount, if_false]
  have hrowsKey : ∀ it ∈ scanRows now ss src.db, it.key = ss.key := by
    intro it hit
    have hm := (mem_sortById.mp hit)
    simp only [List.mem_filter, Bool.and_eq_true, beq_iff_eq] at hm
    exact hkey it hm.1 hm.2.1 hm.2.2
  have hscan : doScan noLike page src.db now ss none none none none none false =
      .ok (drainScan page (batches page ((scanRows now ss src.db).map toEntry))) := by
    simp only [doScan, selectRows_all, decryptRows_ok ss.key _ hrowsKey]
  have hflat : (drainScan page (batches page ((scanRows now ss src.db).map toEntry))).flatten = liveAbs now ss src.db := by
    rw [drain_batches, batches_flatten, scanRows_sorted _ _ _ hsorted]
  simp only [hscan]
  obtain ⟨⟨db1, n1⟩, himp⟩ := importScan_succeeds now sd _ (afterCreate dst P').db n (by rw [hflat]; exact huniq) (by
    intro it hit e _ hc
    rw [afterCreate_items] at hit
    exact hnone it hit hc.1)
  simp only [himp]
  exact ⟨_, _, rfl⟩

/-! ### the per-profile loop of `copy_store` / `copy_to` -/

theorem copyProfile_target_default (page : Nat) (now : Int) (n : Nat) (src dst : StoreSt) (P P' : String)
    (src' dst' : StoreSt) (n' : Nat) (h : copyProfile page now none n src dst P P' = (src', dst', n', .ok ())) :
    dst'.default = dst.default := by
  cases hsrc : resolve src.db src.h P with
  | error e => simp [copyProfile, hsrc] at h
  | ok v =>
    obtain ⟨ss, hs⟩ := v
    rw [copyProfile_unfold _ _ _ _ _ _ _ _ ss hs hsrc] at h
    simp only [Prod.mk.injEq] at h
    obtain ⟨rfl, h1, h2, h3⟩ := h
    have hc : copyInto page now none n (some src.db) ss dst P' = (dst', n', .ok ()) := by
      rw [← h1, ← h2, ← h3]
    obtain ⟨_, _, _, _, _, _, _, _, _, hdef, _⟩ := copyInto_ok _ _ _ _ _ _ _ _ _ hc
    exact hdef

/-- a successful loop: the source is not written, the target keeps the default profile it was provisioned with,
    and every listed profile went through a successful `copy_profile` from the unchanged source tables -/
theorem copyLoop_ok (page : Nat) (now : Int) : ∀ (ps : List String) (n : Nat) (src dst src' dst' : StoreSt),
    copyLoop page now none n src dst ps = (src', dst', .ok ()) →
    src'.db = src.db ∧ src'.default = src.default ∧ dst'.default = dst.default := by
  intro ps
  induction ps with
  | nil =>
    intro n src dst src' dst' h
    simp only [copyLoop, Prod.mk.injEq, and_true] at h
    obtain ⟨rfl, rfl⟩ := h
    exact ⟨rfl, rfl, rfl⟩
  | cons p ps ih =>
    intro n src dst src' dst' h
    simp only [copyLoop] at h
    split at h
    · simp only [Prod.mk.injEq, reduceCtorEq, and_false] at h
    · rename_i s1 d1 n1 hstep
      obtain ⟨h1, h2, h3⟩ := ih _ _ _ _ _ h
      have hsrc := copy_source_unchanged page now none n src dst p p
      rw [hstep] at hsrc
      have hd := copyProfile_target_default _ _ _ _ _ _ _ _ _ _ hstep
      exact ⟨h1.trans hsrc.1, h2.trans hsrc.2, h3.trans hd⟩

/-- **copy_store_default_carried** (part of `copy_store_all_profiles`): a successful whole-store copy onto a fresh
    target leaves the source tables untouched and gives the target the source's default profile name -/
theorem copy_store_default_carried (page : Nat) (now : Int) (keyBase : Nat) (src src' dst' : StoreSt) (existing : Option StoreSt)
    (h : copyStore page now none keyBase src existing true = (src', some dst', .ok ())) :
    src'.db = src.db ∧ src'.default = src.default ∧ dst'.default = src.default := by
  have hl : copyLoop page now none 0 src (provision keyBase src.default) (listProfiles src.db) = (src', dst', .ok ()) := by
    cases existing <;>
    · simp only [copyStore] at h
      cases hc : copyLoop page now none 0 src (provision keyBase src.default) (listProfiles src.db) with
      | mk s rest =>
        obtain ⟨d, r⟩ := rest
        rw [hc] at h
        simp only [Prod.mk.injEq, Option.some.injEq] at h
        obtain ⟨rfl, rfl, rfl⟩ := h
        rfl
  obtain ⟨h1, h2, h3⟩ := copyLoop_ok _ _ _ _ _ _ _ _ hl
  exact ⟨h1, h2, h3⟩

/-! ### the whole-store loop: invariant of the target -/

/-- What the loop of `copy_store` maintains about the *target*: its handle's key cache says what its `profiles` table
    says, profile names and ids are unique, every row belongs to a profile of the table, and no row carries an expiry
    (the import never writes one, a freshly provisioned target has no rows). -/
structure TargetInv (dst : StoreSt) : Prop where
  coherent : CacheCoherent dst.db dst.h
  wf : ProfilesWF dst.db
  fk : FkInv dst.db
  noExpiry : ∀ it ∈ dst.db.items, it.expiry = none

theorem wf_name_inj : ∀ l : List Profile, l.Pairwise (fun a b => a.name ≠ b.name ∧ a.id ≠ b.id) →
    ∀ a ∈ l, ∀ b ∈ l, a.name = b.name → a = b := by
  intro l
  induction l with
  | nil => intro _ a ha; cases ha
  | cons x l ih =>
    intro hw a ha b hb hn
    rw [List.pairwise_cons] at hw
    simp only [List.mem_cons] at ha hb
    rcases ha with rfl | ha <;> rcases hb with rfl | hb
    · rfl
    · exact absurd hn (hw.1 b hb).1
    · exact absurd hn.symm (hw.1 a ha).1
    · exact ih hw.2 a ha b hb hn

theorem wf_id_inj : ∀ l : List Profile, l.Pairwise (fun a b => a.name ≠ b.name ∧ a.id ≠ b.id) →
    ∀ a ∈ l, ∀ b ∈ l, a.id = b.id → a = b := by
  intro l
  induction l with
  | nil => intro _ a ha; cases ha
  | cons x l ih =>
    intro hw a ha b hb hn
    rw [List.pairwise_cons] at hw
    simp only [List.mem_cons] at ha hb
    rcases ha with rfl | ha <;> rcases hb with rfl | hb
    · rfl
    · exact absurd hn (hw.1 b hb).2
    · exact absurd hn.symm (hw.1 a ha).2
    · exact ih hw.2 a ha b hb hn

/-- with a coherent cache and unique names, a profile of the table resolves to its own id and key -/
theorem resolve_of_mem (db : Db) (h : Handle) (q : Profile) (hc : CacheCoherent db h) (hw : ProfilesWF db)
    (hq : q ∈ db.profiles) : ∃ hd, resolve db h q.name = .ok (⟨q.id, q.key⟩, hd) := by
  unfold resolve
  cases hg : cacheGet h.cache q.name with
  | some v =>
    obtain ⟨pid, key⟩ := v
    have hm := hc q.name pid key hg
    have := wf_name_inj _ hw _ hm q hq rfl
    have h1 : pid = q.id := by rw [← this]
    have h2 : key = q.key := by rw [← this]
    subst h1 h2
    exact ⟨_, rfl⟩
  | none =>
    cases hf : db.profiles.find? (·.name == q.name) with
    | none =>
      have := List.find?_eq_none.mp hf q hq
      simp at this
    | some p =>
      have hmem := List.mem_of_find?_eq_some hf
      have hname : p.name = q.name := by simpa using List.find?_some hf
      have := wf_name_inj _ hw _ hmem q hq hname
      subst this
      exact ⟨_, rfl⟩

theorem provision_targetInv (keyBase : Nat) (profile : String) : TargetInv (provision keyBase profile) := by
  refine ⟨?_, ?_, ?_, ?_⟩
  · intro name pid key hg
    simp only [provision, cacheGet, List.find?_cons, List.find?_nil] at hg
    split at hg
    · rename_i hn
      simp only [beq_iff_eq] at hn
      simp only [Option.map_some, Option.some.injEq, Prod.mk.injEq] at hg
      obtain ⟨rfl, rfl⟩ := hg
      subst hn
      simp [provision]
    · cases hg
  · simp [ProfilesWF, provision]
  · intro it hit; simp [provision] at hit
  · intro it hit; simp [provision] at hit

theorem afterCreate_targetInv (dst : StoreSt) (toP : String) (hI : TargetInv dst) : TargetInv (afterCreate dst toP) := by
  unfold afterCreate
  cases hc : createProfile dst.db dst.h toP with
  | error e => exact hI
  | ok v =>
    obtain ⟨db, h⟩ := v
    obtain ⟨h1, h2⟩ := cache_coherent_create _ _ _ _ _ hI.coherent hI.wf hc
    have hdb : db.items = dst.db.items ∧ ∃ q, db.profiles = dst.db.profiles ++ [q] := by
      unfold createProfile at hc
      split at hc
      · cases hc
      · injection hc with hc
        injection hc with e1 e2
        subst e1
        exact ⟨rfl, _, rfl⟩
    obtain ⟨hitems, q, hprof⟩ := hdb
    refine ⟨h1, h2, ?_, ?_⟩
    · intro it hit
      simp only at hit ⊢
      rw [hitems] at hit
      obtain ⟨p, hp, hpid⟩ := hI.fk it hit
      exact ⟨p, by rw [hprof]; exact List.mem_append_left _ hp, hpid⟩
    · intro it hit
      simp only at hit
      rw [hitems] at hit
      exact hI.noExpiry it hit

/-- the profile names after `create_profile` (Duplicate ignored): the old ones and `toP`; old rows of the table stay -/
theorem afterCreate_profiles (dst : StoreSt) (toP : String) :
    (∀ name, name ∈ (afterCreate dst toP).db.profiles.map (·.name) ↔ name ∈ dst.db.profiles.map (·.name) ∨ name = toP) ∧
    (∀ q ∈ dst.db.profiles, q ∈ (afterCreate dst toP).db.profiles) := by
  unfold afterCreate
  cases hc : createProfile dst.db dst.h toP with
  | error e =>
    unfold createProfile at hc
    split at hc
    · rename_i hany
      obtain ⟨p, hp, hn⟩ := List.any_eq_true.mp hany
      simp only [beq_iff_eq] at hn
      refine ⟨?_, fun q hq => hq⟩
      intro name
      constructor
      · exact Or.inl
      · rintro (h | rfl)
        · exact h
        · exact List.mem_map.mpr ⟨p, hp, hn⟩
    · cases hc
  | ok v =>
    obtain ⟨db, h⟩ := v
    unfold createProfile at hc
    split at hc
    · cases hc
    · injection hc with hc
      injection hc with e1 e2
      subst e1
      refine ⟨?_, fun q hq => List.mem_append_left _ hq⟩
      intro name
      simp only [List.map_append, List.map_cons, List.map_nil, List.mem_append, List.mem_singleton]

theorem abs_eq_liveAbs (now : Int) (s : Sess) (db : Db) (h : ∀ it ∈ db.items, it.expiry = none) :
    abs s db = liveAbs now s db := by
  unfold abs liveAbs
  congr 1
  apply List.filter_congr
  intro it hit
  simp [live_of_none now it (h it hit)]

/-- One successful iteration of the loop, seen from the target's invariant. -/
theorem copyProfile_step (page : Nat) (now : Int) (n : Nat) (src dst : StoreSt) (P : String)
    (src' dst' : StoreSt) (n' : Nat) (hsorted : Sorted src.db) (hcs : CacheCoherent src.db src.h) (hI : TargetInv dst)
    (h : copyProfile page now none n src dst P P = (src', dst', n', .ok ())) :
    src'.db = src.db ∧ CacheCoherent src.db src'.h ∧ TargetInv dst' ∧
    (∀ name, name ∈ dst'.db.profiles.map (·.name) ↔ name ∈ dst.db.profiles.map (·.name) ∨ name = P) ∧
    (∀ q ∈ dst.db.profiles, q ∈ dst'.db.profiles) ∧
    ∃ ss sd : Sess, (⟨ss.pid, P, ss.key⟩ : Profile) ∈ src.db.profiles ∧ (⟨sd.pid, P, sd.key⟩ : Profile) ∈ dst'.db.profiles ∧
      abs sd dst'.db = liveAbs now ss src.db ∧ KeyCoherent sd dst'.db ∧
      (∀ s : Sess, s.pid ≠ sd.pid → abs s dst'.db = abs s dst.db ∧ (KeyCoherent s dst.db → KeyCoherent s dst'.db)) := by
  cases hsrc : resolve src.db src.h P with
  | error e => simp [copyProfile, hsrc] at h
  | ok v =>
    obtain ⟨ss, hs⟩ := v
    rw [copyProfile_unfold _ _ _ _ _ _ _ _ ss hs hsrc] at h
    simp only [Prod.mk.injEq] at h
    obtain ⟨rfl, h1, h2, h3⟩ := h
    have hc : copyInto page now none n (some src.db) ss dst P = (dst', n', .ok ()) := by
      rw [← h1, ← h2, ← h3]
    obtain ⟨sd, rows, hres, hempty, hitems, hmap, hrows, hkeys, hprof, hdef, hn⟩ := copyInto_ok _ _ _ _ _ _ _ _ _ hc
    simp only [Option.getD_some] at hmap hkeys
    obtain ⟨hcs', hpsrc⟩ := cache_coherent_resolve _ _ _ _ _ hcs hsrc
    have hA := afterCreate_targetInv dst P hI
    obtain ⟨hcd, hpdst⟩ := cache_coherent_resolve _ _ _ _ _ hA.coherent hres
    obtain ⟨hnames, hmono⟩ := afterCreate_profiles dst P
    -- no old row of the target sits under the target profile's id
    have hnone : ∀ it ∈ dst.db.items, it.pid ≠ sd.pid := by
      intro it hit hp
      have hit' : it ∈ (afterCreate dst P).db.items := by rw [afterCreate_items]; exact hit
      have := liveAbs_nil_no_live _ _ _ hempty it hit' hp
      rw [live_of_none now it (hI.noExpiry it hit)] at this
      cases this
    have hfilt : ∀ s : Sess, s.pid ≠ sd.pid → rows.filter (·.pid == s.pid) = [] := by
      intro s hne
      apply List.filter_eq_nil_iff.mpr
      intro r hr
      have := (hrows r hr).1
      simp only [beq_iff_eq]
      intro h'
      exact hne (h'.symm.trans this)
    refine ⟨rfl, hcs', ⟨?_, ?_, ?_, ?_⟩, ?_, ?_, ss, sd, hpsrc, ?_, ?_, ?_, ?_⟩
    · intro name pid key hg
      rw [hprof]
      exact hcd name pid key hg
    · unfold ProfilesWF; rw [hprof]; exact hA.wf
    · intro it hit
      rw [hitems] at hit
      rw [hprof]
      rcases List.mem_append.mp hit with hit | hit
      · exact hA.fk it (by rw [afterCreate_items]; exact hit)
      · exact ⟨_, hpdst, ((hrows it hit).1).symm⟩
    · intro it hit
      rw [hitems] at hit
      rcases List.mem_append.mp hit with hit | hit
      · exact hI.noExpiry it hit
      · exact (hrows it hit).2.2
    · intro name; rw [hprof]; exact hnames name
    · intro q hq; rw [hprof]; exact hmono q hq
    · rw [hprof]; exact hpdst
    · unfold abs
      rw [hitems, List.filter_append, List.map_append]
      have h0 : dst.db.items.filter (·.pid == sd.pid) = [] := by
        apply List.filter_eq_nil_iff.mpr
        intro it hit
        simpa using hnone it hit
      have h1 : rows.filter (·.pid == sd.pid) = rows := by
        apply List.filter_eq_self.mpr
        intro r hr
        simp [(hrows r hr).1]
      rw [h0, h1, List.map_nil, List.nil_append, hmap, scanRows_sorted _ _ _ hsorted]
    · intro it hit hp
      rw [hitems] at hit
      rcases List.mem_append.mp hit with hit | hit
      · exact absurd hp (hnone it hit)
      · exact (hrows it hit).2.1
    · intro s hne
      constructor
      · unfold abs
        rw [hitems, List.filter_append, hfilt s hne, List.append_nil]
      · intro hK it hit hp
        rw [hitems] at hit
        rcases List.mem_append.mp hit with hit | hit
        · exact hK it hit hp
        · exact absurd (hp.symm.trans (hrows it hit).1) hne

/-! ### `SELECT name FROM profiles` -/

theorem mem_insertName (x y : String) : ∀ l : List String, y ∈ insertName x l ↔ y = x ∨ y ∈ l := by
  intro l
  induction l with
  | nil => simp [insertName]
  | cons z l ih =>
    simp only [insertName]
    split
    · simp only [List.mem_cons, ih]
      constructor
      · rintro (h | h | h)
        · exact Or.inr (Or.inl h)
        · exact Or.inl h
        · exact Or.inr (Or.inr h)
      · rintro (h | h | h)
        · exact Or.inr (Or.inl h)
        · exact Or.inl h
        · exact Or.inr (Or.inr h)
    · simp only [List.mem_cons]

theorem nodup_insertName (x : String) : ∀ l : List String, x ∉ l → l.Nodup → (insertName x l).Nodup := by
  intro l
  induction l with
  | nil => intro _ _; simp [insertName]
  | cons z l ih =>
    intro hx hl
    simp only [List.mem_cons, not_or] at hx
    simp only [insertName]
    split
    · rw [List.nodup_cons] at hl ⊢
      refine ⟨?_, ih hx.2 hl.2⟩
      rw [mem_insertName]
      rintro (h | h)
      · exact hx.1 h.symm
      · exact hl.1 h
    · rw [List.nodup_cons]
      exact ⟨by simp only [List.mem_cons, not_or]; exact hx, hl⟩

theorem mem_foldr_insertName (y : String) : ∀ l : List String, y ∈ l.foldr insertName [] ↔ y ∈ l := by
  intro l
  induction l with
  | nil => simp
  | cons x l ih => simp only [List.foldr_cons, mem_insertName, ih, List.mem_cons]

theorem nodup_foldr_insertName : ∀ l : List String, l.Nodup → (l.foldr insertName []).Nodup := by
  intro l
  induction l with
  | nil => intro _; simp
  | cons x l ih =>
    intro hl
    rw [List.nodup_cons] at hl
    simp only [List.foldr_cons]
    exact nodup_insertName x _ (by rw [mem_foldr_insertName]; exact hl.1) (ih hl.2)

theorem mem_listProfiles (db : Db) (name : String) : name ∈ listProfiles db ↔ name ∈ db.profiles.map (·.name) :=
  mem_foldr_insertName name _

theorem nodup_profile_names (db : Db) (hw : ProfilesWF db) : (db.profiles.map (·.name)).Nodup := by
  unfold ProfilesWF at hw
  unfold List.Nodup
  rw [List.pairwise_map]
  exact hw.imp fun h => h.1

theorem nodup_listProfiles (db : Db) (hw : ProfilesWF db) : (listProfiles db).Nodup :=
  nodup_foldr_insertName _ (nodup_profile_names db hw)

/-! ### the loop as a whole -/

/-- **the loop invariant of `copy_store`**: a successful loop over pairwise distinct names keeps the target's
    invariant, adds exactly the listed names to the target's `profiles` table, leaves every listed profile with the
    live records of the source profile of that name (under the target's own id and key), and does not disturb the
    target profiles that are not listed. -/
theorem copyLoop_inv (page : Nat) (now : Int) : ∀ (ps : List String) (n : Nat) (src dst src' dst' : StoreSt),
    copyLoop page now none n src dst ps = (src', dst', .ok ()) →
    ps.Nodup → Sorted src.db → CacheCoherent src.db src.h → TargetInv dst →
    src'.db = src.db ∧ CacheCoherent src.db src'.h ∧ TargetInv dst' ∧
    (∀ name, name ∈ dst'.db.profiles.map (·.name) ↔ name ∈ dst.db.profiles.map (·.name) ∨ name ∈ ps) ∧
    (∀ q ∈ dst.db.profiles, q ∈ dst'.db.profiles) ∧
    (∀ P ∈ ps, ∃ ss sd : Sess, (⟨ss.pid, P, ss.key⟩ : Profile) ∈ src.db.profiles ∧
      (⟨sd.pid, P, sd.key⟩ : Profile) ∈ dst'.db.profiles ∧
      abs sd dst'.db = liveAbs now ss src.db ∧ KeyCoherent sd dst'.db) ∧
    (∀ q ∈ dst.db.profiles, q.name ∉ ps →
      abs ⟨q.id, q.key⟩ dst'.db = abs ⟨q.id, q.key⟩ dst.db ∧
      (KeyCoherent ⟨q.id, q.key⟩ dst.db → KeyCoherent ⟨q.id, q.key⟩ dst'.db)) := by
  intro ps
  induction ps with
  | nil =>
    intro n src dst src' dst' h _ _ hcs hI
    simp only [copyLoop, Prod.mk.injEq, and_true] at h
    obtain ⟨rfl, rfl⟩ := h
    refine ⟨rfl, hcs, hI, by simp, fun q hq => hq, by simp, fun q _ _ => ⟨rfl, id⟩⟩
  | cons P ps ih =>
    intro n src dst src' dst' h hnd hsorted hcs hI
    rw [List.nodup_cons] at hnd
    simp only [copyLoop] at h
    split at h
    · simp only [Prod.mk.injEq, reduceCtorEq, and_false] at h
    · rename_i s1 d1 n1 hstep
      obtain ⟨hdb1, hcs1, hI1, hnames1, hmono1, ss, sd, hpsrc, hpdst, habs, hkc, hframe⟩ :=
        copyProfile_step page now n src dst P s1 d1 n1 hsorted hcs hI hstep
      obtain ⟨hdb2, hcs2, hI2, hnames2, hmono2, hall2, hframe2⟩ :=
        ih n1 s1 d1 src' dst' h hnd.2 (by rw [hdb1]; exact hsorted) (by rw [hdb1]; exact hcs1) hI1
      rw [hdb1] at hdb2 hcs2 hall2
      refine ⟨hdb2, hcs2, hI2, ?_, fun q hq => hmono2 q (hmono1 q hq), ?_, ?_⟩
      · intro name
        rw [hnames2, hnames1, List.mem_cons, or_assoc]
      · intro P' hP'
        rcases List.mem_cons.mp hP' with rfl | hP'
        · obtain ⟨e1, e2⟩ := hframe2 ⟨sd.pid, P', sd.key⟩ hpdst hnd.1
          exact ⟨ss, sd, hpsrc, hmono2 _ hpdst, e1.trans habs, e2 hkc⟩
        · exact hall2 P' hP'
      · intro q hq hqn
        simp only [List.mem_cons, not_or] at hqn
        have hq1 := hmono1 q hq
        have hne : q.id ≠ sd.pid := by
          intro he
          have := wf_id_inj _ hI1.wf q hq1 _ hpdst he
          rw [this] at hqn
          exact hqn.1 rfl
        obtain ⟨e1, e2⟩ := hframe ⟨q.id, q.key⟩ hne
        obtain ⟨f1, f2⟩ := hframe2 q hq1 hqn.2
        exact ⟨f1.trans e1, fun hK => f2 (e2 hK)⟩

theorem copyStore_fresh_loop (page : Nat) (now : Int) (keyBase : Nat) (src src' dst' : StoreSt) (existing : Option StoreSt)
    (recreate : Bool) (hfresh : existing = none ∨ recreate = true)
    (h : copyStore page now none keyBase src existing recreate = (src', some dst', .ok ())) :
    copyLoop page now none 0 src (provision keyBase src.default) (listProfiles src.db) = (src', dst', .ok ()) := by
  have h' : ((copyLoop page now none 0 src (provision keyBase src.default) (listProfiles src.db)).1,
      some (copyLoop page now none 0 src (provision keyBase src.default) (listProfiles src.db)).2.1,
      (copyLoop page now none 0 src (provision keyBase src.default) (listProfiles src.db)).2.2) =
      (src', some dst', Except.ok ()) := by
    rw [← h]
    rcases hfresh with rfl | rfl
    · cases recreate <;> rfl
    · cases existing <;> rfl
  simp only [Prod.mk.injEq, Option.some.injEq] at h'
  obtain ⟨h1, h2, h3⟩ := h'
  rw [← h1, ← h2, ← h3]

/-- **copy_store_all_profiles**, general form (no assumption on `config.default_profile`): after a successful
    `copy_store` / `copy_to` onto a freshly provisioned target, the target has the source's profile names plus the
    source's default profile name; the target's handle is coherent with its table, names and ids are unique, every row
    belongs to a profile and none expires; every source profile arrives with its live records, readable through the
    target's own handle under the target's own key; when the default profile name is dangling, the extra target profile
    is empty.  The source's tables and default are untouched and its handle stays coherent. -/
theorem copy_store_all_profiles_gen (page : Nat) (now : Int) (keyBase : Nat) (src src' dst' : StoreSt)
    (existing : Option StoreSt) (recreate : Bool) (hfresh : existing = none ∨ recreate = true)
    (hs : Sorted src.db) (hwf : ProfilesWF src.db) (hcc : CacheCoherent src.db src.h)
    (h : copyStore page now none keyBase src existing recreate = (src', some dst', .ok ())) :
    (src'.db = src.db ∧ src'.default = src.default ∧ CacheCoherent src.db src'.h) ∧ dst'.default = src.default ∧
    (CacheCoherent dst'.db dst'.h ∧ ProfilesWF dst'.db ∧ FkInv dst'.db ∧ ∀ it ∈ dst'.db.items, it.expiry = none) ∧
    (∀ name, name ∈ dst'.db.profiles.map (·.name) ↔ name ∈ src.db.profiles.map (·.name) ∨ name = src.default) ∧
    (∀ p ∈ src.db.profiles, ∃ (hs' : Handle) (sd : Sess) (hd : Handle),
      resolve src.db src.h p.name = .ok (⟨p.id, p.key⟩, hs') ∧
      resolve dst'.db dst'.h p.name = .ok (sd, hd) ∧
      abs sd dst'.db = liveAbs now ⟨p.id, p.key⟩ src.db ∧ KeyCoherent sd dst'.db) ∧
    (src.default ∉ src.db.profiles.map (·.name) → ∃ (sd : Sess) (hd : Handle),
      resolve dst'.db dst'.h src.default = .ok (sd, hd) ∧ abs sd dst'.db = []) := by
  have hl := copyStore_fresh_loop page now keyBase src src' dst' existing recreate hfresh h
  obtain ⟨d1, d2, d3⟩ := copyLoop_ok _ _ _ _ _ _ _ _ hl
  obtain ⟨_, hcs', hI, hnames, hmono, hall, hframe⟩ :=
    copyLoop_inv page now _ _ _ _ _ _ hl (nodup_listProfiles _ hwf) hs hcc (provision_targetInv _ _)
  refine ⟨⟨d1, d2, hcs'⟩, d3, ⟨hI.coherent, hI.wf, hI.fk, hI.noExpiry⟩, ?_, ?_, ?_⟩
  · intro name
    rw [hnames, mem_listProfiles]
    simp only [provision, List.map_cons, List.map_nil, List.mem_singleton]
    exact or_comm
  · intro p hp
    obtain ⟨ss, sd, hpsrc, hpdst, habs, hkc⟩ := hall p.name ((mem_listProfiles _ _).mpr (List.mem_map_of_mem hp))
    have hss := wf_name_inj _ hwf _ hpsrc p hp rfl
    have e1 : ss.pid = p.id := by rw [← hss]
    have e2 : ss.key = p.key := by rw [← hss]
    obtain ⟨hs', hr⟩ := resolve_of_mem src.db src.h p hcc hwf hp
    obtain ⟨hd, hrd⟩ := resolve_of_mem dst'.db dst'.h _ hI.coherent hI.wf hpdst
    refine ⟨hs', sd, hd, hr, hrd, ?_, hkc⟩
    rw [habs]
    cases ss
    simp only at e1 e2
    subst e1 e2
    rfl
  · intro hdangling
    have hq : (⟨1, src.default, keyBase⟩ : Profile) ∈ (provision keyBase src.default).db.profiles := by simp [provision]
    obtain ⟨f1, _⟩ := hframe _ hq (by rw [mem_listProfiles]; exact hdangling)
    obtain ⟨hd, hrd⟩ := resolve_of_mem dst'.db dst'.h _ hI.coherent hI.wf (hmono _ hq)
    refine ⟨_, hd, hrd, ?_⟩
    rw [f1]
    simp [abs, provision]

/-- **copy_store_all_profiles**: a successful `copy_store` / `copy_to` onto a freshly provisioned target, from a source
    whose default profile is one of its profiles: the target's profile names are exactly the source's (a permutation,
    no duplicates), same default profile, and every profile holds exactly the source profile's live records. -/
theorem copy_store_all_profiles (page : Nat) (now : Int) (keyBase : Nat) (src src' dst' : StoreSt)
    (existing : Option StoreSt) (recreate : Bool) (hfresh : existing = none ∨ recreate = true)
    (hs : Sorted src.db) (hwf : ProfilesWF src.db) (hcc : CacheCoherent src.db src.h)
    (hdef : src.default ∈ src.db.profiles.map (·.name))
    (h : copyStore page now none keyBase src existing recreate = (src', some dst', .ok ())) :
    (src'.db = src.db ∧ src'.default = src.default ∧ CacheCoherent src.db src'.h) ∧ dst'.default = src.default ∧
    (CacheCoherent dst'.db dst'.h ∧ ProfilesWF dst'.db ∧ FkInv dst'.db ∧ ∀ it ∈ dst'.db.items, it.expiry = none) ∧
    (∀ name, name ∈ dst'.db.profiles.map (·.name) ↔ name ∈ src.db.profiles.map (·.name)) ∧
    (dst'.db.profiles.map (·.name)).Perm (src.db.profiles.map (·.name)) ∧
    (∀ p ∈ src.db.profiles, ∃ (hs' : Handle) (sd : Sess) (hd : Handle),
      resolve src.db src.h p.name = .ok (⟨p.id, p.key⟩, hs') ∧
      resolve dst'.db dst'.h p.name = .ok (sd, hd) ∧
      abs sd dst'.db = liveAbs now ⟨p.id, p.key⟩ src.db ∧ KeyCoherent sd dst'.db) := by
  obtain ⟨hsrc, d3, hI, hnames, hall, _⟩ :=
    copy_store_all_profiles_gen page now keyBase src src' dst' existing recreate hfresh hs hwf hcc h
  have hnames' : ∀ name, name ∈ dst'.db.profiles.map (·.name) ↔ name ∈ src.db.profiles.map (·.name) := by
    intro name
    rw [hnames]
    constructor
    · rintro (h | rfl)
      · exact h
      · exact hdef
    · exact Or.inl
  exact ⟨hsrc, d3, hI, hnames',
    (List.perm_ext_iff_of_nodup (nodup_profile_names _ hI.2.1) (nodup_profile_names _ hwf)).mpr hnames', hall⟩

/-! ### what does not hold on the current code -/

/-- An import into a target profile that is *logically* empty (no live record) — which is all `copy_profile` checks —
    always goes through. -/
def ImportIntoLogicallyEmptySucceeds : Prop :=
  ∀ (now : Int) (sd : Sess) (db : Db) (es : List Entry), liveAbs now sd db = [] → DistinctIdents es →
    ∃ r, importRows now sd none db 0 es = .ok r

/-- Refuted: an *expired* row under the identity of a source record makes the import fail with Duplicate
    (finding D8 of C17 reaching C18; replayed by the harness: `copy_profile:ok->err:Duplicate:expired-shadow-in-target`). -/
theorem import_into_logically_empty_refuted : ¬ ImportIntoLogicallyEmptySucceeds := by
  intro h
  obtain ⟨r, hr⟩ := h 5000 ⟨1, 0⟩ Askar.Store.Lemmas.wDb [⟨2, "c", "n", [], []⟩]
    (by
      unfold liveAbs
      apply List.map_eq_nil_iff.mpr
      apply List.filter_eq_nil_iff.mpr
      intro it hit
      simp [Askar.Store.Lemmas.wDb_all_expired it hit])
    (by simp [DistinctIdents])
  have hw := Askar.Store.Lemmas.wItem_same
  simp only [importRows, reduceCtorEq, if_false, doInsert_none, Askar.Store.Lemmas.wDb, List.any_cons, hw,
    Bool.true_or, if_true] at hr

/-- The target of a whole-store copy has exactly the source's profiles. -/
def CopyStoreSameProfiles : Prop :=
  ∀ (page : Nat) (now : Int) (keyBase : Nat) (src src' dst' : StoreSt),
    copyStore page now none keyBase src none true = (src', some dst', .ok ()) →
    ∀ name, name ∈ dst'.db.profiles.map (·.name) ↔ name ∈ src.db.profiles.map (·.name)

/-- Refuted: the target is provisioned with the name in `config.default_profile`, which need not name an existing
    profile (`remove_profile` and `set_default_profile` do not look at each other): the target then has a profile the
    source does not have (replayed by the harness: `copy_to:profiles:extra:source-default-profile-does-not-exist`). -/
theorem copy_store_same_profiles_refuted : ¬ CopyStoreSameProfiles := by
  intro h
  have := h 32 0 7 { db := {}, h := {}, default := "a" } { db := {}, h := {}, default := "a" } (provision 7 "a") rfl "a"
  simp [provision] at this

end Lemmas
end Askar.Copy

/-! ## Indy migration -/

namespace Askar.Indy
open Askar.Store Askar.Wql Askar.Copy

namespace Lemmas

/-- element-wise relation between two lists of the same length -/
inductive Forall2 {α β : Type} (R : α → β → Prop) : List α → List β → Prop
  | nil : Forall2 R [] []
  | cons {a : α} {b : β} {l₁ : List α} {l₂ : List β} : R a b → Forall2 R l₁ l₂ → Forall2 R (a :: l₁) (b :: l₂)

/-- `merged` is an Indy-style encryption of `pt` under `k`: some 12-byte nonce followed by the AEAD output -/
def Sealed (A : Aead) (k pt merged : Bytes) : Prop := ∃ n : Bytes, n.length = nonceLen ∧ merged = n ++ A.enc k n pt

theorem decryptMerged_sealed (A : Aead) (hA : A.Correct) (k pt merged : Bytes) (h : Sealed A k pt merged) :
    decryptMerged A k merged = .ok pt := by
  obtain ⟨n, hn, rfl⟩ := h
  have h1 : ¬ (n ++ A.enc k n pt).length < nonceLen := by simp [hn]
  have h2 : (n ++ A.enc k n pt).take nonceLen = n := by rw [← hn]; simp
  have h3 : (n ++ A.enc k n pt).drop nonceLen = A.enc k n pt := by rw [← hn]; simp
  simp only [decryptMerged, h1, if_false, h2, h3, hA.dec_enc]

theorem toyAead_correct : toyAead.Correct := ⟨by
  intro k n m
  have h1 : (k ++ n ++ m).take (k.length + n.length) = k ++ n :=
    List.take_left' (l₁ := k ++ n) (l₂ := m) (List.length_append)
  have h2 : (k ++ n ++ m).drop (k.length + n.length) = m :=
    List.drop_left' (l₁ := k ++ n) (l₂ := m) (List.length_append)
  simp only [toyAead, h1, h2, beq_self_eq_true, if_true]⟩

/-- a wallet record in the clear -/
structure Rec where
  typ : String
  name : String
  value : Bytes
  encTags : List (String × String)
  plainTags : List (String × String)

/-- the askar record the wallet record must become: kind Item, type ↦ category, both tag kinds -/
def Rec.toEntry (r : Rec) : Entry :=
  ⟨2, r.typ, r.name, r.value,
   r.encTags.map (fun t => ⟨false, t.1, t.2⟩) ++ r.plainTags.map (fun t => ⟨true, t.1, t.2⟩)⟩

def TagEncodes (A : Aead) (keys : Keys) (valueEnc : Bool) (p : Bytes × Bytes) (t : String × String) : Prop :=
  Sealed A keys.tagNameKey (utf8 t.1) p.1 ∧
  (if valueEnc then Sealed A keys.tagValueKey (utf8 t.2) p.2 else p.2 = utf8 t.2)

/-- `row` is an Indy encoding of `r`: any nonces, any 32-byte item key -/
def RowEncodes (A : Aead) (keys : Keys) (row : Row) (r : Rec) : Prop :=
  Sealed A keys.typeKey (utf8 r.typ) row.typ ∧ Sealed A keys.nameKey (utf8 r.name) row.name ∧
  (∃ ik v, ik.length = itemKeyLen ∧ Sealed A keys.valueKey ik row.key ∧ row.value = some v ∧ Sealed A ik r.value v) ∧
  Forall2 (TagEncodes A keys true) row.tagsEnc r.encTags ∧
  Forall2 (TagEncodes A keys false) row.tagsPlain r.plainTags

/-- `String::from_utf8` gives the string back from its UTF-8 bytes (a fact about the decoder, needed only for the
    strings the wallet actually holds) -/
def Decodes (utf8dec : Bytes → Option String) (s : String) : Prop := utf8dec (utf8 s) = some s

def TagsDecode (utf8dec : Bytes → Option String) (ts : List (String × String)) : Prop :=
  ∀ t ∈ ts, Decodes utf8dec t.1 ∧ Decodes utf8dec t.2

def RecDecodes (utf8dec : Bytes → Option String) (r : Rec) : Prop :=
  Decodes utf8dec r.typ ∧ Decodes utf8dec r.name ∧ TagsDecode utf8dec r.encTags ∧ TagsDecode utf8dec r.plainTags

theorem decryptTags_encoded (A : Aead) (hA : A.Correct) (utf8dec : Bytes → Option String)
    (keys : Keys) (valueEnc : Bool)
    (ps : List (Bytes × Bytes)) (ts : List (String × String)) (h : Forall2 (TagEncodes A keys valueEnc) ps ts)
    (hU : TagsDecode utf8dec ts) :
    decryptTags A utf8dec keys.tagNameKey (if valueEnc then some keys.tagValueKey else none) ps = .ok ts := by
  induction h with
  | nil => rfl
  | @cons p t ps ts hpt _ ih =>
    obtain ⟨hn, hv⟩ := hpt
    obtain ⟨pn, pv⟩ := p
    obtain ⟨tn, tv⟩ := t
    have ih := ih (fun t ht => hU t (by simp [ht]))
    obtain ⟨h1, h2⟩ := hU (tn, tv) (by simp)
    unfold Decodes at h1 h2
    simp only at h1 h2
    simp only [decryptTags, decryptMerged_sealed A hA _ _ _ hn, h1]
    cases valueEnc with
    | true =>
      simp only [if_true] at hv ih ⊢
      simp only [decryptMerged_sealed A hA _ _ _ hv, h2, ih]
    | false =>
      simp only [Bool.false_eq_true, if_false] at hv ih ⊢
      subst hv
      simp only [h2, ih]

theorem decryptItem_encoded (A : Aead) (hA : A.Correct) (utf8dec : Bytes → Option String)
    (keys : Keys) (row : Row) (r : Rec) (h : RowEncodes A keys row r) (hU : RecDecodes utf8dec r) :
    decryptItem A utf8dec keys row =
      .ok { id := row.id, typ := utf8 r.typ, name := utf8 r.name, value := some r.value, tags := r.toEntry.tags } := by
  obtain ⟨ht, hn, ⟨ik, v, hlen, hk, hv, hval⟩, hte, htp⟩ := h
  have h1 := decryptTags_encoded A hA utf8dec keys true _ _ hte hU.2.2.1
  have h2 := decryptTags_encoded A hA utf8dec keys false _ _ htp hU.2.2.2
  simp only [if_true, Bool.false_eq_true, if_false] at h1 h2
  simp only [decryptItem, decryptMerged_sealed A hA _ _ _ hk, hlen, ne_eq, not_true_eq_false, if_false, hv,
    decryptMerged_sealed A hA _ _ _ hval, Except.map, h1, h2, decryptMerged_sealed A hA _ _ _ ht,
    decryptMerged_sealed A hA _ _ _ hn, Rec.toEntry]

/-- rows of the migrated profile -/
def migratedRow (pkey : Nat) (id : Nat) (r : Rec) : Item :=
  { id := id, pid := 1, key := pkey, kind := 2, cat := r.typ, name := r.name, value := r.value,
    tags := r.toEntry.tags, expiry := none }

theorem migrateRows_encoded (A : Aead) (hA : A.Correct) (utf8dec : Bytes → Option String)
    (keys : Keys) (pkey : Nat)
    (rows : List Row) (recs : List Rec) (h : Forall2 (RowEncodes A keys) rows recs) :
    ∀ (db : Db), (∀ r ∈ recs, RecDecodes utf8dec r) → recs.Pairwise (fun a b => ¬(a.typ = b.typ ∧ a.name = b.name)) →
      (∀ it ∈ db.items, ∀ r ∈ recs, ¬(it.pid = 1 ∧ it.cat = r.typ ∧ it.name = r.name)) →
      ∃ (db' : Db) (added : List Item), migrateRows A utf8dec keys pkey rows db = .ok db' ∧
        db'.items = db.items ++ added ∧ added.map toEntry = recs.map Rec.toEntry ∧
        (∀ it ∈ added, it.pid = 1 ∧ it.key = pkey ∧ it.expiry = none) ∧ db'.profiles = db.profiles := by
  induction h with
  | nil => intro db _ _ _; exact ⟨db, [], rfl, by simp, rfl, by simp, rfl⟩
  | @cons row r rows recs hrow _ ih =>
    intro db hU hpw hfresh
    have hUr := hU r (by simp)
    have hdec := decryptItem_encoded A hA utf8dec keys row r hrow hUr
    have hUt : utf8dec (utf8 r.typ) = some r.typ := hUr.1
    have hUn : utf8dec (utf8 r.name) = some r.name := hUr.2.1
    have hnodup : (db.items.any (·.sameIdent 1 pkey 2 r.typ r.name)) = false := by
      apply Bool.eq_false_iff.mpr
      intro hany
      obtain ⟨it, hit, hs⟩ := List.any_eq_true.mp hany
      have := (Askar.Store.Lemmas.sameIdent_iff it 1 pkey 2 r.typ r.name).mp hs
      exact hfresh it hit r (by simp) ⟨this.1, this.2.2.2.1, this.2.2.2.2⟩
    simp only [List.pairwise_cons] at hpw
    let newRow := migratedRow pkey (nextId (db.items.map (·.id))) r
    have hstep : insertMigrated utf8dec pkey db
        { id := row.id, typ := utf8 r.typ, name := utf8 r.name, value := some r.value, tags := r.toEntry.tags } =
        .ok { db with items := db.items ++ [newRow] } := by
      simp only [insertMigrated, hUt, hUn, Option.isSome_some, if_true, hnodup, Bool.false_eq_true, if_false,
        Option.getD_some, newRow, migratedRow]
    obtain ⟨db', added, hm, hitems, hmap, hall, hprof⟩ := ih { db with items := db.items ++ [newRow] }
      (fun r' hr' => hU r' (by simp [hr'])) hpw.2 (by
      intro it hit r' hr' hc
      simp only [List.mem_append, List.mem_singleton] at hit
      rcases hit with hit | rfl
      · exact hfresh it hit r' (by simp [hr']) hc
      · exact hpw.1 r' hr' ⟨hc.2.1, hc.2.2⟩)
    refine ⟨db', newRow :: added, ?_, ?_, ?_, ?_, hprof⟩
    · simp only [migrateRows, hdec, hstep, hm]
    · rw [hitems]; simp
    · simp only [List.map_cons, hmap]
      congr 1
    · intro it hit
      simp only [List.mem_cons] at hit
      rcases hit with rfl | hit
      · exact ⟨rfl, rfl, rfl⟩
      · exact hall it hit

/-- **migrate_rows_exact** -/
theorem migrate_rows_exact (A : Aead) (hA : A.Correct) (utf8dec : Bytes → Option String)
    (unwrapKeys : Bytes → Option Keys) (keys : Keys) (pkey : Nat)
    (w : Wallet) (walletName : String) (recs : List Rec)
    (hU : ∀ r ∈ recs, RecDecodes utf8dec r)
    (hfresh : w.migrated = false) (hkeys : unwrapKeys w.keysEnc = some keys)
    (henc : Forall2 (RowEncodes A keys) w.rows recs)
    (huniq : recs.Pairwise (fun a b => ¬(a.typ = b.typ ∧ a.name = b.name))) :
    ∃ st : StoreSt, migrate A utf8dec unwrapKeys pkey w walletName = .ok st ∧
      abs ⟨1, pkey⟩ st.db = recs.map Rec.toEntry ∧
      (∀ it ∈ st.db.items, it.key = pkey ∧ it.expiry = none) ∧
      st.db.profiles = [⟨1, walletName, pkey⟩] ∧ st.default = walletName ∧
      resolve st.db st.h walletName = .ok (⟨1, pkey⟩, st.h) := by
  obtain ⟨db', added, hm, hitems, hmap, hall, hprof⟩ :=
    migrateRows_encoded A hA utf8dec keys pkey w.rows recs henc { profiles := [⟨1, walletName, pkey⟩] } hU huniq (by simp)
  refine ⟨{ db := db', h := { cache := [(walletName, 1, pkey)], nextKey := pkey + 1 }, default := walletName }, ?_, ?_, ?_, ?_, rfl, ?_⟩
  · simp only [migrate, hfresh, Bool.false_eq_true, if_false, hkeys, hm]
  · simp only [abs, hitems, List.nil_append]
    rw [List.filter_eq_self.mpr (by intro it hit; simp [(hall it hit).1]), hmap]
  · intro it hit
    simp only [hitems, List.nil_append] at hit
    exact ⟨(hall it hit).2.1, (hall it hit).2.2⟩
  · simpa using hprof
  · simp [resolve, cacheGet]

end Lemmas
end Askar.Indy
