/-
C20, Model B — formatting and logging as non-interference.

For every public secret-bearing type the `Debug` implementation of the CURRENT tree (non-test cfg) is written down
as a template: a list of pieces that are constant text, a rendering of the public part of the value, or a rendering
of the SECRET part (hex, Rust's `{:?}` of a byte slice, or text).  The output is `render template value`; a type is
`leaky` iff its template mentions the secret.  The templates are transcribed by hand from the `impl Debug` /
`#[derive(Debug)]` sites named next to each line; the tie to the code is the correspondence run (`c20:fmt`,
`c20:log`), in which the harness formats real values built around known secrets and searches the text.

The table follows the code: for the six types whose derived `Debug` printed the secret (D9, D16, D17 and the two further types
found by this check) both variants are written down and a `FmtCfg`, read from the source on every run, selects between them.
-/
import AskarModel.Base.Bytes
import AskarModel.Generated.Flags

namespace Askar.SecretFmt

inductive Alg
  | a128gcm | a256gcm | a128cbchs256 | a256cbchs512 | a128kw | a256kw
  | bls12381g1 | bls12381g2 | bls12381g1g2 | c20p | xc20p | ed25519 | x25519 | k256 | p256 | p384
deriving DecidableEq, Repr, Inhabited

def Alg.all : List Alg :=
  [.a128gcm, .a256gcm, .a128cbchs256, .a256cbchs512, .a128kw, .a256kw, .bls12381g1, .bls12381g2, .bls12381g1g2,
   .c20p, .xc20p, .ed25519, .x25519, .k256, .p256, .p384]

def Alg.name : Alg → String
  | .a128gcm => "a128gcm" | .a256gcm => "a256gcm" | .a128cbchs256 => "a128cbchs256" | .a256cbchs512 => "a256cbchs512"
  | .a128kw => "a128kw" | .a256kw => "a256kw" | .bls12381g1 => "bls12381g1" | .bls12381g2 => "bls12381g2"
  | .bls12381g1g2 => "bls12381g1g2" | .c20p => "c20p" | .xc20p => "xc20p" | .ed25519 => "ed25519" | .x25519 => "x25519"
  | .k256 => "k256" | .p256 => "p256" | .p384 => "p384"

def Alg.isBls : Alg → Bool
  | .bls12381g1 | .bls12381g2 | .bls12381g1g2 => true
  | _ => false

/-- failing operations whose error value is formatted (`{}`, `{:?}`) -/
inductive ErrCase
  | secretBytesLen | jwkMismatch | jwkGarbage | badRawKey | wrongPassKey | decryptBadTag
  -- errors of the storage crate taken directly (its own `Display` / `source`), of the crypto crate, and of the top-level crate with a cause
  | storageGarbageFile | topGarbageFile | storageOnDirectory | storageMissingDir | storageUnknownScheme | storageBadParam
  | storageKindOnly | cryptoJwkGarbage | cryptoSecretLen | cryptoBadTag
deriving DecidableEq, Repr, Inhabited

/-- length of the `source()` chain of the error each scenario returns — where a cause survives is a fact of the code:
    `From<CryptoError>` (both crates) keeps the message only; `From<StorageError>` moves the cause; sqlx's `Database` error has the
    driver's error as its own source (2 links); `ParseIntError` / `serde_json_core` errors are leaves (1 link) -/
def ErrCase.chain : ErrCase → Nat
  | .secretBytesLen | .jwkMismatch | .jwkGarbage | .badRawKey | .decryptBadTag => 0
  | .wrongPassKey => 1                 -- "Error decrypting profile key" caused by the crypto error
  | .storageGarbageFile | .topGarbageFile | .storageOnDirectory | .storageMissingDir | .storageKindOnly => 2
  | .storageUnknownScheme => 0
  | .storageBadParam => 1
  | .cryptoJwkGarbage => 1
  | .cryptoSecretLen | .cryptoBadTag => 0

/-- the public secret-bearing types of the three crates -/
inductive Ty
  | secretBytes            -- askar-crypto buffer/secret.rs        impl Debug: "<secret>"
  | arrayKey               -- buffer/array.rs                      impl Debug: ArrayKey("<secret>")
  | passKey                -- askar-storage protect/pass_key.rs    impl Debug: PassKey("<secret>")
  | entry                  -- askar-storage entry.rs               derive; value : SecretBytes
  | options (inQuery : Bool)     -- askar-storage options.rs       derive over `password` / `query`          (D9)
  | pgOptions (inQuery : Bool)   -- backend/postgres/provision.rs  derive over `uri`, `admin_uri`            (found by this check)
  | argon2                 -- askar-crypto kdf/argon2.rs           derive over `password: &[u8]`             (D17)
  | blsKeyGen              -- alg/bls.rs                           derive over `ikm: &[u8]`                  (D17)
  | randomDet              -- random.rs                            impl Debug: "RandomDet {}"
  | jwkParts (a : Alg)     -- jwk/parts.rs                         derive over `d`, `k` (OptAttr prints the text) (found by this check)
  | key (a : Alg)          -- alg/*.rs concrete key types; BlsKeyPair prints `secret: Some(BlsSecretKey(0x…))` (D16)
  | anyKey (a : Alg)       -- alg/any.rs KeyT<T>(T): derive, delegates
  | localKey (a : Alg)     -- src/kms/local_key.rs: derive, delegates
  | encrypted              -- src/kms/enc.rs: derive; buffer : SecretBytes
  | keyEntry               -- src/kms/entry.rs: derive; params.data : Option<SecretBytes>
  | store | session        -- src/store.rs: derive over the backend handle (impl Debug for SqliteBackend)
  | scan                   -- askar-storage entry.rs: impl Debug for Scan: "Scan { page_size }"
  | error (c : ErrCase)    -- error.rs (three crates): message text + cause
deriving DecidableEq, Repr, Inhabited

inductive Piece
  | lit (s : String)
  | pub
  | secHex | secDecList | secText
deriving DecidableEq, Repr, Inhabited

def Piece.usesSecret : Piece → Bool
  | .secHex | .secDecList | .secText => true
  | _ => false

/-- one token of formatter output: text that does not depend on the secret, or an encoding of the secret bytes -/
inductive Tok
  | text (s : String)
  | hex (b : List UInt8)
  | decList (b : List UInt8)
  | raw (b : List UInt8)
deriving DecidableEq, Repr, Inhabited

structure Val where
  pub : String
  sec : List UInt8
deriving Repr, Inhabited

def Piece.render (v : Val) : Piece → Tok
  | .lit s => .text s
  | .pub => .text v.pub
  | .secHex => .hex v.sec
  | .secDecList => .decList v.sec
  | .secText => .raw v.sec

def render (ps : List Piece) (v : Val) : List Tok := ps.map (Piece.render v)

def redactedKey : List Piece := [.lit "KeyPair { secret: <redacted>, public: ", .pub, .lit " }"]

/-- Which of the six `Debug` implementations are hand-written redacting ones.  The fields are read from the SOURCE on every run
    (`Generated/Flags.lean`, written by tools/extract.py: a flag is true iff an `impl Debug for T` exists in the file), so the
    model follows the tree it is checked against: `pinned` is the tree as it was pinned (all six derived: D9, D16, D17 and the two
    types found by this check), `fixed` the repaired tree, `current` whatever /repo is now. -/
structure FmtCfg where
  optionsRedacts : Bool      -- askar-storage/src/options.rs                      impl Debug for Options          (D9)
  blsSecretRedacts : Bool    -- askar-crypto/src/alg/bls.rs                       impl Debug for BlsSecretKey     (D16)
  blsKeyGenRedacts : Bool    -- askar-crypto/src/alg/bls.rs                       impl Debug for BlsKeyGen        (D17)
  argon2Redacts : Bool       -- askar-crypto/src/kdf/argon2.rs                    impl Debug for Argon2           (D17)
  pgOptionsRedacts : Bool    -- askar-storage/src/backend/postgres/provision.rs   impl Debug for PostgresStoreOptions
  jwkPartsRedacts : Bool     -- askar-crypto/src/jwk/parts.rs                     impl Debug for JwkParts
deriving DecidableEq, Repr, Inhabited

def FmtCfg.pinned : FmtCfg := ⟨false, false, false, false, false, false⟩
def FmtCfg.fixed : FmtCfg := ⟨true, true, true, true, true, true⟩
def FmtCfg.current : FmtCfg :=
  { optionsRedacts := Askar.Generated.Flags.optionsDebugRedacts
    blsSecretRedacts := Askar.Generated.Flags.blsSecretDebugRedacts
    blsKeyGenRedacts := Askar.Generated.Flags.blsKeyGenDebugRedacts
    argon2Redacts := Askar.Generated.Flags.argon2DebugRedacts
    pgOptionsRedacts := Askar.Generated.Flags.pgOptionsDebugRedacts
    jwkPartsRedacts := Askar.Generated.Flags.jwkPartsDebugRedacts }

def FmtCfg.allRedact (c : FmtCfg) : Bool :=
  c.optionsRedacts && c.blsSecretRedacts && c.blsKeyGenRedacts && c.argon2Redacts && c.pgOptionsRedacts && c.jwkPartsRedacts

/-- concrete key types (alg/*.rs): redacted; `BlsKeyPair` prints its `secret: Option<BlsSecretKey>` field, whose `Debug` is derived
    over the scalar (D16) or, repaired, `BlsSecretKey("<secret>")` -/
def keyFmt (c : FmtCfg) (a : Alg) : List Piece :=
  if a.isBls then
    if c.blsSecretRedacts then
      [.lit "BlsKeyPair { crv: ", .pub, .lit ", secret: Some(BlsSecretKey(\"<secret>\")), public: ", .pub, .lit " }"]
    else
      [.lit "BlsKeyPair { crv: ", .pub, .lit ", secret: Some(BlsSecretKey(0x", .secHex, .lit ")), public: ", .pub, .lit " }"]
  else redactedKey

/-- `Debug` of the tree described by `c` (derived variant = prints the secret; hand-written variant = what the repaired impl prints) -/
def debugFmt (c : FmtCfg) : Ty → List Piece
  | .secretBytes => [.lit "<secret>"]
  | .arrayKey => [.lit "ArrayKey(\"<secret>\")"]
  | .passKey => [.lit "PassKey(\"<secret>\")"]
  | .entry => [.lit "Entry { ", .pub, .lit ", value: <secret>, tags: … }"]
  | .options false =>
    if c.optionsRedacts then [.lit "Options { ", .pub, .lit ", password: \"<secret>\", …, query: {}, … }"]
    else [.lit "Options { ", .pub, .lit ", password: \"", .secText, .lit "\", … }"]
  | .options true =>
    -- repaired: the query is printed as the set of its keys
    if c.optionsRedacts then [.lit "Options { ", .pub, .lit ", password: \"\", …, query: {\"admin_account\", \"admin_password\"}, … }"]
    else [.lit "Options { ", .pub, .lit ", query: {… \"admin_password\": \"", .secText, .lit "\"}, … }"]
  | .pgOptions false =>
    -- repaired: `uri` and `admin_uri` are not printed at all (`finish_non_exhaustive`)
    if c.pgOptionsRedacts then [.lit "PostgresStoreOptions { ", .pub, .lit ", host: …, name: …, username: …, schema: …, .. }"]
    else [.lit "PostgresStoreOptions { ", .pub, .lit ", uri: \"postgres://user:", .secText, .lit "@…\", admin_uri: \"postgres://user:", .secText, .lit "@…\", … }"]
  | .pgOptions true =>
    if c.pgOptionsRedacts then [.lit "PostgresStoreOptions { ", .pub, .lit ", host: …, name: …, username: …, schema: …, .. }"]
    else [.lit "PostgresStoreOptions { ", .pub, .lit ", admin_uri: \"postgres://adm:", .secText, .lit "@…\", … }"]
  | .argon2 =>
    if c.argon2Redacts then [.lit "Argon2 { password: \"<secret>\", salt: ", .pub, .lit ", params: … }"]
    else [.lit "Argon2 { password: ", .secDecList, .lit ", salt: ", .pub, .lit ", params: … }"]
  | .blsKeyGen =>
    if c.blsKeyGenRedacts then [.lit "BlsKeyGen { salt: None, ikm: \"<secret>\" }"]
    else [.lit "BlsKeyGen { salt: None, ikm: ", .secDecList, .lit " }"]
  | .randomDet => [.lit "RandomDet {}"]
  | .jwkParts _ =>
    if c.jwkPartsRedacts then [.lit "JwkParts { ", .pub, .lit ", d: <secret>, k: None, key_ops: None }"]
    else [.lit "JwkParts { ", .pub, .lit ", d / k: \"", .secText, .lit "\", key_ops: None }"]
  | .key a => keyFmt c a
  | .anyKey a => [.lit "KeyT("] ++ keyFmt c a ++ [.lit ")"]
  | .localKey a => [.lit "LocalKey { inner: KeyT("] ++ keyFmt c a ++ [.lit "), ephemeral: false }"]
  | .encrypted => [.lit "Encrypted { buffer: <secret>, ", .pub, .lit " }"]
  | .keyEntry => [.lit "KeyEntry { ", .pub, .lit ", params: KeyParams { …, data: Some(<secret>) }, … }"]
  | .store => [.lit "Store(AnyBackend(WrapBackend(SqliteBackend { ", .pub, .lit " })))"]
  | .session => [.lit "Session(AnyBackendSession(DbSession { … }))"]
  | .scan => [.lit "Scan { page_size: ", .pub, .lit " }"]
  | .error _ => [.lit "Error { kind: ", .pub, .lit ", cause: …, message: … }"]

/-- decidable classification: does `Debug` of this type depend on the secret part? -/
def leaky (c : FmtCfg) (t : Ty) : Bool := (debugFmt c t).any Piece.usesSecret

/-- the library's log call sites whose arguments are not plain labels / handles / algorithm names:
    `debug!("Open|Provision|Remove store with options: {:?}", &opts)` in askar-storage/src/any.rs -/
inductive LogSite
  | anyOptions        -- prints `Options` with `{:?}`
  | label             -- every other site: constant text, handles, algorithm names, counters
  | ffiLabel          -- src/ffi/*.rs `trace!` / `debug!` / `info!`: constant text, `Handle(0x…)` / `StoreHandle(n)`, algorithm names
deriving DecidableEq, Repr

def LogSite.leaky (c : FmtCfg) : LogSite → Bool
  | .anyOptions => Askar.SecretFmt.leaky c (Ty.options false) || Askar.SecretFmt.leaky c (Ty.options true)
  | .label => false
  | .ffiLabel => false

/-- scenario of a log capture: which sites fire, and whether the URI carried credentials -/
structure Scenario where
  sites : List LogSite
  uriHasCredentials : Bool

def Scenario.leaks (c : FmtCfg) (s : Scenario) : Bool :=
  s.uriHasCredentials && s.sites.any (LogSite.leaky c)

/-! ### error TEXT: `Display`, `Debug`, the `source()` chain, and the C API's JSON

An error of any of the three crates is `{ kind, cause, message }`; `Display` writes the message (or, without one, the kind's text) and
then "\nCaused by: " and the cause's `Display` (askar-storage/src/error.rs, askar-crypto/src/error.rs, src/error.rs — the same
body three times); `Debug` is derived; `source()` is the cause; `askar_get_current_error` is `{"code", "message": to_string()}`.
An error WITH its chain is the list of its links, outermost first (foreign causes — sqlx, io, `ParseIntError`, serde_json_core — are
links whose message is their own text). -/

def Tok.isSecret : Tok → Bool
  | .text _ => false
  | _ => true

structure ErrLink where
  kind : String
  message : Option (List Tok)

def ErrLink.head (l : ErrLink) : List Tok := l.message.getD [.text l.kind]

def errDisplay : List ErrLink → List Tok
  | [] => []
  | [l] => l.head
  | l :: l' :: rest => l.head ++ [.text "\nCaused by: "] ++ errDisplay (l' :: rest)

def errDebug : List ErrLink → List Tok
  | [] => [.text "None"]
  | l :: rest =>
    [.text ("Error { kind: " ++ l.kind ++ ", cause: ")] ++ errDebug rest ++ [.text ", message: "] ++ l.message.getD [.text "None"] ++ [.text " }"]

/-- `askar_get_current_error`: code and `err.to_string()` -/
def errJson (c : List ErrLink) : List Tok := [.text "{\"code\":…,\"message\":\""] ++ errDisplay c ++ [.text "\"}"]

/-- every text the run looks at: `{}` and `{:?}` / `{:#?}` of the error and of every error on its `source()` chain, and the JSON -/
def errTexts : List ErrLink → List (List Tok)
  | [] => []
  | l :: rest => errDisplay (l :: rest) :: errDebug (l :: rest) :: errTexts rest

/-- the messages of a chain -/
def chainMessages (c : List ErrLink) : List Tok := c.flatMap fun l => l.message.getD []

/-! ### the C API's logger (`src/ffi/log.rs`, `CustomLogger::log`) -/

structure LogRecord where
  target : List Tok
  message : List Tok
  modulePath : Option (List Tok)
  file : Option (List Tok)

/-- what the C callback receives (`None` when the logger is disabled or the `enabled` callback says no): the record's own target,
    formatted message, module path and file (NULL when absent) — nothing is added -/
def customLoggerForward (enabled : Bool) (r : LogRecord) : Option (List (List Tok)) :=
  if enabled then some [r.target, r.message, r.modulePath.getD [], r.file.getD []] else none

/-! ### observations: types OUTSIDE the property's list

"The Debug and Display output of keys, pass keys, secret buffers, store handles and errors …": the following print record contents or
bytes BY DESIGN and are not in that list; the run records what they print as observations (`obs:*` counters), never as failures. -/
inductive ObsTy
  | secretBytesAsHex      -- `SecretBytes::as_hex()`: `HexRepr` — `Display` is the hex text, the derived `Debug` the byte list (callers: tests only)
  | entryTagPlaintext     -- `impl Debug for EntryTag`: Plaintext(name, value)
  | entryTagEncrypted     -- … Encrypted(name, value): the tag value in the clear (it is encrypted at rest, not in memory)
  | entryTags             -- `Entry` (derive): `tags: [Encrypted(name, value)]` next to `value: <secret>`
  | tagFilter             -- `TagFilter` (derive over the WQL query): names and values
deriving DecidableEq, Repr, Inhabited

def obsFmt : ObsTy → List Piece
  | .secretBytesAsHex => [.secHex]
  | .entryTagPlaintext => [.lit "Plaintext(", .pub, .lit ", \"", .secText, .lit "\")"]
  | .entryTagEncrypted => [.lit "Encrypted(", .pub, .lit ", \"", .secText, .lit "\")"]
  | .entryTags => [.lit "Entry { ", .pub, .lit ", value: <secret>, tags: [Encrypted(", .pub, .lit ", \"", .secText, .lit "\")] }"]
  | .tagFilter => [.lit "TagFilter { query: Eq(", .pub, .lit ", \"", .secText, .lit "\") }"]

def obsLeaky (t : ObsTy) : Bool := (obsFmt t).any Piece.usesSecret

/-! Key objects on the heap (`Box<AnyKey>` inside `LocalKey`, `SecretBytes`, owned `PassKey`): every one of them has a
    `Drop` that zeroizes (`ArrayKey`, `Ed25519KeyPair`, `BlsSecretKey`, `PassKey`, the RustCrypto / dalek secret types),
    so the model of "create; use; drop" is: the block is cleared, then freed. -/
structure KeyBlock where
  cells : List UInt8

def dropKey (k : KeyBlock) : KeyBlock := ⟨k.cells.map fun _ => 0⟩

end Askar.SecretFmt
