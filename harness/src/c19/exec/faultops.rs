//! C19, coverage round 2 (rows 2 and 4): a backend that FAILS inside an accepted asynchronous call
//! (`RAISE(ABORT)` triggers / hidden tables installed out of band on the store's file and on the
//! twin's), and `askar_terminate` with calls pending (child process): every accepted call's callback
//! fires exactly once — with the call's own result, or with Unexpected from the drop guard.
use super::*;
use crate::rawsql::RawDb;

pub fn is_fault_op(name: &str) -> bool { matches!(name, "trigger" | "terminate") }

const RAISE: &str = "BEGIN SELECT RAISE(ABORT, 'verif fault'); END";

fn fault_sql(what: &str, on: bool) -> Vec<String> {
    let trig = |name: &str, ev: &str, table: &str| if on { format!("CREATE TRIGGER {} BEFORE {} ON {} {}", name, ev, table, RAISE) } else { format!("DROP TRIGGER {}", name) };
    let hide = |table: &str| if on { format!("ALTER TABLE {} RENAME TO {}_verif_hidden", table, table) } else { format!("ALTER TABLE {}_verif_hidden RENAME TO {}", table, table) };
    match what {
        "profiles_insert" => vec![trig("verif_c19_pi", "INSERT", "profiles")],
        "profiles_delete" => vec![trig("verif_c19_pd", "DELETE", "profiles")],
        "profiles_update" => vec![trig("verif_c19_pu", "UPDATE", "profiles")],
        "config_write" => vec![trig("verif_c19_ci", "INSERT", "config"), trig("verif_c19_cu", "UPDATE", "config")],
        "items_insert" => vec![trig("verif_c19_ii", "INSERT", "items")],
        "items_delete" => vec![trig("verif_c19_id", "DELETE", "items")],
        "profiles_hidden" => vec![hide("profiles")],
        "config_hidden" => vec![hide("config")],
        _ => vec![],
    }
}

fn path_of(uri: &str) -> String { let p = uri.strip_prefix("sqlite://").unwrap_or(uri); p.split('?').next().unwrap_or(p).to_string() }

pub fn step_fault(run: &mut Run, i: usize, op: &Value) -> Value {
    match op["op"].as_str().unwrap_or("") {
        "trigger" => {
            let of = op["of"].as_u64().unwrap_or(0) as usize;
            let (what, on) = (op["what"].as_str().unwrap_or(""), op["on"].as_bool().unwrap_or(false));
            let Some((a, b)) = run.files.get(&of).cloned() else { run.fail(i, op, "trigger:setup-failed".into(), json!({"diag": "no such file"})); return json!({"trigger": "failed"}); };
            for p in [path_of(&a), path_of(&b)] {
                // set-up: out-of-band DDL through a raw connection (busy timeout 5 s), retried
                let mut err = String::new();
                let mut ok = false;
                for k in 0..6u64 {
                    match RawDb::open(&p).and_then(|db| { for s in fault_sql(what, on) { db.exec(&s)?; } Ok(()) }) {
                        Ok(()) => { ok = true; break; }
                        Err(e) => { err = e; std::thread::sleep(Duration::from_millis(30 * (k + 1))); }
                    }
                }
                if !ok { run.fail(i, op, "trigger:setup-failed".into(), json!({"diag": format!("{} {} on {}: {}", what, on, p, err)})); return json!({"trigger": "failed"}); }
            }
            json!({"trigger": "ok"})
        }
        "terminate" => terminate_parent(run, i, op),
        _ => json!({"err": "BadOp"}),
    }
}

// ------------------------------------------------------------------------------------------------
// `askar_terminate` with calls pending.  Runs in a child process (the runtime is gone afterwards).

fn wait_code(id: i64) -> Option<Code> { wait_cb(id, Duration::from_secs(60)).map(|v| v.code()) }

pub fn terminate_child(_case: &Value) -> Value {
    let dir = crate::store_case::scratch_dir();
    let (p1, p2) = (format!("{}/c19-term-{}-a.db", dir, std::process::id()), format!("{}/c19-term-{}-b.db", dir, std::process::id()));
    for p in [&p1, &p2] { for s in ["", "-wal", "-shm", "-journal"] { std::fs::remove_file(format!("{}{}", p, s)).ok(); } }
    let call = |f: &dyn Fn(i64) -> Code| -> Option<CbVal> { let id = new_cb_id(); let r = f(id); let v = if r == 0 { wait_cb(id, Duration::from_secs(60)) } else { None }; take_count(id); v };
    let (uri, m, k) = (cstr_arg(&json!(format!("sqlite://{}?busy_timeout=1500", p1))), cstr_arg(&json!("raw")), cstr_arg(&json!(crate::c19::gen::K1)));
    let mut st = 0;
    for _ in 0..6 { if let Some(CbVal::Handle(0, h)) = call(&|id| unsafe { askar_store_provision(uri.ptr, m.ptr, k.ptr, std::ptr::null(), 1, Some(cb_handle), id) }) { st = h; break; } std::thread::sleep(Duration::from_millis(50)); }
    if st == 0 { return json!({"out": {"setup": "failed"}}); }
    let start = |txn: bool| -> usize { match call(&|id| unsafe { askar_session_start(H(st), std::ptr::null(), txn as i8, Some(cb_handle), id) }) { Some(CbVal::Handle(0, h)) => h, _ => 0 } };
    let insert = |s: usize, n: &str, len: usize| -> Code {
        let (c, nm) = (cstr_arg(&json!("c")), cstr_arg(&json!(n)));
        let v = vec![7u8; len];
        call(&|id| unsafe { askar_session_update(H(s), 0, c.ptr, nm.ptr, ByteBuf { len: v.len() as i64, data: v.as_ptr() }, std::ptr::null(), -1, Some(cb_unit), id) }).map_or(-1, |v| v.code())
    };
    let s0 = start(false);
    for r in 0..60 { insert(s0, &format!("r{}", r), 16384); }
    call(&|id| unsafe { askar_session_close(H(s0), 0, Some(cb_unit), id) });
    let (sb, sc) = (start(false), start(false));
    let locker = start(true);
    let lock_held = locker != 0 && insert(locker, "locked", 8) == 0;
    if sb == 0 || sc == 0 { return json!({"out": {"setup": "failed"}}); }
    // calls that are accepted and still pending when the runtime is shut down
    let (c, nm) = (cstr_arg(&json!("c")), cstr_arg(&json!("pending")));
    let v = [1u8; 8];
    let (uri2, kdf, pw) = (cstr_arg(&json!(format!("sqlite://{}", p2))), cstr_arg(&json!("kdf:argon2i:int")), cstr_arg(&json!("pw")));
    let ids: Vec<i64> = (0..4).map(|_| new_cb_id()).collect();
    let rets = unsafe { [
        ("update-behind-write-lock", askar_session_update(H(sb), 0, c.ptr, nm.ptr, ByteBuf { len: 8, data: v.as_ptr() }, std::ptr::null(), -1, Some(cb_unit), ids[0])),
        ("fetch_all-1MiB", askar_session_fetch_all(H(sc), std::ptr::null(), std::ptr::null(), -1, std::ptr::null(), 0, 0, Some(cb_ptr), ids[1])),
        ("provision-kdf", askar_store_provision(uri2.ptr, kdf.ptr, pw.ptr, std::ptr::null(), 1, Some(cb_handle), ids[2])),
        ("get_profile_name", askar_store_get_profile_name(H(st), Some(cb_str), ids[3])),
    ] };
    let t0 = std::time::Instant::now();
    unsafe { askar_terminate() };
    let term_ms = t0.elapsed().as_millis() as u64;
    // every guard has been dropped by now (the tasks were dropped with the runtime); give a straggler that was mid-callback a moment
    let mut pending = vec![];
    for (k, (what, r)) in rets.iter().enumerate() {
        let code = if *r == 0 { wait_cb(ids[k], Duration::from_secs(10)).map(|v| v.code()) } else { None };
        std::thread::sleep(Duration::from_millis(20));
        pending.push(json!({"what": what, "r": code_name(*r), "fires": take_count(ids[k]), "code": code.map(code_name)}));
    }
    // after the shutdown: an accepted call cannot be spawned; its guard is dropped inside the entry point
    let mut post = vec![];
    let mut probe = |what: &str, f: &dyn Fn(i64) -> Code, cb_given: bool| {
        let id = new_cb_id();
        let r = f(id);
        let fired_at_return = CALLS_len(id);
        std::thread::sleep(Duration::from_millis(30));
        let code = if cb_given && r == 0 { wait_code_now(id) } else { None };
        post.push(json!({"what": what, "r": code_name(r), "fires": take_count(id), "code": code.map(code_name), "sync": fired_at_return > 0}));
    };
    let (pn, bogus) = (cstr_arg(&json!("p9")), cstr_arg(&json!("x")));
    probe("get_profile_name", &|id| unsafe { askar_store_get_profile_name(H(st), Some(cb_str), id) }, true);
    probe("create_profile", &|id| unsafe { askar_store_create_profile(H(st), pn.ptr, Some(cb_str), id) }, true);
    probe("list_profiles", &|id| unsafe { askar_store_list_profiles(H(st), Some(cb_ptr), id) }, true);
    probe("session_count", &|id| unsafe { askar_session_count(H(sb), std::ptr::null(), std::ptr::null(), Some(cb_i64), id) }, true);
    probe("session_start", &|id| unsafe { askar_session_start(H(st), std::ptr::null(), 0, Some(cb_handle), id) }, true);
    probe("scan_next", &|id| unsafe { askar_scan_next(H(12345), Some(cb_ptr), id) }, true);
    probe("store_remove", &|id| unsafe { askar_store_remove(bogus.ptr, Some(cb_i8), id) }, true);
    probe("migrate", &|id| unsafe { askar_migrate_indy_sdk(bogus.ptr, bogus.ptr, bogus.ptr, bogus.ptr, Some(cb_unit), id) }, true);
    probe("session_close", &|id| unsafe { askar_session_close(H(sb), 0, Some(cb_unit), id) }, true);
    probe("store_close", &|id| unsafe { askar_store_close(H(st), Some(cb_unit), id) }, true);
    probe("store_close:no-callback", &|id| unsafe { askar_store_close(H(st), None, id) }, false);
    probe("get_profile_name:no-callback", &|id| unsafe { askar_store_get_profile_name(H(st), None, id) }, false);
    probe("set_default_profile:null-name", &|id| unsafe { askar_store_set_default_profile(H(st), std::ptr::null(), Some(cb_unit), id) }, true);
    // synchronous entry points do not need the runtime; a second terminate is a no-op
    let mut key = P(std::ptr::null()); let a = cstr_arg(&json!("ed25519"));
    let kg = unsafe { askar_key_generate(a.ptr, std::ptr::null(), 1, &mut key) };
    unsafe { askar_key_free(key); askar_terminate(); }
    let mut e: *const c_char = std::ptr::null();
    unsafe { askar_get_current_error(&mut e) }; take_str(e);
    for p in [&p1, &p2] { for s in ["", "-wal", "-shm", "-journal"] { std::fs::remove_file(format!("{}{}", p, s)).ok(); } }
    json!({"out": {"setup": "ok", "lock_held": lock_held, "pending": pending, "post": post, "terminate_ms": term_ms, "key_generate": code_name(kg)}})
}

#[allow(non_snake_case)]
fn CALLS_len(id: i64) -> usize { pending_table().iter().find(|(k, _)| *k == id).map_or(0, |(_, n)| *n) }
fn wait_code_now(id: i64) -> Option<Code> { let _ = wait_code; wait_cb(id, Duration::from_millis(1)).map(|v| v.code()) }

fn terminate_parent(run: &mut Run, i: usize, op: &Value) -> Value {
    use std::io::Write;
    use std::process::{Command, Stdio};
    let exe = std::env::current_exe().expect("current_exe");
    let mut child = Command::new(exe).args(["exec", "--threads", "1"]).env("VERIF_SCRATCH", crate::store_case::scratch_dir()).stdin(Stdio::piped()).stdout(Stdio::piped()).stderr(Stdio::null()).spawn().expect("spawn child");
    child.stdin.take().unwrap().write_all(b"{\"id\":0,\"kind\":\"c19:child\",\"probe\":\"terminate\"}\n").ok();
    let out = child.wait_with_output().expect("child");
    let status_ok = out.status.success();
    let v: Value = String::from_utf8_lossy(&out.stdout).lines().find_map(|l| serde_json::from_str::<Value>(l).ok()).unwrap_or(Value::Null);
    let o = v["out"].clone();
    let diag = json!({"status": format!("{:?}", out.status), "child": o});
    if !status_ok { run.fail(i, op, "terminate:child-exit-status".into(), diag.clone()); }
    if o["setup"] != "ok" { run.fail(i, op, "terminate:setup-failed".into(), diag.clone()); return json!({"terminate": {"setup": "failed"}}); }
    // the property: every accepted call's callback fires exactly once (with the call's own result or an error code), none otherwise
    let mut all_once = true;
    let mut codes = vec![];
    for p in o["pending"].as_array().cloned().unwrap_or_default() {
        let accepted = p["r"] == "Success";
        let fires = p["fires"].as_u64().unwrap_or(99);
        if fires != accepted as u64 { all_once = false; run.fail(i, op, format!("terminate:pending:{}:callback-{}-times", p["what"].as_str().unwrap_or(""), fires), diag.clone()); }
        codes.push(json!([p["what"], p["code"]]));
    }
    let mut post = vec![];
    for p in o["post"].as_array().cloned().unwrap_or_default() {
        let what = p["what"].as_str().unwrap_or("").to_string();
        let expect = (p["r"] == "Success" && !what.ends_with("no-callback")) as u64;
        let fires = p["fires"].as_u64().unwrap_or(99);
        if fires != expect { run.fail(i, op, format!("terminate:after:{}:callback-{}-times-expected-{}", what, fires, expect), diag.clone()); }
        if expect == 1 && p["code"] == "Success" { run.fail(i, op, format!("terminate:after:{}:Success-delivered-without-runtime", what), diag.clone()); }
        post.push(json!([what, p["r"], fires, p["code"], p["sync"]]));
    }
    if o["key_generate"] != "Success" { run.fail(i, op, "terminate:synchronous-entry-point-fails-after-shutdown".into(), diag.clone()); }
    run.feat(&format!("terminate:pending={}", Value::Array(codes.clone())));
    run.tw.push((i, json!({"pending": codes, "terminate_ms": o["terminate_ms"], "lock_held": o["lock_held"]})));
    json!({"terminate": {"pending_all_once": all_once, "post": post, "key_generate": o["key_generate"], "exit_ok": status_ok}})
}
