/-
C10: histories of committed transactions and the verified history checker.
A history is what the concurrency harness observes on the real store: for every committed
transaction the values it read and the values it wrote, the states concurrent readers saw, and
the final state.  `accept` replays the transactions in the proposed serial order (the harness
proposes the order given by the version record every transaction increments) and is proved sound:
acceptance implies serializability.  Also: the serial order of the lock-protocol model
(`TxStore`, Model/Session.lean), `linearize`.
-/
import AskarModel.Model.Session
import AskarModel.Model.Spec

namespace Askar.History

abbrev State := List (String × Int)

def get (st : State) (k : String) : Option Int := (st.find? (·.1 == k)).map (·.2)

def put (st : State) (k : String) (v : Int) : State := (k, v) :: st.filter (·.1 != k)

structure Txn where
  reads : List (String × Int)
  writes : List (String × Int)
  deriving Repr, Inhabited

def Txn.readsOk (t : Txn) (st : State) : Bool := t.reads.all fun kv => get st kv.1 == some kv.2

def Txn.apply (t : Txn) (st : State) : State := t.writes.foldl (fun s kv => put s kv.1 kv.2) st

/-- serial execution: every transaction must read exactly what its predecessors left -/
def replay : State → List Txn → Option State
  | st, [] => some st
  | st, t :: ts => if t.readsOk st then replay (t.apply st) ts else none

/-- equality of two states on a universe of keys -/
def sameOn (keys : List String) (a b : State) : Bool := keys.all fun k => get a k == get b k

/-- the checker: replay in the proposed order, compare the result with the observed final state -/
def accept (keys : List String) (init : State) (txns : List Txn) (final : State) : Bool :=
  match replay init txns with
  | some st => sameOn keys st final
  | none => false

/-- the observed outcome is that of SOME serial order of the committed transactions -/
def Serializable (keys : List String) (init : State) (txns : List Txn) (final : State) : Prop :=
  ∃ order : List Txn, order.Perm txns ∧ ∃ st, replay init order = some st ∧ sameOn keys st final = true

/-- a reader's snapshot is checked against the prefix state its own version value names -/
def snapshotOk (keys : List String) (init : State) (txns : List Txn) (snap : State) : Bool :=
  match get snap "ver" with
  | some v =>
    if v < 0 then false else
    match replay init (txns.take v.toNat) with
    | some st => sameOn keys st snap
    | none => false
  | none => false

/-- "transaction `t` increments key `k`": it read some `r` for `k` and leaves `r + 1` there -/
def Txn.Increments (t : Txn) (k : String) : Prop :=
  ∃ r, (k, r) ∈ t.reads ∧ ∀ st, get (t.apply st) k = some (r + 1)

end Askar.History

namespace Askar.Store

/-- The serial order of the lock-protocol model: a transaction's successful statements placed
    together at its commit point, plain-session writes where they happen, refused calls and
    rolled-back transactions dropped.  `pend` = the open transaction's statements so far. -/
def linearize : Option (Nat × List (Sess × Op)) → List Call → List (Sess × Op)
  | _, [] => []
  | none, .stmt i true s op :: cs => linearize (some (i, [(s, op)])) cs
  | some (i, acc), .stmt j true s op :: cs =>
    if i == j then linearize (some (i, acc ++ [(s, op)])) cs else linearize (some (i, acc)) cs
  | none, .stmt _ false s op :: cs => (s, op) :: linearize none cs
  | some p, .stmt _ false _ _ :: cs => linearize (some p) cs     -- a write is refused, a read changes nothing
  | none, .commit _ :: cs => linearize none cs
  | none, .rollback _ :: cs => linearize none cs
  | some (i, acc), .commit j :: cs => if i == j then acc ++ linearize none cs else linearize (some (i, acc)) cs
  | some (i, acc), .rollback j :: cs => if i == j then linearize none cs else linearize (some (i, acc)) cs

/-- the working copy of an open transaction is its statements run on the state it started from -/
def pendOk (like : Bytes → Bytes → Bool) (page : Nat) (now : Int) (st : TxStore) : Option (Nat × List (Sess × Op)) → Prop
  | none => st.wtxn = none
  | some (i, acc) => st.wtxn = some (i, (runMulti like page now st.db acc).1)

end Askar.Store
