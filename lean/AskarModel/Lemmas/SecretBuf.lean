/- Helper lemmas for C20 Model A (SecretBytes over an explicit heap). -/
import AskarModel.Model.SecretBuf

namespace Askar.SecretBuf
namespace Lemmas

/-- every event so far is acceptable in the strict sense (freed blocks clean, no realloc) -/
def Good (h : Heap) : Prop := ∀ e ∈ h.log, e.Strict

theorem good_init : Good Heap.init := by
  intro e he; simp [Heap.init] at he

theorem good_push {h : Heap} {e : Event} (hg : Good h) (he : e.Strict) : Good (h.push e) := by
  intro x hx
  simp only [Heap.push, List.mem_cons] at hx
  rcases hx with rfl | hx
  · exact he
  · exact hg x hx

theorem clean_replicate (n : Nat) : clean (List.replicate n (none : Cell)) := by
  intro c hc; exact (List.mem_replicate.mp hc).2

/-! ### primitives -/

theorem alloc_data (n : Nat) (h : Heap) : (alloc n h).1.data = [] := by
  unfold alloc; split <;> rfl

theorem alloc_spare (n : Nat) (h : Heap) : (alloc n h).1.spare = List.replicate n none := by
  unfold alloc; split
  · next hn => subst hn; rfl
  · rfl

theorem alloc_cap (n : Nat) (h : Heap) : (alloc n h).1.cap = n := by
  simp [RVec.cap, alloc_data, alloc_spare]

theorem alloc_good {n : Nat} {h : Heap} (hg : Good h) : Good (alloc n h).2 := by
  unfold alloc; split
  · exact hg
  · intro x hx
    simp only [List.mem_cons] at hx
    rcases hx with rfl | hx
    · trivial
    · exact hg x hx

theorem vecReserve_fit (P : Params) (v : RVec) (extra : Nat) (h : Heap) (hf : extra ≤ v.spare.length) :
    vecReserve P v extra h = (v, h) := by
  simp [vecReserve, hf]

theorem vecExtend_fit (P : Params) (v : RVec) (d : List UInt8) (h : Heap) (hf : d.length ≤ v.spare.length) :
    vecExtend P v d h = (pushBytes v d, h) := by
  simp [vecExtend, vecReserve_fit P v d.length h hf]

theorem pushBytes_data (v : RVec) (d : List UInt8) : (pushBytes v d).data = v.data ++ d := rfl

theorem pushBytes_cap (v : RVec) (d : List UInt8) (hf : d.length ≤ v.spare.length) : (pushBytes v d).cap = v.cap := by
  simp only [pushBytes, RVec.cap, List.length_append, List.length_drop]; omega

/-- growing from capacity 0 is a plain allocation -/
theorem vecReserve_cap0 (P : Params) (hP : P.Sound) (v : RVec) (extra : Nat) (h : Heap) (hc : v.cap = 0) (hg : Good h) :
    Good (vecReserve P v extra h).2 ∧ (vecReserve P v extra h).1.data = v.data ∧ extra ≤ (vecReserve P v extra h).1.cap := by
  have hd : v.data = [] := by
    simp only [RVec.cap] at hc; exact List.length_eq_zero_iff.mp (by omega)
  have hs : v.spare.length = 0 := by simp only [RVec.cap] at hc; omega
  unfold vecReserve
  split
  · next hle => exact ⟨hg, rfl, by simp only [RVec.cap]; omega⟩
  · simp only [vecGrowTo, hc, if_true]
    refine ⟨alloc_good hg, ?_, ?_⟩
    · rw [alloc_data, hd]
    · rw [alloc_cap]
      have := hP.2 0 (v.len + extra)
      simp only [RVec.len, hd, List.length_nil, Nat.zero_add] at this ⊢
      exact this

theorem vecZeroize_cells (s : RVec) : (vecZeroize s).cells = List.replicate s.cap none := by
  simp [vecZeroize, RVec.cells]

theorem vecZeroize_cap (s : RVec) : (vecZeroize s).cap = s.cap := by
  simp [vecZeroize, RVec.cap]

theorem dropSecret_good {s : RVec} {h : Heap} (hg : Good h) : Good (dropSecret s h) := by
  unfold dropSecret vecDrop
  split
  · exact hg
  · apply good_push hg
    simp only [Event.Strict, vecZeroize_cells]
    exact clean_replicate _

/-! ### `ensure_capacity`: the lemma that excludes hidden reallocation -/

theorem ensureCapacity_spec (P : Params) (hP : P.Sound) (s : RVec) (m : Nat) (h : Heap) (hg : Good h) :
    Good (ensureCapacity P s m h).2 ∧ (ensureCapacity P s m h).1.data = s.data ∧ m ≤ (ensureCapacity P s m h).1.cap := by
  unfold ensureCapacity
  split
  · next hc => exact vecReserve_cap0 P hP s m h hc hg
  · split
    · next hc hm =>
      have hfit : s.data.length ≤ (alloc (P.grow s.cap m) h).1.spare.length := by
        rw [alloc_spare, List.length_replicate]
        have := hP.1 s.cap m
        simp only [RVec.cap] at hm ⊢ this; omega
      simp only [vecExtend_fit P _ s.data _ hfit]
      refine ⟨dropSecret_good (alloc_good hg), ?_, ?_⟩
      · simp [pushBytes_data, alloc_data]
      · rw [pushBytes_cap _ _ hfit, alloc_cap]; exact hP.1 s.cap m
    · next hc hm => exact ⟨hg, rfl, by show m ≤ s.cap; omega⟩

theorem reserve_spec (P : Params) (hP : P.Sound) (s : RVec) (extra : Nat) (h : Heap) (hg : Good h) :
    Good (reserve P s extra h).2 ∧ (reserve P s extra h).1.data = s.data ∧ extra ≤ (reserve P s extra h).1.spare.length := by
  obtain ⟨h1, h2, h3⟩ := ensureCapacity_spec P hP s (s.len + extra) h hg
  unfold reserve
  generalize ensureCapacity P s (s.len + extra) h = r at *
  refine ⟨h1, h2, ?_⟩
  simp only [RVec.cap, RVec.len, h2] at h3
  omega

theorem extendFromSlice_spec (P : Params) (hP : P.Sound) (s : RVec) (d : List UInt8) (h : Heap) (hg : Good h) :
    Good (extendFromSlice P s d h).2 ∧ (extendFromSlice P s d h).1.data = s.data ++ d := by
  have hr := reserve_spec P hP s d.length h hg
  unfold extendFromSlice
  simp only [vecExtend_fit P _ d _ hr.2.2]
  exact ⟨hr.1, by rw [pushBytes_data, hr.2.1]⟩

theorem shrinkToFit_spec (P : Params) (s : RVec) (h : Heap) (hg : Good h) :
    Good (shrinkToFit P s h).2 ∧ (shrinkToFit P s h).1.data = s.data ∧ (shrinkToFit P s h).1.spare.length = 0 := by
  unfold shrinkToFit
  split
  · have hfit : s.data.length ≤ (alloc s.len h).1.spare.length := by
      rw [alloc_spare, List.length_replicate]; exact Nat.le_refl _
    simp only [vecExtend_fit P _ s.data _ hfit]
    refine ⟨dropSecret_good (alloc_good hg), ?_, ?_⟩
    · simp [pushBytes_data, alloc_data]
    · simp [pushBytes, alloc_spare, RVec.len]
  · next hc =>
    refine ⟨hg, rfl, ?_⟩
    show s.spare.length = 0
    simp only [RVec.cap, RVec.len] at hc; omega

theorem respan_data (v : RVec) (nd : List UInt8) : (respan v nd).data = nd := rfl

theorem vecResize_fit (P : Params) (v : RVec) (n : Nat) (h : Heap) (hf : n ≤ v.cap) :
    (vecResize P v n h).2 = h ∧
    (vecResize P v n h).1.data = (if n ≤ v.data.length then v.data.take n else v.data ++ List.replicate (n - v.data.length) 0) := by
  unfold vecResize
  simp only [RVec.len]
  by_cases hn : n ≤ v.data.length
  · simp [hn, respan]
  · have hfit : (List.replicate (n - v.data.length) (0 : UInt8)).length ≤ v.spare.length := by
      simp only [List.length_replicate, RVec.cap] at hf ⊢; omega
    simp [hn, vecExtend_fit P _ _ _ hfit, pushBytes]

theorem bufferResize_spec (P : Params) (hP : P.Sound) (s : RVec) (n : Nat) (h : Heap) (hg : Good h) :
    Good (bufferResize P s n h).2 ∧
    (bufferResize P s n h).1.data = (if n ≤ s.data.length then s.data.take n else s.data ++ List.replicate (n - s.data.length) 0) := by
  have he := ensureCapacity_spec P hP s n h hg
  have hr := vecResize_fit P (ensureCapacity P s n h).1 n (ensureCapacity P s n h).2 he.2.2
  unfold bufferResize
  refine ⟨by rw [hr.1]; exact he.1, ?_⟩
  rw [hr.2, he.2.1]

theorem bufferExtend_spec (P : Params) (hP : P.Sound) (s : RVec) (d : List UInt8) (h : Heap) (hg : Good h) :
    Good (bufferExtend P s d h).2 ∧ (bufferExtend P s d h).1.data = s.data ++ d := by
  have hr := bufferResize_spec P hP s (s.len + d.length) h hg
  unfold bufferExtend
  refine ⟨hr.1, ?_⟩
  show List.take s.len (bufferResize P s (s.len + d.length) h).1.data ++ d = s.data ++ d
  rw [hr.2]
  simp only [RVec.len]
  by_cases hd : d.length = 0
  · have : d = [] := List.length_eq_zero_iff.mp hd
    subst this; simp
  · have : ¬ (s.data.length + d.length ≤ s.data.length) := by omega
    simp [this]

theorem vecSplice_fit (P : Params) (v : RVec) (a b : Nat) (d : List UInt8) (h : Heap)
    (hf : d.length - (b - a) ≤ v.spare.length) :
    (vecSplice P v a b d h).1.2 = h ∧
    ((vecSplice P v a b d h).1.1.data, (vecSplice P v a b d h).2) =
      (if a > b ∨ b > v.data.length then (v.data, true) else (v.data.take a ++ d ++ v.data.drop b, false)) := by
  unfold vecSplice
  simp only [RVec.len]
  by_cases hc : a > b ∨ b > v.data.length
  · simp [hc]
  · simp [hc, vecReserve_fit P v _ h hf, respan]

theorem splice_spec (P : Params) (hP : P.Sound) (s : RVec) (a b : Nat) (d : List UInt8) (h : Heap) (hg : Good h) :
    Good (splice P s a b d h).1.2 ∧
    ((splice P s a b d h).1.1.data, (splice P s a b d h).2) = (BufOp.splice a b d).spec s.data := by
  unfold splice
  simp only [BufOp.spec]
  split
  · next hlt => simp [hlt, hg]
  · next hlt =>
    split
    · next hgt =>
      have hr := reserve_spec P hP s (d.length - (b - a)) h hg
      have hs := vecSplice_fit P (reserve P s (d.length - (b - a)) h).1 a b d (reserve P s (d.length - (b - a)) h).2 hr.2.2
      refine ⟨by rw [hs.1]; exact hr.1, ?_⟩
      rw [hs.2, hr.2.1]
    · next hgt =>
      have hs := vecSplice_fit P s a b d h (by omega)
      refine ⟨by rw [hs.1]; exact hg, ?_⟩
      rw [hs.2]

theorem vecDrain_spec (s : RVec) (a b : Nat) (h : Heap) :
    (vecDrain s a b h).1.2 = h ∧ ((vecDrain s a b h).1.1.data, (vecDrain s a b h).2) = (BufOp.remove a b).spec s.data := by
  unfold vecDrain
  simp only [BufOp.spec, RVec.len]
  by_cases hc : a > b ∨ b > s.data.length
  · simp [hc]
  · simp [hc, respan]

/-! ### every buffer operation: log stays good, visible bytes follow the list semantics -/

theorem apply_spec (P : Params) (hP : P.Sound) (b : BufOp) (s : RVec) (h : Heap) (hg : Good h) :
    Good (b.apply P s h).1.2 ∧ ((b.apply P s h).1.1.data, (b.apply P s h).2) = b.spec s.data := by
  cases b with
  | ensureCapacity n =>
    have := ensureCapacity_spec P hP s n h hg
    exact ⟨this.1, by simp [BufOp.apply, BufOp.spec, this.2.1]⟩
  | reserve n =>
    have := reserve_spec P hP s n h hg
    exact ⟨this.1, by simp [BufOp.apply, BufOp.spec, this.2.1]⟩
  | extend d =>
    have := extendFromSlice_spec P hP s d h hg
    exact ⟨this.1, by simp [BufOp.apply, BufOp.spec, this.2]⟩
  | insert pos d =>
    have := splice_spec P hP s pos pos d h hg
    refine ⟨this.1, ?_⟩
    simp only [BufOp.apply]
    rw [this.2]
    simp [BufOp.spec]
  | splice a c d => exact splice_spec P hP s a c d h hg
  | remove a c =>
    have := vecDrain_spec s a c h
    exact ⟨by simp only [BufOp.apply]; rw [this.1]; exact hg, this.2⟩
  | resize n =>
    have := bufferResize_spec P hP s n h hg
    exact ⟨this.1, by simp [BufOp.apply, BufOp.spec, this.2]⟩
  | bextend d =>
    have := bufferExtend_spec P hP s d h hg
    exact ⟨this.1, by simp [BufOp.apply, BufOp.spec, this.2]⟩
  | shrink =>
    have := shrinkToFit_spec P s h hg
    exact ⟨this.1, by simp [BufOp.apply, BufOp.spec, this.2.1]⟩
  | clear => exact ⟨hg, by simp [BufOp.apply, BufOp.spec, vecZeroize]⟩
  | zeroize => exact ⟨hg, by simp [BufOp.apply, BufOp.spec, vecZeroize]⟩

theorem ctor_spec (P : Params) (c : Ctor) (h : Heap) (hg : Good h) :
    Good (c.apply P h).2 ∧ (c.apply P h).1.data = c.spec := by
  cases c with
  | withCapacity n => exact ⟨alloc_good hg, alloc_data n h⟩
  | fromSlice d extra =>
    have hfit : d.length ≤ (alloc (d.length + extra) h).1.spare.length := by
      rw [alloc_spare, List.length_replicate]; omega
    simp only [Ctor.apply, Ctor.spec, vecExtend_fit P _ d _ hfit]
    exact ⟨alloc_good hg, by simp [pushBytes_data, alloc_data]⟩
  | newWith d =>
    have hr := vecResize_fit P (alloc d.length h).1 d.length (alloc d.length h).2 (by rw [alloc_cap]; exact Nat.le_refl _)
    simp only [Ctor.apply, Ctor.spec]
    exact ⟨by rw [hr.1]; exact alloc_good hg, trivial⟩
  | default => exact ⟨hg, rfl⟩

theorem cloneBuf_spec (P : Params) (s : RVec) (h : Heap) (hg : Good h) :
    Good (cloneBuf P s h).2 ∧ (cloneBuf P s h).1.data = s.data := by
  have hfit : s.data.length ≤ (alloc s.len h).1.spare.length := by
    rw [alloc_spare, List.length_replicate]; exact Nat.le_refl _
  simp only [cloneBuf, vecExtend_fit P _ s.data _ hfit]
  exact ⟨alloc_good hg, by simp [pushBytes_data, alloc_data]⟩

theorem intoVec_good (s : RVec) (h : Heap) (hg : Good h) : Good (intoVec s h) := by
  unfold intoVec
  apply dropSecret_good
  split
  · exact hg
  · exact good_push hg trivial

theorem intoBoxed_good (P : Params) (s : RVec) (h : Heap) (hg : Good h) : Good (intoBoxed P s h) := by
  have hs := shrinkToFit_spec P s h hg
  unfold intoBoxed
  have h0 : vecShrinkRaw (shrinkToFit P s h).1 (dropSecret RVec.empty (shrinkToFit P s h).2) =
      ((shrinkToFit P s h).1, dropSecret RVec.empty (shrinkToFit P s h).2) := by
    simp [vecShrinkRaw, hs.2.2]
  simp only [h0]
  split
  · exact dropSecret_good hs.1
  · exact good_push (dropSecret_good hs.1) trivial

/-! ### the C boundary (`src/ffi/secret.rs`) -/

theorem cells_length (v : RVec) : v.cells.length = v.cap := by
  simp [RVec.cells, RVec.cap]

/-- `from_secret`: nothing un-wiped is released on the way out, the caller sees exactly the secret bytes, and the block handed out
    has NO spare capacity — its capacity is the `len` field -/
theorem ffiFromSecret_spec (P : Params) (s : RVec) (h : Heap) (hg : Good h) :
    Good (ffiFromSecret P s h).2 ∧ (ffiFromSecret P s h).1.len = s.data.length ∧
    ∃ v, (ffiFromSecret P s h).1.block = some v ∧ v.data = s.data ∧ v.spare = [] ∧ v.cap = (ffiFromSecret P s h).1.len := by
  have hs := shrinkToFit_spec P s h hg
  have hsp : (shrinkToFit P s h).1.spare = [] := List.length_eq_zero_iff.mp hs.2.2
  refine ⟨intoVec_good _ _ hs.1, ?_, (shrinkToFit P s h).1, rfl, hs.2.1, hsp, ?_⟩
  · simp [ffiFromSecret, RVec.len, hs.2.1]
  · simp [ffiFromSecret, RVec.len, RVec.cap, hsp]

/-- `askar_buffer_free` of a buffer whose block has exactly `len` cells: the log stays good -/
theorem ffiBufferFree_good (b : FfiBuf) (h : Heap) (hg : Good h) (hb : ∀ v, b.block = some v → v.cap = b.len) :
    Good (ffiBufferFree b h) := by
  unfold ffiBufferFree
  split
  · exact hg
  · next v hv =>
    split
    · exact hg
    · apply good_push hg
      have hc : v.cells.length = b.len := by rw [cells_length]; exact hb v hv
      have : List.drop b.len v.cells = [] := List.drop_eq_nil_of_le (by omega)
      simp only [Event.Strict, this, List.append_nil]
      exact clean_replicate _

theorem overwrite_cap (b : FfiBuf) (d : List UInt8) (hb : ∀ v, b.block = some v → v.cap = b.len) :
    ∀ v, (b.overwrite d).block = some v → v.cap = (b.overwrite d).len := by
  intro v hv
  unfold FfiBuf.overwrite at hv ⊢
  cases hbl : b.block with
  | none => simp [hbl] at hv
  | some w =>
    simp only [hbl] at hv ⊢
    split at hv
    · next hd =>
      simp only [Option.some.injEq] at hv
      subst hv
      simp only [hd, if_true]
      have := hb w hbl
      simp only [RVec.cap] at this ⊢; omega
    · next hd =>
      simp only [hd, if_false]
      exact hb v hv

theorem ffiRoundTrip_good (P : Params) (s : RVec) (h : Heap) (hg : Good h) : Good (ffiRoundTrip P s h) := by
  obtain ⟨h1, _, v, hv, _, _, hc⟩ := ffiFromSecret_spec P s h hg
  unfold ffiRoundTrip
  apply ffiBufferFree_good _ _ h1
  intro w hw
  rw [hv] at hw
  cases hw
  exact hc

/-- … and the block IS released, whole: a `free` event of exactly `len` wiped cells -/
theorem ffiRoundTrip_frees (P : Params) (s : RVec) (h : Heap) (hg : Good h) (hs : s.data ≠ []) :
    ∃ id, Event.free id (List.replicate s.data.length none) ∈ (ffiRoundTrip P s h).log := by
  obtain ⟨_, hl, v, hv, hd, hsp, _⟩ := ffiFromSecret_spec P s h hg
  have hlen : s.data.length ≠ 0 := fun h0 => hs (List.length_eq_zero_iff.mp h0)
  refine ⟨v.id, ?_⟩
  unfold ffiRoundTrip ffiBufferFree
  generalize ffiFromSecret P s h = r at hl hv
  have hdrop : List.drop s.data.length v.cells = [] :=
    List.drop_eq_nil_of_le (by simp [RVec.cells, hd, hsp])
  simp only [hv, hl, hlen, if_false, Heap.push, hdrop, List.append_nil, List.mem_cons, true_or]

/-! ### runs -/

theorem step_good (P : Params) (hP : P.Sound) (st : St) (op : Op) (hg : Good st.heap) : Good (step P st op).1.heap := by
  cases op with
  | new c => exact (ctor_spec P c st.heap hg).1
  | buf i b =>
    simp only [step]
    split
    · exact hg
    · exact (apply_spec P hP b _ st.heap hg).1
  | clone i =>
    simp only [step]
    split
    · exact hg
    · exact (cloneBuf_spec P _ st.heap hg).1
  | drop i =>
    simp only [step]
    split
    · exact hg
    · exact dropSecret_good hg
  | intoVec i =>
    simp only [step]
    split
    · exact hg
    · exact intoVec_good _ st.heap hg
  | intoBoxed i =>
    simp only [step]
    split
    · exact hg
    · exact intoBoxed_good P _ st.heap hg
  | ffiFree i =>
    simp only [step]
    split
    · exact hg
    · exact ffiRoundTrip_good P _ st.heap hg

theorem run_good (P : Params) (hP : P.Sound) (ops : List Op) (st : St) (hg : Good st.heap) : Good (run P st ops).heap := by
  induction ops generalizing st with
  | nil => exact hg
  | cons op ops ih => exact ih _ (step_good P hP st op hg)

theorem dropAll_good (ss : List RVec) (h : Heap) (hg : Good h) : Good (dropAll ss h) := by
  induction ss generalizing h with
  | nil => exact hg
  | cons s ss ih => exact ih _ (dropSecret_good hg)

theorem runAll_good (P : Params) (hP : P.Sound) (ops : List Op) : Good (runAll P ops) :=
  dropAll_good _ _ (run_good P hP ops St.init good_init)

/-- the log only grows: everything the run frees is also in the complete program's log -/
theorem log_mono_dropAll (ss : List RVec) (h : Heap) : ∀ e ∈ h.log, e ∈ (dropAll ss h).log := by
  induction ss generalizing h with
  | nil => intro e he; exact he
  | cons s ss ih =>
    intro e he
    apply ih
    unfold dropSecret vecDrop
    split
    · exact he
    · exact List.mem_cons_of_mem _ he

/-! ### visible bytes -/

theorem map_eraseIdx' {α β : Type} (f : α → β) (l : List α) (i : Nat) : (l.eraseIdx i).map f = (l.map f).eraseIdx i := by
  induction l generalizing i with
  | nil => rfl
  | cons a l ih =>
    cases i with
    | zero => rfl
    | succ i => simp [List.eraseIdx, ih]

theorem step_data (P : Params) (hP : P.Sound) (st : St) (op : Op) (hg : Good st.heap) :
    ((step P st op).1.slots.map (·.data), (step P st op).2) = specStep (st.slots.map (·.data)) op := by
  cases op with
  | new c => simp [step, specStep, (ctor_spec P c st.heap hg).2]
  | buf i b =>
    simp only [step, specStep, List.getElem?_map]
    cases hsi : st.slots[i]? with
    | none => simp
    | some s =>
      have := (apply_spec P hP b s st.heap hg).2
      simp only [Option.map_some, Prod.mk.injEq] at this ⊢
      rw [← this]
      simp [List.map_set]
  | clone i =>
    simp only [step, specStep, List.getElem?_map]
    cases hsi : st.slots[i]? with
    | none => simp
    | some s => simp [(cloneBuf_spec P s st.heap hg).2]
  | drop i =>
    simp only [step, specStep, List.getElem?_map]
    cases hsi : st.slots[i]? with
    | none => simp
    | some s => simp [map_eraseIdx']
  | intoVec i =>
    simp only [step, specStep, List.getElem?_map]
    cases hsi : st.slots[i]? with
    | none => simp
    | some s => simp [map_eraseIdx']
  | intoBoxed i =>
    simp only [step, specStep, List.getElem?_map]
    cases hsi : st.slots[i]? with
    | none => simp
    | some s => simp [map_eraseIdx']
  | ffiFree i =>
    simp only [step, specStep, List.getElem?_map]
    cases hsi : st.slots[i]? with
    | none => simp
    | some s => simp [map_eraseIdx']

theorem run_data (P : Params) (hP : P.Sound) (ops : List Op) (st : St) (hg : Good st.heap) :
    (run P st ops).slots.map (·.data) = specRun (st.slots.map (·.data)) ops := by
  induction ops generalizing st with
  | nil => rfl
  | cons op ops ih =>
    simp only [run, specRun]
    rw [ih _ (step_good P hP st op hg)]
    have := step_data P hP st op hg
    rw [← this]

end Lemmas
end Askar.SecretBuf
