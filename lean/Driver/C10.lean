/- Driver for `kind = "c10"` cases: judges an observed concurrent history with the verified checker. -/
import Driver.Common
import AskarModel.Model.History

open Lean Askar.History

namespace Driver.C10

def pairs (j : Json) : State :=
  (asArr j).map fun p => match asArr p with
    | [k, v] => (asStr k, v.getInt?.toOption.getD 0)
    | _ => ("", 0)

def runCase (j : Json) : Json :=
  let h := (j.getObjVal? "history").toOption.getD .null
  let init := pairs ((h.getObjVal? "init").toOption.getD .null)
  let final := pairs ((h.getObjVal? "final").toOption.getD .null)
  let txns : List Txn := (arr! h "txns").map fun t =>
    { reads := pairs ((t.getObjVal? "reads").toOption.getD .null), writes := pairs ((t.getObjVal? "writes").toOption.getD .null) }
  let snaps := (arr! h "snaps").map pairs
  let judge := bool! h "judge"
  let keys := init.map (·.1)
  if !judge then Json.mkObj [("serializable", .bool true), ("final_ok", .bool true), ("snapshots_ok", .bool true)] else
  let ser := (replay init txns).isSome
  let fin := accept keys init txns final && final.length == keys.length
  let sn := snaps.all fun s => snapshotOk keys init txns s && s.length == keys.length
  Json.mkObj [("serializable", .bool ser), ("final_ok", .bool fin), ("snapshots_ok", .bool sn)]

end Driver.C10
