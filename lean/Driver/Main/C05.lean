import Driver.C05
def main : IO Unit := Driver.mainLoop fun _ j => Driver.C05.runCase j
