"""C20 — secret memory is wiped before release and never printed."""

CFG = {
    "gens": ["C20"],
    "feature": "c20",
    "rule": (
        "c20:buf = operation sequences on real SecretBytes under the instrumented global allocator: an exhaustive-small family "
        "(initial capacity x first length x second length around every capacity boundary 0,1,8,16,31,32,33,64,…) plus random "
        "sequences of 3-30 (thorough: -48) operations over up to 5 live buffers — all constructors (with_capacity, from_slice, "
        "from_slice_reserve, new_with, From<Vec>/<Box<[u8]>>/<&[u8]>, default), extend / buffer_write / buffer_extend / "
        "buffer_insert / buffer_remove / buffer_resize / reserve / ensure_capacity / shrink_to_fit / clear / clone / drop / "
        "into_vec / into_boxed_slice, sizes drawn from the boundary list 0,1,2,7,8,9,15,16,17,31,32,33,…,4096,4097 (thorough: up to 65537) "
        "and chosen to land exactly on the next boundary, ~6 % out-of-range positions (panics); content bytes follow a recognisable law "
        "(top bit set, step 37 mod 128) so that every released block can be judged. "
        "c20:key = create / use (export, JWK, sign, AEAD, convert, ECDH) / drop of LocalKey and Box<AnyKey> for all 16 algorithms, "
        "SecretBytes, owned PassKey, and a whole in-memory store life cycle (diagnostic), with the known secret bytes registered as needles. "
        "c20:fmt = {:?} and {:#?} (and {} for errors) of 77 subjects: every public secret-bearing type built around seeded secrets, "
        "searched for the secret in hex (any case, reversed, any 8-byte window), decimal byte list, base58, base64/base64url, raw. "
        "c20:log = all log records at Trace level during two full store life cycles (raw key / Argon2 pass key: provision, profiles, "
        "insert, duplicate, fetch, filtered fetch_all / count / scan, replace, key insert / fetch / load / sign / fetch_all_keys / "
        "remove, transaction rollback, remove_all, rekey, reopen, three failing opens, remove) and 12 failing open / provision / remove "
        "calls with URIs carrying a password (postgres, percent-encoded, unknown scheme, sqlite), searched for every secret in play "
        "(pass keys, raw keys, record category / name / value / tag names / tag values, key material, URI passwords). "
        "c20:buf also has the operation ffi_free: the buffer leaves the way SecretBuffer::from_secret hands it out (shrink_to_fit, into_vec: "
        "len = capacity) and is released with askar_buffer_free, the block registered by address: freed whole, every byte zero. "
        "c20:ffi = secret material fetched through the C API with allocation tracking on (own extern \"C\" declarations): "
        "askar_key_get_secret_bytes and askar_key_get_jwk_secret for all 16 algorithms, public bytes, signatures, AEAD ciphertext "
        "(EncryptedBuffer of askar_key_aead_encrypt) and plaintext (askar_key_aead_decrypt) for the 8 AEAD / key-wrap algorithms x message "
        "lengths 0,1,16,33,64,4097 (thorough: 15 lengths), askar_key_wrap_key / askar_key_unwrap_key + secret export of the unwrapped key, "
        "ECDH (askar_key_from_key_exchange) on 4 curves with the derived key read back on both sides, crypto_box_seal / seal_open, a record "
        "value through askar_entry_list_get_value (twice; incl. the empty value: data dangling, len 0) + askar_entry_list_free, the default "
        "(NULL) buffer, and a caller-filled block of exactly n bytes; every buffer is compared with the expected bytes, then released with "
        "askar_buffer_free with its block registered by address (must be freed, with the size = len, all bytes zero), key / list handles "
        "released with their free functions; every block released during any tracked call is searched for the needles (key bytes, first / "
        "last 16 message bytes, the shared secret once known); one deliberately failing call per subject (forged tag, damaged wrapped key, "
        "index out of range, no public part, cannot sign) whose askar_get_current_error JSON is searched for the secrets. "
        "c20:ffilog = the log campaign through the C API in a CHILD process (askar_harness exec on a c20:ffilog-child case) that first installs "
        "askar_set_custom_logger at Trace with a collecting callback: the two store life cycles (raw / Argon2), key import / export / sign / "
        "AEAD incl. failing imports carrying key material, and 7 credential-carrying URIs (reserved characters, bad percent-encoding) x "
        "open / provision / remove; message, target, module_path and file of every record and the error JSON of every failing call are searched. "
        "error TEXT: every Err returned in the fmt / log campaigns is rendered with {}, {:?}, {:#?} and so is every error on its source() "
        "chain (16 error scenarios over the three crates' error types: with / without message, with / without cause; the chain length is "
        "part of the compared output). observations (Obs:*, types outside the property's list — SecretBytes::as_hex, Debug of EntryTag / "
        "Entry tags / TagFilter): what they print is compared with the model and counted (obs:*), never an oracle failure. "
        "non-trivial: a buffer case that grows a buffer holding data across a capacity boundary and frees at least two buffer blocks; "
        "every fmt / key / log / ffilog case (each builds a distinct subject or scenario); an ffi case that released at least one "
        "exported buffer block or looked up at least one error JSON.  distinct = hash of the case"
    ),
    "assumptions": [
        "contract of alloc::vec::Vec<u8> (with_capacity allocates exactly n; no reallocation while len + extra <= cap; growth of an owned "
        "block is the allocator's realloc; truncate / drain / splice work in place) and of zeroize 1.7 (Vec::zeroize clears the whole "
        "capacity) — assumed in Model/SecretBuf.lean, validated by the allocator trace of this run (diagnostic channel: capacities and "
        "alloc/free sizes equal the model's)",
        "usize arithmetic of the buffer (len + extra, cap * 2) does not wrap (sizes below 2^63)",
        "the Debug templates of Model/SecretFmt.lean are transcribed by hand (both the derived and the redacting variant of the six repaired types; which one applies is read from the source into Generated/Flags.lean on every run); their tie to the "
        "code is the c20:fmt / c20:log run",
        "src/ffi/secret.rs is modelled over the same heap (Model/SecretBuf.lean: FfiBuf, ffiFromSecret, ffiBufferFree): ManuallyDrop = the "
        "block is owned by nobody until Vec::from_raw_parts(data, len, len) re-adopts it as a Vec that believes capacity = len; that this "
        "belief is right is a theorem (ffi_buffer_free_wipes), the C caller is assumed to pass back the (len, data) pair it was given",
        "the error-text model (errDisplay / errDebug / errJson over a list of links) transcribes the three identical Display bodies and "
        "the derived Debug by hand; which messages exist and that they are label text is established by the run, not by the model; the "
        "ErrCase.chain table (length of the source() chain per scenario) is hand-written and compared on every run",
        "compiler-introduced copies (moves, spills) of inline keys are outside the model: the allocator observes heap blocks only, and "
        "the store life cycle (moved-from copies of the store key inside freed boxed futures) is reported on the diagnostic channel",
    ],
    "trusted_base": [
        "the instrumented #[global_allocator] of the harness (harness/src/c20.rs: TrackingAlloc) and its block scanner; the log::Log "
        "installed by the harness; the secret-encoding search (hex / decimal list / base58 / base64 / raw); the harness's own extern \"C\" "
        "declarations of the C API (layout of SecretBuffer / EncryptedBuffer / handles) and its C log callback",
    ],
}


def nontrivial(rec):
    case = rec["case"]
    kind = case.get("kind", "")
    feat = rec["impl"].get("feat") or {}
    if kind == "c20:buf":
        return feat.get("grow-with-data", 0) >= 1 and feat.get("free:buffer-block", 0) >= 2
    if kind == "c20:key":
        return feat.get("free", 0) >= 1
    if kind == "c20:fmt":
        return feat.get("shown:debug", 0) >= 1
    if kind == "c20:log":
        return feat.get("log-records", 0) >= 1
    if kind == "c20:ffilog":
        return feat.get("log-records", 0) >= 1 and feat.get("ffi-error-json", 0) >= 1
    if kind == "c20:ffi":
        return feat.get("free:ffi-buffer-block", 0) >= 1 or feat.get("ffi-error-json", 0) >= 1
    return False
