/-
The TEXT level of the WQL → SQL encoder: total character-level models of

* `backend/db_utils.rs::replace_arg_placeholders`  — `replaceArgs`
* `backend/db_utils.rs::extend_query` (+ `QueryPrepare::{limit_query, order_by_query}`)  — `extendQuery`

and the side conditions under which the token-level account of `Model/Wql.lean`
(`render`, `replaceToks`, `finalString`) is exactly what the character-level function computes.
`decode_tags` is modelled in `Model/Decrypt.lean` (`decodeTags`, `groupConcat`) and only re-used here.

Arithmetic is `i64` as in the Rust code; an overflow is the explicit outcome `none` (= panic: the
correspondence harness is built with the dev profile, where `+` / `+=` are overflow-checked; the
`parse::<i64>().unwrap()` panic is profile-independent).
-/
import AskarModel.Model.Wql

namespace Askar.Wql

/-! ### `replace_arg_placeholders` on characters -/

def i64Max : Int := 9223372036854775807
def i64Min : Int := -9223372036854775808

/-- checked `i64` result: `none` = overflow panic -/
def chk (x : Int) : Option Int := if i64Min ≤ x ∧ x ≤ i64Max then some x else none

/-- decimal digits of an `i64` as `{}` prints them -/
def intChars : Int → List Char
  | .ofNat n => Nat.toDigits 10 n
  | .negSucc n => '-' :: Nat.toDigits 10 (n + 1)

/-- `QueryPrepare::placeholder(index)` = `format!("?{}", index)` (the SQLite backend keeps the default body) -/
def placeholderChars (i : Int) : List Char := '?' :: intChars i

/-- `remain[(start_offs + 1)..end_offs].parse::<i64>().unwrap() + start_index - 1` for a run `ds` of ASCII digits:
    the parse fails (→ `unwrap` panics) exactly when the value exceeds `i64::MAX`; leading zeros are accepted. -/
def subIndex (start : Int) (ds : List Char) : Option Int :=
  (chk (Int.ofNat (Nat.ofDigitChars 10 ds 0))).bind fun n => (chk (n + start)).bind fun a => chk (a - 1)

/-- Where the scanner is.  The Rust loop (`remain.find('$')`, look at the next char, consume a digit run) is
    rephrased as a one-character-at-a-time automaton so that the recursion is structural:
    `text` = looking for the next `$`; `dollar` = the previous character was a `$` not yet emitted;
    `digits ds` = a `$` followed by the ASCII digits `ds` (non-empty, in order). -/
inductive Scan
  | text
  | dollar
  | digits (ds : List Char)

/-- `replace_arg_placeholders`, state `index` (the running index, an `i64`), result `none` = panic.

    * `$$`        ↦ `placeholder(index)`,                         `index += 1`
    * `$<digits>` ↦ `placeholder(digits + start_index − 1)`,      `index += 1`
    * a `$` followed by anything else (or by the end of the text) is copied, and scanning resumes right after it. -/
def replaceGo (start : Int) : Int → Scan → List Char → Option (List Char)
  | _, .text, [] => some []
  | _, .dollar, [] => some ['$']
  | index, .digits ds, [] =>
    (subIndex start ds).bind fun k => (chk (index + 1)).bind fun _ => some (placeholderChars k)
  | index, .text, c :: cs =>
    if c = '$' then replaceGo start index .dollar cs
    else (replaceGo start index .text cs).map (c :: ·)
  | index, .dollar, c :: cs =>
    if c = '$' then
      (chk (index + 1)).bind fun i' => (replaceGo start i' .text cs).map (placeholderChars index ++ ·)
    else if c.isDigit then replaceGo start index (.digits [c]) cs
    else (replaceGo start index .text cs).map ('$' :: c :: ·)      -- `c` is not a `$`: it is plain text
  | index, .digits ds, c :: cs =>
    if c.isDigit then replaceGo start index (.digits (ds ++ [c])) cs
    else
      (subIndex start ds).bind fun k => (chk (index + 1)).bind fun i' =>
        (if c = '$' then replaceGo start i' .dollar cs
         else (replaceGo start i' .text cs).map (c :: ·)).map (placeholderChars k ++ ·)

/-- `replace_arg_placeholders::<SqliteBackend>(filter, start_index)`; `none` = panic -/
def replaceArgs (filter : List Char) (start : Int) : Option (List Char) := replaceGo start start .text filter

def replaceArgsStr (filter : String) (start : Int) : Option String :=
  (replaceArgs filter.toList start).map String.ofList

/-! ### Token lists as text; the side conditions of `replaceArgs_tokens` -/

def Tok.chars : Tok → List Char
  | .text s => s.toList
  | .ph (.num n) => '$' :: Nat.toDigits 10 n
  | .ph .dd => ['$', '$']

/-- the characters of `toksString ts` (`Lemmas.toksString_toList`) -/
def toksChars (ts : List Tok) : List Char := ts.flatMap Tok.chars

def finalPiece : String ⊕ Nat → List Char
  | .inl s => s.toList
  | .inr n => '?' :: Nat.toDigits 10 n

/-- the characters of `finalString xs` (`Lemmas.finalString_toList`) -/
def finalChars (xs : List (String ⊕ Nat)) : List Char := xs.flatMap finalPiece

def startsDigit : List Char → Bool
  | c :: _ => c.isDigit
  | [] => false

/-- Well-formed token text: no text token contains a `$`, and the text that follows a `$N` placeholder does not
    begin with a digit (which would be read as part of `N`). -/
def wfToks : List Tok → Bool
  | [] => true
  | .text s :: ts => !s.toList.contains '$' && wfToks ts
  | .ph .dd :: ts => wfToks ts
  | .ph (.num _) :: ts => !startsDigit (toksChars ts) && wfToks ts

def phCount : List Tok → Nat
  | [] => 0
  | .text _ :: ts => phCount ts
  | .ph _ :: ts => phCount ts + 1

/-- No `i64` overflows while replacing: every `$N` has `N + start ≤ i64::MAX`, and the running index stays in range. -/
def NoOverflow (start : Nat) (ts : List Tok) : Prop :=
  (∀ n, Tok.ph (.num n) ∈ ts → (n : Int) + start ≤ i64Max) ∧ (start : Int) + phCount ts ≤ i64Max

/-! ### `extend_query` -/

/-- `char::is_whitespace` restricted to ASCII (the statement texts are ASCII) -/
def asciiWs (c : Char) : Bool := c = ' ' || c = '\n' || c = '\t' || c = '\r' || c = '\x0b' || c = '\x0c'

/-- `query.trim_start().to_uppercase().starts_with("SELECT")`, for ASCII statement text -/
def startsWithSelect (q : List Char) : Bool :=
  ((q.dropWhile asciiWs).take 6).map Char.toUpper == ['S', 'E', 'L', 'E', 'C', 'T']

/-- `QueryPrepare::order_by_query` (`OrderBy::Id` is the only variant) -/
def orderByQuery (q : List Char) (descending : Bool) : List Char :=
  q ++ " ORDER BY ".toList ++ "id".toList ++ (if descending then " DESC".toList else [])

/-- `QueryPrepare::limit_query`: pushes two parameters and appends ` LIMIT $$, $$` renumbered from `args.len() + 1` -/
def limitQuery (q : List Char) (nargs : Nat) (offset limit : Option Int) : Option (List Char × Nat) :=
  if offset.isSome || limit.isSome then
    (replaceArgs " LIMIT $$, $$".toList ((nargs : Int) + 1)).map fun l => (q ++ l, nargs + 2)
  else some (q, nargs)

/-- `extend_query`: `filter` = the clause text (already renumbered) and its number of arguments.
    Result: the final text and the final number of bound parameters; `none` = panic. -/
def extendQuery (base : List Char) (nparams : Nat) (filter : Option (List Char × Nat))
    (offset limit : Option Int) (orderBy descending : Bool) : Option (List Char × Nat) :=
  let (q, n) := match filter with
    | some (clause, k) => (base ++ " AND ".toList ++ clause, nparams + k)
    | none => (base, nparams)
  if startsWithSelect q then
    let q := if orderBy then orderByQuery q descending else q
    if offset.isSome || limit.isSome then limitQuery q n offset limit else some (q, n)
  else some (q, n)

end Askar.Wql
