/- Helper lemmas and proofs for C03, byte level (`Model/Decrypt.lean`).  Core Lean only. -/
import AskarModel.Model.Decrypt

namespace Askar.Decrypt.Lemmas
open Askar Askar.Decrypt

/-! ### `Res` plumbing -/

@[simp] theorem bind_ok {α β} (a : α) (f : α → Res β) : (Res.ok a).bind f = f a := rfl
@[simp] theorem bind_err {α β} (e : EK) (f : α → Res β) : (Res.err e : Res α).bind f = .err e := rfl
@[simp] theorem bind_panic {α β} (f : α → Res β) : (Res.panic : Res α).bind f = .panic := rfl

theorem bind_ne_panic {α β} (x : Res α) (f : α → Res β) (hx : x ≠ .panic) (hf : ∀ a, f a ≠ .panic) :
    x.bind f ≠ .panic := by
  cases x with
  | ok a => exact hf a
  | err e => simp
  | panic => exact absurd rfl hx

/-! ### ChaCha20-Poly1305 wrapper and `ProfileKey::decrypt` -/

theorem c20p_never_panics (A : Aead) (key buffer nonce : Bytes) : c20pDecryptInPlace A key buffer nonce ≠ .panic := by
  unfold c20pDecryptInPlace
  by_cases h1 : nonce.length ≠ 12
  · simp [h1]
  · by_cases h2 : buffer.length < 16
    · simp [h1, h2]
    · have h3 : buffer.length - 16 ≤ buffer.length := Nat.sub_le _ _
      have h4 : (buffer.drop (buffer.length - 16)).length = 16 := by simp; omega
      simp only [h1, h2, if_false, sliceFrom, sliceTo, fromSlice, h3, h4, if_true, bind_ok]
      cases A.dec key nonce [] buffer <;> simp

/-- the result of the wrapper on a 12-byte nonce -/
theorem c20p_eq (A : Aead) (key buffer nonce : Bytes) (hn : nonce.length = 12) :
    c20pDecryptInPlace A key buffer nonce =
      if buffer.length < 16 then .err .Input
      else match A.dec key nonce [] buffer with
        | none => .err .Encryption
        | some m => .ok m := by
  unfold c20pDecryptInPlace
  by_cases h2 : buffer.length < 16
  · simp [hn, h2]
  · have h3 : buffer.length - 16 ≤ buffer.length := Nat.sub_le _ _
    have h4 : (buffer.drop (buffer.length - 16)).length = 16 := by simp; omega
    simp only [hn, h2, if_false, sliceFrom, sliceTo, fromSlice, h3, h4, if_true, bind_ok, ne_eq, not_true_eq_false]
    rfl

/-- `ProfileKey::decrypt`, all slicing discharged -/
theorem pkDecrypt_eq (A : Aead) (ct key : Bytes) :
    pkDecrypt A ct key =
      if ct.length < 12 then .err .Encryption
      else if ct.length < 28 then .err .Input
      else match A.dec key (ct.take 12) [] (ct.drop 12) with
        | none => .err .Encryption
        | some m => .ok m := by
  unfold pkDecrypt
  by_cases h1 : ct.length < 12
  · simp [h1]
  · have h2 : 12 ≤ ct.length := by omega
    have h3 : (ct.take 12).length = 12 := by simp; omega
    simp only [h1, if_false, sliceTo, h2, if_true, bind_ok, fromSlice, h3, drainFront]
    rw [c20p_eq A key (ct.drop 12) (ct.take 12) h3]
    simp only [List.length_drop]
    by_cases h5 : ct.length < 28
    · have h6 : ct.length - 12 < 16 := by omega
      simp only [h6, h5, if_true]
    · have h6 : ¬ ct.length - 12 < 16 := by omega
      simp only [h6, h5, if_false]

/-- never panics: every length, including 0..11 -/
theorem decrypt_never_panics (A : Aead) (ct key : Bytes) : pkDecrypt A ct key ≠ .panic := by
  rw [pkDecrypt_eq]
  by_cases h1 : ct.length < 12
  · simp [h1]
  · by_cases h2 : ct.length < 28
    · simp [h1, h2]
    · simp only [h1, h2, if_false]
      cases A.dec key (ct.take 12) [] (ct.drop 12) <;> simp

/-- whatever decrypts is nonce ‖ enc(key, nonce, plaintext) -/
theorem decrypt_authentic (A : Aead) (hA : IdealAead A) (ct key m : Bytes) (h : pkDecrypt A ct key = .ok m) :
    ∃ nonce, nonce.length = 12 ∧ ct = pkEncrypt A key nonce m := by
  rw [pkDecrypt_eq] at h
  by_cases h1 : ct.length < 12
  · simp [h1] at h
  · by_cases h2 : ct.length < 28
    · simp [h1, h2] at h
    · simp only [h1, h2, if_false] at h
      cases hd : A.dec key (ct.take 12) [] (ct.drop 12) with
      | none => simp [hd] at h
      | some m' =>
        simp only [hd] at h
        have hm : m' = m := by injection h
        subst hm
        refine ⟨ct.take 12, by simp; omega, ?_⟩
        have := hA.auth _ _ _ _ _ hd
        unfold pkEncrypt
        rw [← this, List.take_append_drop]

/-- round trip: an honest ciphertext decrypts to its plaintext under its key -/
theorem decrypt_enc (A : Aead) (hA : IdealAead A) (key nonce m : Bytes) (hn : nonce.length = 12) :
    pkDecrypt A (pkEncrypt A key nonce m) key = .ok m := by
  rw [pkDecrypt_eq]
  have hl : (pkEncrypt A key nonce m).length = 28 + m.length := by
    simp [pkEncrypt, hA.enc_len, hn]; omega
  have h1 : ¬ (pkEncrypt A key nonce m).length < 12 := by omega
  have h2 : ¬ (pkEncrypt A key nonce m).length < 28 := by omega
  have ht : (pkEncrypt A key nonce m).take 12 = nonce := by
    unfold pkEncrypt; rw [← hn]; simp
  have hd : (pkEncrypt A key nonce m).drop 12 = A.enc key nonce [] m := by
    unfold pkEncrypt; rw [← hn]; simp
  simp only [h1, h2, if_false, ht, hd, hA.dec_enc]

/-- bytes that are not an encryption under `key` are rejected, and the error kind depends on their length only -/
theorem decrypt_garbage (A : Aead) (hA : IdealAead A) (ct key : Bytes)
    (hg : ∀ nonce m, nonce.length = 12 → ct ≠ pkEncrypt A key nonce m) :
    pkDecrypt A ct key = .err (if ct.length < 12 then .Encryption else if ct.length < 28 then .Input else .Encryption) := by
  cases hr : pkDecrypt A ct key with
  | ok m =>
    obtain ⟨nonce, hn, hc⟩ := decrypt_authentic A hA ct key m hr
    exact absurd hc (hg nonce m hn)
  | panic => exact absurd hr (decrypt_never_panics A ct key)
  | err e =>
    rw [pkDecrypt_eq] at hr
    by_cases h1 : ct.length < 12
    · simp [h1] at hr ⊢; exact hr.symm
    · by_cases h2 : ct.length < 28
      · simp [h1, h2] at hr ⊢; exact hr.symm
      · simp only [h1, h2, if_false] at hr ⊢
        cases hd : A.dec key (ct.take 12) [] (ct.drop 12) with
        | none => simp [hd] at hr; simp [hr]
        | some m' => simp [hd] at hr

/-- a ciphertext made under another key in play is rejected with `Encryption` -/
theorem decrypt_foreign (A : Aead) (hA : IdealAead A) (S : Bytes → Prop) (hS : KeySeparatedOn A S)
    (k k' nonce m : Bytes) (hk : S k) (hk' : S k') (hne : k ≠ k') (hn : nonce.length = 12) :
    pkDecrypt A (pkEncrypt A k nonce m) k' = .err .Encryption := by
  rw [pkDecrypt_eq]
  have hl : (pkEncrypt A k nonce m).length = 28 + m.length := by
    simp [pkEncrypt, hA.enc_len, hn]; omega
  have h1 : ¬ (pkEncrypt A k nonce m).length < 12 := by omega
  have h2 : ¬ (pkEncrypt A k nonce m).length < 28 := by omega
  have ht : (pkEncrypt A k nonce m).take 12 = nonce := by
    unfold pkEncrypt; rw [← hn]; simp
  have hd : (pkEncrypt A k nonce m).drop 12 = A.enc k nonce [] m := by
    unfold pkEncrypt; rw [← hn]; simp
  simp only [h1, h2, if_false, ht, hd, hS k k' nonce [] m hk hk' hne]

/-! ### the value key binds a value to (category, name) -/

theorem be32_injective (a b : Nat) (ha : a < 2 ^ 32) (hb : b < 2 ^ 32) (h : Bytes.be32 a = Bytes.be32 b) : a = b := by
  unfold Bytes.be32 at h
  simp only [List.cons.injEq, and_true] at h
  obtain ⟨h0, h1, h2, h3⟩ := h
  have e0 := congrArg UInt8.toNat h0
  have e1 := congrArg UInt8.toNat h1
  have e2 := congrArg UInt8.toNat h2
  have e3 := congrArg UInt8.toNat h3
  simp only [UInt8.toNat_ofNat'] at e0 e1 e2 e3
  omega

theorem be32_length (a : Nat) : (Bytes.be32 a).length = 4 := rfl

/-- the HMAC input of `derive_value_key` determines (category, name) — for lengths below 2^32 (`as u32` wraps beyond) -/
theorem valueKeyInput_injective (c n c' n' : Bytes) (hc : c.length < 2 ^ 32) (hc' : c'.length < 2 ^ 32)
    (h : valueKeyInput c n = valueKeyInput c' n') : c = c' ∧ n = n' := by
  unfold valueKeyInput at h
  simp only [List.append_assoc] at h
  have h1 := List.append_inj h (by simp [be32_length])
  have hlen : c.length = c'.length := be32_injective _ _ hc hc' h1.1
  have h2 := List.append_inj h1.2 hlen
  have h3 := List.append_inj h2.2 (by simp [be32_length])
  exact ⟨h2.1, h3.2⟩

/-- a value that decrypts for (c, n) was encrypted under the key derived from (c, n) -/
theorem value_bound_to_identity (A : Aead) (hA : IdealAead A) (H : Bytes → Bytes → Bytes) (pk : ProfileKey) (c n ct v : Bytes)
    (h : decryptEntryValue A H pk c n ct = .ok v) :
    ∃ nonce, nonce.length = 12 ∧ ct = encryptEntryValue A H pk c n nonce v :=
  decrypt_authentic A hA ct _ v h

/-- a value encrypted for (c, n) is rejected when read as the value of another identity (c', n'), provided the two derived
    keys are in play and differ (no HMAC collision between the two distinct inputs: the theorem above shows they are distinct) -/
theorem value_not_transferable (A : Aead) (hA : IdealAead A) (S : Bytes → Prop) (hS : KeySeparatedOn A S)
    (H : Bytes → Bytes → Bytes) (pk : ProfileKey) (c n c' n' nonce v : Bytes) (hn : nonce.length = 12)
    (hk : S (deriveValueKey H pk c n)) (hk' : S (deriveValueKey H pk c' n'))
    (hcoll : valueKeyInput c n ≠ valueKeyInput c' n' → H pk.ihk (valueKeyInput c n) ≠ H pk.ihk (valueKeyInput c' n'))
    (hc : c.length < 2 ^ 32) (hc' : c'.length < 2 ^ 32) (hne : ¬ (c = c' ∧ n = n')) :
    decryptEntryValue A H pk c' n' (encryptEntryValue A H pk c n nonce v) = .err .Encryption := by
  unfold decryptEntryValue encryptEntryValue
  apply decrypt_foreign A hA S hS _ _ nonce v hk hk' _ hn
  unfold deriveValueKey
  exact hcoll fun h => hne (valueKeyInput_injective c n c' n' hc hc' h)

/-! ### `unwrap_data` / `load_key` -/

theorem unwrapWith_eq_pkDecrypt (A : Aead) (key ct : Bytes) (h : 12 ≤ ct.length) (chk : Bool) :
    unwrapDataWith chk A (some key) ct = pkDecrypt A ct key := by
  have h1 : ¬ ct.length < 12 := by omega
  unfold unwrapDataWith pkDecrypt
  simp [h1]

/-- the part that holds on the current tree: from 12 bytes on, `unwrap_data` never panics -/
theorem unwrap_never_panics_partial (chk : Bool) (A : Aead) (key ct : Bytes) (h : 12 ≤ ct.length) :
    unwrapDataWith chk A (some key) ct ≠ .panic := by
  rw [unwrapWith_eq_pkDecrypt A key ct h]; exact decrypt_never_panics A ct key

theorem unwrap_unprotected (chk : Bool) (A : Aead) (ct : Bytes) : unwrapDataWith chk A none ct = .ok ct := rfl

/-- the witness of D2 -/
theorem unwrap_unchecked_panics (A : Aead) (key ct : Bytes) (h : ct.length < 12) :
    unwrapDataWith false A (some key) ct = .panic := by
  have h1 : ¬ 12 ≤ ct.length := by omega
  unfold unwrapDataWith
  simp [sliceTo, h1]

theorem unwrap_checked_short (A : Aead) (key ct : Bytes) (h : ct.length < 12) :
    unwrapDataWith true A (some key) ct = .err .Encryption := by
  unfold unwrapDataWith
  simp [h]

/-- `unwrap_data` is panic-free for every input exactly when it checks the length -/
theorem unwrapWith_never_panics_iff (chk : Bool) (A : Aead) :
    (∀ (storeKey : Option Bytes) (ct : Bytes), unwrapDataWith chk A storeKey ct ≠ .panic) ↔ chk = true := by
  constructor
  · intro h
    cases chk with
    | true => rfl
    | false => exact absurd (unwrap_unchecked_panics A [] [] (by decide)) (h (some []) [])
  · intro h storeKey ct
    subst h
    cases storeKey with
    | none => simp [unwrap_unprotected]
    | some key =>
      by_cases hl : ct.length < 12
      · simp [unwrap_checked_short A key ct hl]
      · exact unwrap_never_panics_partial true A key ct (by omega)

theorem loadKeyWith_never_panics_iff (chk : Bool) (A : Aead) (parse : Bytes → Option ProfileKey) :
    (∀ (storeKey : Option Bytes) (ct : Bytes), loadKeyWith chk A parse storeKey ct ≠ .panic) ↔ chk = true := by
  constructor
  · intro h
    cases chk with
    | true => rfl
    | false =>
      have := h (some []) []
      simp [loadKeyWith, unwrap_unchecked_panics A [] [] (by decide)] at this
  · intro h storeKey ct
    have hu := (unwrapWith_never_panics_iff chk A).mpr h storeKey ct
    unfold loadKeyWith
    cases hr : unwrapDataWith chk A storeKey ct with
    | ok d => simp only; split <;> simp
    | err e => simp
    | panic => exact absurd hr hu

/-- every failure of `load_key` short of a panic is `Encryption` or `Unsupported` -/
theorem loadKey_error_kinds (chk : Bool) (A : Aead) (parse : Bytes → Option ProfileKey) (storeKey : Option Bytes) (ct : Bytes) (e : EK)
    (h : loadKeyWith chk A parse storeKey ct = .err e) : e = .Encryption ∨ e = .Unsupported := by
  unfold loadKeyWith at h
  cases hr : unwrapDataWith chk A storeKey ct with
  | ok d =>
    simp only [hr] at h
    cases hp : parse d with
    | none => simp [hp] at h; exact Or.inr h.symm
    | some pk => simp [hp] at h
  | err e' => simp [hr] at h; exact Or.inl h.symm
  | panic => simp [hr] at h

/-! ### entry-level decrypt functions never panic -/

theorem decodeUtf8_ne_panic (U : Bytes → Bool) (b : Bytes) : decodeUtf8 U b ≠ .panic := by
  unfold decodeUtf8; split <;> simp

theorem decryptEntryTag_never_panics (A : Aead) (U : Bytes → Bool) (pk : ProfileKey) (t : EncTag) :
    decryptEntryTag A U pk t ≠ .panic := by
  unfold decryptEntryTag
  apply bind_ne_panic
  · exact bind_ne_panic _ _ (decrypt_never_panics A _ _) (decodeUtf8_ne_panic U)
  · intro name
    split
    · exact bind_ne_panic _ _ (decodeUtf8_ne_panic U _) (fun _ => by simp)
    · exact bind_ne_panic _ _ (bind_ne_panic _ _ (decrypt_never_panics A _ _) (decodeUtf8_ne_panic U)) (fun _ => by simp)

theorem decryptEntryTags_never_panics (A : Aead) (U : Bytes → Bool) (pk : ProfileKey) (ts : List EncTag) :
    decryptEntryTags A U pk ts ≠ .panic := by
  induction ts with
  | nil => simp [decryptEntryTags]
  | cons t ts ih =>
    unfold decryptEntryTags
    exact bind_ne_panic _ _ (decryptEntryTag_never_panics A U pk t) fun _ => bind_ne_panic _ _ ih fun _ => by simp

theorem entry_decrypt_never_panics (A : Aead) (H : Bytes → Bytes → Bytes) (U : Bytes → Bool) (pk : ProfileKey) (c n ct : Bytes) :
    decryptEntryCategory A U pk ct ≠ .panic ∧ decryptEntryName A U pk ct ≠ .panic ∧ decryptEntryValue A H pk c n ct ≠ .panic :=
  ⟨bind_ne_panic _ _ (decrypt_never_panics A _ _) (decodeUtf8_ne_panic U),
   bind_ne_panic _ _ (decrypt_never_panics A _ _) (decodeUtf8_ne_panic U),
   decrypt_never_panics A _ _⟩

/-! ### `decode_tags` never panics -/

theorem finishTag_spec (tags : Bytes) (nameStart : Nat) (pl : Bool) (idx nameEnd : Nat)
    (h : nameEnd = 0 ∨ (nameStart ≤ nameEnd ∧ nameEnd < idx ∧ idx ≤ tags.length)) :
    finishTag tags nameStart pl idx nameEnd ≠ .panic ∧
      ∀ t i, finishTag tags nameStart pl idx nameEnd = .ok (t, i) → i = idx := by
  unfold finishTag
  by_cases h0 : nameEnd = 0
  · simp [h0]
  · have hb := h.resolve_left h0
    have c1 : nameStart ≤ nameEnd ∧ nameEnd ≤ tags.length := ⟨hb.1, by omega⟩
    have c2 : nameEnd + 1 ≤ idx ∧ idx ≤ tags.length := ⟨by omega, hb.2.2⟩
    simp only [h0, if_false, sliceRange, c1, c2, and_self, if_true, bind_ok]
    cases hexDecode (List.drop nameStart (List.take nameEnd tags)) with
    | none => simp
    | some name =>
      cases hexDecode (List.drop (nameEnd + 1) (List.take idx tags)) with
      | none => simp
      | some value =>
        refine ⟨by simp, ?_⟩
        intro t i hh
        simp at hh
        exact hh.2.symm

theorem innerLoop_spec (tags : Bytes) (nameStart : Nat) (pl : Bool) :
    ∀ (fuel idx nameEnd : Nat), tags.length < fuel + idx → 1 ≤ fuel → nameStart ≤ idx →
      (nameEnd = 0 ∨ (nameStart ≤ nameEnd ∧ nameEnd < idx ∧ idx ≤ tags.length)) →
      innerLoop tags tags.length nameStart pl fuel idx nameEnd ≠ .panic ∧
        ∀ t i, innerLoop tags tags.length nameStart pl fuel idx nameEnd = .ok (t, i) → idx ≤ i := by
  intro fuel
  induction fuel with
  | zero => intro idx nameEnd _ h1; omega
  | succ fuel ih =>
    intro idx nameEnd hf _ hs hinv
    unfold innerLoop
    by_cases hge : idx ≥ tags.length
    · simp only [hge, if_true]
      have := finishTag_spec tags nameStart pl idx nameEnd hinv
      exact ⟨this.1, fun t i h => by rw [this.2 t i h]; exact Nat.le_refl _⟩
    · have hlt : idx < tags.length := by omega
      simp only [hge, if_false, List.getElem?_eq_getElem hlt]
      have hf1 : 1 ≤ fuel := by omega
      by_cases hc : tags[idx] = 0x2C
      · simp only [hc, if_true]
        have := finishTag_spec tags nameStart pl idx nameEnd hinv
        exact ⟨this.1, fun t i h => by rw [this.2 t i h]; exact Nat.le_refl _⟩
      · by_cases hk : tags[idx] = 0x3A
        · simp only [hk, if_false, if_true]
          by_cases hn : nameEnd ≠ 0
          · simp [hn]
          · simp only [hn, if_false]
            have := ih (idx + 1) idx (by omega) hf1 (by omega) (Or.inr ⟨hs, by omega, by omega⟩)
            exact ⟨this.1, fun t i h => by have := this.2 t i h; omega⟩
        · simp only [hc, hk, if_false]
          have hinv' : nameEnd = 0 ∨ (nameStart ≤ nameEnd ∧ nameEnd < idx + 1 ∧ idx + 1 ≤ tags.length) := by
            cases hinv with
            | inl h => exact Or.inl h
            | inr h => exact Or.inr ⟨h.1, by omega, by omega⟩
          have := ih (idx + 1) nameEnd (by omega) hf1 (by omega) hinv'
          exact ⟨this.1, fun t i h => by have := this.2 t i h; omega⟩

theorem outerLoop_ne_panic (tags : Bytes) :
    ∀ (fuel idx : Nat) (acc : List EncTag), tags.length < fuel + idx → 1 ≤ fuel →
      outerLoop tags tags.length fuel idx acc ≠ .panic := by
  intro fuel
  induction fuel with
  | zero => intro idx acc _ h1; omega
  | succ fuel ih =>
    intro idx acc hf _
    unfold outerLoop
    by_cases hge : idx ≥ tags.length
    · simp [hge]
    · have hlt : idx < tags.length := by omega
      simp only [hge, if_false, List.getElem?_eq_getElem hlt]
      have hin := innerLoop_spec tags (idx + 2) (decide (tags[idx] = 0x31)) (tags.length + 2) (idx + 2) 0
        (by omega) (by omega) (Nat.le_refl _) (Or.inl rfl)
      cases hr : innerLoop tags tags.length (idx + 2) (decide (tags[idx] = 0x31)) (tags.length + 2) (idx + 2) 0 with
      | panic => exact absurd hr hin.1
      | err e => simp
      | ok p =>
        obtain ⟨t, i⟩ := p
        have hi := hin.2 t i hr
        simp only
        exact ih (i + 1) (acc ++ [t]) (by omega) (by omega)

/-- `decode_tags` never panics, for ANY byte string (and never runs out of the fuel the model gives it) -/
theorem decodeTags_total (tags : Bytes) : decodeTags tags ≠ .panic :=
  outerLoop_ne_panic tags (tags.length + 1) 0 [] (by omega) (by omega)

/-! ### `decode_tags` parses exactly what `GROUP_CONCAT` produces -/

theorem nibble_hexUpperDigit : ∀ n, n < 16 → nibble (hexUpperDigit n) = some n := by decide

theorem hexUpperDigit_ne : ∀ n, n < 16 → hexUpperDigit n ≠ 0x2C ∧ hexUpperDigit n ≠ 0x3A := by decide

/-- `hex::decode ∘ HEX = id` -/
theorem hexDecode_hexUpper (b : Bytes) : hexDecode (hexUpper b) = some b := by
  induction b with
  | nil => rfl
  | cons x xs ih =>
    have hx : x.toNat < 256 := x.toNat_lt
    have h1 : x.toNat / 16 < 16 := by omega
    have h2 : x.toNat % 16 < 16 := by omega
    have h3 : UInt8.ofNat (x.toNat / 16 * 16 + x.toNat % 16) = x := by
      rw [Nat.div_add_mod']; exact UInt8.ofNat_toNat
    simp only [hexUpper, hexDecode, nibble_hexUpperDigit _ h1, nibble_hexUpperDigit _ h2, ih, h3]

/-- upper-case hex digits are never `,` or `:` -/
theorem hexUpper_no_sep (b : Bytes) : ∀ c ∈ hexUpper b, c ≠ 0x2C ∧ c ≠ 0x3A := by
  induction b with
  | nil => intro c hc; simp [hexUpper] at hc
  | cons x xs ih =>
    intro c hc
    have hx : x.toNat < 256 := x.toNat_lt
    simp only [hexUpper, List.mem_cons] at hc
    rcases hc with hc | hc | hc
    · subst hc; exact hexUpperDigit_ne _ (by omega)
    · subst hc; exact hexUpperDigit_ne _ (by omega)
    · exact ih c hc

theorem getElem?_mid (a b : Bytes) (c : UInt8) (tags : Bytes) (idx : Nat) (h : tags = a ++ c :: b) (hi : idx = a.length) :
    tags[idx]? = some c := by
  subst h hi; simp

theorem sliceRange_mid (a h b tags : Bytes) (lo hi : Nat) (ht : tags = a ++ h ++ b) (hlo : lo = a.length)
    (hhi : hi = a.length + h.length) : sliceRange tags lo hi = .ok h := by
  subst ht hlo hhi
  unfold sliceRange
  have c : a.length ≤ a.length + h.length ∧ a.length + h.length ≤ (a ++ h ++ b).length := by
    simp only [List.length_append]; omega
  simp only [c, and_self, if_true]
  have e : (a ++ h ++ b).take (a.length + h.length) = a ++ h := List.take_left' (by simp)
  rw [e, List.drop_left' rfl]

/-- the inner loop walks over a run of non-separator bytes without changing `name_end` -/
theorem innerLoop_skip (ns : Nat) (pl : Bool) (h : Bytes) :
    ∀ (a b tags : Bytes) (f ne idx : Nat), tags = a ++ h ++ b → idx = a.length → (∀ c ∈ h, c ≠ 0x2C ∧ c ≠ 0x3A) →
      innerLoop tags tags.length ns pl (f + h.length) idx ne = innerLoop tags tags.length ns pl f (idx + h.length) ne := by
  induction h with
  | nil => intros; rfl
  | cons c h ih =>
    intro a b tags f ne idx ht hi hc
    have hlt : ¬ idx ≥ tags.length := by
      subst ht hi; simp only [List.length_append, List.length_cons]; omega
    have hget : tags[idx]? = some c := getElem?_mid a (h ++ b) c tags idx (by simp [ht]) hi
    have hcc := hc c (List.mem_cons_self)
    show innerLoop tags tags.length ns pl ((f + h.length) + 1) idx ne = _
    rw [innerLoop]
    simp only [hlt, if_false, hget, hcc.1, hcc.2]
    have := ih (a ++ [c]) b tags f ne (idx + 1) (by simp [ht]) (by simp [hi])
      (fun x hx => hc x (List.mem_cons_of_mem _ hx))
    rw [this]
    congr 1
    simp only [List.length_cons]; omega

/-- one row `HEX(name) ':' HEX(value)` followed by the end of the text or a `,`: the inner loop returns exactly that tag
    and stops on the byte after the value -/
theorem innerLoop_row (pre rest : Bytes) (fl : UInt8) (name value : Bytes) (pl : Bool) (f : Nat) (tags : Bytes)
    (ht : tags = pre ++ fl :: 0x3A :: (hexUpper name ++ 0x3A :: hexUpper value) ++ rest)
    (hrest : rest = [] ∨ ∃ r, rest = 0x2C :: r) :
    innerLoop tags tags.length (pre.length + 2) pl (f + 1 + (hexUpper value).length + 1 + (hexUpper name).length)
        (pre.length + 2) 0
      = .ok (⟨name, value, pl⟩, pre.length + 2 + (hexUpper name).length + 1 + (hexUpper value).length) := by
  -- phase 1: the name digits
  have e1 : tags = (pre ++ [fl, 0x3A]) ++ hexUpper name ++ (0x3A :: (hexUpper value ++ rest)) := by simp [ht]
  rw [innerLoop_skip _ _ (hexUpper name) (pre ++ [fl, 0x3A]) _ tags _ _ _ e1 (by simp only [List.length_append, List.length_cons, List.length_nil] <;> omega) (hexUpper_no_sep name)]
  -- the colon
  have hlen : tags.length = pre.length + 2 + (hexUpper name).length + 1 + (hexUpper value).length + rest.length := by
    rw [ht]; simp only [List.length_append, List.length_cons]; omega
  have hlt : ¬ pre.length + 2 + (hexUpper name).length ≥ tags.length := by omega
  have hget : tags[pre.length + 2 + (hexUpper name).length]? = some 0x3A :=
    getElem?_mid (pre ++ [fl, 0x3A] ++ hexUpper name) (hexUpper value ++ rest) 0x3A tags _ (by simp [ht]) (by simp only [List.length_append, List.length_cons, List.length_nil] <;> omega)
  rw [innerLoop]
  simp only [hlt, if_false, hget]
  have d1 : ¬ ((0x3A : UInt8) = 0x2C) := by decide
  simp only [d1, if_false, if_true, ne_eq, not_true_eq_false]
  -- phase 2: the value digits
  have e2 : tags = (pre ++ [fl, 0x3A] ++ hexUpper name ++ [0x3A]) ++ hexUpper value ++ rest := by simp [ht]
  rw [innerLoop_skip _ _ (hexUpper value) _ rest tags _ _ _ e2 (by simp only [List.length_append, List.length_cons, List.length_nil] <;> omega) (hexUpper_no_sep value)]
  -- the end of the row
  have hfin : finishTag tags (pre.length + 2) pl (pre.length + 2 + (hexUpper name).length + 1 + (hexUpper value).length)
      (pre.length + 2 + (hexUpper name).length)
      = .ok (⟨name, value, pl⟩, pre.length + 2 + (hexUpper name).length + 1 + (hexUpper value).length) := by
    unfold finishTag
    have n0 : ¬ pre.length + 2 + (hexUpper name).length = 0 := by omega
    rw [sliceRange_mid (pre ++ [fl, 0x3A]) (hexUpper name) _ tags _ _ e1 (by simp only [List.length_append, List.length_cons, List.length_nil] <;> omega) (by simp only [List.length_append, List.length_cons, List.length_nil] <;> omega)]
    rw [sliceRange_mid _ (hexUpper value) rest tags _ _ e2 (by simp only [List.length_append, List.length_cons, List.length_nil] <;> omega) (by simp only [List.length_append, List.length_cons, List.length_nil] <;> omega)]
    simp only [n0, if_false, bind_ok, hexDecode_hexUpper]
  rw [innerLoop]
  rcases hrest with hr | ⟨r, hr⟩
  · have hge : pre.length + 2 + (hexUpper name).length + 1 + (hexUpper value).length ≥ tags.length := by
      rw [hlen, hr]; simp
    simp only [hge, if_true, hfin]
  · have hlt2 : ¬ pre.length + 2 + (hexUpper name).length + 1 + (hexUpper value).length ≥ tags.length := by
      rw [hlen, hr]; simp
    have hget2 : tags[pre.length + 2 + (hexUpper name).length + 1 + (hexUpper value).length]? = some 0x2C :=
      getElem?_mid (pre ++ [fl, 0x3A] ++ hexUpper name ++ [0x3A] ++ hexUpper value) r 0x2C tags _ (by simp [ht, hr])
        (by simp only [List.length_append, List.length_cons, List.length_nil] <;> omega)
    simp only [hlt2, if_false, hget2, if_true, hfin]

theorem tagText_length (t : EncTag) : (tagText t).length = 2 + (hexUpper t.name).length + 1 + (hexUpper t.value).length := by
  simp only [tagText, List.length_cons, List.length_append]; omega

/-- one iteration of the outer loop over a well-formed row -/
theorem outerLoop_row (pre rest : Bytes) (t : EncTag) (acc : List EncTag) (fuel : Nat) (tags : Bytes)
    (ht : tags = pre ++ tagText t ++ rest) (hrest : rest = [] ∨ ∃ r, rest = 0x2C :: r) :
    outerLoop tags tags.length (fuel + 1) pre.length acc
      = outerLoop tags tags.length fuel (pre.length + (tagText t).length + 1) (acc ++ [t]) := by
  have hl := tagText_length t
  obtain ⟨name, value, pl⟩ := t
  simp only at hl
  have hlen : tags.length = pre.length + (2 + (hexUpper name).length + 1 + (hexUpper value).length) + rest.length := by
    rw [ht]; simp only [List.length_append, hl]
  have hlt : ¬ pre.length ≥ tags.length := by omega
  have ht2 : tags = pre ++ (if pl then 0x31 else 0x30) :: 0x3A :: (hexUpper name ++ 0x3A :: hexUpper value) ++ rest := by
    simp [ht, tagText]
  have hget : tags[pre.length]? = some (if pl then 0x31 else 0x30) :=
    getElem?_mid pre (0x3A :: (hexUpper name ++ 0x3A :: hexUpper value) ++ rest) _ tags _ (by simp [ht2]) rfl
  have hpl : decide ((if pl then (0x31 : UInt8) else 0x30) = 0x31) = pl := by cases pl <;> decide
  obtain ⟨f, hf⟩ : ∃ f, tags.length + 2 = f + 1 + (hexUpper value).length + 1 + (hexUpper name).length :=
    ⟨tags.length - (hexUpper value).length - (hexUpper name).length, by omega⟩
  have hin := innerLoop_row pre rest _ name value pl f tags ht2 hrest
  rw [← hf] at hin
  rw [outerLoop]
  simp only [hlt, if_false, hget, hpl, hin]
  congr 1
  omega

/-- the parsing invariant: from the start of a row, the outer loop appends exactly the remaining tags, in order -/
theorem outerLoop_groupConcat (ts : List EncTag) :
    ∀ (pre : Bytes) (acc : List EncTag) (fuel : Nat) (tags : Bytes), tags = pre ++ groupConcat ts →
      tags.length < fuel + pre.length → outerLoop tags tags.length fuel pre.length acc = .ok (acc ++ ts) := by
  induction ts with
  | nil =>
    intro pre acc fuel tags ht hf
    have ht' : tags = pre := by simp [ht, groupConcat]
    subst ht'
    cases fuel with
    | zero => omega
    | succ fuel => rw [outerLoop]; simp
  | cons t ts ih =>
    intro pre acc fuel tags ht hf
    have hl := tagText_length t
    cases ts with
    | nil =>
      have ht' : tags = pre ++ tagText t ++ [] := by simp [ht, groupConcat]
      have hlen : tags.length = pre.length + (tagText t).length := by rw [ht']; simp
      obtain ⟨fuel, rfl⟩ : ∃ f, fuel = f + 1 + 1 := ⟨fuel - 2, by omega⟩
      rw [outerLoop_row pre [] t acc (fuel + 1) tags ht' (Or.inl rfl), outerLoop]
      have hge : pre.length + (tagText t).length + 1 ≥ tags.length := by omega
      simp only [hge, if_true]
    | cons t' ts =>
      have ht' : tags = pre ++ tagText t ++ (0x2C :: groupConcat (t' :: ts)) := by simp [ht, groupConcat]
      have hlen : tags.length = pre.length + (tagText t).length + 1 + (groupConcat (t' :: ts)).length := by
        rw [ht']; simp only [List.length_append, List.length_cons]; omega
      obtain ⟨fuel, rfl⟩ : ∃ f, fuel = f + 1 := ⟨fuel - 1, by omega⟩
      rw [outerLoop_row pre _ t acc fuel tags ht' (Or.inr ⟨_, rfl⟩)]
      have := ih (pre ++ tagText t ++ [0x2C]) (acc ++ [t]) fuel tags (by simp [ht'])
        (by simp only [List.length_append, List.length_cons, List.length_nil]; omega)
      simp only [List.length_append, List.length_cons, List.length_nil, Nat.zero_add] at this
      rw [this]
      simp

/-- `decode_tags` parses exactly what `GROUP_CONCAT(plaintext || ':' || HEX(name) || ':' || HEX(value))` produces: every tag
    list (any length incl. none, any names / values incl. empty ones, both plaintext flags), order preserved -/
theorem decodeTags_groupConcat (ts : List EncTag) : decodeTags (groupConcat ts) = .ok ts := by
  have := outerLoop_groupConcat ts [] [] ((groupConcat ts).length + 1) (groupConcat ts) (by simp) (by simp)
  simpa [decodeTags] using this

/-! ### the toy AEAD satisfies the hypotheses (non-vacuity) -/

theorem toyTag_length (k n a m : Bytes) : (toyTag k n a m).length = 16 := by simp [toyTag]

theorem toy_dec_enc (k n a m : Bytes) : toyAead.dec k n a (toyAead.enc k n a m) = some m := by
  simp only [toyAead]
  have hl : (m ++ toyTag k n a m).length = m.length + 16 := by simp [toyTag_length]
  have h1 : ¬ (m ++ toyTag k n a m).length < 16 := by omega
  have h2 : (m ++ toyTag k n a m).length - 16 = m.length := by omega
  simp only [h1, if_false, h2, List.take_left', List.drop_left', if_true]

theorem toy_auth (k n a ct m : Bytes) (h : toyAead.dec k n a ct = some m) : ct = toyAead.enc k n a m := by
  simp only [toyAead] at h ⊢
  by_cases h1 : ct.length < 16
  · simp [h1] at h
  · simp only [h1, if_false] at h
    split at h
    · rename_i hd
      injection h with h
      subst h
      rw [← hd, List.take_append_drop]
    · simp at h

theorem toy_ideal : IdealAead toyAead :=
  ⟨fun k n a m => by simp [toyAead, toyTag_length], toy_dec_enc, toy_auth⟩

/-- one-byte keys are separated by the toy AEAD (the tag starts with the key byte) -/
theorem toy_separated : KeySeparatedOn toyAead (fun k => k.length = 1) := by
  intro k k' n a m hk hk' hne
  cases hd : toyAead.dec k' n a (toyAead.enc k n a m) with
  | none => rfl
  | some m' =>
    exfalso
    have h := toy_auth k' n a _ m' hd
    simp only [toyAead] at h
    have hlen : m.length = m'.length := by
      have := congrArg List.length h
      simp [toyTag_length] at this
      exact this
    have h2 := (List.append_inj h hlen).2
    simp only [toyTag, List.cons.injEq] at h2
    apply hne
    match k, k', hk, hk' with
    | [x], [y], _, _ => simp at h2; rw [h2.1]

end Askar.Decrypt.Lemmas
