//! Executor and property oracle for C19 cases: every op goes through the real `extern "C"` entry
//! point; a twin store driven through the Rust API (`aries_askar::Store`) says what the result
//! must be; handle lifetimes are tracked independently to judge error reporting.
use super::ffi::*;
use super::json::{members_to_tags, read_tag_obj};
use crate::canon::{err_name, filter_from_json, jvalue, value_from_json};
use crate::store_case::RAW_KEY;
use aries_askar::entry::{Entry, EntryOperation, EntryTag, Scan};
use aries_askar::future::block_on;
use aries_askar::storage::backend::OrderBy;
use aries_askar::{PassKey, Session, Store, StoreKeyMethod};
use once_cell::sync::Lazy;
use serde_json::{json, Value};
use std::collections::{BTreeMap, HashMap};
use std::ffi::CString;
use std::os::raw::c_char;
use std::sync::Mutex;
use std::time::Duration;

mod keyops;
mod storeops;
mod faultops;

/// C19 cases run one at a time: the handle counters and the last-error slot are process-global
static SERIAL: Lazy<Mutex<[usize; 3]>> = Lazy::new(|| Mutex::new([0; 3]));
/// A hang is still caught; a machine that is merely overloaded (a trivial scan_next was once not answered within 30 s while the
/// whole thorough tier and ten other jobs were running) is not an alarm.
const WAIT: Duration = Duration::from_secs(120);

/// `ordered`: the order of the rows is determined; `known`: the set of rows is determined
enum Slot { None, Handle(usize), List { ptr: usize, ordered: bool, known: bool, single: bool }, StrList(usize), Key(usize) }

struct TStore { twin: Option<Store>, open: bool }
struct TSess { store: usize, twin: Option<Session>, open: bool }
struct TScan { store: usize, twin: Option<Scan<'static, Entry>>, open: bool }

struct CStrArg { _own: Option<CString>, ptr: *const c_char }

fn cstr_arg(v: &Value) -> CStrArg {
    if let Some(s) = v.as_str() {
        let c = CString::new(s.as_bytes()).expect("generator: NUL inside a C string argument");
        let p = c.as_ptr();
        CStrArg { _own: Some(c), ptr: p }
    } else if let Some(h) = v.get("bad").and_then(|b| b.as_str()) {
        let c = CString::new(hex::decode(h).unwrap_or_default()).expect("generator: NUL inside a C string argument");
        let p = c.as_ptr();
        CStrArg { _own: Some(c), ptr: p }
    } else { CStrArg { _own: None, ptr: std::ptr::null() } }
}

fn opt_string(v: &Value) -> Option<String> { v.as_str().map(|s| s.to_string()) }
fn is_bad_utf8(v: &Value) -> bool { v.get("bad").is_some() }

#[derive(Clone, Debug, PartialEq)]
struct Row { c: String, n: String, v: Vec<u8>, tags_text: Option<String> }

fn canon_tags_text(t: &Option<String>) -> Value {
    match t {
        None => Value::Null,
        Some(text) => match read_tag_obj(text) {
            None => json!({"unparsable": text}),
            Some(ms) => Value::Array(ms.iter().map(|m| { let mut vs = m.vals.clone(); vs.sort_by(|a, b| a.as_bytes().cmp(b.as_bytes())); json!([m.key, m.is_array, vs]) }).collect()),
        },
    }
}

fn row_json(r: &Row) -> Value { json!({"c": r.c, "n": r.n, "v": jvalue(&r.v), "t": canon_tags_text(&r.tags_text)}) }

/// tags of a row as a sorted multiset, through the JSON form
fn row_tags(r: &Row) -> Option<Vec<(bool, String, String)>> {
    match &r.tags_text {
        None => Some(vec![]),
        Some(t) => { let mut v = members_to_tags(&read_tag_obj(t)?)?; v.sort(); Some(v) }
    }
}

fn entry_tags(e: &Entry) -> Vec<(bool, String, String)> {
    let mut v: Vec<(bool, String, String)> = e.tags.iter().map(|t| match t {
        EntryTag::Encrypted(n, v) => (false, n.clone(), v.clone()),
        EntryTag::Plaintext(n, v) => (true, n.clone(), v.clone()),
    }).collect();
    v.sort();
    v
}

struct Run {
    slots: Vec<Slot>,
    stores: HashMap<usize, TStore>,
    sess: HashMap<usize, TSess>,
    scans: HashMap<usize, TScan>,
    issued: [Vec<usize>; 3],
    cbs: Vec<(i64, usize, usize)>, // cb_id, expected invocations, op index
    oracle: Vec<Value>,
    feat: BTreeMap<String, u64>,
    twin_ok: bool,
    files: HashMap<usize, (String, String)>, // provision op index -> (uri of the store, uri of its twin)
    paths: Vec<String>,
    clobbered: bool,   // the harness itself overwrote LAST_ERROR (polling after a close without callback)
    last_early: bool,   // the most recent error was the order_by rejection that bypasses set_last_error
    last_seen_err: i64, // code of the most recent error reported since the slot was last read
    tag: String,
    twin_keys: HashMap<usize, aries_askar::kms::LocalKey>,
    sealed: HashMap<usize, keyops::Sealed>,
    dirs: Vec<String>,
    force_clobber: bool,   // the harness read LAST_ERROR itself during this op (retry / failure diagnostics)
    dumps: HashMap<usize, Value>,
    tw: Vec<(usize, Value)>,   // per op: the verdict of the Rust API (a fact the model is told, see model_input)
}

/// sqlx connections must be dropped inside the runtime
fn drop_in_rt<T>(x: T) { block_on(async move { drop(x) }) }

impl Drop for Run {
    fn drop(&mut self) {
        let scans: Vec<TScan> = self.scans.drain().map(|(_, s)| s).collect();
        let sess: Vec<TSess> = self.sess.drain().map(|(_, s)| s).collect();
        let stores: Vec<TStore> = self.stores.drain().map(|(_, s)| s).collect();
        block_on(async move { drop(scans); drop(sess); for s in stores { if let Some(t) = s.twin { t.close().await.ok(); } } });
    }
}

impl Run {
    fn fail(&mut self, i: usize, op: &Value, sig: String, detail: Value) {
        self.oracle.push(json!({"sig": sig, "i": i, "op": op["op"], "detail": detail}));
    }
    fn feat(&mut self, k: &str) { *self.feat.entry(k.to_string()).or_insert(0) += 1; }
    fn set_slot(&mut self, i: usize, s: Slot) { while self.slots.len() <= i { self.slots.push(Slot::None); } self.slots[i] = s; }

    /// handle argument; the second component says whether it is one of the special raw values
    fn handle_arg(&self, op: &Value, last: usize) -> usize {
        let h = &op["h"];
        if let Some(s) = h.get("slot").and_then(|s| s.as_u64()) {
            match self.slots.get(s as usize) { Some(Slot::Handle(h)) => *h, _ => 0 }
        } else {
            match h["raw"].as_str().unwrap_or("") { "max" => usize::MAX, "unissued" => last + 1_000_000, _ => 0 }
        }
    }
    fn slot_arg(&self, op: &Value) -> &Slot {
        match op["h"].get("slot").and_then(|s| s.as_u64()) { Some(s) => self.slots.get(s as usize).unwrap_or(&Slot::None), None => &Slot::None }
    }

    /// a handle was issued by registry `reg`: never zero, never seen before, above every earlier one
    fn issued(&mut self, i: usize, op: &Value, reg: usize, h: usize, last: &mut [usize; 3]) -> usize {
        if h == 0 { self.fail(i, op, "handle:issued-zero".into(), json!({"reg": reg})); }
        if h <= last[reg] { self.fail(i, op, "handle:reused-or-not-increasing".into(), json!({"reg": reg, "h": h, "last": last[reg]})); }
        last[reg] = last[reg].max(h);
        self.issued[reg].push(h);
        self.issued[reg].len()
    }

    fn check_panic(&mut self, i: usize, op: &Value, code: Code) {
        if code == 7 {
            let e = current_error();
            if e.contains("Panic during execution") { self.fail(i, op, format!("crash:panic-caught:{}", op["op"].as_str().unwrap_or("")), json!({"error": e})); }
        }
    }

    /// common handling of an asynchronous call: bookkeeping of the expected callback count,
    /// waiting for the callback; returns (ret, callback value)
    fn finish(&mut self, i: usize, op: &Value, ret: Code, cb_id: i64, cb_given: bool) -> (Code, Option<CbVal>) {
        self.check_panic(i, op, ret);
        let expect = if ret == 0 && cb_given { 1 } else { 0 };
        self.cbs.push((cb_id, expect, i));
        if expect == 1 {
            let t0 = std::time::Instant::now();
            let v = wait_cb(cb_id, WAIT);
            if v.is_none() {
                // explain the occurrence: how long was waited, what the callback table holds, whether the callback shows up after all.
                // (`wait_cb` tests the table and sleeps on the condition variable under ONE mutex, `record` inserts under the same
                // mutex before it notifies, ids come from an atomic counter and the table is a static: no wake-up can be lost.)
                let table = pending_table();
                let late = wait_cb(cb_id, Duration::from_secs(15));
                self.fail(i, op, format!("callback:never-invoked:{}", op["op"].as_str().unwrap_or("")), json!({"waited_ms": t0.elapsed().as_millis() as u64, "cb_id": cb_id,
                    "callback_table": table.iter().rev().take(24).map(|(k, n)| json!([k, n])).collect::<Vec<_>>(), "arrived_within_15s_more": late.as_ref().map(|v| code_name(v.code())),
                    "registered_waits": self.cbs.len()}));
            }
            if let Some(v) = &v { self.check_panic(i, op, v.code()); }
            (ret, v)
        } else { (ret, None) }
    }

    fn dump_list(&mut self, ptr: usize, single: bool) -> (i32, Vec<Row>) {
        let p = P(ptr as *const u8);
        let mut count: i32 = -1;
        unsafe { askar_entry_list_count(p, &mut count) };
        let n = if single { 1 } else { count.max(0) };
        let mut rows = vec![];
        for idx in 0..n {
            let (mut c, mut nm, mut t): (*const c_char, *const c_char, *const c_char) = (std::ptr::null(), std::ptr::null(), std::ptr::null());
            let mut v = SecretBuf { len: 0, data: std::ptr::null_mut() };
            unsafe {
                askar_entry_list_get_category(p, idx, &mut c);
                askar_entry_list_get_name(p, idx, &mut nm);
                askar_entry_list_get_value(p, idx, &mut v);
                askar_entry_list_get_tags(p, idx, &mut t);
            }
            rows.push(Row { c: take_str(c).unwrap_or_default(), n: take_str(nm).unwrap_or_default(), v: take_buf(v), tags_text: take_str(t) });
        }
        (count, rows)
    }
}

fn sort_rows(rows: &mut Vec<Row>) { rows.sort_by(|a, b| (a.c.as_bytes(), a.n.as_bytes()).cmp(&(b.c.as_bytes(), b.n.as_bytes()))); }

fn list_json(count: i32, rows: &[Row], ordered: bool, known: bool) -> Value {
    if !ordered && !known { return json!({"count": count, "n": rows.len()}); }
    let mut rs = rows.to_vec();
    if !ordered && rs.len() > 1 { sort_rows(&mut rs); }
    json!({"count": count, "rows": rs.iter().map(row_json).collect::<Vec<_>>()})
}

fn kind_name(e: &aries_askar::Error) -> &'static str {
    use aries_askar::ErrorKind as K;
    match e.kind() {
        K::Backend => "Backend", K::Busy => "Busy", K::Custom => "Custom", K::Duplicate => "Duplicate", K::Encryption => "Encryption",
        K::Input => "Input", K::NotFound => "NotFound", K::Unexpected => "Unexpected", K::Unsupported => "Unsupported",
    }
}

/// compare the rows the C API returned with the entries the Rust API returned on the twin
fn compare_rows(ffi: &[Row], twin: &[Entry], ordered: bool) -> Option<String> {
    if ffi.len() != twin.len() { return Some(format!("rows:{}-vs-{}", twin.len(), ffi.len())); }
    let mut a: Vec<(String, String, Vec<u8>, Option<Vec<(bool, String, String)>>)> = ffi.iter().map(|r| (r.c.clone(), r.n.clone(), r.v.clone(), row_tags(r))).collect();
    let mut b: Vec<(String, String, Vec<u8>, Option<Vec<(bool, String, String)>>)> = twin.iter().map(|e| (e.category.clone(), e.name.clone(), e.value.as_ref().to_vec(), Some(entry_tags(e)))).collect();
    if !ordered { a.sort(); b.sort(); }
    for (x, y) in a.iter().zip(b.iter()) {
        if x.0 != y.0 || x.1 != y.1 { return Some("identity".into()); }
        if x.2 != y.2 { return Some("value".into()); }
        if x.3 != y.3 { return Some("tags".into()); }
    }
    None
}

fn filter_of(op: &Value) -> Option<aries_askar::entry::TagFilter> {
    if op["ft"].is_null() || op["f"].is_null() { None } else { filter_from_json(&op["f"]) }
}

fn order_by_class(v: &Value) -> (bool, bool) {
    // (valid, ordered)
    match v.as_str() { None => (true, false), Some(s) => (s.eq_ignore_ascii_case("id") || s.to_lowercase() == "id", s.to_lowercase() == "id") }
}

fn lim_of(op: &Value) -> Option<i64> { let l = op["lim"].as_i64().unwrap_or(-1); if l < 0 { None } else { Some(l) } }

pub fn exec(case: &Value, _tag: &str) -> Value {
    if case["kind"] == "c19:child" {
        // child side of the null out-pointer probe: the call either returns or kills this process
        if case["probe"] == "logger" { return storeops::logger_child(case); }
        if case["probe"] == "terminate" { return faultops::terminate_child(case); }
        if case["probe"] == "current_error" {
            let c = unsafe { askar_get_current_error(std::ptr::null_mut()) };
            return json!({"out": {"returned": code_name(c)}});
        }
        let seed = ByteBuf { len: 0, data: std::ptr::null() };
        let c = unsafe { askar_store_generate_raw_key(seed, std::ptr::null_mut()) };
        return json!({"out": {"returned": code_name(c)}});
    }
    let mut guard = SERIAL.lock().unwrap_or_else(|e| e.into_inner());
    let mut last = *guard;
    let mut run = Run { slots: vec![], stores: HashMap::new(), sess: HashMap::new(), scans: HashMap::new(), issued: [vec![], vec![], vec![]],
                        cbs: vec![], oracle: vec![], feat: BTreeMap::new(), twin_ok: true, files: HashMap::new(), paths: vec![], clobbered: false, last_early: false, last_seen_err: 0, tag: _tag.to_string(), twin_keys: HashMap::new(), sealed: HashMap::new(), dirs: vec![], force_clobber: false, dumps: HashMap::new(), tw: vec![] };
    let ops = case["ops"].as_array().cloned().unwrap_or_default();
    let mut outs = vec![];
    current_error(); // the last-error slot is process-global: start every case with an empty one
    for (i, op) in ops.iter().enumerate() {
        let o = step(&mut run, i, op, &mut last);
        {
            // what LAST_ERROR should hold now (mirrors the rules stated in Driver/C19.lean trackLastErr)
            let name = op["op"].as_str().unwrap_or("");
            let r = o.get("r").and_then(|r| r.as_str()).unwrap_or("");
            let cbe = o.get("cb").and_then(|c| c.get("err")).and_then(|e| e.as_str()).unwrap_or("");
            let was_early = (name == "fetch_all" || name == "scan_start") && r == "Unsupported";
            if name == "current_error" || !cbe.is_empty() || (!r.is_empty() && r != "Success") || name == "null_probe" { run.last_early = was_early; }
            let num = |n: &str| -> i64 { match n { "Backend" => 1, "Busy" => 2, "Duplicate" => 3, "Encryption" => 4, "Input" => 5, "NotFound" => 6, "Unexpected" => 7, "Unsupported" => 8, "Custom" => 100, _ => 0 } };
            if name == "current_error" { run.clobbered = false; run.last_seen_err = 0; }
            else if r == "Unexpected" || cbe == "Unexpected" { run.clobbered = false; run.last_seen_err = 0; }
            else if (name == "store_close" && !op["cb"].as_bool().unwrap_or(false)) || name == "key_roundtrip" || keyops::is_key_op(name) || storeops::is_store_op(name) || name == "terminate" { run.clobbered = true; }
            else if name == "null_probe" || ((name == "key_fetch" || name == "key_fetch_all") && o.get("cb").and_then(|c| c.get("keys")).map_or(false, |k| !k.is_null())) { run.clobbered = false; run.last_seen_err = 5; } // the bad-index probes of the harness end with an Input error
            else if !cbe.is_empty() { run.clobbered = false; run.last_seen_err = num(cbe); }
            else if (name == "fetch_all" || name == "scan_start") && r == "Unsupported" { run.last_seen_err = 8; } // the caller must be able to retrieve it (D33: the unrepaired source returned without set_last_error); a clobbered slot stays undetermined
            else if !r.is_empty() && r != "Success" { run.clobbered = false; run.last_seen_err = num(r); }
        }
        if run.force_clobber { run.clobbered = true; run.force_clobber = false; }
        run.feat(&format!("op:{}", op["op"].as_str().unwrap_or("")));
        if let Some(r) = o.get("r").and_then(|r| r.as_str()) { if r != "Success" { run.feat(&format!("ret:{}", r)); } }
        if let Some(e) = o.get("cb").and_then(|c| c.get("err")).and_then(|e| e.as_str()) { run.feat(&format!("cberr:{}", e)); }
        outs.push(o);
    }
    // tidy up: lists, keys, sessions, stores (through the C API, with callbacks)
    for s in run.slots.iter() {
        match s {
            Slot::List { ptr, .. } => unsafe { askar_entry_list_free(P(*ptr as *const u8)) },
            Slot::StrList(p) => unsafe { askar_string_list_free(P(*p as *const u8)) },
            Slot::Key(p) => unsafe { askar_key_free(P(*p as *const u8)) },
            _ => {}
        }
    }
    let open_scans: Vec<usize> = run.scans.iter().filter(|(_, s)| s.open).map(|(h, _)| *h).collect();
    for h in open_scans { unsafe { askar_scan_free(H(h)) }; }
    { let scans: Vec<TScan> = run.scans.drain().map(|(_, s)| s).collect(); drop_in_rt(scans); }
    let open_sess: Vec<usize> = run.sess.iter().filter(|(_, s)| s.open).map(|(h, _)| *h).collect();
    for h in open_sess { let id = new_cb_id(); if unsafe { askar_session_close(H(h), 0, Some(cb_unit), id) } == 0 { wait_cb(id, WAIT); } take_count(id); }
    { let sess: Vec<TSess> = run.sess.drain().map(|(_, s)| s).collect(); drop_in_rt(sess); }
    std::thread::sleep(Duration::from_millis(2));
    let open_stores: Vec<usize> = run.stores.iter().filter(|(_, s)| s.open).map(|(h, _)| *h).collect();
    for h in open_stores { let id = new_cb_id(); if unsafe { askar_store_close(H(h), Some(cb_unit), id) } == 0 { wait_cb(id, WAIT); } take_count(id); }
    { let stores: Vec<TStore> = run.stores.drain().map(|(_, s)| s).collect(); block_on(async move { for s in stores { if let Some(t) = s.twin { t.close().await.ok(); } } }); }
    // callbacks: exactly once when the entry returned Success (and a callback was given), never otherwise
    std::thread::sleep(Duration::from_millis(1));
    let cbs = std::mem::take(&mut run.cbs);
    for (id, expect, i) in cbs {
        let n = take_count(id);
        if n != expect {
            let opn = ops[i]["op"].as_str().unwrap_or("").to_string();
            run.fail(i, &ops[i], format!("callback:{}-times-expected-{}:{}", n, expect, opn), json!({}));
        }
    }
    for p in run.paths.iter() { for suffix in ["", "-wal", "-shm", "-journal"] { std::fs::remove_file(format!("{}{}", p, suffix)).ok(); } }
    for d in run.dirs.iter() { std::fs::remove_dir(d).ok(); }
    *guard = last;
    drop(guard);
    let mut tw = vec![Value::Null; ops.len()];
    for (i, v) in run.tw.iter() { if *i < tw.len() { tw[*i] = v.clone(); } }
    let any_tw = tw.iter().any(|v| !v.is_null());
    let mut res = json!({"out": outs, "oracle": run.oracle, "feat": run.feat});
    if any_tw { res["model_input"] = json!({"tw": tw}); }
    res
}

fn jret(ret: Code, cb: Value) -> Value { json!({"r": code_name(ret), "cb": cb}) }
fn jsync(ret: Code, v: Value) -> Value { json!({"r": code_name(ret), "v": v}) }
fn cberr(c: Code) -> Value { json!({"err": code_name(c)}) }

/// the store / session / scan is live according to the oracle's own bookkeeping
fn live_store(run: &Run, h: usize) -> bool { run.stores.get(&h).map_or(false, |s| s.open) }
fn live_sess(run: &Run, h: usize) -> bool { run.sess.get(&h).map_or(false, |s| s.open) }
fn live_scan(run: &Run, h: usize) -> bool { run.scans.get(&h).map_or(false, |s| s.open) }

fn close_store_books(run: &mut Run, h: usize) {
    if let Some(s) = run.stores.get_mut(&h) { s.open = false; }
    for (_, s) in run.sess.iter_mut() { if s.store == h { s.open = false; if let Some(t) = s.twin.take() { drop_in_rt(t); } } }
    for (_, s) in run.scans.iter_mut() { if s.store == h { s.open = false; if let Some(t) = s.twin.take() { drop_in_rt(t); } } }
    if let Some(s) = run.stores.get_mut(&h) { if let Some(t) = s.twin.take() { block_on(t.close()).ok(); } }
}

fn step(run: &mut Run, i: usize, op: &Value, last: &mut [usize; 3]) -> Value {
    let name = op["op"].as_str().unwrap_or("").to_string();
    let cb_given = op["cb"].as_bool().unwrap_or(false);
    let id = new_cb_id();
    run.set_slot(i, Slot::None);
    match name.as_str() {
        "provision" => {
            // uri "FILE" = a fresh database file (and a second one for the twin)
            let pass = op["pass"].as_str().unwrap_or(RAW_KEY).to_string();
            let (uri_s, twin_s) = if op["uri"].as_str() == Some("FILE") {
                let base = format!("{}/c19-{}-{}", crate::store_case::scratch_dir(), run.tag, i);
                let (a, b) = (format!("{}.db", base), format!("{}-twin.db", base));
                for p in [&a, &b] { for suffix in ["", "-wal", "-shm", "-journal"] { std::fs::remove_file(format!("{}{}", p, suffix)).ok(); } run.paths.push(p.clone()); }
                (json!(format!("sqlite://{}", a)), format!("sqlite://{}", b))
            } else { (op["uri"].clone(), op["uri"].as_str().unwrap_or("").to_string()) };
            let (uri, method, profile, key) = (cstr_arg(&uri_s), cstr_arg(&op["method"]), cstr_arg(&op["profile"]), cstr_arg(&json!(pass)));
            let ret = unsafe { askar_store_provision(uri.ptr, method.ptr, key.ptr, profile.ptr, 1, if cb_given { Some(cb_handle) } else { None }, id) };
            let malformed = op["uri"].is_null() || op["method"].as_str() != Some("raw") || !cb_given;
            let (ret, cb) = run.finish(i, op, ret, id, cb_given);
            if malformed && ret == 0 { run.fail(i, op, "provision:malformed-args->ret:Success".into(), json!({})); }
            if !malformed && ret != 0 { run.fail(i, op, format!("provision:valid-args->ret:{}", code_name(ret)), json!({})); }
            match cb {
                Some(CbVal::Handle(0, h)) => {
                    let ord = run.issued(i, op, 0, h, last);
                    // creating a fresh WAL-mode file can fail with SQLITE_BUSY while the pool's first connections race: retry (set-up, not the property)
                    let mut twin = None;
                    for attempt in 0..20 {
                        match block_on(Store::provision(&twin_s, StoreKeyMethod::RawKey, PassKey::from(pass.as_str()), opt_string(&op["profile"]), true)) {
                            Ok(t) => { twin = Some(t); break; }
                            Err(_) => std::thread::sleep(Duration::from_millis(10 * (attempt + 1))),
                        }
                    }
                    if twin.is_none() { run.twin_ok = false; }
                    run.stores.insert(h, TStore { twin, open: true });
                    run.files.insert(i, (uri_s.as_str().unwrap_or("").to_string(), twin_s));
                    run.set_slot(i, Slot::Handle(h));
                    jret(ret, json!({"h": ord}))
                }
                Some(v) => { if !malformed { run.fail(i, op, format!("provision:rust:ok->ffi:err:{}", code_name(v.code())), json!({})); } jret(ret, cberr(v.code())) }
                None => jret(ret, Value::Null),
            }
        }
        "store_close" => {
            let h = run.handle_arg(op, last[0]);
            let live = live_store(run, h);
            let ret = unsafe { askar_store_close(H(h), if cb_given { Some(cb_unit) } else { None }, id) };
            let (ret, cb) = run.finish(i, op, ret, id, cb_given);
            if ret != 0 { run.fail(i, op, format!("store_close:ret:{}", code_name(ret)), json!({})); }
            if live && !cb_given && ret == 0 {
                // no callback to wait for: wait until the handle is gone, then a little more
                for _ in 0..2000 {
                    let pid = new_cb_id();
                    if unsafe { askar_store_get_profile_name(H(h), Some(cb_str), pid) } != 0 { break; }
                    let gone = matches!(wait_cb(pid, WAIT), Some(v) if v.code() != 0);
                    take_count(pid);
                    if gone { break; }
                    std::thread::sleep(Duration::from_millis(1));
                }
                std::thread::sleep(Duration::from_millis(20));
            }
            if live && ret == 0 { close_store_books(run, h); }
            match cb {
                Some(v) => {
                    if live && v.code() != 0 { run.fail(i, op, format!("store_close:live-handle->err:{}", code_name(v.code())), json!({})); }
                    if !live && v.code() == 0 { run.fail(i, op, "store_close:bad-handle->Success".into(), json!({"h": h})); }
                    jret(ret, if v.code() == 0 { json!("ok") } else { cberr(v.code()) })
                }
                None => jret(ret, Value::Null),
            }
        }
        "session_start" => {
            let h = run.handle_arg(op, last[0]);
            let live = live_store(run, h);
            let profile = cstr_arg(&op["profile"]);
            let txn = op["txn"].as_bool().unwrap_or(false);
            let ret = unsafe { askar_session_start(H(h), profile.ptr, txn as i8, if cb_given { Some(cb_handle) } else { None }, id) };
            let (ret, cb) = run.finish(i, op, ret, id, cb_given);
            if !cb_given && ret == 0 { run.fail(i, op, "session_start:no-callback->ret:Success".into(), json!({})); }
            if cb_given && ret != 0 { run.fail(i, op, format!("session_start:valid-args->ret:{}", code_name(ret)), json!({})); }
            // the twin
            let twin_res = if live && ret == 0 && run.twin_ok {
                let st = run.stores.get(&h).and_then(|s| s.twin.as_ref());
                st.map(|st| block_on(async { if txn { st.transaction(opt_string(&op["profile"])).await } else { st.session(opt_string(&op["profile"])).await } }))
            } else { None };
            // A Backend error on ONE side only is first treated as the known set-up transient ("database is locked" while a pool's
            // first connections settle a fresh file, SQLITE_LOCKED on a shared cache): that side is tried again.  A real difference
            // comes back every time and is reported with the error text.
            let mut twin_res = twin_res;
            let mut cb = cb;
            let mut retried = false;
            if let (Some(v), Some(Ok(_))) = (&cb, &twin_res) {
                if v.code() == 1 {
                    for k in 1..=6u64 {
                        std::thread::sleep(Duration::from_millis(25 * k));
                        let id2 = new_cb_id();
                        let r2 = unsafe { askar_session_start(H(h), profile.ptr, txn as i8, Some(cb_handle), id2) };
                        let (_, c2) = run.finish(i, op, r2, id2, true);
                        retried = true; run.feat("retry:ffi:session_start-backend");
                        if let Some(CbVal::Handle(0, _)) = &c2 { cb = c2; break; }
                    }
                }
            }
            if let (Some(CbVal::Handle(0, _)), Some(Err(e))) = (&cb, &twin_res) {
                if kind_name(e) == "Backend" && run.twin_ok {
                    for k in 1..=6u64 {
                        std::thread::sleep(Duration::from_millis(25 * k));
                        let st = run.stores.get(&h).and_then(|s| s.twin.as_ref());
                        let r = st.map(|st| block_on(async { if txn { st.transaction(opt_string(&op["profile"])).await } else { st.session(opt_string(&op["profile"])).await } }));
                        run.feat("retry:twin:session_start-backend");
                        if let Some(Ok(_)) = &r { twin_res = r; break; }
                    }
                }
            }
            if retried { current_error(); run.force_clobber = true; run.tw.push((i, json!({"retried": true}))); }
            match cb {
                Some(CbVal::Handle(0, sh)) => {
                    let ord = run.issued(i, op, 1, sh, last);
                    if !live { run.fail(i, op, "session_start:bad-handle->Success".into(), json!({"h": h})); }
                    let twin = match twin_res { Some(Ok(s)) => Some(s), Some(Err(e)) => { run.fail(i, op, format!("session_start:rust:err:{}->ffi:ok", kind_name(&e)), json!({"rust_error": e.to_string(), "txn": txn})); None } None => None };
                    run.sess.insert(sh, TSess { store: h, twin, open: true });
                    run.set_slot(i, Slot::Handle(sh));
                    jret(ret, json!({"h": ord}))
                }
                Some(v) => {
                    if let Some(Ok(_)) = twin_res { let text = current_error(); run.force_clobber = true; run.fail(i, op, format!("session_start:rust:ok->ffi:err:{}", code_name(v.code())), json!({"ffi_error": text, "txn": txn, "retried": retried})); }
                    if let Some(Err(e)) = &twin_res { if kind_name(e) != code_name(v.code()) { run.fail(i, op, format!("session_start:rust:err:{}->ffi:err:{}", kind_name(e), code_name(v.code())), json!({})); } }
                    drop_in_rt(twin_res);
                    jret(ret, cberr(v.code()))
                }
                None => { drop_in_rt(twin_res); jret(ret, Value::Null) }
            }
        }
        "session_close" => {
            let h = run.handle_arg(op, last[1]);
            let live = live_sess(run, h);
            let commit = op["commit"].as_bool().unwrap_or(false);
            let ret = unsafe { askar_session_close(H(h), commit as i8, if cb_given { Some(cb_unit) } else { None }, id) };
            let (ret, cb) = run.finish(i, op, ret, id, cb_given);
            if ret != 0 { run.fail(i, op, format!("session_close:ret:{}", code_name(ret)), json!({})); }
            if live && !cb_given { std::thread::sleep(Duration::from_millis(30)); }
            let mut twin_res = None;
            if live && ret == 0 {
                if let Some(s) = run.sess.get_mut(&h) {
                    s.open = false;
                    if let Some(t) = s.twin.take() { twin_res = Some(block_on(async { if commit { t.commit().await } else { t.rollback().await } })); }
                }
            }
            match cb {
                Some(v) => {
                    // closing a handle that is not (or no longer) in the registry is a documented no-op
                    if let Some(Ok(())) = twin_res { if v.code() != 0 { run.fail(i, op, format!("session_close:rust:ok->ffi:err:{}", code_name(v.code())), json!({})); } }
                    jret(ret, if v.code() == 0 { json!("ok") } else { cberr(v.code()) })
                }
                None => jret(ret, Value::Null),
            }
        }
        "update" => {
            let h = run.handle_arg(op, last[1]);
            let live = live_sess(run, h);
            let (c, n, tt) = (cstr_arg(&op["c"]), cstr_arg(&op["n"]), cstr_arg(&op["tt"]));
            let value = value_from_json(&op["v"]);
            let operation = op["operation"].as_i64().unwrap_or(0);
            let e = op["e"].as_i64().unwrap_or(-1);
            let buf = ByteBuf { len: value.len() as i64, data: if value.is_empty() { std::ptr::null() } else { value.as_ptr() } };
            let ret = unsafe { askar_session_update(H(h), operation as i8, c.ptr, n.ptr, buf, tt.ptr, e, if cb_given { Some(cb_unit) } else { None }, id) };
            // the oracle's own judgement of the arguments
            let tags_malformed = op["ts"].as_str() == Some("malformed");
            let malformed = !cb_given || !(0..=2).contains(&operation) || op["c"].is_null() || op["n"].is_null() || tags_malformed;
            let tags: Option<Vec<EntryTag>> = op["ts"].as_array().map(|a| a.iter().map(|t| {
                let (p, nm, v) = (t[0].as_i64().unwrap_or(0) != 0, t[1].as_str().unwrap_or("").to_string(), t[2].as_str().unwrap_or("").to_string());
                if p { EntryTag::Plaintext(nm, v) } else { EntryTag::Encrypted(nm, v) }
            }).collect());
            // sanity of the generator: the text really denotes the tag list
            if let (Some(text), Some(ts)) = (op["tt"].as_str(), &tags) {
                let mut want: Vec<(bool, String, String)> = ts.iter().map(|t| match t { EntryTag::Encrypted(n, v) => (false, n.clone(), v.clone()), EntryTag::Plaintext(n, v) => (true, n.clone(), v.clone()) }).collect();
                want.sort();
                let got = read_tag_obj(text).and_then(|m| members_to_tags(&m)).map(|mut v| { v.sort(); v });
                if got != Some(want) { run.fail(i, op, "generator:tag-text-does-not-denote-tags".into(), json!({"text": text})); }
            }
            let (ret, cb) = run.finish(i, op, ret, id, cb_given);
            if malformed && ret == 0 {
                let why = if is_bad_utf8(&op["tt"]) { "tags-not-utf8" } else if tags_malformed { "tags" } else { "args" };
                run.fail(i, op, format!("update:malformed-{}->ret:Success", why), json!({}));
                if live { run.twin_ok = false; }
            }
            if !malformed && ret != 0 {
                let ctx = if op["key_escaped"].as_bool().unwrap_or(false) { ":tag-name-spelled-with-escape" } else { "" };
                run.fail(i, op, format!("update:valid-args->ret:{}{}", code_name(ret), ctx), json!({"tags": op["tt"]}));
            }
            let mut twin_res = None;
            if live && ret == 0 && !malformed && run.twin_ok {
                if let Some(t) = run.sess.get_mut(&h).and_then(|s| s.twin.as_mut()) {
                    let opn = match operation { 0 => EntryOperation::Insert, 1 => EntryOperation::Replace, _ => EntryOperation::Remove };
                    let exp = if e < 0 { None } else { Some(e) };
                    twin_res = Some(block_on(t.update(opn, op["c"].as_str().unwrap_or(""), op["n"].as_str().unwrap_or(""), Some(&value), tags.as_deref(), exp)));
                }
            }
            match cb {
                Some(v) => {
                    if !live && v.code() == 0 { run.fail(i, op, "update:bad-handle->Success".into(), json!({"h": h})); }
                    match &twin_res {
                        Some(Ok(())) if v.code() != 0 => run.fail(i, op, format!("update:rust:ok->ffi:err:{}", code_name(v.code())), json!({})),
                        Some(Err(e)) if kind_name(e) != code_name(v.code()) => run.fail(i, op, format!("update:rust:err:{}->ffi:{}", kind_name(e), code_name(v.code())), json!({})),
                        _ => {}
                    }
                    jret(ret, if v.code() == 0 { json!("ok") } else { cberr(v.code()) })
                }
                None => jret(ret, Value::Null),
            }
        }
        "fetch" | "fetch_all" | "scan_next" => list_op(run, i, op, &name, cb_given, id, last),
        "count" | "remove_all" => {
            let h = run.handle_arg(op, last[1]);
            let live = live_sess(run, h);
            let (c, ft) = (cstr_arg(&op["c"]), cstr_arg(&op["ft"]));
            let cbf: CbI64 = if cb_given { Some(cb_i64) } else { None };
            let ret = unsafe { if name == "count" { askar_session_count(H(h), c.ptr, ft.ptr, cbf, id) } else { askar_session_remove_all(H(h), c.ptr, ft.ptr, cbf, id) } };
            let malformed = !cb_given || (!op["ft"].is_null() && op["f"].is_null());
            let (ret, cb) = run.finish(i, op, ret, id, cb_given);
            if malformed && ret == 0 {
                let why = if is_bad_utf8(&op["ft"]) { "filter-not-utf8" } else { "args" };
                run.fail(i, op, format!("{}:malformed-{}->ret:Success", name, why), json!({}));
                if live && name == "remove_all" { run.twin_ok = false; }
            }
            if !malformed && ret != 0 { run.fail(i, op, format!("{}:valid-args->ret:{}", name, code_name(ret)), json!({"filter": op["ft"]})); }
            let mut twin_res = None;
            if live && ret == 0 && !malformed && run.twin_ok {
                if let Some(t) = run.sess.get_mut(&h).and_then(|s| s.twin.as_mut()) {
                    let cat = opt_string(&op["c"]);
                    twin_res = Some(block_on(async { if name == "count" { t.count(cat.as_deref(), filter_of(op)).await } else { t.remove_all(cat.as_deref(), filter_of(op)).await } }));
                }
            }
            match cb {
                Some(CbVal::I64(code, nn)) => {
                    if !live && code == 0 { run.fail(i, op, format!("{}:bad-handle->Success", name), json!({"h": h})); }
                    match &twin_res {
                        Some(Ok(k)) if code != 0 => run.fail(i, op, format!("{}:rust:ok->ffi:err:{}", name, code_name(code)), json!({"rust": k})),
                        Some(Ok(k)) if *k != nn => run.fail(i, op, format!("{}:rust-vs-ffi:count-differs", name), json!({"rust": k, "ffi": nn})),
                        Some(Err(e)) if kind_name(e) != code_name(code) => run.fail(i, op, format!("{}:rust:err:{}->ffi:{}", name, kind_name(e), code_name(code)), json!({})),
                        _ => {}
                    }
                    jret(ret, if code == 0 { json!({"n": nn}) } else { cberr(code) })
                }
                Some(v) => jret(ret, cberr(v.code())),
                None => jret(ret, Value::Null),
            }
        }
        "scan_start" => {
            let h = run.handle_arg(op, last[0]);
            let live = live_store(run, h);
            let (profile, c, ft, ob) = (cstr_arg(&op["profile"]), cstr_arg(&op["c"]), cstr_arg(&op["ft"]), cstr_arg(&op["order_by"]));
            let (off, lim, desc) = (op["off"].as_i64().unwrap_or(0), op["lim"].as_i64().unwrap_or(-1), op["desc"].as_bool().unwrap_or(false));
            let ret = unsafe { askar_scan_start(H(h), profile.ptr, c.ptr, ft.ptr, off, lim, ob.ptr, desc as i8, if cb_given { Some(cb_handle) } else { None }, id) };
            let (ob_valid, ordered) = order_by_class(&op["order_by"]);
            let malformed = !cb_given || !ob_valid || is_bad_utf8(&op["order_by"]) || (!op["ft"].is_null() && op["f"].is_null());
            let (ret, cb) = run.finish(i, op, ret, id, cb_given);
            if malformed && ret == 0 { run.fail(i, op, format!("scan_start:malformed-{}->ret:Success", if is_bad_utf8(&op["order_by"]) || is_bad_utf8(&op["ft"]) { "arg-not-utf8" } else { "args" }), json!({})); }
            if !malformed && ret != 0 { run.fail(i, op, format!("scan_start:valid-args->ret:{}", code_name(ret)), json!({"filter": op["ft"]})); }
            let twin_res = if live && ret == 0 && !malformed && run.twin_ok {
                run.stores.get(&h).and_then(|s| s.twin.as_ref()).map(|st| block_on(st.scan(opt_string(&op["profile"]), opt_string(&op["c"]), filter_of(op), Some(off), lim_of(op), if ordered { Some(OrderBy::Id) } else { None }, desc)))
            } else { None };
            match cb {
                Some(CbVal::Handle(0, kh)) => {
                    let ord = run.issued(i, op, 2, kh, last);
                    if !live { run.fail(i, op, "scan_start:bad-handle->Success".into(), json!({"h": h})); }
                    let twin = match twin_res { Some(Ok(s)) => Some(s), Some(Err(e)) => { run.fail(i, op, format!("scan_start:rust:err:{}->ffi:ok", kind_name(&e)), json!({})); None } None => None };
                    run.scans.insert(kh, TScan { store: h, twin, open: true });
                    run.set_slot(i, Slot::Handle(kh));
                    // remember the ordering for the lists this scan produces
                    run.feat(if ordered { "scan:ordered" } else { "scan:unordered" });
                    SCAN_ORDER.lock().unwrap().insert(kh, ordered);
                    jret(ret, json!({"h": ord}))
                }
                Some(v) => {
                    if let Some(Ok(_)) = &twin_res { run.fail(i, op, format!("scan_start:rust:ok->ffi:err:{}", code_name(v.code())), json!({})); }
                    drop_in_rt(twin_res);
                    jret(ret, cberr(v.code()))
                }
                None => { drop_in_rt(twin_res); jret(ret, Value::Null) }
            }
        }
        "scan_free" => {
            let h = run.handle_arg(op, last[2]);
            let ret = unsafe { askar_scan_free(H(h)) };
            run.check_panic(i, op, ret);
            if ret != 0 { run.fail(i, op, format!("scan_free:ret:{}", code_name(ret)), json!({})); }
            if live_scan(run, h) {
                if let Some(s) = run.scans.get_mut(&h) { s.open = false; if let Some(t) = s.twin.take() { drop_in_rt(t); } }
                std::thread::sleep(Duration::from_millis(20));
            }
            jret(ret, Value::Null)
        }
        "list_count" | "list_get" => {
            let null_out = op["null_out"].as_bool().unwrap_or(false);
            let (ptr, ordered, known, single) = match run.slot_arg(op) { Slot::List { ptr, ordered, known, single } => (*ptr, *ordered, *known, *single), _ => (0, true, true, false) };
            let p = P(ptr as *const u8);
            if name == "list_count" {
                let mut count: i32 = -77;
                let ret = unsafe { askar_entry_list_count(p, if null_out { std::ptr::null_mut() } else { &mut count }) };
                run.check_panic(i, op, ret);
                if (ptr == 0 || null_out) && ret == 0 { run.fail(i, op, "list_count:null-argument->Success".into(), json!({})); }
                if ptr != 0 && !null_out && ret != 0 { run.fail(i, op, format!("list_count:valid->ret:{}", code_name(ret)), json!({})); }
                return jsync(ret, if ret == 0 { json!(count) } else { Value::Null });
            }
            let idx = op["idx"].as_i64().unwrap_or(0) as i32;
            let field = op["field"].as_str().unwrap_or("tags");
            let (count, rows) = if ptr != 0 { run.dump_list(ptr, single) } else { (0, vec![]) };
            let _ = count;
            let (mut s, mut b): (*const c_char, SecretBuf) = (std::ptr::null(), SecretBuf { len: 0, data: std::ptr::null_mut() });
            let ret = unsafe { match field {
                "category" => askar_entry_list_get_category(p, idx, if null_out { std::ptr::null_mut() } else { &mut s }),
                "name" => askar_entry_list_get_name(p, idx, if null_out { std::ptr::null_mut() } else { &mut s }),
                "value" => askar_entry_list_get_value(p, idx, if null_out { std::ptr::null_mut() } else { &mut b }),
                _ => askar_entry_list_get_tags(p, idx, if null_out { std::ptr::null_mut() } else { &mut s }),
            } };
            run.check_panic(i, op, ret);
            let in_range = idx >= 0 && (idx as usize) < rows.len();
            let valid = ptr != 0 && !null_out && in_range;
            if !valid && ret == 0 { run.fail(i, op, format!("list_get:{}->Success", if ptr == 0 { "null-handle" } else if null_out { "null-out" } else { "index-out-of-range" }), json!({"idx": idx, "rows": rows.len()})); }
            if valid && ret != 0 { run.fail(i, op, format!("list_get:valid->ret:{}", code_name(ret)), json!({"idx": idx, "rows": rows.len()})); }
            if ret != 0 { return jsync(ret, Value::Null); }
            let got = match field { "value" => jvalue(&take_buf(b)), "tags" => canon_tags_text(&take_str(s)), _ => json!(take_str(s)) };
            if valid {
                let want = match field { "category" => json!(rows[idx as usize].c), "name" => json!(rows[idx as usize].n), "value" => jvalue(&rows[idx as usize].v), _ => canon_tags_text(&rows[idx as usize].tags_text) };
                if want != got { run.fail(i, op, "list_get:accessor-inconsistent".into(), json!({"want": want, "got": got})); }
            }
            if ordered || (known && rows.len() <= 1) { jsync(ret, got) } else { jsync(ret, json!("unordered")) }
        }
        "list_free" => {
            if let Slot::List { ptr, .. } = run.slot_arg(op) { unsafe { askar_entry_list_free(P(*ptr as *const u8)) }; }
            if let Some(s) = op["h"].get("slot").and_then(|s| s.as_u64()) { run.set_slot(s as usize, Slot::None); }
            jsync(0, Value::Null)
        }
        "create_profile" | "get_profile_name" => {
            let h = run.handle_arg(op, last[0]);
            let live = live_store(run, h);
            let pname = cstr_arg(&op["name"]);
            let cbf: CbStr = if cb_given { Some(cb_str) } else { None };
            let ret = unsafe { if name == "create_profile" { askar_store_create_profile(H(h), pname.ptr, cbf, id) } else { askar_store_get_profile_name(H(h), cbf, id) } };
            let (ret, cb) = run.finish(i, op, ret, id, cb_given);
            if !cb_given && ret == 0 { run.fail(i, op, format!("{}:no-callback->ret:Success", name), json!({})); }
            if cb_given && ret != 0 { run.fail(i, op, format!("{}:valid-args->ret:{}", name, code_name(ret)), json!({})); }
            let twin_res = if live && ret == 0 && run.twin_ok {
                run.stores.get(&h).and_then(|s| s.twin.as_ref()).map(|st| if name == "create_profile" { block_on(st.create_profile(opt_string(&op["name"]))) } else { Ok(st.get_active_profile()) })
            } else { None };
            match cb {
                Some(CbVal::Str(code, s)) => {
                    if !live && code == 0 { run.fail(i, op, format!("{}:bad-handle->Success", name), json!({})); }
                    match &twin_res {
                        Some(Ok(n)) if code != 0 || s.as_ref() != Some(n) => run.fail(i, op, format!("{}:rust-vs-ffi:differs", name), json!({"rust": n, "ffi": s, "code": code})),
                        Some(Err(e)) if kind_name(e) != code_name(code) => run.fail(i, op, format!("{}:rust:err:{}->ffi:{}", name, kind_name(e), code_name(code)), json!({})),
                        _ => {}
                    }
                    jret(ret, if code == 0 { json!({"name": s}) } else { cberr(code) })
                }
                Some(v) => jret(ret, cberr(v.code())),
                None => jret(ret, Value::Null),
            }
        }
        "list_profiles" => {
            let h = run.handle_arg(op, last[0]);
            let live = live_store(run, h);
            let ret = unsafe { askar_store_list_profiles(H(h), if cb_given { Some(cb_ptr) } else { None }, id) };
            let (ret, cb) = run.finish(i, op, ret, id, cb_given);
            match cb {
                Some(CbVal::Ptr(0, p)) if p != 0 => {
                    if !live { run.fail(i, op, "list_profiles:bad-handle->Success".into(), json!({})); }
                    let mut count = -1;
                    unsafe { askar_string_list_count(P(p as *const u8), &mut count) };
                    let mut names = vec![];
                    for k in 0..count.max(0) { let mut s: *const c_char = std::ptr::null(); unsafe { askar_string_list_get_item(P(p as *const u8), k, &mut s) }; names.push(take_str(s).unwrap_or_default()); }
                    names.sort_by(|a, b| a.as_bytes().cmp(b.as_bytes()));
                    if live && run.twin_ok {
                        if let Some(st) = run.stores.get(&h).and_then(|s| s.twin.as_ref()) {
                            if let Ok(mut t) = block_on(st.list_profiles()) { t.sort_by(|a, b| a.as_bytes().cmp(b.as_bytes())); if t != names { run.fail(i, op, "list_profiles:rust-vs-ffi:differs".into(), json!({"rust": t, "ffi": names})); } }
                        }
                    }
                    run.set_slot(i, Slot::StrList(p));
                    jret(ret, json!({"strs": names, "count": count}))
                }
                Some(v) => {
                    // an error on a live handle is what the Rust API reports for the same store (a backend made to fail), nothing else
                    if live && cb_given {
                        let twin = if run.twin_ok { run.stores.get(&h).and_then(|s| s.twin.as_ref()).map(|st| block_on(st.list_profiles())) } else { None };
                        match twin {
                            Some(Err(e)) if kind_name(&e) == code_name(v.code()) => {}
                            Some(Err(e)) => run.fail(i, op, format!("list_profiles:rust:err:{}->ffi:{}", kind_name(&e), code_name(v.code())), json!({"rust": e.to_string()})),
                            _ => run.fail(i, op, format!("list_profiles:live->err:{}", code_name(v.code())), json!({})),
                        }
                    }
                    jret(ret, cberr(v.code()))
                }
                None => jret(ret, Value::Null),
            }
        }
        "strlist_get" => {
            let null_out = op["null_out"].as_bool().unwrap_or(false);
            let ptr = match run.slot_arg(op) { Slot::StrList(p) => *p, _ => 0 };
            let idx = op["idx"].as_i64().unwrap_or(0) as i32;
            let mut count = 0;
            if ptr != 0 { unsafe { askar_string_list_count(P(ptr as *const u8), &mut count) }; }
            let mut s: *const c_char = std::ptr::null();
            let ret = unsafe { askar_string_list_get_item(P(ptr as *const u8), idx, if null_out { std::ptr::null_mut() } else { &mut s }) };
            run.check_panic(i, op, ret);
            let valid = ptr != 0 && !null_out && idx >= 0 && idx < count;
            if !valid && ret == 0 { run.fail(i, op, "strlist_get:invalid-argument->Success".into(), json!({"idx": idx, "count": count})); }
            if valid && ret != 0 { run.fail(i, op, format!("strlist_get:valid->ret:{}", code_name(ret)), json!({})); }
            let got = take_str(s);
            jsync(ret, if ret != 0 { Value::Null } else if count > 1 { json!("unordered") } else { json!(got) })
        }
        "key_generate" => {
            let null_out = op["null_out"].as_bool().unwrap_or(false);
            let alg = cstr_arg(&op["alg"]);
            let mut k = P(std::ptr::null());
            let ret = unsafe { askar_key_generate(alg.ptr, std::ptr::null(), 1, if null_out { std::ptr::null_mut() } else { &mut k }) };
            run.check_panic(i, op, ret);
            let known = { use std::str::FromStr; aries_askar::kms::KeyAlg::from_str(op["alg"].as_str().unwrap_or("")).is_ok() };
            if (null_out || !known) && ret == 0 { run.fail(i, op, "key_generate:invalid-argument->Success".into(), json!({})); }
            if !null_out && known && ret != 0 { run.fail(i, op, format!("key_generate:valid->ret:{}", code_name(ret)), json!({})); }
            if ret == 0 && !k.0.is_null() {
                run.set_slot(i, Slot::Key(k.0 as usize));
                // the same key for the twin, through the Rust API
                let mut sb = SecretBuf { len: 0, data: std::ptr::null_mut() };
                if unsafe { askar_key_get_secret_bytes(k, &mut sb) } == 0 {
                    use std::str::FromStr;
                    let bytes = take_buf(sb);
                    if let Ok(t) = aries_askar::kms::KeyAlg::from_str(op["alg"].as_str().unwrap_or("")).map_err(aries_askar::Error::from).and_then(|a| aries_askar::kms::LocalKey::from_secret_bytes(a, &bytes)) { run.twin_keys.insert(k.0 as usize, t); }
                }
            }
            jsync(ret, Value::Null)
        }
        "key_get_algorithm" => {
            let null_out = op["null_out"].as_bool().unwrap_or(false);
            let ptr = match run.slot_arg(op) { Slot::Key(p) => *p, _ => 0 };
            let mut s: *const c_char = std::ptr::null();
            let ret = unsafe { askar_key_get_algorithm(P(ptr as *const u8), if null_out { std::ptr::null_mut() } else { &mut s }) };
            run.check_panic(i, op, ret);
            if (ptr == 0 || null_out) && ret == 0 { run.fail(i, op, "key_get_algorithm:null-argument->Success".into(), json!({})); }
            if ptr != 0 && !null_out && ret != 0 { run.fail(i, op, format!("key_get_algorithm:valid->ret:{}", code_name(ret)), json!({})); }
            jsync(ret, if ret == 0 { json!(take_str(s)) } else { Value::Null })
        }
        "insert_key_null" => {
            let h = run.handle_arg(op, last[1]);
            let nm = cstr_arg(&json!("k1"));
            let ret = unsafe { askar_session_insert_key(H(h), P(std::ptr::null()), nm.ptr, std::ptr::null(), std::ptr::null(), -1, if cb_given { Some(cb_unit) } else { None }, id) };
            let (ret, cb) = run.finish(i, op, ret, id, cb_given);
            if ret == 0 { run.fail(i, op, "insert_key:null-key-handle->ret:Success".into(), json!({})); }
            jret(ret, cb.map_or(Value::Null, |v| if v.code() == 0 { json!("ok") } else { cberr(v.code()) }))
        }
        "rekey" => {
            let h = run.handle_arg(op, last[0]);
            let live = live_store(run, h);
            let (method, pass) = (cstr_arg(&op["method"]), cstr_arg(&op["pass"]));
            let ret = unsafe { askar_store_rekey(H(h), method.ptr, pass.ptr, if cb_given { Some(cb_unit) } else { None }, id) };
            let parsed = match op["method"].as_str() { Some(m) => StoreKeyMethod::parse_uri(m).ok(), None => Some(StoreKeyMethod::default()) };
            let malformed = !cb_given || parsed.is_none() || is_bad_utf8(&op["method"]) || is_bad_utf8(&op["pass"]);
            let (ret, cb) = run.finish(i, op, ret, id, cb_given);
            if malformed && ret == 0 { run.fail(i, op, format!("rekey:malformed-{}->ret:Success", if is_bad_utf8(&op["method"]) || is_bad_utf8(&op["pass"]) { "arg-not-utf8" } else { "args" }), json!({})); if live { run.twin_ok = false; } }
            if !malformed && ret != 0 { run.fail(i, op, format!("rekey:valid-args->ret:{}", code_name(ret)), json!({})); }
            let mut twin_res = None;
            if live && ret == 0 && !malformed && run.twin_ok {
                if let (Some(t), Some(m)) = (run.stores.get_mut(&h).and_then(|s| s.twin.as_mut()), parsed) {
                    let pk = match op["pass"].as_str() { Some(p) => PassKey::from(p.to_string()), None => PassKey::empty() };
                    twin_res = Some(block_on(t.rekey(m, pk)));
                }
            }
            match cb {
                Some(v) => {
                    if !live && v.code() == 0 { run.fail(i, op, "rekey:bad-handle->Success".into(), json!({"h": h})); }
                    match &twin_res {
                        Some(Ok(())) if v.code() != 0 => { run.fail(i, op, format!("rekey:rust:ok->ffi:err:{}", code_name(v.code())), json!({})); run.twin_ok = false; }
                        Some(Err(e)) if kind_name(e) != code_name(v.code()) => {
                            let ctx = if op["pass"].is_null() { ":null-pass-key" } else { "" };
                            run.fail(i, op, format!("rekey:rust:err:{}->ffi:{}{}", kind_name(e), code_name(v.code()), ctx), json!({"method": op["method"]}));
                            if v.code() == 0 { run.twin_ok = false; }
                        }
                        _ => {}
                    }
                    if live {
                        // whatever the outcome of the re-key, the handle must still denote the store
                        let pid = new_cb_id();
                        let usable = unsafe { askar_store_get_profile_name(H(h), Some(cb_str), pid) } == 0 && matches!(wait_cb(pid, WAIT), Some(x) if x.code() == 0);
                        take_count(pid);
                        if !usable {
                            run.fail(i, op, format!("rekey:store-handle-invalid-after-{}-rekey", if v.code() == 0 { "successful" } else { "failed" }), json!({"code": code_name(v.code())}));
                            current_error();
                        }
                    }
                    jret(ret, if v.code() == 0 { json!("ok") } else { cberr(v.code()) })
                }
                None => jret(ret, Value::Null),
            }
        }
        "store_open" => {
            let of = op["of"].as_u64().unwrap_or(0) as usize;
            let (uri_s, twin_s) = run.files.get(&of).cloned().unwrap_or(("sqlite:///nonexistent/c19.db".into(), "sqlite:///nonexistent/c19.db".into()));
            let uri_v = if op["uri"].is_null() { Value::Null } else { json!(uri_s) };
            let (uri, method, pass) = (cstr_arg(&uri_v), cstr_arg(&op["method"]), cstr_arg(&op["pass"]));
            let parsed: Option<Option<StoreKeyMethod>> = match op["method"].as_str() { Some(m) => StoreKeyMethod::parse_uri(m).ok().map(Some), None => Some(None) };
            let malformed = !cb_given || op["uri"].is_null() || parsed.is_none();
            // "database is locked" while the pool's first connections settle the journal mode of a just-written file is a known
            // transient of the set-up, not the judged outcome: try again (both sides)
            let _ = id;
            let mut attempt = 0;
            let (ret, cb) = loop {
                let id = new_cb_id();
                let ret = unsafe { askar_store_open(uri.ptr, method.ptr, pass.ptr, std::ptr::null(), if cb_given { Some(cb_handle) } else { None }, id) };
                let (ret, cb) = run.finish(i, op, ret, id, cb_given);
                let is_backend = matches!(&cb, Some(v) if v.code() == 1);
                if is_backend && attempt < 6 && run.files.contains_key(&of) && std::path::Path::new(uri_s.strip_prefix("sqlite://").unwrap_or("").split('?').next().unwrap_or("")).is_file() {
                    // (the error text is not read: that would empty the slot a later `current_error` op judges; a real Backend
                    // error simply comes back each time)
                    attempt += 1; run.feat("retry:ffi:store_open-backend"); std::thread::sleep(Duration::from_millis(25 * attempt as u64)); continue;
                }
                break (ret, cb);
            };
            if malformed && ret == 0 { run.fail(i, op, "store_open:malformed-args->ret:Success".into(), json!({})); }
            if !malformed && ret != 0 { run.fail(i, op, format!("store_open:valid-args->ret:{}", code_name(ret)), json!({})); }
            let twin_res = if ret == 0 && !malformed && run.twin_ok {
                let pk = match op["pass"].as_str() { Some(p) => PassKey::from(p.to_string()), None => PassKey::empty() };
                let mut r = Ok(());
                for k in 0..=6u64 {
                    r = block_on(async { match Store::open(&twin_s, parsed.clone().unwrap(), pk.clone(), None).await { Ok(s) => { s.close().await.ok(); Ok(()) } Err(e) => Err(e) } });
                    match &r { Err(e) if e.to_string().contains("database is locked") && k < 6 => std::thread::sleep(Duration::from_millis(25 * (k + 1))), _ => break }
                }
                Some(r)
            } else { None };
            match cb {
                Some(CbVal::Handle(0, nh)) => {
                    let ord = run.issued(i, op, 0, nh, last);
                    if let Some(Err(e)) = &twin_res { run.fail(i, op, format!("store_open:rust:err:{}->ffi:ok", kind_name(e)), json!({"rust": format!("{:?}", e), "twin": twin_s})); }
                    let cid = new_cb_id();
                    if unsafe { askar_store_close(H(nh), Some(cb_unit), cid) } == 0 { wait_cb(cid, WAIT); }
                    take_count(cid);
                    jret(ret, json!({"opened": ord}))
                }
                Some(v) => {
                    match &twin_res {
                        Some(Ok(())) => run.fail(i, op, format!("store_open:rust:ok->ffi:err:{}", code_name(v.code())), json!({})),
                        Some(Err(e)) if kind_name(e) != code_name(v.code()) => run.fail(i, op, format!("store_open:rust:err:{}->ffi:{}", kind_name(e), code_name(v.code())), json!({"rust": format!("{:?}", e)})),
                        _ => {}
                    }
                    jret(ret, cberr(v.code()))
                }
                None => jret(ret, Value::Null),
            }
        }
        "remove_profile" | "set_default_profile" | "get_default_profile" => {
            let h = run.handle_arg(op, last[0]);
            let live = live_store(run, h);
            let pname = cstr_arg(&op["name"]);
            let ret = unsafe { match name.as_str() {
                "remove_profile" => askar_store_remove_profile(H(h), pname.ptr, if cb_given { Some(cb_i8) } else { None }, id),
                "set_default_profile" => askar_store_set_default_profile(H(h), pname.ptr, if cb_given { Some(cb_unit) } else { None }, id),
                _ => askar_store_get_default_profile(H(h), if cb_given { Some(cb_str) } else { None }, id),
            } };
            let malformed = !cb_given || (name != "get_default_profile" && op["name"].is_null());
            let (ret, cb) = run.finish(i, op, ret, id, cb_given);
            if malformed && ret == 0 { run.fail(i, op, format!("{}:malformed-args->ret:Success", name), json!({})); }
            if !malformed && ret != 0 { run.fail(i, op, format!("{}:valid-args->ret:{}", name, code_name(ret)), json!({})); }
            let twin_res: Option<Result<Value, aries_askar::Error>> = if live && ret == 0 && !malformed && run.twin_ok {
                run.stores.get(&h).and_then(|s| s.twin.as_ref()).map(|st| block_on(async { match name.as_str() {
                    "remove_profile" => st.remove_profile(op["name"].as_str().unwrap_or("").to_string()).await.map(|r| json!({"removed": r})),
                    "set_default_profile" => st.set_default_profile(op["name"].as_str().unwrap_or("").to_string()).await.map(|_| json!("ok")),
                    _ => st.get_default_profile().await.map(|n| json!({"name": n})),
                } }))
            } else { None };
            match cb {
                Some(v) => {
                    let got = if v.code() != 0 { cberr(v.code()) } else { match &v { CbVal::I64(_, n) => json!({"removed": *n != 0}), CbVal::Str(_, s) => json!({"name": s}), _ => json!("ok") } };
                    if !live && v.code() == 0 { run.fail(i, op, format!("{}:bad-handle->Success", name), json!({"h": h})); }
                    match &twin_res {
                        Some(Ok(w)) if *w != got => run.fail(i, op, format!("{}:rust-vs-ffi:differs", name), json!({"rust": w, "ffi": got})),
                        Some(Err(e)) if kind_name(e) != code_name(v.code()) => run.fail(i, op, format!("{}:rust:err:{}->ffi:{}", name, kind_name(e), code_name(v.code())), json!({})),
                        _ => {}
                    }
                    jret(ret, got)
                }
                None => jret(ret, Value::Null),
            }
        }
        "version" => {
            let v = take_str(unsafe { askar_version() } as *const c_char);
            let ok = v.as_ref().map_or(false, |s| s.split('.').count() >= 3 && s.chars().next().map_or(false, |c| c.is_ascii_digit()));
            if !ok { run.fail(i, op, "version:not-a-version-string".into(), json!({"got": v})); }
            jsync(0, json!("version"))
        }
        "current_error" => {
            let text = current_error();
            let parsed: Value = serde_json::from_str(&text).unwrap_or(Value::Null);
            let code = parsed["code"].as_i64();
            if code.is_none() { run.fail(i, op, "current_error:not-json-with-code".into(), json!({"text": text})); }
            if !run.clobbered && code != Some(run.last_seen_err) {
                let sig = if run.last_early { "current_error:order_by-Unsupported-not-recorded:slot-stale".to_string() } else { format!("current_error:last-reported-{}->slot-{}", code_name(run.last_seen_err), code_name(code.unwrap_or(-1))) };
                run.fail(i, op, sig, json!({"text": text, "expected": code_name(run.last_seen_err)}));
            }
            if code.unwrap_or(0) != 0 && !parsed["message"].is_string() { run.fail(i, op, "current_error:no-message".into(), json!({"text": text})); }
            if run.clobbered { json!({"code": "any"}) } else { json!({"code": code}) }
        }
        "set_max_log_level" => {
            let l = op["level"].as_i64().unwrap_or(0) as i32;
            let ret = unsafe { askar_set_max_log_level(l) };
            run.check_panic(i, op, ret);
            if !(-1..=5).contains(&l) && ret == 0 { run.fail(i, op, "set_max_log_level:invalid-level->Success".into(), json!({"level": l})); }
            if (-1..=5).contains(&l) && ret != 0 { run.fail(i, op, format!("set_max_log_level:valid->ret:{}", code_name(ret)), json!({"level": l})); }
            unsafe { askar_set_max_log_level(0) };
            jsync(ret, Value::Null)
        }
        "strlist_count" => {
            let null_out = op["null_out"].as_bool().unwrap_or(false);
            let ptr = match run.slot_arg(op) { Slot::StrList(p) => *p, _ => 0 };
            let mut count: i32 = -77;
            let ret = unsafe { askar_string_list_count(P(ptr as *const u8), if null_out { std::ptr::null_mut() } else { &mut count }) };
            run.check_panic(i, op, ret);
            if (ptr == 0 || null_out) && ret == 0 { run.fail(i, op, "strlist_count:null-argument->Success".into(), json!({})); }
            if ptr != 0 && !null_out && ret != 0 { run.fail(i, op, format!("strlist_count:valid->ret:{}", code_name(ret)), json!({})); }
            jsync(ret, if ret == 0 { json!(count) } else { Value::Null })
        }
        "key_insert" | "key_update" | "key_remove" => {
            let h = run.handle_arg(op, last[1]);
            let live = live_sess(run, h);
            let kptr = match op["key"].as_u64().and_then(|s| run.slots.get(s as usize)) { Some(Slot::Key(p)) => *p, _ => 0 };
            let (n, md, tt) = (cstr_arg(&op["n"]), cstr_arg(&op["md"]), cstr_arg(&op["tt"]));
            let cbf: CbUnit = if cb_given { Some(cb_unit) } else { None };
            let ret = unsafe { match name.as_str() {
                "key_insert" => askar_session_insert_key(H(h), P(kptr as *const u8), n.ptr, md.ptr, tt.ptr, -1, cbf, id),
                "key_update" => askar_session_update_key(H(h), n.ptr, md.ptr, tt.ptr, -1, cbf, id),
                _ => askar_session_remove_key(H(h), n.ptr, cbf, id),
            } };
            let tags_malformed = name != "key_remove" && op["ts"].as_str() == Some("malformed");
            let malformed = !cb_given || op["n"].is_null() || tags_malformed || (name == "key_insert" && kptr == 0);
            let tags: Option<Vec<EntryTag>> = op["ts"].as_array().map(|a| a.iter().map(|t| {
                let (p, nm, v) = (t[0].as_i64().unwrap_or(0) != 0, t[1].as_str().unwrap_or("").to_string(), t[2].as_str().unwrap_or("").to_string());
                if p { EntryTag::Plaintext(nm, v) } else { EntryTag::Encrypted(nm, v) }
            }).collect());
            let (ret, cb) = run.finish(i, op, ret, id, cb_given);
            if malformed && ret == 0 { run.fail(i, op, format!("{}:malformed-args->ret:Success", name), json!({})); if live { run.twin_ok = false; } }
            if !malformed && ret != 0 { run.fail(i, op, format!("{}:valid-args->ret:{}", name, code_name(ret)), json!({"tags": op["tt"]})); }
            let mut twin_res = None;
            if live && ret == 0 && !malformed && run.twin_ok {
                let tk = run.twin_keys.remove(&kptr);
                if let Some(t) = run.sess.get_mut(&h).and_then(|s| s.twin.as_mut()) {
                    let nm = op["n"].as_str().unwrap_or("");
                    let mdo = opt_string(&op["md"]);
                    twin_res = match name.as_str() {
                        "key_insert" => tk.as_ref().map(|k| block_on(t.insert_key(nm, k, mdo.as_deref(), None, tags.as_deref(), None))),
                        "key_update" => Some(block_on(t.update_key(nm, mdo.as_deref(), tags.as_deref(), None))),
                        _ => Some(block_on(t.remove_key(nm))),
                    };
                }
                if let Some(k) = tk { run.twin_keys.insert(kptr, k); }
            }
            match cb {
                Some(v) => {
                    if !live && v.code() == 0 { run.fail(i, op, format!("{}:bad-handle->Success", name), json!({"h": h})); }
                    match &twin_res {
                        Some(Ok(())) if v.code() != 0 => run.fail(i, op, format!("{}:rust:ok->ffi:err:{}", name, code_name(v.code())), json!({})),
                        Some(Err(e)) if kind_name(e) != code_name(v.code()) => run.fail(i, op, format!("{}:rust:err:{}->ffi:{}", name, kind_name(e), code_name(v.code())), json!({})),
                        _ => {}
                    }
                    jret(ret, if v.code() == 0 { json!("ok") } else { cberr(v.code()) })
                }
                None => jret(ret, Value::Null),
            }
        }
        "key_fetch" | "key_fetch_all" => {
            let h = run.handle_arg(op, last[1]);
            let live = live_sess(run, h);
            let (n, alg) = (cstr_arg(&op["n"]), cstr_arg(&op["alg"]));
            let cbf: CbPtr = if cb_given { Some(cb_ptr) } else { None };
            let single = name == "key_fetch";
            let lim = op["lim"].as_i64().unwrap_or(-1);
            let ret = unsafe { if single { askar_session_fetch_key(H(h), n.ptr, 0, cbf, id) } else { askar_session_fetch_all_keys(H(h), alg.ptr, std::ptr::null(), std::ptr::null(), lim, 0, cbf, id) } };
            let malformed = !cb_given || (single && op["n"].is_null());
            let (ret, cb) = run.finish(i, op, ret, id, cb_given);
            if malformed && ret == 0 { run.fail(i, op, format!("{}:malformed-args->ret:Success", name), json!({})); }
            if !malformed && ret != 0 { run.fail(i, op, format!("{}:valid-args->ret:{}", name, code_name(ret)), json!({})); }
            // twin rows: (name, alg, metadata, tags, secret bytes of the loaded key)
            type KRow = (String, Option<String>, Option<String>, Vec<(bool, String, String)>, Option<Vec<u8>>);
            let krow = |e: &aries_askar::kms::KeyEntry| -> KRow {
                let mut tags: Vec<(bool, String, String)> = e.tags_as_slice().iter().map(|t| match t { EntryTag::Encrypted(n, v) => (false, n.clone(), v.clone()), EntryTag::Plaintext(n, v) => (true, n.clone(), v.clone()) }).collect();
                tags.sort();
                (e.name().to_string(), e.algorithm().map(|s| s.to_string()), e.metadata().map(|s| s.to_string()), tags, e.load_local_key().ok().and_then(|k| k.to_secret_bytes().ok()).map(|b| b.to_vec()))
            };
            let mut twin_res: Option<Result<Option<Vec<KRow>>, aries_askar::Error>> = None;
            if live && ret == 0 && !malformed && run.twin_ok {
                if let Some(t) = run.sess.get_mut(&h).and_then(|s| s.twin.as_mut()) {
                    twin_res = Some(if single { block_on(t.fetch_key(op["n"].as_str().unwrap_or(""), false)).map(|o| o.map(|e| vec![krow(&e)])) }
                        else { block_on(t.fetch_all_keys(op["alg"].as_str(), None, None, if lim < 0 { None } else { Some(lim) }, false)).map(|v| Some(v.iter().map(krow).collect())) });
                }
            }
            match cb {
                Some(CbVal::Ptr(code, p)) => {
                    if !live && code == 0 { run.fail(i, op, format!("{}:bad-handle->Success", name), json!({"h": h})); }
                    if code != 0 {
                        match &twin_res {
                            Some(Ok(_)) => run.fail(i, op, format!("{}:rust:ok->ffi:err:{}", name, code_name(code)), json!({})),
                            Some(Err(e)) if kind_name(e) != code_name(code) => run.fail(i, op, format!("{}:rust:err:{}->ffi:{}", name, kind_name(e), code_name(code)), json!({})),
                            _ => {}
                        }
                        return jret(ret, cberr(code));
                    }
                    if p == 0 {
                        if let Some(Ok(Some(_))) = &twin_res { run.fail(i, op, format!("{}:rust:data->ffi:none", name), json!({})); }
                        return jret(ret, json!({"keys": null}));
                    }
                    let lp = P(p as *const u8);
                    let mut count: i32 = -1;
                    unsafe { askar_key_entry_list_count(lp, &mut count) };
                    let nrows = if single { 1 } else { count.max(0) };
                    let mut rows: Vec<KRow> = vec![];
                    let mut jrows = vec![];
                    for idx in 0..nrows {
                        let (mut a, mut b, mut c, mut d): (*const c_char, *const c_char, *const c_char, *const c_char) = (std::ptr::null(), std::ptr::null(), std::ptr::null(), std::ptr::null());
                        let mut kp = P(std::ptr::null());
                        unsafe {
                            askar_key_entry_list_get_name(lp, idx, &mut a); askar_key_entry_list_get_algorithm(lp, idx, &mut b);
                            askar_key_entry_list_get_metadata(lp, idx, &mut c); askar_key_entry_list_get_tags(lp, idx, &mut d);
                            askar_key_entry_list_load_local(lp, idx, &mut kp);
                        }
                        let (nm, al, mdv, tg) = (take_str(a).unwrap_or_default(), take_str(b), take_str(c), take_str(d));
                        let mut secret = None;
                        if !kp.0.is_null() { let mut sb = SecretBuf { len: 0, data: std::ptr::null_mut() }; if unsafe { askar_key_get_secret_bytes(kp, &mut sb) } == 0 { secret = Some(take_buf(sb)); } unsafe { askar_key_free(kp) }; }
                        let tags = match &tg { None => Some(vec![]), Some(t) => read_tag_obj(t).and_then(|m| members_to_tags(&m)).map(|mut v| { v.sort(); v }) };
                        if tags.is_none() { run.fail(i, op, format!("{}:tags-json-unparsable", name), json!({"text": tg})); }
                        jrows.push(json!({"n": nm, "alg": al, "md": mdv, "t": canon_tags_text(&tg)}));
                        rows.push((nm, al, mdv, tags.unwrap_or_default(), secret));
                    }
                    // bad indices on a real key list
                    for bad_idx in [-1i32, nrows, i32::MAX, i32::MIN] {
                        let mut a: *const c_char = std::ptr::null();
                        let c = unsafe { askar_key_entry_list_get_name(lp, bad_idx, &mut a) };
                        if c == 0 { take_str(a); if !(single && bad_idx == 0) { run.fail(i, op, format!("{}:key-list:index-out-of-range->Success", name), json!({"idx": bad_idx, "rows": nrows})); } }
                    }
                    let c = unsafe { askar_key_entry_list_get_name(lp, 0, std::ptr::null_mut()) };
                    if c == 0 { run.fail(i, op, format!("{}:key-list:null-out->Success", name), json!({})); }
                    unsafe { askar_key_entry_list_free(lp) };
                    let known = single || lim < 0;
                    match &twin_res {
                        Some(Ok(Some(t))) => {
                            let (mut x, mut y) = (rows.clone(), t.clone());
                            x.sort(); y.sort();
                            if x.len() != y.len() { run.fail(i, op, format!("{}:rust-vs-ffi:rows-differ", name), json!({"rust": y.len(), "ffi": x.len()})); }
                            else if known && x != y {
                                let what = x.iter().zip(y.iter()).find(|(a, b)| a != b).map(|(a, b)| if a.0 != b.0 { "name" } else if a.1 != b.1 { "algorithm" } else if a.2 != b.2 { "metadata" } else if a.3 != b.3 { "tags" } else { "key" }).unwrap_or("");
                                run.fail(i, op, format!("{}:rust-vs-ffi:{}-differ", name, what), json!({}));
                            }
                        }
                        Some(Ok(None)) => run.fail(i, op, format!("{}:rust:none->ffi:data", name), json!({})),
                        Some(Err(e)) => run.fail(i, op, format!("{}:rust:err:{}->ffi:data", name, kind_name(e)), json!({})),
                        None => {}
                    }
                    jrows.sort_by(|a, b| a["n"].as_str().unwrap_or("").as_bytes().cmp(b["n"].as_str().unwrap_or("").as_bytes()));
                    jret(ret, if known { json!({"keys": {"count": count, "rows": jrows}}) } else { json!({"keys": {"count": count}}) })
                }
                Some(v) => jret(ret, cberr(v.code())),
                None => jret(ret, Value::Null),
            }
        }
        "null_probe" => null_probe(run, i, op),
        "key_roundtrip" => key_roundtrip(run, i, op),
        "raw_key_null_out" | "current_error_null_out" => {
            // a NULL out-pointer must give an error code; run the call in a child process so that a
            // crash is observed instead of suffered
            use std::io::Write;
            use std::process::{Command, Stdio};
            let exe = std::env::current_exe().expect("current_exe");
            let mut child = Command::new(exe).args(["exec", "--threads", "1"]).stdin(Stdio::piped()).stdout(Stdio::piped()).stderr(Stdio::null()).spawn().expect("spawn child");
            let which = if name == "raw_key_null_out" { "askar_store_generate_raw_key" } else { "askar_get_current_error" };
            child.stdin.take().unwrap().write_all(if name == "raw_key_null_out" { b"{\"id\":0,\"kind\":\"c19:child\"}\n".as_slice() } else { b"{\"id\":0,\"kind\":\"c19:child\",\"probe\":\"current_error\"}\n".as_slice() }).ok();
            let out = child.wait_with_output().expect("child");
            let crashed = !out.status.success();
            if crashed {
                use std::os::unix::process::ExitStatusExt;
                run.fail(i, op, format!("crash:{}:null-out-pointer", which), json!({"signal": out.status.signal(), "status": format!("{:?}", out.status)}));
            } else if String::from_utf8_lossy(&out.stdout).contains("\"Success\"") {
                run.fail(i, op, format!("{}:null-out->Success", which), json!({}));
            }
            json!({"crash": crashed})
        }
        n if keyops::is_key_op(n) => keyops::step_key(run, i, op),
        n if storeops::is_store_op(n) => storeops::step_store(run, i, op, last),
        n if faultops::is_fault_op(n) => faultops::step_fault(run, i, op),
        _ => json!({"err": "BadOp"}),
    }
}

/// every synchronous key / key-list accessor with a NULL handle, and (with a real key) a NULL out-pointer
fn null_probe(run: &mut Run, i: usize, op: &Value) -> Value {
    let null = P(std::ptr::null());
    let empty = ByteBuf { len: 0, data: std::ptr::null() };
    let mut key = P(std::ptr::null());
    let alg = cstr_arg(&json!("ed25519"));
    unsafe { askar_key_generate(alg.ptr, std::ptr::null(), 1, &mut key) };
    let (mut sb, mut s, mut b8, mut n32, mut kp) = (SecretBuf { len: 0, data: std::ptr::null_mut() }, std::ptr::null::<c_char>(), 0i8, 0i32, P(std::ptr::null()));
    let nh: Vec<(&str, Code)> = unsafe { vec![
        ("key_get_algorithm", askar_key_get_algorithm(null, &mut s)),
        ("key_get_ephemeral", askar_key_get_ephemeral(null, &mut b8)),
        ("key_get_public_bytes", askar_key_get_public_bytes(null, &mut sb)),
        ("key_get_secret_bytes", askar_key_get_secret_bytes(null, &mut sb)),
        ("key_get_jwk_secret", askar_key_get_jwk_secret(null, &mut sb)),
        ("key_get_jwk_public", askar_key_get_jwk_public(null, std::ptr::null(), &mut s)),
        ("key_get_jwk_thumbprint", askar_key_get_jwk_thumbprint(null, std::ptr::null(), &mut s)),
        ("key_aead_random_nonce", askar_key_aead_random_nonce(null, &mut sb)),
        ("key_sign_message", askar_key_sign_message(null, empty, std::ptr::null(), &mut sb)),
        ("key_verify_signature", askar_key_verify_signature(null, empty, empty, std::ptr::null(), &mut b8)),
        ("key_entry_list_count", askar_key_entry_list_count(null, &mut n32)),
        ("key_entry_list_get_name", askar_key_entry_list_get_name(null, 0, &mut s)),
        ("key_entry_list_get_algorithm", askar_key_entry_list_get_algorithm(null, 0, &mut s)),
        ("key_entry_list_get_metadata", askar_key_entry_list_get_metadata(null, 0, &mut s)),
        ("key_entry_list_get_tags", askar_key_entry_list_get_tags(null, 0, &mut s)),
        ("key_entry_list_load_local", askar_key_entry_list_load_local(null, 0, &mut kp)),
        ("string_list_count", askar_string_list_count(null, &mut n32)),
        ("string_list_get_item", askar_string_list_get_item(null, 0, &mut s)),
        ("entry_list_count", askar_entry_list_count(null, &mut n32)),
    ] };
    let no: Vec<(&str, Code)> = unsafe { vec![
        ("key_get_algorithm", askar_key_get_algorithm(key, std::ptr::null_mut())),
        ("key_get_ephemeral", askar_key_get_ephemeral(key, std::ptr::null_mut())),
        ("key_get_public_bytes", askar_key_get_public_bytes(key, std::ptr::null_mut())),
        ("key_get_secret_bytes", askar_key_get_secret_bytes(key, std::ptr::null_mut())),
        ("key_get_jwk_secret", askar_key_get_jwk_secret(key, std::ptr::null_mut())),
        ("key_get_jwk_public", askar_key_get_jwk_public(key, std::ptr::null(), std::ptr::null_mut())),
        ("key_get_jwk_thumbprint", askar_key_get_jwk_thumbprint(key, std::ptr::null(), std::ptr::null_mut())),
        ("key_aead_random_nonce", askar_key_aead_random_nonce(key, std::ptr::null_mut())),
        ("key_sign_message", askar_key_sign_message(key, empty, std::ptr::null(), std::ptr::null_mut())),
        ("key_verify_signature", askar_key_verify_signature(key, empty, empty, std::ptr::null(), std::ptr::null_mut())),
        ("key_crypto_box_random_nonce", askar_key_crypto_box_random_nonce(std::ptr::null_mut())),
        ("key_get_supported_backends", askar_key_get_supported_backends(std::ptr::null_mut())),
        ("key_generate", askar_key_generate(alg.ptr, std::ptr::null(), 1, std::ptr::null_mut())),
        ("key_from_seed", askar_key_from_seed(alg.ptr, empty, std::ptr::null(), std::ptr::null_mut())),
    ] };
    unsafe { askar_key_free(key) };
    let mut class = |which: &str, v: &[(&str, Code)]| -> Value {
        let mut names: Vec<String> = v.iter().map(|(_, c)| code_name(*c)).collect();
        for (f, c) in v { if *c == 0 { run.fail(i, op, format!("null_probe:{}:{}->Success", which, f), json!({})); } if *c == 7 { run.check_panic(i, op, *c); } }
        names.sort(); names.dedup();
        if names.len() == 1 { json!(names[0]) } else { json!(v.iter().map(|(f, c)| format!("{}={}", f, code_name(*c))).collect::<Vec<_>>()) }
    };
    let a = class("null-handle", &nh);
    let b = class("null-out", &no);
    json!({"null_handle": a, "null_out": b})
}

/// a key made from a seed through the C API and through the Rust API must be the same key
fn key_roundtrip(run: &mut Run, i: usize, op: &Value) -> Value {
    use aries_askar::kms::{KeyAlg, LocalKey};
    use std::str::FromStr;
    let alg_s = op["alg"].as_str().unwrap_or("ed25519");
    let seed = hex::decode(op["seed"].as_str().unwrap_or("")).unwrap_or_default();
    let alg = cstr_arg(&json!(alg_s));
    let mut key = P(std::ptr::null());
    let ret = unsafe { askar_key_from_seed(alg.ptr, ByteBuf { len: seed.len() as i64, data: seed.as_ptr() }, std::ptr::null(), &mut key) };
    run.check_panic(i, op, ret);
    let twin = KeyAlg::from_str(alg_s).map_err(aries_askar::Error::from).and_then(|a| LocalKey::from_seed(a, &seed, None));
    match (&twin, ret) {
        (Ok(_), 0) => {}
        (Err(e), c) if c != 0 => { if kind_name(e) != code_name(c) { run.fail(i, op, format!("key_from_seed:rust:err:{}->ffi:{}", kind_name(e), code_name(c)), json!({})); } return jsync(ret, Value::Null); }
        (Ok(_), c) => { run.fail(i, op, format!("key_from_seed:rust:ok->ffi:{}", code_name(c)), json!({})); return jsync(ret, Value::Null); }
        (Err(e), _) => { run.fail(i, op, format!("key_from_seed:rust:err:{}->ffi:ok", kind_name(e)), json!({})); unsafe { askar_key_free(key) }; return jsync(ret, Value::Null); }
    }
    let t = twin.unwrap();
    let mut sb = SecretBuf { len: 0, data: std::ptr::null_mut() };
    let mut s: *const c_char = std::ptr::null();
    let mut diffs = vec![];
    unsafe {
        let c = askar_key_get_public_bytes(key, &mut sb);
        match (t.to_public_bytes(), c) { (Ok(w), 0) => if w.as_ref() != take_buf(sb).as_slice() { diffs.push("public_bytes") }, (Err(_), c) if c != 0 => {}, _ => diffs.push("public_bytes:status") }
        let mut sb2 = SecretBuf { len: 0, data: std::ptr::null_mut() };
        let c = askar_key_get_secret_bytes(key, &mut sb2);
        match (t.to_secret_bytes(), c) { (Ok(w), 0) => if w.as_ref() != take_buf(sb2).as_slice() { diffs.push("secret_bytes") }, (Err(_), c) if c != 0 => {}, _ => diffs.push("secret_bytes:status") }
        let c = askar_key_get_jwk_public(key, std::ptr::null(), &mut s);
        match (t.to_jwk_public(None), c) { (Ok(w), 0) => if Some(w) != take_str(s) { diffs.push("jwk_public") }, (Err(_), c) if c != 0 => {}, _ => diffs.push("jwk_public:status") }
        let mut s2: *const c_char = std::ptr::null();
        let c = askar_key_get_jwk_thumbprint(key, std::ptr::null(), &mut s2);
        match (t.to_jwk_thumbprint(None), c) { (Ok(w), 0) => if Some(w) != take_str(s2) { diffs.push("jwk_thumbprint") }, (Err(_), c) if c != 0 => {}, _ => diffs.push("jwk_thumbprint:status") }
        let mut s3: *const c_char = std::ptr::null();
        let c = askar_key_get_algorithm(key, &mut s3);
        if c != 0 || take_str(s3).as_deref() != Some(t.algorithm().as_str()) { diffs.push("algorithm") }
        // a signature made through the C API verifies under the Rust key, and the other way round
        let msg = b"c19 message \x00 with nul";
        let mut sig = SecretBuf { len: 0, data: std::ptr::null_mut() };
        let c = askar_key_sign_message(key, ByteBuf { len: msg.len() as i64, data: msg.as_ptr() }, std::ptr::null(), &mut sig);
        match (t.sign_message(msg, None), c) {
            (Ok(w), 0) => {
                let fs = take_buf(sig);
                if !t.verify_signature(msg, &fs, None).unwrap_or(false) { diffs.push("sign:ffi-signature-rejected-by-rust") }
                let mut okb: i8 = 0;
                let c2 = askar_key_verify_signature(key, ByteBuf { len: msg.len() as i64, data: msg.as_ptr() }, ByteBuf { len: w.len() as i64, data: w.as_ptr() }, std::ptr::null(), &mut okb);
                if c2 != 0 || okb == 0 { diffs.push("verify:rust-signature-rejected-by-ffi") }
            }
            (Err(_), c) if c != 0 => {}
            _ => diffs.push("sign:status"),
        }
        askar_key_free(key);
    }
    for d in diffs { run.fail(i, op, format!("key_roundtrip:{}:rust-vs-ffi:{}", alg_s, d), json!({})); }
    jsync(ret, Value::Null)
}

static SCAN_ORDER: Lazy<Mutex<HashMap<usize, bool>>> = Lazy::new(|| Mutex::new(HashMap::new()));

/// fetch / fetch_all / scan_next: asynchronous calls that hand back an entry list
fn list_op(run: &mut Run, i: usize, op: &Value, name: &str, cb_given: bool, id: i64, last: &mut [usize; 3]) -> Value {
    let cbf: CbPtr = if cb_given { Some(cb_ptr) } else { None };
    let is_scan = name == "scan_next";
    let h = run.handle_arg(op, if is_scan { last[2] } else { last[1] });
    let live = if is_scan { live_scan(run, h) } else { live_sess(run, h) };
    let (c, n, ft, ob) = (cstr_arg(&op["c"]), cstr_arg(&op["n"]), cstr_arg(&op["ft"]), cstr_arg(&op["order_by"]));
    let (desc, for_update) = (op["desc"].as_bool().unwrap_or(false), op["for_update"].as_bool().unwrap_or(false));
    let ret = unsafe { match name {
        "fetch" => askar_session_fetch(H(h), c.ptr, n.ptr, for_update as i8, cbf, id),
        "fetch_all" => askar_session_fetch_all(H(h), c.ptr, ft.ptr, op["lim"].as_i64().unwrap_or(-1), ob.ptr, desc as i8, for_update as i8, cbf, id),
        _ => askar_scan_next(H(h), cbf, id),
    } };
    let (ob_valid, ob_ordered) = order_by_class(&op["order_by"]);
    let (malformed, ordered, single) = match name {
        "fetch" => (!cb_given || op["c"].is_null() || op["n"].is_null(), true, true),
        "fetch_all" => (!cb_given || !ob_valid || is_bad_utf8(&op["order_by"]) || (!op["ft"].is_null() && op["f"].is_null()), ob_ordered, false),
        _ => (!cb_given, SCAN_ORDER.lock().unwrap().get(&h).copied().unwrap_or(false), false),
    };
    // without ORDER BY a limited result, and the pages of a scan, are not determined
    let known = match name { "fetch" => true, "fetch_all" => ordered || lim_of(op).is_none(), _ => ordered };
    let (ret, cb) = run.finish(i, op, ret, id, cb_given);
    if malformed && ret == 0 { run.fail(i, op, format!("{}:malformed-{}->ret:Success", name, if is_bad_utf8(&op["order_by"]) || is_bad_utf8(&op["ft"]) { "arg-not-utf8" } else { "args" }), json!({})); }
    if !malformed && ret != 0 { run.fail(i, op, format!("{}:valid-args->ret:{}", name, code_name(ret)), json!({"filter": op["ft"]})); }
    // the twin: Ok(None) = no list, Ok(Some(rows))
    let mut twin_res: Option<Result<Option<Vec<Entry>>, aries_askar::Error>> = None;
    if live && ret == 0 && !malformed && run.twin_ok {
        match name {
            "fetch" => if let Some(t) = run.sess.get_mut(&h).and_then(|s| s.twin.as_mut()) {
                twin_res = Some(block_on(t.fetch(op["c"].as_str().unwrap_or(""), op["n"].as_str().unwrap_or(""), for_update)).map(|o| o.map(|e| vec![e])));
            },
            "fetch_all" => if let Some(t) = run.sess.get_mut(&h).and_then(|s| s.twin.as_mut()) {
                let cat = opt_string(&op["c"]);
                twin_res = Some(block_on(t.fetch_all(cat.as_deref(), filter_of(op), lim_of(op), if ordered { Some(OrderBy::Id) } else { None }, desc, for_update)).map(Some));
            },
            _ => if let Some(t) = run.scans.get_mut(&h).and_then(|s| s.twin.as_mut()) { twin_res = Some(block_on(t.fetch_next()).map_err(aries_askar::Error::from)); },
        }
    }
    match cb {
        Some(CbVal::Ptr(code, p)) => {
            if !live && code == 0 { run.fail(i, op, format!("{}:bad-handle->Success", name), json!({"h": h})); }
            if code != 0 {
                if p != 0 { run.fail(i, op, format!("{}:error-with-non-null-list", name), json!({})); }
                match &twin_res {
                    Some(Ok(_)) => run.fail(i, op, format!("{}:rust:ok->ffi:err:{}", name, code_name(code)), json!({})),
                    Some(Err(e)) if kind_name(e) != code_name(code) => run.fail(i, op, format!("{}:rust:err:{}->ffi:{}", name, kind_name(e), code_name(code)), json!({})),
                    _ => {}
                }
                return jret(ret, cberr(code));
            }
            if p == 0 {
                match &twin_res {
                    Some(Ok(Some(rows))) => run.fail(i, op, format!("{}:rust:data->ffi:none", name), json!({"rust_rows": rows.len()})),
                    Some(Err(e)) => run.fail(i, op, format!("{}:rust:err:{}->ffi:none", name, kind_name(e)), json!({})),
                    _ => {}
                }
                return jret(ret, json!({"list": null}));
            }
            let (count, rows) = run.dump_list(p, single);
            match &twin_res {
                Some(Ok(Some(t))) if !known => if t.len() != rows.len() { run.fail(i, op, format!("{}:rust-vs-ffi:rows-differ", name), json!({"rust": t.len(), "ffi": rows.len()})) },
                Some(Ok(Some(t))) => if let Some(d) = compare_rows(&rows, t, ordered) { run.fail(i, op, format!("{}:rust-vs-ffi:{}-differ", name, d.split(':').next().unwrap_or("")), json!({"what": d})) },
                Some(Ok(None)) => run.fail(i, op, format!("{}:rust:none->ffi:data", name), json!({})),
                Some(Err(e)) => run.fail(i, op, format!("{}:rust:err:{}->ffi:data", name, kind_name(e)), json!({})),
                None => {}
            }
            if rows.iter().any(|r| row_tags(r).is_none()) { run.fail(i, op, format!("{}:tags-json-unparsable", name), json!({})); }
            run.set_slot(i, Slot::List { ptr: p, ordered, known, single });
            jret(ret, json!({"list": list_json(count, &rows, ordered, known)}))
        }
        Some(v) => jret(ret, cberr(v.code())),
        None => jret(ret, Value::Null),
    }
}

#[allow(dead_code)]
fn unused(e: &askar_storage::Error) -> &'static str { err_name(e.kind()) }
