/- Driver for `kind = "c11"` (and `"c11:…"`) cases. -/
import Driver.Common

open Lean

namespace Driver.C11

def runCase (_j : Json) : Json := jerr "not implemented"

end Driver.C11
