#!/bin/sh
# Builds the framework from files on disk only (offline): the Lean project (models, theorems, driver)
# and the Rust harness (against /repo's working tree).
set -e
cd "$(dirname "$0")"
export CARGO_NET_OFFLINE=true
python3 tools/extract.py >/dev/null
(cd lean && lake build AskarModel Driver askar_model)
(cd harness && cargo build --offline)
