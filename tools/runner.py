"""Orchestrates one property check.  See /verif/check and DESIGN.md section 2."""
import argparse, fcntl, hashlib, json, os, re, shutil, subprocess, sys, time

VERIF = os.path.dirname(os.path.dirname(os.path.abspath(__file__)))
LEAN = os.path.join(VERIF, "lean")
HARNESS = os.path.join(VERIF, "harness")
HBIN = os.path.join(HARNESS, "target", "debug", "askar_harness")
MODEL_BIN = os.path.join(LEAN, ".lake", "build", "bin", "askar_model")
REPO = "/repo"
ALLOWED_AXIOMS = {"propext", "Classical.choice", "Quot.sound"}
FORBIDDEN = re.compile(r"\b(sorry|admit|native_decide|bv_decide|implemented_by)\b|^\s*axiom\s|\bunsafe\s|maxHeartbeats\s+0\b")

sys.path.insert(0, os.path.dirname(os.path.abspath(__file__)))
import props as PROPS          # per-property configuration
import extract                 # translators: /repo source -> Generated/*.lean


class Lock:
    """serialises lake / cargo invocations so checks may be launched concurrently"""
    def __init__(self, name):
        self.path = os.path.join(VERIF, f".lock-{name}")
    def __enter__(self):
        self.f = open(self.path, "w")
        fcntl.flock(self.f, fcntl.LOCK_EX)
    def __exit__(self, *a):
        fcntl.flock(self.f, fcntl.LOCK_UN)
        self.f.close()


def run(cmd, cwd=None, env=None, inp=None, timeout=None):
    e = dict(os.environ)
    e.setdefault("CARGO_NET_OFFLINE", "true")
    if env:
        e.update(env)
    p = subprocess.run(cmd, cwd=cwd, env=e, input=inp, capture_output=True, text=True, timeout=timeout)
    return p.returncode, p.stdout, p.stderr


def strip_comments(src):
    src = re.sub(r"/-.*?-/", "", src, flags=re.S)
    return re.sub(r"--.*", "", src)


# --------------------------------------------------------------------------------------------
# Lean side

def theorem_names(prop):
    """fully qualified names of every `theorem` in Props/CXX.lean and in the property's additional property files
    (cfg["extra_props"], e.g. the model-to-model ties); tracks namespace / end"""
    names = []
    for f in [prop] + list(PROPS.PROPS.get(prop, {}).get("extra_props", [])):
        names += _theorem_names_of(f)
    return names


def _theorem_names_of(prop):
    path = os.path.join(LEAN, "AskarModel", "Props", f"{prop}.lean")
    src = strip_comments(open(path).read())
    stack, names = [], []
    for ln in src.splitlines():
        m = re.match(r"^namespace\s+(\S+)", ln)
        if m:
            stack.append(m.group(1)); continue
        m = re.match(r"^end\s+(\S+)", ln)
        if m and stack and stack[-1] == m.group(1):
            stack.pop(); continue
        m = re.match(r"^(?:private\s+|protected\s+)?theorem\s+(\S+)", ln)
        if m:
            names.append(".".join(stack + [m.group(1)]))
    return names


def model_exe(prop):
    cfg = PROPS.PROPS[prop]
    return cfg.get("model_exe", "askar_model_store" if not cfg.get("feature") else "askar_model_" + prop.lower())


def lean_check(prop, thorough, log):
    """build the property module, audit axioms; returns (obligations, discharged, failures[list of str], checker_cmd)"""
    failures = []
    mod = f"AskarModel.Props.{prop}"
    with Lock("lake"):
        global MODEL_BIN
        exe = model_exe(prop)
        MODEL_BIN = os.path.join(LEAN, ".lake", "build", "bin", exe)
        extra_mods = [f"AskarModel.Props.{x}" for x in PROPS.PROPS.get(prop, {}).get("extra_props", [])]
        rc, out, err = run(["lake", "build", mod] + extra_mods + [exe], cwd=LEAN, timeout=3000)
        log.write(out + err)
        names = theorem_names(prop)
        if rc != 0:
            # which theorems failed?  report the error lines
            errs = re.findall(r"error: (.*)", out + err)
            failures.append("lake build failed: " + "; ".join(errs[:5]))
            return len(names), 0, failures, f"lake build {mod}", names
        # grep for forbidden constructs in every project source the property module depends on
        for root, _, files in os.walk(os.path.join(LEAN, "AskarModel")):
            for f in files:
                if f.endswith(".lean"):
                    src = strip_comments(open(os.path.join(root, f)).read())
                    for ln in src.splitlines():
                        if FORBIDDEN.search(ln):
                            failures.append(f"forbidden construct in {f}: {ln.strip()[:80]}")
        audit_dir = os.path.join(LEAN, "AskarModel", "Audit")
        os.makedirs(audit_dir, exist_ok=True)
        audit = os.path.join(audit_dir, f"{prop}.lean")
        with open(audit, "w") as fh:
            fh.write(f"import {mod}\n")
            for em in extra_mods:
                fh.write(f"import {em}\n")
            for n in names:
                fh.write(f"#print axioms {n}\n")
        rc, out, err = run(["lake", "env", "lean", audit], cwd=LEAN, timeout=1200)
        log.write(out + err)
        discharged = 0
        text = out + err
        for n in names:
            m = re.search(r"'" + re.escape(n) + r"' (does not depend on any axioms|depends on axioms: \[([^\]]*)\])", text, flags=re.S)
            if not m:
                failures.append(f"no axiom report for {n}")
                continue
            axs = set(a.strip() for a in (m.group(2) or "").replace("\n", " ").split(",") if a.strip())
            bad = axs - ALLOWED_AXIOMS
            if bad:
                failures.append(f"{n} depends on non-accepted axioms {sorted(bad)}")
            else:
                discharged += 1
        cmd = f"lake build {mod} && lake env lean AskarModel/Audit/{prop}.lean"
        if thorough:
            rc, out, err = run(["lake", "env", "leanchecker", mod], cwd=LEAN, timeout=3000)
            log.write(out + err)
            cmd += f" && lake env leanchecker {mod}"
            if rc != 0:
                failures.append("leanchecker rejected the property module: " + (out + err)[-300:])
                discharged = 0
    return len(names), discharged, failures, cmd, names


# --------------------------------------------------------------------------------------------
# Harness side

def cargo_build(log, feature=None):
    """builds the harness with only the module(s) this property needs (so that unrelated modules cannot break the
    check) and keeps a private copy of the binary per feature set"""
    global HBIN
    with Lock("cargo"):
        cmd = ["cargo", "build", "--offline", "--no-default-features"]
        if feature:
            cmd += ["--features", feature]
        rc, out, err = run(cmd, cwd=HARNESS, timeout=3000)
        log.write(out[-5000:] + err[-20000:])
        if rc == 0:
            bindir = os.path.join(HARNESS, "bin")
            os.makedirs(bindir, exist_ok=True)
            dst = os.path.join(bindir, "askar_harness-" + (feature or "base").replace(",", "+"))
            tmp = dst + f".tmp{os.getpid()}"
            shutil.copy2(os.path.join(HARNESS, "target", "debug", "askar_harness"), tmp)
            os.replace(tmp, dst)
            HBIN = dst
        return rc == 0, err


def run_model(lines):
    """pipe case lines through the compiled Lean driver, in parallel chunks"""
    if not lines:
        return []
    n = min(8, max(1, len(lines) // 50))
    chunks = [lines[i::n] for i in range(n)]
    procs = []
    for ch in chunks:
        p = subprocess.Popen([MODEL_BIN], stdin=subprocess.PIPE, stdout=subprocess.PIPE, text=True)
        procs.append((p, ch))
    import threading
    outs = [None] * n
    def feed(i, p, ch):
        o, _ = p.communicate("\n".join(ch) + "\n")
        outs[i] = o
    ts = [threading.Thread(target=feed, args=(i, p, ch)) for i, (p, ch) in enumerate(procs)]
    [t.start() for t in ts]
    [t.join() for t in ts]
    res = {}
    for o in outs:
        for l in (o or "").splitlines():
            if l.strip():
                try:
                    j = json.loads(l)
                    res[json.dumps(j.get("id"))] = j
                except Exception:
                    pass
    return res


def run_impl(lines, env=None, threads=16):
    rc, out, err = run([HBIN, "exec", "--threads", str(threads)], inp="\n".join(lines) + "\n", env=env, timeout=7200)
    res = []
    for l in out.splitlines():
        if l.strip():
            res.append(json.loads(l))
    return rc, res, err


def canon(v):
    return json.dumps(v, sort_keys=True, ensure_ascii=False)


def evaluate(cases, env):
    """run implementation and model on the cases; returns per-case records"""
    lines = [json.dumps(c, ensure_ascii=False) for c in cases]
    rc, impl, err = run_impl(lines, env)
    if len(impl) != len(cases) and rc != 0:
        # the executor died (abort / signal: an allocation failure, a non-unwinding panic, a crash in unsafe code — nothing
        # `catch_unwind` can turn into a result).  That is an outcome of the IMPLEMENTATION on some case: isolate the case
        # (single-threaded re-runs of the cases without a result; the first one without a result kills the process), give
        # it a synthetic result with an oracle failure, and go on with the rest.
        got = {json.dumps(r.get("id")): r for r in impl}
        for _round in range(25):
            missing = [i for i, c in enumerate(cases) if json.dumps(c.get("id")) not in got]
            if not missing:
                break
            rc2, part, err2 = run_impl([lines[i] for i in missing], env, threads=1)
            for r in part:
                got[json.dumps(r.get("id"))] = r
            still = [i for i in missing if json.dumps(cases[i].get("id")) not in got]
            if not still or rc2 == 0:
                break
            k = still[0]
            tail = (err2 or "")[-600:]
            got[json.dumps(cases[k].get("id"))] = {
                "id": cases[k].get("id"), "out": {"err": "ProcessAbort"},
                "oracle": [{"sig": "process-abort", "rc": rc2, "stderr": tail}], "feat": {"process_abort": 1}}
        impl = [got.get(json.dumps(c.get("id"))) for c in cases]
        if any(r is None for r in impl):
            # the executor keeps dying: the cases isolated so far are reported, the rest of this batch is not evaluated
            keep = [i for i, r in enumerate(impl) if r is not None]
            sys.stderr.write(f"executor aborted on more than 25 cases; {len(cases) - len(keep)} case(s) of this batch not evaluated\n")
            cases = [cases[i] for i in keep]
            lines = [lines[i] for i in keep]
            impl = [impl[i] for i in keep]
    if len(impl) != len(cases):
        raise RuntimeError(f"harness exec failed rc={rc}: {err[-2000:]}")
    # the model sees the same case, stamped with the wall-clock reading the executor used
    mlines = []
    for c, r in zip(cases, impl):
        c2 = dict(c)
        if "now" in r:
            c2["now"] = r["now"]
        if isinstance(r.get("model_input"), dict):
            c2.update(r["model_input"])   # facts observed on the implementation that the model is asked to judge
        mlines.append(json.dumps(c2, ensure_ascii=False))
    model = run_model(mlines)
    recs = []
    for c, r in zip(cases, impl):
        m = model.get(json.dumps(c.get("id")))
        recs.append({"case": c, "impl": r, "model": m})
    return recs


def first_diff(impl_out, model_out):
    if isinstance(impl_out, list) and isinstance(model_out, list):
        for i, (a, b) in enumerate(zip(impl_out, model_out)):
            if canon(a) != canon(b):
                return i
        if len(impl_out) != len(model_out):
            return min(len(impl_out), len(model_out))
        return None
    return None if canon(impl_out) == canon(model_out) else 0


def classify(rec):
    """-> (model_ok, oracle_failures[list], diff_index)"""
    impl_out = rec["impl"].get("out")
    model_out = rec["model"].get("out") if rec["model"] else None
    d = first_diff(impl_out, model_out) if rec["model"] is not None else 0
    orc = rec["impl"].get("oracle") or []
    return d is None, orc, d


SHRINK_WALL_S = 90      # wall-clock cap per shrink (a replay need not be minimal; it must be found in bounded time)


def shrink(case, pred, env, budget=120):
    """delta-debugging over case['ops'] (when present) keeping `pred(record)` true"""
    if not isinstance(case.get("ops"), list):
        return case
    best = case
    n = 2
    tries = 0
    t_end = time.time() + SHRINK_WALL_S
    while len(best["ops"]) >= 2 and tries < budget and time.time() < t_end:
        ops = best["ops"]
        chunk = max(1, len(ops) // n)
        reduced = False
        for i in range(0, len(ops), chunk):
            cand = dict(best)
            cand["ops"] = ops[:i] + ops[i + chunk:]
            if not cand["ops"]:
                continue
            tries += 1
            try:
                rec = evaluate([cand], env)[0]
            except Exception:
                continue
            if pred(rec):
                best = cand
                n = max(n - 1, 2)
                reduced = True
                break
            if tries >= budget:
                break
        if not reduced:
            if chunk == 1:
                break
            n = min(n * 2, len(ops))
    return best


SOURCE_FINDINGS = {}   # prop -> [(flag, defective value, signature, what)]; no entry at present (see DESIGN 10.2)


def load_known():
    p = os.path.join(VERIF, "known-findings.json")
    if not os.path.exists(p):
        return []
    return json.load(open(p)).get("findings", [])


def run_one(argv):
    ap = argparse.ArgumentParser()
    ap.add_argument("prop")
    ap.add_argument("--tier", default=os.environ.get("VERIF_TIER", "quick"))
    ap.add_argument("--seed", type=int, default=int(os.environ.get("VERIF_SEED", "1")))
    ap.add_argument("--replay")
    ap.add_argument("--skip-build", action="store_true")
    ap.add_argument("--parent", help="run as an additional engine of this property: VIOLATION lines name the parent")
    a = ap.parse_args(argv)
    prop = a.prop
    cfg = PROPS.PROPS[prop]
    thorough = a.tier == "thorough"
    t0 = time.time()
    os.makedirs(os.path.join(VERIF, "evidence", "replays"), exist_ok=True)
    os.makedirs(os.path.join(VERIF, "logs"), exist_ok=True)
    log = open(os.path.join(VERIF, "logs", f"{prop}-{a.tier}.log"), "w")
    violations = []      # (replay_path, suffix)
    known_hits = {}
    # an additional engine (--parent) shares the known-findings entries of its property
    known = [k for k in load_known() if k.get("property") in (prop, getattr(a, "parent", None)) and k.get("property")]
    open_sigs = {}
    for k in known:
        if k.get("status") == "open":
            for sg in ([k["signature"]] if "signature" in k else []) + k.get("signatures", []):
                open_sigs[sg] = k

    def add_violation(name, payload, no_input=False):
        h = hashlib.sha1(canon(payload).encode()).hexdigest()[:10]
        path = os.path.join(VERIF, "evidence", "replays", f"{prop}-{name}-{h}.json")
        json.dump(payload, open(path, "w"), indent=1, ensure_ascii=False)
        violations.append((path, " no-failing-input-found" if no_input else ""))

    # 1. regenerate the data part of the model from the source
    gen_env = {}
    try:
        gen_env = extract.regenerate(REPO, os.path.join(LEAN, "AskarModel", "Generated"))
    except Exception as e:
        add_violation("extract", {"what": "translator could not read the source in the expected shape", "error": str(e),
                                  "broken": "tools/extract.py (Generated/*.lean)"}, no_input=True)
    env = {k: str(v) for k, v in gen_env.items()}
    # findings that are facts about the SOURCE TEXT of code no harness in this sandbox can execute (the Postgres backend: there
    # is no server): the extractor's flag decides; listed in known-findings.json -> KNOWN-FINDING, otherwise a violation
    for flag, bad, sig, what in SOURCE_FINDINGS.get(prop, []):
        if env.get("VERIF_FLAG_" + flag) == bad:
            if sig in open_sigs:
                known_hits[sig] = known_hits.get(sig, 0) + 1
            else:
                add_violation("source", {"property": prop, "what": what, "signature": sig,
                                         "broken": f"source-derived flag {flag} (tools/extract.py) and the theorem of Props/{prop}.lean stated over it"}, no_input=True)

    # 2. proofs
    obligations, discharged, lean_fail, checker_cmd, thm_names = lean_check(prop, thorough, log)
    proof_broken = bool(lean_fail)

    # 3. harness
    ok, cerr = cargo_build(log, cfg.get("feature"))
    if not ok:
        print(cerr[-3000:])
        add_violation("harness-build", {"what": "the correspondence harness no longer builds against /repo", "stderr": cerr[-3000:],
                                        "broken": "harness build (correspondence cannot be run)"}, no_input=True)
        return finish(prop, a, cfg, t0, violations, known_hits, obligations, 0 if proof_broken else discharged, checker_cmd, thm_names, {}, [], lean_fail)

    # 4. cases: replay file, else corpus first then generated
    cases = []
    if a.replay:
        j = json.load(open(a.replay))
        cases = [j["case"]] if "case" in j else (j if isinstance(j, list) else [j])
    else:
        cdir = os.path.join(VERIF, "corpus", prop)
        if os.path.isdir(cdir):
            for f in sorted(os.listdir(cdir)):
                for l in open(os.path.join(cdir, f)):
                    if l.strip():
                        c = json.loads(l)
                        c["id"] = f"corpus:{f}:{len(cases)}"
                        cases.append(c)
        for g in cfg["gens"]:
            rc, out, err = run([HBIN, "gen", g, "--seed", str(a.seed), "--tier", a.tier], env=env, timeout=1200)
            if rc != 0:
                raise RuntimeError("gen failed: " + err[-2000:])
            for l in out.splitlines():
                if l.strip():
                    c = json.loads(l)
                    c["id"] = f"{g}:{c.get('id')}"
                    cases.append(c)

    # 5. run + compare
    stats = {"feat": {}, "cases": len(cases), "model_agree": 0, "oracle_fail_cases": 0, "nontrivial": set(), "samples": []}
    recs = evaluate(cases, env) if cases else []
    disagreements = []
    oracle_bad = []
    for rec in recs:
        model_ok, orc, d = classify(rec)
        for k, v in (rec["impl"].get("feat") or {}).items():
            stats["feat"][k] = stats["feat"].get(k, 0) + v
        if model_ok:
            stats["model_agree"] += 1
        else:
            disagreements.append((rec, d))
        if orc:
            stats["oracle_fail_cases"] += 1
            oracle_bad.append(rec)
        if PROPS.nontrivial(prop, rec):
            stats["nontrivial"].add(hashlib.sha1(canon({k: v for k, v in rec["case"].items() if k != "id"}).encode()).hexdigest())
    stats["samples"] = [r["case"] for r in recs[:2]]
    if a.replay:
        for rec in recs:
            print(json.dumps({"case": rec["case"], "impl": rec["impl"], "model": rec["model"]}, ensure_ascii=False)[:20000])

    # 6. decide
    # 6a. implementation fails the property's oracle
    seen_new = set()
    for rec in oracle_bad:
        first = rec["impl"]["oracle"][0]
        sig = first.get("sig", "?")
        if sig in open_sigs:
            known_hits[sig] = known_hits.get(sig, 0) + 1
            continue
        if sig in seen_new:
            continue
        seen_new.add(sig)
        small = shrink(rec["case"], lambda r, s=sig: bool(r["impl"].get("oracle")) and r["impl"]["oracle"][0].get("sig") == s, env)
        r2 = evaluate([small], env)[0]
        rerun_ok = bool(r2["impl"].get("oracle")) and r2["impl"]["oracle"][0].get("sig") == sig
        if not rerun_ok:
            # schedule- or timing-dependent failure: the observation of the failing run is the replay, not the re-run
            small, r2 = rec["case"], rec
        add_violation("oracle", {"property": prop, "what": "the implementation's result differs from what the property prescribes",
                                 "signature": sig, "case": small, "impl": r2["impl"], "model": r2["model"],
                                 "reproduced_on_rerun": rerun_ok})
    # 6b. model and implementation disagree
    if disagreements:
        rec, d = disagreements[0]
        small = shrink(rec["case"], lambda r: not classify(r)[0], env)
        r2 = evaluate([small], env)[0]
        orc2 = [o for o in (r2["impl"].get("oracle") or []) if o.get("sig") not in open_sigs]
        if orc2:
            add_violation("model-diff", {"property": prop, "what": "model and implementation disagree and the implementation also fails the property's oracle on this input",
                                         "case": small, "impl": r2["impl"], "model": r2["model"]})
        elif not any(True for _ in seen_new):
            # harmless drift or a model error: search the neighbourhood for an input on which the property fails
            found = None
            t_search_end = time.time() + (120 if not thorough else 600)   # bounded search for a property-violating input
            if not a.replay:
                for extra in range(1, 4 if not thorough else 10):
                    if time.time() > t_search_end:
                        break
                    more = []
                    for g in cfg["gens"]:
                        rc, out, err = run([HBIN, "gen", g, "--seed", str(a.seed + 7919 * extra), "--tier", a.tier], env=env, timeout=1200)
                        more += [json.loads(l) for l in out.splitlines() if l.strip()]
                    for r in evaluate(more, env):
                        bad = [o for o in (r["impl"].get("oracle") or []) if o.get("sig") not in open_sigs]
                        if bad:
                            found = r
                            break
                    if found:
                        break
            if found:
                sig = found["impl"]["oracle"][0].get("sig")
                small2 = shrink(found["case"], lambda r, s=sig: bool(r["impl"].get("oracle")) and r["impl"]["oracle"][0].get("sig") == s, env)
                add_violation("oracle", {"property": prop, "what": "correspondence broke; search found an input on which the property fails",
                                         "signature": sig, "case": small2, "impl": evaluate([small2], env)[0]["impl"]})
            else:
                add_violation("correspondence", {"property": prop, "what": "the Lean model no longer reproduces the implementation; no input violating the property was found",
                                                 "broken": f"correspondence model<->implementation for {prop} ({len(disagreements)} of {len(recs)} cases differ)",
                                                 "first_difference_at_op": d, "case": small, "impl": r2["impl"], "model": r2["model"]}, no_input=True)
    # 6c. proofs
    if proof_broken:
        add_violation("proof", {"property": prop, "what": "a proof obligation no longer checks", "broken": lean_fail,
                                "theorems": thm_names}, no_input=not any(v for v in violations if not v[1]))
    return finish(prop, a, cfg, t0, violations, known_hits, obligations, discharged, checker_cmd, thm_names, stats, known, lean_fail)


def finish(prop, a, cfg, t0, violations, known_hits, obligations, discharged, checker_cmd, thm_names, stats, known, lean_fail):
    wall = time.time() - t0
    open_k = {}
    for k in known:
        if k.get("status") == "open":
            for sg in ([k["signature"]] if "signature" in k else []) + k.get("signatures", []):
                open_k[sg] = k
    for sig, n in sorted(known_hits.items()):
        print(f"KNOWN-FINDING: property={getattr(a, 'parent', None) or prop} {open_k[sig].get('what', sig)} [signature {sig}, {n} case(s) this run]")
    cov = {
        "obligations": obligations,
        "discharged": discharged,
        "checker_cmd": checker_cmd,
        "trusted_base": cfg.get("trusted_base", []) + PROPS.COMMON_TRUSTED,
        "theorems": thm_names,
        "evaluations": stats.get("cases", 0),
        "distinct_nontrivial": len(stats.get("nontrivial", [])),
        "rule": cfg.get("rule", ""),
        "samples": stats.get("samples", []),
        "traces_validated_against_impl": stats.get("model_agree", 0),
        "implementation_vs_oracle_failures": stats.get("oracle_fail_cases", 0),
        "known_findings_hit": known_hits,
        "distribution": stats.get("feat", {}),
        "proof_failures": lean_fail,
    }
    ev = {
        "property_id": prop, "tier": a.tier, "seed": a.seed, "level": "proof", "coverage": cov,
        "assumptions": cfg.get("assumptions", []), "wall_s": round(wall, 2), "violations": len(violations),
    }
    # a run against a seeded change (tools/seed_run.sh sets VERIF_NO_EVIDENCE) is a test of the check, not evidence
    if not a.replay and not os.environ.get("VERIF_NO_EVIDENCE"):
        json.dump(ev, open(os.path.join(VERIF, "evidence", f"{prop}.json"), "w"), indent=1, ensure_ascii=False)
    for path, suffix in violations:
        # one human-readable line per violation in front of the VIOLATION line: what failed, on which case (so that a log alone,
        # without the replay file, tells a flaky oracle from a real regression)
        try:
            pl = json.load(open(path))
            cid = (pl.get("case") or {}).get("id") if isinstance(pl.get("case"), dict) else None
            first = ((pl.get("impl") or {}).get("oracle") or [{}])[0] if isinstance(pl.get("impl"), dict) else {}
            detail = json.dumps({k: v for k, v in first.items() if k != "sig"}, ensure_ascii=False)[:300] if isinstance(first, dict) else ""
            print(f"DETAIL property={getattr(a, 'parent', None) or prop} what={pl.get('signature') or pl.get('broken') or pl.get('what')} "
                  f"case={cid} reproduced_on_rerun={pl.get('reproduced_on_rerun')} {detail}")
        except Exception:
            pass
        print(f"VIOLATION property={getattr(a, 'parent', None) or prop} replay={path}{suffix}")
    print(f"{prop} {a.tier}: {stats.get('cases', 0)} cases, model agrees on {stats.get('model_agree', 0)}, "
          f"theorems {discharged}/{obligations}, {len(violations)} violation(s), {wall:.1f}s")
    return 1 if violations else 0


def main(argv):
    """one property = its own engine plus any additional engines registered for it (cfg['extra_engines']);
    their coverage is merged into the property's evidence file"""
    rc = run_one(argv)
    ap = argparse.ArgumentParser()
    ap.add_argument("prop"); ap.add_argument("--tier", default=os.environ.get("VERIF_TIER", "quick"))
    ap.add_argument("--seed", type=int, default=int(os.environ.get("VERIF_SEED", "1")))
    ap.add_argument("--replay"); ap.add_argument("--skip-build", action="store_true"); ap.add_argument("--parent")
    a = ap.parse_args(argv)
    extras = PROPS.PROPS.get(a.prop, {}).get("extra_engines", [])
    if a.replay or a.parent or not extras:
        return rc
    evp = os.path.join(VERIF, "evidence", f"{a.prop}.json")
    ev = json.load(open(evp))
    for sub in extras:
        r2 = run_one([sub, "--tier", a.tier, "--seed", str(a.seed), "--parent", a.prop])
        rc = rc or r2
        sp = os.path.join(VERIF, "evidence", f"{sub}.json")
        se = json.load(open(sp))
        c, sc = ev["coverage"], se["coverage"]
        for k in ("obligations", "discharged", "evaluations", "distinct_nontrivial", "traces_validated_against_impl"):
            c[k] = c.get(k, 0) + sc.get(k, 0)
        c["theorems"] = c.get("theorems", []) + sc.get("theorems", [])
        c["checker_cmd"] = c.get("checker_cmd", "") + " ; " + sc.get("checker_cmd", "")
        c.setdefault("additional_engines", {})[sub] = {k: sc.get(k) for k in ("rule", "distribution", "evaluations", "distinct_nontrivial", "traces_validated_against_impl", "proof_failures")}
        c["samples"] = c.get("samples", []) + sc.get("samples", [])[:1]
        ev["violations"] = ev.get("violations", 0) + se.get("violations", 0)
        ev["wall_s"] = round(ev.get("wall_s", 0) + se.get("wall_s", 0), 2)
        ev["assumptions"] = ev.get("assumptions", []) + [x for x in se.get("assumptions", []) if x not in ev.get("assumptions", [])]
        os.remove(sp)
    json.dump(ev, open(evp, "w"), indent=1, ensure_ascii=False)
    return rc
