/-
The shape of the fixed SQL statements of sqlite/mod.rs, as far as the store model depends on it.
`tools/extract.py` parses the statement constants of the CURRENT source into these structures
(Generated/Stmts.lean); `Expected` below is what the hand-written model (Model/Store.lean) assumes.
The obligations `shapeOk Generated.x Expected.x = true` (Props/C01, C07, C17) are re-checked on
every run: a statement that loses its profile predicate, its kind bind, its identity atoms or its
expiry atom breaks an obligation.  Comparison is on SETS of normalised WHERE atoms (alias prefixes,
whitespace, keyword case and atom order are irrelevant), so harmless rewrites do not.
-/
namespace Askar.Sql

inductive Atom
  /-- `col = ?n` -/
  | eqParam (col : String) (n : Nat)
  /-- `(col = ?n OR ?n IS NULL)` -/
  | eqParamOrNull (col : String) (n : Nat)
  /-- `(expiry IS NULL OR DATETIME(expiry) > DATETIME('now'))` -/
  | expiryLive
  /-- Postgres spelling: `(expiry IS NULL OR expiry > CURRENT_TIMESTAMP)` (timestamp comparison, no truncation to seconds) -/
  | expiryLivePg
  /-- anything else, normalised text -/
  | other (text : String)
  deriving DecidableEq, Repr, Inhabited

structure Stmt where
  /-- "select" | "insert" | "update" | "delete" -/
  verb : String
  table : String
  /-- INSERT: conflict policy ("ignore", "replace", "") -/
  policy : String := ""
  /-- INSERT: column list; UPDATE: assigned columns (with their parameter numbers) -/
  cols : List (String × Nat) := []
  whereAtoms : List Atom := []
  returning : String := ""
  /-- SELECT: row-lock suffix (Postgres `FOR NO KEY UPDATE`), normalised lower case -/
  lock : String := ""
  deriving DecidableEq, Repr, Inhabited

def sameSet (a b : List Atom) : Bool := a.all (b.contains ·) && b.all (a.contains ·)

def shapeOk (actual expected : Stmt) : Bool :=
  actual.verb == expected.verb && actual.table == expected.table && actual.policy == expected.policy &&
  actual.cols == expected.cols && sameSet actual.whereAtoms expected.whereAtoms && actual.returning == expected.returning &&
  actual.lock == expected.lock

/-- restricted to the given profile: `profile_id = ?1` is one of the conjuncts -/
def Stmt.profileScoped (s : Stmt) : Bool := s.whereAtoms.contains (.eqParam "profile_id" 1)

def Stmt.hidesExpired (s : Stmt) : Bool := s.whereAtoms.contains .expiryLive

/-- the Postgres backend's expiry conjunct -/
def Stmt.hidesExpiredPg (s : Stmt) : Bool := s.whereAtoms.contains .expiryLivePg

namespace Expected

def scope : List Atom := [.eqParam "profile_id" 1, .eqParamOrNull "kind" 2, .eqParamOrNull "category" 3]
def ident : List Atom := [.eqParam "profile_id" 1, .eqParam "kind" 2, .eqParam "category" 3, .eqParam "name" 4]

/-- `Item.inScope` + `live` (doCount) -/
def countQuery : Stmt := { verb := "select", table := "items", whereAtoms := scope ++ [.expiryLive] }
/-- `Item.inScope` + `live` (selectRows) -/
def scanQuery : Stmt := { verb := "select", table := "items", whereAtoms := scope ++ [.expiryLive] }
/-- `Item.sameIdent` + `live` (doFetch) -/
def fetchQuery : Stmt := { verb := "select", table := "items", whereAtoms := ident ++ [.expiryLive] }
/-- `Item.sameIdent`, no expiry atom (doRemove) — known finding D8 -/
def deleteQuery : Stmt := { verb := "delete", table := "items", whereAtoms := ident }
/-- `Item.inScope`, no expiry atom (doRemoveAll) — known finding D8 -/
def deleteAllQuery : Stmt := { verb := "delete", table := "items", whereAtoms := scope }
/-- INSERT OR IGNORE: a conflict on the unique index affects 0 rows (doInsert → Duplicate) -/
def insertQuery : Stmt :=
  { verb := "insert", table := "items", policy := "ignore",
    cols := [("profile_id", 1), ("kind", 2), ("category", 3), ("name", 4), ("value", 5), ("expiry", 6)] }
/-- `Item.sameIdent`, sets value and expiry, no expiry atom (doReplace) — known finding D8 -/
def updateQuery : Stmt :=
  { verb := "update", table := "items", cols := [("value", 5), ("expiry", 6)], whereAtoms := ident, returning := "id" }
def tagInsertQuery : Stmt :=
  { verb := "insert", table := "items_tags", cols := [("item_id", 1), ("name", 2), ("value", 3), ("plaintext", 4)] }
def tagDeleteQuery : Stmt := { verb := "delete", table := "items_tags", whereAtoms := [.eqParam "item_id" 1] }

end Expected

/- What the same model assumes of the POSTGRES backend's statements (backend/postgres/mod.rs): the same shapes, with
    Postgres' spelling of the expiry conjunct, `ON CONFLICT DO NOTHING RETURNING id` for the insert and a row-locking
    variant of the fetch.  There is no Postgres server in the sandbox: these statements are tied to the model by proof
    obligations over the extracted text only (Generated/StmtsPg.lean), never by a correspondence run. -/
namespace ExpectedPg

def countQuery : Stmt := { verb := "select", table := "items", whereAtoms := Expected.scope ++ [.expiryLivePg] }
def scanQuery : Stmt := { verb := "select", table := "items", whereAtoms := Expected.scope ++ [.expiryLivePg] }
def fetchQuery : Stmt := { verb := "select", table := "items", whereAtoms := Expected.ident ++ [.expiryLivePg] }
def fetchQueryUpdate : Stmt :=
  { verb := "select", table := "items", whereAtoms := Expected.ident ++ [.expiryLivePg], lock := "for no key update" }
def deleteQuery : Stmt := Expected.deleteQuery
def deleteAllQuery : Stmt := Expected.deleteAllQuery
def insertQuery : Stmt := { Expected.insertQuery with returning := "id" }
def updateQuery : Stmt := Expected.updateQuery
def tagInsertQuery : Stmt := Expected.tagInsertQuery
def tagDeleteQuery : Stmt := Expected.tagDeleteQuery

end ExpectedPg
end Askar.Sql
