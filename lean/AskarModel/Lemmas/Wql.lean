/- Helper lemmas for Props/C04.lean. -/
import AskarModel.Model.Wql

namespace Askar.Wql.Lemmas

/-! ### Induction principles for the nested inductives -/

theorem Query.induct' {N : Type} {P : Query N → Prop}
    (and : ∀ qs, (∀ q ∈ qs, P q) → P (.and qs))
    (or : ∀ qs, (∀ q ∈ qs, P q) → P (.or qs))
    (not : ∀ q, P q → P (.not q))
    (cmp : ∀ op n v, P (.cmp op n v))
    (isIn : ∀ n vs, P (.isIn n vs))
    (exist : ∀ ns, P (.exist ns)) : ∀ q, P q := fun q =>
  Query.rec (motive_1 := P) (motive_2 := fun qs => ∀ q ∈ qs, P q) and or not cmp isIn exist
    (by intro q hq; cases hq)
    (by
      intro h t ih1 ih2 q hq
      cases hq with
      | head => exact ih1
      | tail _ hq => exact ih2 q hq) q

theorem Clause.induct' {P : Clause → Prop}
    (sub : ∀ neg a c p numbered, P (.sub neg a c p numbered))
    (conj : ∀ op cs, (∀ c ∈ cs, P c) → P (.conj op cs))
    (zero : P .zero) : ∀ c, P c := fun c =>
  Clause.rec (motive_1 := P) (motive_2 := fun cs => ∀ c ∈ cs, P c) sub conj zero
    (by intro q hq; cases hq)
    (by
      intro h t ih1 ih2 q hq
      cases hq with
      | head => exact ih1
      | tail _ hq => exact ih2 q hq) c

/-! ### UTF-8 is injective -/

theorem ByteArray_toList_loop (bs : ByteArray) (i : Nat) (r : List UInt8) :
    ByteArray.toList.loop bs i r = r.reverse ++ bs.data.toList.drop i := by
  fun_induction ByteArray.toList.loop bs i r with
  | case1 i r h ih =>
    rw [ih]
    have h' : i < bs.data.toList.length := by rw [Array.length_toList]; exact h
    rw [List.drop_eq_getElem_cons h']
    simp [ByteArray.get!]
    exact getElem!_pos bs.data i (by simpa using h')
  | case2 i r h =>
    have h' : bs.data.toList.length ≤ i := by rw [Array.length_toList]; exact Nat.le_of_not_lt h
    simp [List.drop_eq_nil_of_le h']

theorem ByteArray_toList_eq (bs : ByteArray) : bs.toList = bs.data.toList := by
  simp [ByteArray.toList, ByteArray_toList_loop]

theorem utf8_eq (s : String) : utf8 s = s.toByteArray.data.toList := by
  simp [utf8, ByteArray_toList_eq, String.toUTF8]

theorem utf8_inj {a b : String} (h : utf8 a = utf8 b) : a = b := by
  rw [utf8_eq, utf8_eq] at h
  apply String.toByteArray_inj.mp
  apply ByteArray.ext
  exact Array.toList_inj.mp h

theorem utf8_beq (a b : String) : (utf8 a == utf8 b) = (a == b) := by
  rw [Bool.eq_iff_iff]
  simp only [beq_iff_eq]
  exact ⟨utf8_inj, fun h => h ▸ rfl⟩

/-! ### The small facts -/

theorem not_exist_per_name (like : Bytes → Bytes → Bool) (ns : List TagName) (tags : List Tag) :
    holds like tags (.not (.exist ns)) = ns.all fun n => !atomExist n tags := by
  simp [holds, holdsP]

theorem encode_nested_empty (E : TagCrypto) (neg : Bool) (args : List Bytes) (qs : List (Query TagName)) :
    encodeList E neg args (.and [] :: qs) = encodeList E neg args qs ∨ neg = true := by
  cases neg with
  | true => exact Or.inr rfl
  | false => left; simp [encodeList, encode, conjClause]

theorem toyPrefix_length (b : Bytes) : (toyPrefix b).length = 12 := by
  simp [toyPrefix]

theorem toy_inj : TagCrypto.toy.Inj where
  name_inj a b h := by
    simp only [TagCrypto.toy, List.cons.injEq, true_and] at h
    exact utf8_inj h
  value_inj a b h := by
    simp only [TagCrypto.toy] at h
    exact utf8_inj (List.append_inj h (by simp [toyPrefix_length])).2

/-! ### Polarity-passing semantics vs. the plain Boolean one -/

theorem singleNameExistList_iff (qs : List (Query TagName)) :
    singleNameExistList qs = true ↔ ∀ q ∈ qs, q.singleNameExist = true := by
  induction qs with
  | nil => simp [singleNameExistList]
  | cons q qs ih => simp [singleNameExistList, ih]

theorem holdsP_eq_std (like : Bytes → Bytes → Bool) (tags : List Tag) (q : Query TagName) :
    q.singleNameExist = true → ∀ neg, holdsP like tags neg q = (neg != std like tags q) := by
  induction q using Query.induct' with
  | and qs ih =>
    intro h1 neg
    simp only [Query.singleNameExist, singleNameExistList_iff] at h1
    induction qs with
    | nil => cases neg <;> simp [holdsP, holdsAll, holdsAny, std, stdAll]
    | cons q qs ihq =>
      have hq := ih q (by simp) (h1 q (by simp))
      have hqs := ihq (fun q' hq' => ih q' (by simp [hq'])) (fun q' hq' => h1 q' (by simp [hq']))
      cases neg <;> simp [holdsP, holdsAll, holdsAny, std, stdAll, hq] at hqs ⊢
      all_goals rw [hqs]
  | or qs ih =>
    intro h1 neg
    simp only [Query.singleNameExist, singleNameExistList_iff] at h1
    induction qs with
    | nil => cases neg <;> simp [holdsP, holdsAll, holdsAny, std, stdAny]
    | cons q qs ihq =>
      have hq := ih q (by simp) (h1 q (by simp))
      have hqs := ihq (fun q' hq' => ih q' (by simp [hq'])) (fun q' hq' => h1 q' (by simp [hq']))
      cases neg <;> simp [holdsP, holdsAll, holdsAny, std, stdAny, hq] at hqs ⊢
      all_goals rw [hqs]
  | not q ih =>
    intro h1 neg
    simp only [Query.singleNameExist] at h1
    simp only [holdsP, std, ih h1]
    cases neg <;> cases std like tags q <;> rfl
  | cmp op n v => intro _ neg; simp [holdsP, std]
  | isIn n vs => intro _ neg; simp [holdsP, std]
  | exist ns =>
    intro h1 neg
    simp only [Query.singleNameExist, beq_iff_eq] at h1
    match ns, h1 with
    | [n], _ => simp [holdsP, std]

theorem negate_is_complement (like : Bytes → Bytes → Bool) (q : Query TagName)
    (h1 : q.SingleNameExist) (tags : List Tag) :
    holds like tags (.not q) = !holds like tags q := by
  simp only [holds, holdsP, holdsP_eq_std like tags q h1]
  cases std like tags q <;> rfl

theorem holds_eq_std (like : Bytes → Bytes → Bool) (q : Query TagName)
    (h1 : q.SingleNameExist) (tags : List Tag) : holds like tags q = std like tags q := by
  simp [holds, holdsP_eq_std like tags q h1]

/-! ### Shape of the encoder output: arguments are only appended, and the clause refers to exactly
    the appended arguments, in order -/

theorem range_map_add (idx n : Nat) :
    (List.range n).map (· + idx + 1) = List.range' (idx + 1) n := by
  rw [List.range'_eq_map_range]
  apply List.map_congr_left
  intro a _
  omega

def Shape (args : List Bytes) (r : Option Clause × List Bytes) : Prop :=
  ∃ oc ext, r = (oc, args ++ ext) ∧
    match oc with
    | some c => c.argRefs = List.range' args.length ext.length
    | none => ext = []

def ShapeL (args : List Bytes) (r : List Clause × List Bytes) : Prop :=
  ∃ cs ext, r = (cs, args ++ ext) ∧ argRefsList cs = List.range' args.length ext.length

theorem encodeOp_shape (E : TagCrypto) (op : CmpOp) (n : TagName) (v : String) (neg : Bool)
    (args : List Bytes) : Shape args (encodeOp E op n v neg args) := by
  unfold encodeOp
  dsimp only
  split
  · split
    · exact ⟨_, [_, _, _], rfl, rfl⟩
    · exact ⟨_, [_, _], rfl, rfl⟩
  · exact ⟨_, [_, _], rfl, rfl⟩

theorem encodeIn_shape (E : TagCrypto) (n : TagName) (vs : List String) (neg : Bool)
    (args : List Bytes) : Shape args (encodeIn E n vs neg args) := by
  refine ⟨_, _, rfl, ?_⟩
  simp [Clause.argRefs, Cond.argRefs, range_map_add, List.range'_succ]

theorem encodeExistList_shape (E : TagCrypto) (neg : Bool) (ns : List TagName) (args : List Bytes) :
    ShapeL args (encodeExistList E neg ns args) := by
  induction ns generalizing args with
  | nil => exact ⟨[], [], by simp [encodeExistList], by simp [argRefsList]⟩
  | cons n ns ih =>
    obtain ⟨cs, e, h1, h2⟩ := ih (args ++ [E.encName n.str])
    refine ⟨.sub neg args.length .none n.isPlain false :: cs, E.encName n.str :: e, ?_, ?_⟩
    · simp [encodeExistList, encodeExist1, h1]
    · simpa [argRefsList, Clause.argRefs, Cond.argRefs, List.range'_succ] using h2

theorem conjClause_shape (op : ConjOp) (args : List Bytes) (r : List Clause × List Bytes)
    (h : ShapeL args r) : Shape args (conjClause op r.1, r.2) := by
  obtain ⟨cs, e, h1, h2⟩ := h
  subst h1
  refine ⟨_, e, rfl, ?_⟩
  cases cs with
  | nil =>
    have he : e = [] := by
      simp only [argRefsList] at h2
      have := congrArg List.length h2
      simp at this
      exact List.eq_nil_of_length_eq_zero this.symm
    subst he
    by_cases hop : op = .or <;> simp [conjClause, hop, Clause.argRefs]
  | cons c cs => simpa [conjClause, Clause.argRefs] using h2

theorem encodeExist_shape (E : TagCrypto) (ns : List TagName) (neg : Bool) (args : List Bytes) :
    Shape args (encodeExist E ns neg args) := by
  unfold encodeExist
  split
  · exact ⟨none, [], by simp, rfl⟩
  · exact ⟨_, [_], rfl, rfl⟩
  · exact conjClause_shape _ _ _ (encodeExistList_shape E neg ns args)

theorem encodeList_shape (E : TagCrypto) (qs : List (Query TagName))
    (ih : ∀ q ∈ qs, ∀ neg args, Shape args (encode E neg args q)) (neg : Bool) (args : List Bytes) :
    ShapeL args (encodeList E neg args qs) := by
  induction qs generalizing args with
  | nil => exact ⟨[], [], by simp [encodeList], by simp [argRefsList]⟩
  | cons q qs ihq =>
    obtain ⟨c, e1, h1, hc⟩ := ih q (by simp) neg args
    obtain ⟨cs, e2, h2, hcs⟩ := ihq (fun q' hq' => ih q' (by simp [hq'])) (args ++ e1)
    rw [encodeList, h1]
    simp only [h2]
    cases c with
    | none =>
      subst hc
      exact ⟨cs, e2, by simp, by simpa using hcs⟩
    | some c =>
      simp only at hc
      refine ⟨c :: cs, e1 ++ e2, by simp, ?_⟩
      simp only [argRefsList, hc, hcs, List.length_append]
      rw [← List.range'_append]
      simp

theorem encode_shape (E : TagCrypto) (q : Query TagName) :
    ∀ neg args, Shape args (encode E neg args q) := by
  induction q using Query.induct' with
  | and qs ih =>
    intro neg args
    rw [encode]
    exact conjClause_shape _ _ _ (encodeList_shape E qs ih neg args)
  | or qs ih =>
    intro neg args
    rw [encode]
    exact conjClause_shape _ _ _ (encodeList_shape E qs ih neg args)
  | not q ih => intro neg args; rw [encode]; exact ih _ _
  | cmp op n v => intro neg args; rw [encode]; exact encodeOp_shape ..
  | isIn n vs => intro neg args; rw [encode]; exact encodeIn_shape ..
  | exist ns => intro neg args; rw [encode]; exact encodeExist_shape ..

theorem encodeQuery_argRefs (E : TagCrypto) (q : Query TagName) (c : Clause)
    (h : (encodeQuery E q).1 = some c) : c.argRefs = List.range (encodeQuery E q).2.length := by
  obtain ⟨oc, e, h1, h2⟩ := encode_shape E q false []
  unfold encodeQuery at h ⊢
  rw [h1] at h ⊢
  simp only at h
  subst h
  simp only at h2
  rw [h2, List.range_eq_range']
  simp

theorem encode_args_bound (E : TagCrypto) (q : Query TagName) (c : Clause)
    (h : (encodeQuery E q).1 = some c) : c.Bounded (encodeQuery E q).2.length := by
  intro i hi
  rw [encodeQuery_argRefs E q c h] at hi
  simpa using hi

/-! ### Semantics preservation -/

theorem any_congr_mem {α : Type} {l : List α} {p q : α → Bool} (h : ∀ a ∈ l, p a = q a) :
    l.any p = l.any q := by
  induction l with
  | nil => rfl
  | cons a l ih =>
    simp only [List.any_cons, h a (by simp), ih (fun b hb => h b (by simp [hb]))]

theorem arg_append_add (pre l : List Bytes) (k : Nat) :
    arg (pre ++ l) (pre.length + k) = arg l k := by
  simp [arg, List.getD_eq_getElem?_getD, List.getElem?_append_right]

theorem arg_append_zero (pre l : List Bytes) :
    arg (pre ++ l) pre.length = arg l 0 := arg_append_add pre l 0

section Correct
variable (like : Bytes → Bytes → Bool) (E : TagCrypto) (hE : E.Inj) (vals : List String)
  (hP : E.NoPrefixCollision vals) (tags : List Tag) (htags : ∀ t ∈ tags, t.value ∈ vals)

include hE in
theorem encName_beq (a b : String) : (E.encName a == E.encName b) = (a == b) := by
  rw [Bool.eq_iff_iff]
  simp only [beq_iff_eq]
  exact ⟨hE.name_inj a b, fun h => h ▸ rfl⟩

include hE in
theorem encValue_beq (a b : String) : (E.encValue a == E.encValue b) = (a == b) := by
  rw [Bool.eq_iff_iff]
  simp only [beq_iff_eq]
  exact ⟨hE.value_inj a b, fun h => h ▸ rfl⟩

include hP in
theorem prefix_beq (a b : String) (ha : a ∈ vals) (hb : b ∈ vals) :
    ((E.encValue a).take 12 == (E.encValue b).take 12) = (a == b) := by
  rw [Bool.eq_iff_iff]
  simp only [beq_iff_eq]
  exact ⟨hP a ha b hb, fun h => h ▸ rfl⟩

include hE hP htags in
theorem encodeOp_correct (op : CmpOp) (n : TagName) (v : String) (hv : v ∈ vals)
    (hs : (n.isPlain || op.equality) = true) (neg : Bool) (args : List Bytes) :
    ∃ c ext, encodeOp E op n v neg args = (some c, args ++ ext) ∧
      ∀ more, evalClause like (args ++ ext ++ more) (tags.map E.encTag) c
        = (neg != atomCmp like op n v tags) := by
  unfold encodeOp
  dsimp only
  split
  · rename_i pop hpl hpop
    have hop : op = .eq ∨ op = .neq := by
      cases op <;> simp [hpl, CmpOp.equality] at hs ⊢
    split
    · refine ⟨_, [_, _, _], rfl, ?_⟩
      intro more
      simp only [evalClause, List.append_assoc, arg_append_zero, arg_append_add, condHolds]
      congr 1
      rw [List.any_map]
      unfold atomCmp
      apply any_congr_mem
      intro t ht
      have hvt := htags t ht
      rcases hop with rfl | rfl <;> cases hpop <;> cases htp : t.plain <;>
        simp [arg, hpl, encValueArg, TagCrypto.encTag, Tag.named, cmpBytes, htp, bne,
          encName_beq E hE, encValue_beq E hE, prefix_beq E vals hP _ _ hvt hv, utf8_beq]
    · refine ⟨_, [_, _], rfl, ?_⟩
      intro more
      simp only [evalClause, List.append_assoc, arg_append_zero, arg_append_add, condHolds]
      congr 1
      rw [List.any_map]
      unfold atomCmp
      apply any_congr_mem
      intro t ht
      rcases hop with rfl | rfl <;> cases htp : t.plain <;>
        simp [arg, hpl, encValueArg, TagCrypto.encTag, Tag.named, cmpBytes, htp, bne,
          encName_beq E hE, encValue_beq E hE, utf8_beq]
  · rename_i hnot
    refine ⟨_, [_, _], rfl, ?_⟩
    intro more
    simp only [evalClause, List.append_assoc, arg_append_zero, arg_append_add, condHolds]
    congr 1
    rw [List.any_map]
    unfold atomCmp
    apply any_congr_mem
    intro t ht
    cases hpl : n.isPlain
    · exfalso
      cases op <;> simp [hpl, CmpOp.equality, CmpOp.prefixOp] at hs hnot
    · cases htp : t.plain <;>
        simp [arg, hpl, encValueArg, TagCrypto.encTag, Tag.named, htp, encName_beq E hE]

theorem range'_any_arg (pre l more : List Bytes) (x : Bytes) :
    (List.range' pre.length l.length).any (fun i => x == arg (pre ++ (l ++ more)) i)
      = l.any (fun y => x == y) := by
  induction l generalizing pre with
  | nil => simp
  | cons a l ih =>
    have h := ih (pre ++ [a])
    simp only [List.length_append, List.length_cons, List.length_nil, Nat.zero_add,
      List.append_assoc, List.cons_append, List.nil_append] at h
    simp only [List.length_cons, List.range'_succ, List.any_cons, h, arg_append_zero,
      List.cons_append]
    simp [arg]

theorem in_any (args : List Bytes) (a : Bytes) (l more : List Bytes) (x : Bytes) (n : Nat)
    (hn : n = l.length) :
    (List.range' (args.length + 1) n).any (fun i => x == arg (args ++ a :: (l ++ more)) i)
      = l.any (fun y => x == y) := by
  subst hn
  have h := range'_any_arg (args ++ [a]) l more x
  simpa using h

include hE in
theorem encodeIn_correct (n : TagName) (vs : List String) (neg : Bool) (args : List Bytes) :
    ∃ c ext, encodeIn E n vs neg args = (some c, args ++ ext) ∧
      ∀ more, evalClause like (args ++ ext ++ more) (tags.map E.encTag) c
        = (neg != atomIn n vs tags) := by
  unfold encodeIn
  refine ⟨_, _, rfl, ?_⟩
  intro more
  simp only [evalClause, condHolds, range_map_add, List.append_assoc, List.cons_append,
    arg_append_zero]
  congr 1
  rw [List.any_map]
  unfold atomIn
  apply any_congr_mem
  intro t ht
  simp only [Function.comp]
  rw [in_any _ _ _ _ _ _ (by simp)]
  have key : t.plain = n.isPlain →
      (vs.map (encValueArg E n.isPlain)).any (fun y => (E.encTag t).value == y)
        = vs.contains t.value := by
    intro h
    induction vs with
    | nil => rfl
    | cons v vs ih =>
      simp only [List.map_cons, List.any_cons, List.contains_cons, ih]
      congr 1
      cases htp : t.plain <;>
        simp [TagCrypto.encTag, encValueArg, ← h, htp, encValue_beq E hE, utf8_beq]
  by_cases h : t.plain = n.isPlain
  · rw [key h]
    simp [arg, TagCrypto.encTag, Tag.named, h, encName_beq E hE]
  · have h' : (t.plain == n.isPlain) = false := by simpa using h
    simp [TagCrypto.encTag, Tag.named, h']

include hE in
theorem exist1_eval (n : TagName) (neg : Bool) (args more : List Bytes) :
    evalClause like (args ++ E.encName n.str :: more) (tags.map E.encTag)
      (.sub neg args.length .none n.isPlain false) = (neg != atomExist n tags) := by
  simp only [evalClause, condHolds, arg_append_zero]
  congr 1
  rw [List.any_map]
  unfold atomExist
  apply any_congr_mem
  intro t ht
  cases htp : t.plain <;> cases hpl : n.isPlain <;>
    simp [arg, TagCrypto.encTag, Tag.named, htp, hpl, encName_beq E hE]

include hE in
theorem encodeExistList_correct (neg : Bool) (ns : List TagName) (args : List Bytes) :
    ∃ cs ext, encodeExistList E neg ns args = (cs, args ++ ext) ∧ cs.length = ns.length ∧
      ∀ more, evalAll like (args ++ ext ++ more) (tags.map E.encTag) cs
        = ns.all (fun n => neg != atomExist n tags) := by
  induction ns generalizing args with
  | nil => exact ⟨[], [], by simp [encodeExistList], rfl, by simp [evalAll]⟩
  | cons n ns ih =>
    obtain ⟨cs, e, h1, hl, h2⟩ := ih (args ++ [E.encName n.str])
    refine ⟨.sub neg args.length .none n.isPlain false :: cs, E.encName n.str :: e, ?_, ?_, ?_⟩
    · simp [encodeExistList, encodeExist1, h1]
    · simp [hl]
    · intro more
      have h3 := h2 more
      simp only [List.append_assoc, List.cons_append, List.nil_append] at h3
      simp only [evalAll, List.all_cons, List.append_assoc, List.cons_append, h3,
        exist1_eval like E hE tags]

include hE in
theorem encodeExist_correct (ns : List TagName) (hns : ns ≠ []) (neg : Bool) (args : List Bytes) :
    ∃ c ext, encodeExist E ns neg args = (some c, args ++ ext) ∧
      ∀ more, evalClause like (args ++ ext ++ more) (tags.map E.encTag) c
        = ns.all (fun n => neg != atomExist n tags) := by
  match ns, hns with
  | [n], _ =>
    refine ⟨_, [_], rfl, ?_⟩
    intro more
    simp [exist1_eval like E hE tags]
  | n1 :: n2 :: ns, _ =>
    obtain ⟨cs, e, h1, hl, h2⟩ := encodeExistList_correct like E hE tags neg (n1 :: n2 :: ns) args
    match cs, hl with
    | c :: cs, _ =>
      refine ⟨.conj .and (c :: cs), e, ?_, ?_⟩
      · simp only [encodeExist, h1, conjClause]
      · intro more
        rw [evalClause]
        exact h2 more

/-- The induction statement for `encode_correct`. -/
def Correct (q : Query TagName) : Prop :=
  ∀ neg args, (∀ v ∈ q.values, v ∈ vals) → q.solid = true →
    ∃ c ext, encode E neg args q = (some c, args ++ ext) ∧
      ∀ more, evalClause like (args ++ ext ++ more) (tags.map E.encTag) c = holdsP like tags neg q

theorem encodeList_correct (qs : List (Query TagName))
    (ih : ∀ q ∈ qs, Correct like E vals tags q) (neg : Bool) (args : List Bytes)
    (hv : ∀ v ∈ valuesList qs, v ∈ vals) (hs : solidList qs = true) :
    ∃ cs ext, encodeList E neg args qs = (cs, args ++ ext) ∧ cs.length = qs.length ∧
      ∀ more, evalAll like (args ++ ext ++ more) (tags.map E.encTag) cs = holdsAll like tags neg qs ∧
        evalAny like (args ++ ext ++ more) (tags.map E.encTag) cs = holdsAny like tags neg qs := by
  induction qs generalizing args with
  | nil => exact ⟨[], [], by simp [encodeList], rfl, by simp [evalAll, evalAny, holdsAll, holdsAny]⟩
  | cons q qs ihq =>
    simp only [valuesList, List.mem_append] at hv
    simp only [solidList, Bool.and_eq_true] at hs
    obtain ⟨c, e1, h1, hc⟩ := ih q (by simp) neg args (fun v h => hv v (Or.inl h)) hs.1
    obtain ⟨cs, e2, h2, hl, hcs⟩ := ihq (fun q' hq' => ih q' (by simp [hq'])) (args ++ e1)
      (fun v h => hv v (Or.inr h)) hs.2
    refine ⟨c :: cs, e1 ++ e2, ?_, by simp [hl], ?_⟩
    · rw [encodeList, h1]
      simp only [h2, List.append_assoc]
    · intro more
      have h3 := hc (e2 ++ more)
      have h4 := hcs more
      simp only [List.append_assoc] at h3 h4
      simp only [evalAll, evalAny, holdsAll, holdsAny, List.append_assoc, h3, h4, and_self]

include hE hP htags in
theorem encode_correct_solid (q : Query TagName) : Correct like E vals tags q := by
  induction q using Query.induct' with
  | and qs ih =>
    intro neg args hv hs
    simp only [Query.values] at hv
    simp only [Query.solid, Bool.and_eq_true] at hs
    obtain ⟨cs, e, h1, hl, h2⟩ := encodeList_correct like E vals tags qs ih neg args hv hs.2
    match qs, cs, hl, hs.1 with
    | _ :: _, c :: cs, _, _ =>
      refine ⟨.conj (if neg = true then ConjOp.and.negate else .and) (c :: cs), e, ?_, ?_⟩
      · rw [encode, h1]
        simp only [conjClause]
      · intro more
        cases neg
        · simp only [evalClause, holdsP, (h2 more).1, Bool.false_eq_true, if_false]
        · simp only [ConjOp.negate, evalClause, holdsP, (h2 more).2, if_true]
  | or qs ih =>
    intro neg args hv hs
    simp only [Query.values] at hv
    simp only [Query.solid, Bool.and_eq_true] at hs
    obtain ⟨cs, e, h1, hl, h2⟩ := encodeList_correct like E vals tags qs ih neg args hv hs.2
    match qs, cs, hl, hs.1 with
    | _ :: _, c :: cs, _, _ =>
      refine ⟨.conj (if neg = true then ConjOp.or.negate else .or) (c :: cs), e, ?_, ?_⟩
      · rw [encode, h1]
        simp only [conjClause]
      · intro more
        cases neg
        · simp only [evalClause, holdsP, (h2 more).2, Bool.false_eq_true, if_false]
        · simp only [ConjOp.negate, evalClause, holdsP, (h2 more).1, if_true]
  | not q ih =>
    intro neg args hv hs
    simp only [Query.values] at hv
    simp only [Query.solid] at hs
    obtain ⟨c, e, h1, h2⟩ := ih (!neg) args hv hs
    exact ⟨c, e, by rw [encode, h1], fun more => by rw [holdsP, h2 more]⟩
  | cmp op n v =>
    intro neg args hv hs
    simp only [Query.values, List.mem_singleton, forall_eq] at hv
    simp only [Query.solid] at hs
    obtain ⟨c, e, h1, h2⟩ := encodeOp_correct like E hE vals hP tags htags op n v hv hs neg args
    exact ⟨c, e, by rw [encode, h1], fun more => by rw [holdsP, h2 more]⟩
  | isIn n vs =>
    intro neg args hv hs
    obtain ⟨c, e, h1, h2⟩ := encodeIn_correct like E hE tags n vs neg args
    exact ⟨c, e, by rw [encode, h1], fun more => by rw [holdsP, h2 more]⟩
  | exist ns =>
    intro neg args hv hs
    simp only [Query.solid] at hs
    obtain ⟨c, e, h1, h2⟩ := encodeExist_correct like E hE tags ns (by intro h; simp [h] at hs) neg args
    exact ⟨c, e, by rw [encode, h1], fun more => by rw [holdsP, h2 more]⟩

end Correct

theorem encode_correct (like : Bytes → Bytes → Bool) (E : TagCrypto) (hE : E.Inj)
    (q : Query TagName) (hq : q.InDomain) (tags : List Tag)
    (hP : E.NoPrefixCollision (q.values ++ tags.map (·.value))) :
    evalFilter like (encodeQuery E q) (tags.map E.encTag) = holds like tags q := by
  have hsolid : q.solid = true →
      evalFilter like (encodeQuery E q) (tags.map E.encTag) = holds like tags q := by
    intro hs
    obtain ⟨c, e, h1, h2⟩ := encode_correct_solid like E hE _ hP tags
      (fun t ht => List.mem_append_right _ (List.mem_map_of_mem ht)) q false []
      (fun v hv => List.mem_append_left _ hv) hs
    have h3 := h2 []
    simp only [List.append_nil] at h3
    simp only [evalFilter, encodeQuery, h1, holds, h3]
  unfold Query.InDomain at hq
  cases q with
  | and qs =>
    cases qs with
    | nil => simp [evalFilter, encodeQuery, encode, encodeList, conjClause, holds, holdsP, holdsAll]
    | cons q qs => exact hsolid (by simpa [Query.inDomain] using hq)
  | or qs =>
    cases qs with
    | nil =>
      simp [evalFilter, encodeQuery, encode, encodeList, conjClause, holds, holdsP, holdsAny,
        evalClause]
    | cons q qs => exact hsolid (by simpa [Query.inDomain] using hq)
  | exist ns =>
    cases ns with
    | nil => simp [evalFilter, encodeQuery, encode, encodeExist, holds, holdsP]
    | cons n ns => exact hsolid (by simpa [Query.inDomain] using hq)
  | not q => exact hsolid (by simpa [Query.inDomain] using hq)
  | cmp op n v => exact hsolid (by simpa [Query.inDomain] using hq)
  | isIn n vs => exact hsolid (by simpa [Query.inDomain] using hq)

/-! ### Placeholder numbering -/

/-- the final SQLite parameter numbers, in textual order -/
def phs (xs : List (String ⊕ Nat)) : List Nat :=
  xs.filterMap (fun | .inr n => some n | .inl _ => none)

section Render
variable (start : Nat)

theorem phs_text (k : Nat) (s : String) (ts : List Tok) :
    phs (replaceToks start k (.text s :: ts)) = phs (replaceToks start k ts) := by
  simp [replaceToks, phs]

theorem phs_optText (k : Nat) (b : Prop) [Decidable b] (s : String) (ts : List Tok) :
    phs (replaceToks start k ((if b then [.text s] else []) ++ ts)) = phs (replaceToks start k ts) := by
  split <;> simp [phs_text]

theorem phs_optText' (k : Nat) (b : Prop) [Decidable b] (s : String) (ts : List Tok) :
    phs (replaceToks start k ((if b then [] else [.text s]) ++ ts)) = phs (replaceToks start k ts) := by
  split <;> simp [phs_text]

theorem phs_ph (numbered : Bool) (k : Nat) (ts : List Tok) :
    phs (replaceToks start k (phOf numbered k :: ts))
      = (k + start) :: phs (replaceToks start (k + 1) ts) := by
  cases numbered <;> simp [phOf, replaceToks, phs] <;> omega

theorem range'_split {l1 l2 : List Nat} {k : Nat}
    (h : l1 ++ l2 = List.range' k (l1 ++ l2).length) :
    l1 = List.range' k l1.length ∧ l2 = List.range' (k + l1.length) l2.length := by
  rw [List.length_append, ← List.range'_append_1] at h
  exact List.append_inj h (by simp)

theorem range'_cons {a : Nat} {l : List Nat} {k : Nat}
    (h : a :: l = List.range' k (a :: l).length) :
    a = k ∧ l = List.range' (k + 1) l.length := by
  simpa [List.range'_succ] using h

theorem inl_phs (numbered : Bool) (vs : List Nat) (k : Nat) (rest : List Tok)
    (h : vs = List.range' k vs.length) :
    phs (replaceToks start k
        (((vs.map fun i => [phOf numbered i]).intersperse [.text ", "]).flatten ++ rest))
      = vs.map (· + start) ++ phs (replaceToks start (k + vs.length) rest) := by
  induction vs generalizing k with
  | nil => simp
  | cons a vs ih =>
    obtain ⟨rfl, h2⟩ := range'_cons h
    cases vs with
    | nil => simp [phs_ph]
    | cons b vs =>
      have h3 := ih (a + 1) h2
      simp only [List.map_cons, List.intersperse_cons_cons, List.flatten_cons, List.cons_append,
        List.nil_append, phs_ph, phs_text, List.length_cons] at h3 ⊢
      rw [h3]
      simp only [List.cons.injEq, true_and, List.append_cancel_left_eq]
      congr 2
      omega

theorem renderCond_phs (numbered : Bool) (cnd : Cond) (k : Nat) (rest : List Tok)
    (h : cnd.argRefs = List.range' k cnd.argRefs.length) :
    phs (replaceToks start k (renderCond numbered cnd ++ rest))
      = cnd.argRefs.map (· + start) ++ phs (replaceToks start (k + cnd.argRefs.length) rest) := by
  cases cnd with
  | none => simp [renderCond, Cond.argRefs]
  | op o v pfx =>
    cases pfx with
    | none =>
      obtain ⟨rfl, -⟩ := range'_cons h
      simp [renderCond, Cond.argRefs, phs_text, phs_ph]
    | some pk =>
      obtain ⟨po, k2⟩ := pk
      obtain ⟨rfl, h2⟩ := range'_cons h
      obtain ⟨rfl, -⟩ := range'_cons h2
      simp [renderCond, Cond.argRefs, phs_text, phs_ph, Nat.add_assoc]
  | inl vs =>
    simp only [Cond.argRefs] at h
    simp only [renderCond, Cond.argRefs, List.append_assoc, List.cons_append, List.nil_append,
      phs_text]
    rw [inl_phs start numbered vs k _ h, phs_text]

/-- The induction statement for the rendered text of a clause. -/
def Numbered (c : Clause) : Prop :=
  ∀ k rest, c.argRefs = List.range' k c.argRefs.length →
    phs (replaceToks start k (render c ++ rest))
      = c.argRefs.map (· + start) ++ phs (replaceToks start (k + c.argRefs.length) rest)

theorem renderList_phs (op : ConjOp) (cs : List Clause) (ih : ∀ c ∈ cs, Numbered start c)
    (k : Nat) (rest : List Tok) (h : argRefsList cs = List.range' k (argRefsList cs).length) :
    phs (replaceToks start k (renderList op cs ++ rest))
      = (argRefsList cs).map (· + start)
        ++ phs (replaceToks start (k + (argRefsList cs).length) rest) := by
  induction cs generalizing k with
  | nil => simp [renderList, argRefsList]
  | cons c cs ihcs =>
    simp only [argRefsList] at h
    obtain ⟨h1, h2⟩ := range'_split h
    simp only [renderList, argRefsList, List.append_assoc, List.map_append, List.length_append]
    rw [ih c (by simp) k _ h1, phs_optText',
      ihcs (fun c' hc' => ih c' (by simp [hc'])) _ h2, Nat.add_assoc]

theorem render_phs (c : Clause) : Numbered start c := by
  induction c using Clause.induct' with
  | sub neg a cnd p numbered =>
    intro k rest h
    simp only [Clause.argRefs] at h
    obtain ⟨rfl, h2⟩ := range'_cons h
    simp only [render, Clause.argRefs, List.append_assoc, List.cons_append, List.nil_append,
      phs_text, phs_ph, List.map_cons, List.length_cons]
    rw [renderCond_phs start numbered cnd (a + 1) _ h2, phs_text]
    simp only [List.cons.injEq, true_and, List.append_cancel_left_eq]
    congr 2
    omega
  | conj op cs ih =>
    intro k rest h
    simp only [Clause.argRefs] at h
    simp only [render, Clause.argRefs, List.append_assoc]
    rw [phs_optText, renderList_phs start op cs ih k _ h, phs_optText]
  | zero =>
    intro k rest h
    simp [render, Clause.argRefs, phs_text]

end Render

theorem placeholders_numbered (E : TagCrypto) (q : Query TagName) (c : Clause) (start : Nat)
    (_hs : 1 ≤ start) (h : (encodeQuery E q).1 = some c) :
    (replaceToks start 0 (render c)).filterMap (fun | .inr n => some n | .inl _ => none)
      = (c.argRefs).map (· + start)
    ∧ c.argRefs = List.range (encodeQuery E q).2.length := by
  have h2 := encodeQuery_argRefs E q c h
  refine ⟨?_, h2⟩
  have h3 := render_phs start c 0 [] (by rw [h2, List.range_eq_range']; simp)
  simpa [phs, replaceToks] using h3

theorem NoPrefixCollision.mono {E : TagCrypto} {vals vals' : List String}
    (h : E.NoPrefixCollision vals) (hsub : ∀ v ∈ vals', v ∈ vals) : E.NoPrefixCollision vals' :=
  fun a ha b hb hab => h a (hsub a ha) b (hsub b hb) hab

theorem filter_selects_ref (like : Bytes → Bytes → Bool) (E : TagCrypto) (hE : E.Inj)
    (q : Query TagName) (hq : q.InDomain) (recs : List (List Tag))
    (hP : E.NoPrefixCollision (q.values ++ recs.flatten.map (·.value))) :
    (recs.filter fun tags => evalFilter like (encodeQuery E q) (tags.map E.encTag))
      = recs.filter (holds like · q) := by
  apply List.filter_congr
  intro tags htags
  apply encode_correct like E hE q hq tags
  apply NoPrefixCollision.mono hP
  intro v hv
  rcases List.mem_append.mp hv with hv | hv
  · exact List.mem_append_left _ hv
  · apply List.mem_append_right
    obtain ⟨t, ht, rfl⟩ := List.mem_map.mp hv
    exact List.mem_map_of_mem (List.mem_flatten.mpr ⟨tags, htags, ht⟩)

end Askar.Wql.Lemmas
