import Driver.C02
def main : IO Unit := Driver.mainLoop fun _ j => Driver.C02.runCase j
