/- Driver for `kind = "c19"` cases: call sequences through the C API, run on the FFI model
   (registries, result lists, tag codec, callbacks, argument decoding) on top of the store model. -/
import Driver.Common
import AskarModel.Model.Store
import AskarModel.Model.Like
import AskarModel.Model.Ffi
import AskarModel.Model.FfiEntry
import AskarModel.Model.Copy

open Lean Askar Askar.Wql Askar.Store Askar.Ffi

namespace Driver.C19

/-! ### JSON helpers -/

def cmpOfName : String → Option CmpOp
  | "eq" => some .eq | "neq" => some .neq | "gt" => some .gt | "gte" => some .gte
  | "lt" => some .lt | "lte" => some .lte | "like" => some .like | _ => none

partial def parseFilter (j : Json) : Query String :=
  match j with
  | .obj kvs =>
    match kvs.toList with
    | [(k, v)] =>
      match k with
      | "and" => .and ((asArr v).map parseFilter)
      | "or" => .or ((asArr v).map parseFilter)
      | "not" => .not (parseFilter v)
      | "in" => match asArr v with
        | [n, vs] => .isIn (asStr n) ((asArr vs).map asStr)
        | _ => default
      | "exist" => .exist ((asArr v).map asStr)
      | _ => match cmpOfName k, asArr v with
        | some op, [n, x] => .cmp op (asStr n) (asStr x)
        | _, _ => default
    | _ => default
  | _ => default

def insertSorted {α} (lt : α → α → Bool) (x : α) : List α → List α
  | [] => [x]
  | y :: ys => if lt y x then y :: insertSorted lt x ys else x :: y :: ys

def sortBy {α} (lt : α → α → Bool) (l : List α) : List α := l.foldr (insertSorted lt) []

def strLt (a b : String) : Bool := Bytes.lt (utf8 a) (utf8 b)

/-- a C string argument: null | "text" | {"bad": hex} (bytes that are not UTF-8) -/
def cstr (j : Json) (k : String) : CStr :=
  match j.getObjVal? k with
  | .ok (.str s) => .utf8 s
  | .ok (.obj _) => .invalid ""
  | _ => .null

def jcode (c : Code) : Json := .str c.name
def jerrE (e : Err) : Json := Json.mkObj [("err", .str (Code.ofErr e).name)]

/-- result of an asynchronous entry point: return code and what the callback received -/
def jres (r : Code) (cb : Json) : Json := Json.mkObj [("r", jcode r), ("cb", cb)]
def jsync (r : Code) (v : Json) : Json := Json.mkObj [("r", jcode r), ("v", v)]

/-- canonical form of a tag list as `get_tags` returns it: members in map order, the values of a
    member sorted (the backend returns a record's tags in unspecified order) -/
def jtagsCanon (tags : List Tag) : Json :=
  if tags.isEmpty then .null else
  match serializeSet tags with
  | none => Json.mkObj [("panic", "values[0]")]
  | some o => .arr (o.map fun (k, v) =>
      match v with
      | .single s => Json.arr #[.str k, .bool false, .arr #[.str s]]
      | .multiple vs => Json.arr #[.str k, .bool true, .arr ((sortBy strLt vs).map Json.str).toArray]).toArray

def jentry (e : Entry) : Json :=
  Json.mkObj [("c", .str e.cat), ("n", .str e.name), ("v", jvalue e.value), ("t", jtagsCanon e.tags)]

/-- a stored key entry in the model: value = algorithm, NUL, then "1"+metadata or "0" -/
def keyValue (alg : String) (md : Option String) : Bytes :=
  utf8 alg ++ [0] ++ (match md with | some m => utf8 ("1" ++ m) | none => utf8 "0")

def keyAlg (v : Bytes) : String := (String.fromUTF8? (ByteArray.mk (v.takeWhile (· != 0)).toArray)).getD ""

def keyMeta (v : Bytes) : Json :=
  match (v.dropWhile (· != 0)).drop 1 with
  | 49 :: rest => .str ((String.fromUTF8? (ByteArray.mk rest.toArray)).getD "")
  | _ => .null

def jkey (e : Entry) : Json :=
  Json.mkObj [("n", .str e.name), ("alg", .str (keyAlg e.value)), ("md", keyMeta e.value), ("t", jtagsCanon e.tags)]

def entryLt (a b : Entry) : Bool :=
  if a.cat != b.cat then strLt a.cat b.cat else strLt a.name b.name

/-! ### The world -/

structure Backend where
  db : Db
  h : Handle
  active : String
  wtxn : Option (Nat × Db) := none      -- (session handle, its private copy)
  keyM : String := "raw"                -- store key method (class) and pass key, as last set
  keyP : Option String := none
  defProfile : String := ""             -- config 'default_profile'
  faults : List Fault := []             -- out-of-band faults on the store's file (triggers, hidden tables)

def Backend.view (b : Backend) (s : Nat) : Db :=
  match b.wtxn with
  | some (j, copy) => if s == j then copy else b.db
  | none => b.db

def Backend.lockedByOther (b : Backend) (s : Nat) : Bool :=
  match b.wtxn with
  | some (j, _) => s != j
  | none => false

def Backend.write (b : Backend) (s : Nat) (db' : Db) : Backend :=
  match b.wtxn with
  | some (j, _) => if s == j then { b with wtxn := some (j, db') } else b
  | none => { b with db := db' }

/-- the result of a store call on this backend (Model/FfiEntry.lean `faultedResult`) -/
def Backend.hit (b : Backend) (call : StoreCall) : Bool := b.faults.any (·.hits call)

def faultOfName (n : String) : Option Fault :=
  match n with
  | "profiles_insert" => some .profilesInsert | "profiles_delete" => some .profilesDelete | "profiles_update" => some .profilesUpdate
  | "config_write" => some .configWrite | "items_insert" => some .itemsInsert | "items_delete" => some .itemsDelete
  | "profiles_hidden" => some .profilesHidden | "config_hidden" => some .configHidden | _ => none

structure SessV where
  backend : Nat
  profile : String
  txn : Bool
  sess : Option Sess := none
  deriving Inhabited

structure ScanV where
  pages : List (List Entry)
  ordered : Bool
  deriving Inhabited

inductive Slot
  | none
  | handle (h : Nat)
  | list (l : ResultList Entry) (ordered : Bool) (known : Bool)
  | strs (l : List String)
  | key (alg : String)
  deriving Inhabited

structure World where
  stores : ResMap Nat := {}
  sessions : ResMap SessV := {}
  scans : ResMap ScanV := {}
  backends : Array Backend := #[]
  slots : Array Slot := #[]
  prov : List (Nat × Nat) := []         -- op index of a provision ↦ backend
  lastErr : Option Nat := some 0        -- LAST_ERROR as `askar_get_current_error` would report it (none = not determined)
  tw : Array Json := #[]                -- per op: the verdict of the Rust API on the same arguments (model_input)
  ops : Array Json := #[]               -- the ops of the case (a decrypting op refers to the op that encrypted)
  files : List (Nat × Nat) := []        -- op index that named a database file ↦ file id
  fstate : List (Nat × Option Nat) := [] -- file id ↦ backend holding its content (none = removed)

/-- a store / session / scan handle argument -/
def handleArg (w : World) (counter : Nat) (j : Json) : Nat :=
  match j.getObjVal? "h" with
  | .ok hj =>
    match hj.getObjVal? "slot" with
    | .ok s =>
      match w.slots[(s.getNat?).toOption.getD 0]? with
      | some (.handle h) => h
      | _ => 0
    | .error _ =>
      match str! hj "raw" with
      | "max" => usizeMod - 1
      | "unissued" => counter + 1000000
      | _ => 0
  | .error _ => 0

/-- a list / key pointer argument (`none` = NULL) -/
def slotArg (w : World) (j : Json) : Slot :=
  match j.getObjVal? "h" with
  | .ok hj =>
    match hj.getObjVal? "slot" with
    | .ok s => (w.slots[(s.getNat?).toOption.getD 0]?).getD .none
    | .error _ => .none
  | .error _ => .none

def setSess (w : World) (h : Nat) (sv : SessV) : World :=
  match w.sessions.map.get h with
  | some (store, _) => { w with sessions := w.sessions.replace h store sv }
  | none => w

def setBackend (w : World) (i : Nat) (b : Backend) : World :=
  { w with backends := w.backends.setIfInBounds i b }

/-- `make_active`: begin the transaction (lazily), resolve the profile key -/
def activate (w : World) (sh : Nat) (sv : SessV) : World × Except Err (Sess × Backend) :=
  match w.backends[sv.backend]? with
  | none => (w, .error .unexpected)
  | some b =>
    match sv.sess with
    | some s => (w, .ok (s, b))
    | none =>
      if sv.txn && b.lockedByOther sh then (w, .error .backend) else
      let b := if sv.txn && b.wtxn.isNone then { b with wtxn := some (sh, b.db) } else b
      match resolve (b.view sh) b.h sv.profile with
      | .ok (s, hd) =>
        let b := { b with h := hd }
        (setSess (setBackend w sv.backend b) sh { sv with sess := some s }, .ok (s, b))
      | .error e => (setBackend w sv.backend b, .error e)

def page : Nat := 32

/-- filter argument: text + AST as the generator built it (`none` AST with a text = undecodable) -/
def filterArg (j : Json) : Except Err (Option (Query String)) :=
  match (cstr j "ft").asOptStr with
  | none => .ok none
  | some _ =>
    match getD? j "f" with
    | some f => .ok (some (parseFilter f))
    | none => .error .input

/-- `ordered`: the order of the rows is determined; `known`: the set of rows is determined
    (without ORDER BY a limited result and the pages of a scan are not) -/
def jlist (l : ResultList Entry) (ordered known : Bool) : Json :=
  let rows := l.toList
  if !ordered && !known then Json.mkObj [("count", jint l.len.toInt), ("n", jnat rows.length)] else
  let rows := if ordered || rows.length ≤ 1 then rows else sortBy entryLt rows
  Json.mkObj [("count", jint l.len.toInt), ("rows", .arr (rows.map jentry).toArray)]

def setSlot (w : World) (i : Nat) (s : Slot) : World :=
  { w with slots := (if w.slots.size ≤ i then w.slots ++ Array.replicate (i + 1 - w.slots.size) Slot.none else w.slots).setIfInBounds i s }

/-- an asynchronous entry point with a mandatory callback: early code, callback check, decoding,
    then the task -/
def asyncEntry (w : World) (j : Json) (mode : CbMode) (early : Option Code) (decode : Except Err Unit)
    (task : World → World × Except Err Json) : World × Json :=
  let cbGiven := bool! j "cb"
  -- run the control skeleton of the model on a dummy fate to get the return code
  let (ret, _) := runEntry (ρ := Unit) mode cbGiven early decode (.completed (.ok ()))
  if ret != .success then (w, jres ret .null)
  else
    let (w', r) := task w
    let fires : List (Fire Json) := if cbGiven then taskFires {} (.completed r) else []
    match fires with
    | [] => (w', jres .success .null)
    | [f] => (w', jres .success (match f.result with | .ok v => v | .error e => jerrE e))
    | _ => (w', jres .success (Json.mkObj [("fires", jnat fires.length)]))

def okUnit {ε} : Except ε Unit := .ok ()

def sessionTask (sh : Nat) (f : World → Sess → Backend → Nat → World × Except Err Json) (w : World) : World × Except Err Json :=
  match w.sessions.borrow sh with
  | .error e => (w, .error e)
  | .ok sv =>
    match activate w sh sv with
    | (w, .error e) => (w, .error e)
    | (w, .ok (s, b)) => f w s b sv.backend

/-- raw keys the generator knows to be valid (base58 of 32 bytes); base58 itself is modelled in C08 -/
def validRawKeys : List String :=
  ["7Z8ftDAzMvoyXnGEJye8DurzgFQXLAbYCaeeesM7UKHa", "6Ms3tPHAuvFqYufCfVVaAXK2TLjySPetqTdRuqLcRnu", "4BhCcWo3QnGLHySMRAy39K6UweJXhZPF167XF2k11XsP"]

/-- `StoreKeyMethod::parse_uri` up to the classes used here -/
def methodClass (m : String) : Except Err String :=
  let pre := (m.splitOn ":").headD ""
  if pre == "raw" then .ok "raw"
  else if pre == "none" then .ok "none"
  else if pre == "kdf" then
    (if m == "kdf:argon2i:int" then .ok "kdf:int"
     else if m == "kdf:argon2i:mod" || m == "kdf:argon2i" then .ok "kdf:mod"
     else .error .unsupported)
  else .error .unsupported

/-- key method argument of rekey: absent = the default (argon2i, moderate) -/
def methodArg (s : CStr) : Except Err String :=
  match s.asOptStr with
  | none => .ok "kdf:mod"
  | some m => methodClass m

/-- the driver's method strings as the model's classes -/
def classOf (m : String) : MethodClass :=
  if m == "raw" then .raw else if m == "none" then .unprotected else .kdf

/-- `StoreKeyReference::resolve` + loading the profile key, for a store whose key is (m, p0) -/
def openKey (m : String) (p0 p : Option String) : Except Err Unit :=
  if m == "none" then .ok ()
  else if m == "raw" then
    match p with
    | none => .error .input
    | some k => if !validRawKeys.contains k then .error .input else if some k == p0 then .ok () else .error .encryption
  else match p with
    | none => .error .input
    | some k => if some k == p0 then .ok () else .error .encryption

/-! ### Entry points added for the coverage gaps (key operations, store removal / copy / migration, Busy, loggers) -/

def errOfName (n : String) : Err :=
  match n with
  | "Backend" => .backend | "Busy" => .busy | "Duplicate" => .duplicate | "Encryption" => .encryption | "Input" => .input
  | "NotFound" => .notFound | "Unexpected" => .unexpected | "Unsupported" => .unsupported | "Custom" => .custom | _ => .unexpected

/-- the Rust API's verdict on the arguments of op `i`, as observed by the harness: "ok" or an ErrorKind name -/
def twVerdict (w : World) (i : Nat) : Except Err Unit :=
  match w.tw[i]? with
  | some (.str "ok") => .ok ()
  | some (.str n) => .error (errOfName n)
  | _ => .error .unexpected

/-- effective length of a `ByteBuffer` argument: hex text, {"nulldata": n} (read as empty), {"neglen": …} -/
def bufBytes (b : Json) : Bytes :=
  match b with
  | .str s => (Bytes.ofHex s).getD []
  | _ => []

def bufNeg (b : Json) : Bool := (getD? b "neglen").isSome

def keySlotAlg (w : World) (k : Json) : Option String :=
  match k.getNat? with
  | .ok s => match w.slots[s]? with | some (.key a) => some a | _ => none
  | .error _ => none

def syncArgs (w : World) (j : Json) : SyncArgs :=
  { outNull := bool! j "null_out",
    alg := algArg (cstr j "alg"),
    handlesNull := (arr! j "keys").map fun k => (keySlotAlg w k).isNone,
    msgLenNeg := decide (int! j "len" < 0),
    bufNeg := (arr! j "bufs").any bufNeg }

def keyEntryOf (op : String) : Option KeyEntry :=
  match op with
  | "key_from_jwk" => some .fromJwk | "key_from_public" => some .fromPublicBytes | "key_from_secret" => some .fromSecretBytes
  | "key_convert" => some .convert | "key_exchange" => some .fromKeyExchange | "aead_params" => some .aeadGetParams
  | "aead_padding" => some .aeadGetPadding | "aead_encrypt" => some .aeadEncrypt | "aead_decrypt" => some .aeadDecrypt
  | "key_wrap" => some .wrapKey | "key_unwrap" => some .unwrapKey | "cbox" => some .cryptoBox | "cbox_open" => some .cryptoBoxOpen
  | "cbox_seal" => some .cryptoBoxSeal | "cbox_seal_open" => some .cryptoBoxSealOpen | "ecdh_es" => some .deriveEcdhEs
  | "ecdh_1pu" => some .deriveEcdh1pu | _ => none

/-- plaintext of the op that produced the material a decrypting op refers to -/
def sourceMsg (w : World) (j : Json) : Bytes :=
  match w.ops[nat! j "from"]? with
  | some src => bufBytes ((arr! src "bufs").headD .null)
  | none => []

def isNewOp (name : String) : Bool :=
  (keyEntryOf name).isSome || ["key_free", "buffer_free_probe", "provision2", "store_remove", "store_copy", "dump", "migrate", "busy", "logger", "terminate"].contains name

def lookupFile (w : World) (ofOp : Nat) : Option (Option Nat) :=
  match w.files.find? (·.1 == ofOp) with
  | some (_, fid) => (w.fstate.find? (·.1 == fid)).map (·.2)
  | none => (w.prov.find? (·.1 == ofOp)).map fun pb => some pb.2

def fileIdOf (w : World) (ofOp : Nat) : Option Nat := (w.files.find? (·.1 == ofOp)).map (·.2)

def setFile (w : World) (fid : Nat) (b : Option Nat) : World := { w with fstate := (fid, b) :: w.fstate.filter (·.1 != fid) }

/-- how a URI argument is classified: NULL, a fresh file, the file of an earlier op, the in-memory store,
    anything else (its fate is URI parsing, C08's model: the Rust API's verdict is taken as given) -/
inductive UriClass | null | fresh | ofOp (k : Nat) | memory | other

def uriClass (j : Json) (k : String) : UriClass :=
  match j.getObjVal? k with
  | .ok (.str s) => if s == "FILE" || s == "FILE?busy" then .fresh else if s == "sqlite://:memory:?max_connections=8" then .memory else .other
  | .ok (.obj kv) => match (Json.obj kv).getObjVal? "of" with | .ok n => .ofOp (n.getNat?.toOption.getD 0) | .error _ => .other
  | _ => .null

def uriCStr (j : Json) (k : String) : CStr :=
  match uriClass j k with
  | .null => .null
  | _ => .utf8 "uri"

def toStoreSt (b : Backend) : Copy.StoreSt := { db := b.db, h := b.h, default := b.defProfile }

def renderedTagKey (t : Tag) : String := if t.plain then "~" ++ t.name else t.name

/-- tags of a dumped row: grouped by rendered name, names and values in byte order -/
def jtagsDump (tags : List Tag) : Json :=
  let keys := sortBy strLt ((tags.map renderedTagKey).eraseDups)
  .arr (keys.map fun k => Json.arr #[.str k, .arr ((sortBy strLt ((tags.filter fun t => renderedTagKey t == k).map (·.value))).map Json.str).toArray]).toArray

def jdumpEntry (e : Entry) : Json :=
  Json.mkObj [("c", .str e.cat), ("n", .str e.name), ("v", jvalue e.value), ("t", jtagsDump e.tags)]

def jdumpKey (e : Entry) : Json :=
  Json.mkObj [("n", .str e.name), ("alg", .str (keyAlg e.value)), ("md", keyMeta e.value), ("t", jtagsDump e.tags)]

def dumpBackend (b : Backend) : Json :=
  let names := sortBy strLt (b.db.profiles.map (·.name))
  let ps := names.map fun p =>
    match resolve b.db b.h p with
    | .error _ => Json.mkObj [("name", .str p)]
    | .ok (s, _) =>
      let items := (doFetchAll sqliteLike b.db 0 s (some 2) none none none false).toOption.getD []
      let keys := (doFetchAll sqliteLike b.db 0 s (some 1) none none none false).toOption.getD []
      Json.mkObj [("name", .str p), ("items", .arr ((sortBy entryLt items).map jdumpEntry).toArray),
                  ("keys", .arr ((sortBy entryLt keys).map jdumpKey).toArray)]
  Json.mkObj [("default", .str b.defProfile), ("profiles", .arr ps.toArray)]

/-- resolution of the key of a NEW store (`StoreKeyMethod::resolve`), on the driver's method classes -/
def newKey (m : String) (p : Option String) : Except Err Unit :=
  resolveNewKey (fun k => validRawKeys.contains k) (classOf m) p

def methodOf (j : Json) : Except Err String := methodArg (cstr j "method")

def evalNew (w : World) (i : Nat) (j : Json) : World × Json :=
  let op := str! j "op"
  match keyEntryOf op with
  | some ke =>
    let a := syncArgs w j
    let kalg (k : Nat) : String := ((arr! j "keys")[k]?.bind (keySlotAlg w)).getD ""
    let bufLen (k : Nat) : Nat := (bufBytes ((arr! j "bufs")[k]?.getD .null)).length
    -- the body: the Rust API's result; what the model can compute itself it does (AEAD parameters, padding, layouts)
    let body : Except Err Json :=
      match ke with
      | .aeadGetParams => (aeadParams (kalg 0)).map fun p => Json.mkObj [("nonce", jnat p.1), ("tag", jnat p.2)]
      | .aeadGetPadding => .ok (jnat (aeadPadding (kalg 0) (int! j "len").toNat))
      | .aeadEncrypt => (twVerdict w i).map fun _ =>
          let l := encryptedLayout (kalg 0) (bufLen 0) (bufLen 1)
          Json.mkObj [("tag_pos", jnat l.1), ("nonce_pos", jnat l.2.1), ("len", jnat l.2.2)]
      | .wrapKey => (twVerdict w i).map fun _ =>
          let l := wrappedLayout (kalg 0) (kalg 1) (bufLen 0)
          Json.mkObj [("tag_pos", jnat l.1), ("nonce_pos", jnat l.2.1), ("len", jnat l.2.2)]
      | .aeadDecrypt | .cryptoBoxOpen | .cryptoBoxSealOpen => (twVerdict w i).map fun _ => jvalue (sourceMsg w j)
      | .cryptoBox => (twVerdict w i).map fun _ => Json.mkObj [("len", jnat (bufLen 0 + 16))]
      | .cryptoBoxSeal => (twVerdict w i).map fun _ => Json.mkObj [("len", jnat (bufLen 0 + 48))]
      | _ => (twVerdict w i).map fun _ => Json.null
    let (code, out, _) := ke.run a body 0
    -- a new key handle: the slot of this op holds a key of the requested algorithm
    let producesKey := [KeyEntry.fromJwk, .fromPublicBytes, .fromSecretBytes, .convert, .fromKeyExchange, .unwrapKey, .deriveEcdhEs, .deriveEcdh1pu].contains ke
    let w := if code == .success && producesKey then
        setSlot w i (.key (if ke == .fromJwk then str! j "jalg" else ((cstr j "alg").asOptStr).getD ""))
      else w
    (w, jsync code (if producesKey then .null else out.getD .null))
  | none =>
  match op with
  | "key_free" =>
    let w := match ((arr! j "keys").headD .null).getNat? with | .ok s => setSlot w s .none | .error _ => w
    (w, jsync .success .null)
  | "buffer_free_probe" => (w, jsync .success "ok")
  | "trigger" =>
    -- an out-of-band fault on the file of op `of` (installed on the twin's file as well)
    match lookupFile w (nat! j "of"), faultOfName (str! j "what") with
    | some (some bi), some f =>
      match w.backends[bi]? with
      | some b => (setBackend w bi { b with faults := if bool! j "on" then f :: b.faults else b.faults.filter (· != f) }, Json.mkObj [("trigger", "ok")])
      | none => (w, Json.mkObj [("trigger", "failed")])
    | _, _ => (w, Json.mkObj [("trigger", "failed")])
  | "terminate" =>
    -- `askar_terminate` with calls pending, then calls without a runtime: the fates `cancelled` and `notSpawned`
    let fired (mode : CbMode) (cbGiven : Bool) (dec : Except Err Unit) (what : String) : Json :=
      let (c, fs) := runEntry (ρ := Unit) mode cbGiven none dec .notSpawned
      Json.arr #[.str what, jcode c, jnat fs.length, (match fs with | [f] => (match f.result with | .ok _ => "Success" | .error e => jcode (Code.ofErr e)) | _ => .null), .bool (fs.length > 0)]
    let pendingOnce := ["update", "fetch_all", "provision", "get_profile_name"].all fun _ =>
      (runEntry (ρ := Unit) .required true none (.ok ()) .cancelled).2.length == 1 && (runEntry (ρ := Unit) .required true none (.ok ()) (.completed (.ok ()))).2.length == 1
    let post := ["get_profile_name", "create_profile", "list_profiles", "session_count", "session_start", "scan_next", "store_remove", "migrate"].map (fired .required true (.ok ()))
      ++ [fired .optional true (.ok ()) "session_close", fired .optional true (.ok ()) "store_close", fired .optional false (.ok ()) "store_close:no-callback",
          fired .required false (.ok ()) "get_profile_name:no-callback",
          fired .required true (AsyncEntry.setDefaultProfile.decode (fun _ => .ok ()) [.null] .null) "set_default_profile:null-name"]
    (w, Json.mkObj [("terminate", Json.mkObj [("pending_all_once", .bool pendingOnce), ("post", .arr post.toArray), ("key_generate", "Success"), ("exit_ok", .bool true)])])
  | "provision2" =>
    let mc := methodOf j
    let dec := AsyncEntry.storeProvision.decode (fun m => (methodClass m).map fun _ => ()) [uriCStr j "uri"] (cstr j "method")
    asyncEntry w j .required none dec fun w =>
      match mc with
      | .error e => (w, .error e)
      | .ok m =>
        let pass := (cstr j "pass").asOptStr
        let fresh (w : World) (fid : Option Nat) : World × Except Err Json :=
          match newKey m pass with
          | .error e => (w, .error e)
          | .ok _ =>
            let profile := ((cstr j "profile").intoOptString).getD "default"
            let b : Backend := { db := { profiles := [⟨1, profile, 0⟩] }, h := { cache := [(profile, 1, 0)], nextKey := 1 }, active := profile,
                                 keyM := m, keyP := pass, defProfile := profile }
            let bi := w.backends.size
            let (h, stores) := w.stores.insert 0 bi
            let w := { w with stores := stores, backends := w.backends.push b }
            let w := match fid with | some f => setFile { w with files := (i, f) :: w.files } f (some bi) | none => w
            (setSlot w i (.handle h), .ok (Json.mkObj [("h", jnat h)]))
        match uriClass j "uri" with
        | .fresh => fresh w (some i)
        | .memory => fresh w none
        | .ofOp k =>
          match lookupFile w k, fileIdOf w k with
          | some (some bi), fid =>
            if bool! j "recreate" then fresh w fid else
            match w.backends[bi]? with
            | none => (w, .error .unexpected)
            | some b =>
              -- `open_db` of the existing store: method comparison, then the key
              if m != b.keyM then (w, .error .input) else
              match openKey b.keyM b.keyP pass with
              | .error e => (w, .error e)
              | .ok _ =>
                let (h, stores) := w.stores.insert 0 bi
                let w := { w with stores := stores, files := match fid with | some f => (i, f) :: w.files | none => w.files }
                (setSlot w i (.handle h), .ok (Json.mkObj [("h", jnat h)]))
          | _, fid => fresh w fid
        | _ =>
          match twVerdict w i with
          | .error e => (w, .error e)
          | .ok _ => fresh w none
  | "store_remove" =>
    let dec := AsyncEntry.storeRemove.decode (fun _ => .ok ()) [uriCStr j "uri"] .null
    asyncEntry w j .required none dec fun w =>
      match uriClass j "uri" with
      | .memory => (w, .ok (Json.mkObj [("removed", .bool true)]))
      | .ofOp k =>
        match lookupFile w k, fileIdOf w k with
        | some (some _), some fid => (setFile w fid none, .ok (Json.mkObj [("removed", .bool true)]))
        | _, _ => (w, .ok (Json.mkObj [("removed", .bool false)]))
      | _ =>
        match w.tw[i]? with
        | some (.str n) => (w, .error (errOfName n))
        | some t => (w, .ok (Json.mkObj [("removed", .bool (bool! t "removed"))]))
        | none => (w, .error .unexpected)
  | "store_copy" =>
    let h := handleArg w w.stores.counter j
    let mc := methodOf j
    let dec := AsyncEntry.storeCopy.decode (fun m => (methodClass m).map fun _ => ()) [uriCStr j "target"] (cstr j "method")
    asyncEntry w j .required none dec fun w =>
      match mc with
      | .error e => (w, .error e)
      | .ok m =>
        match w.stores.borrow h with
        | .error e => (w, .error e)
        | .ok bi =>
          match w.backends[bi]? with
          | none => (w, .error .unexpected)
          | some src =>
            let pass := (cstr j "pass").asOptStr
            let recreate := bool! j "recreate"
            -- what is at the target, and whether the target's key lets the copy proceed
            let (existing, fid, keyOk) : Option Backend × Option Nat × Except Err Unit :=
              match uriClass j "target" with
              | .ofOp k =>
                match lookupFile w k, fileIdOf w k with
                | some (some ti), fid =>
                  match w.backends[ti]? with
                  | some t =>
                    if recreate then (some t, fid, newKey m pass)
                    else (some t, fid, if m != t.keyM then .error .input else openKey t.keyM t.keyP pass)
                  | none => (none, fid, newKey m pass)
                | _, fid => (none, fid, newKey m pass)
              | .fresh => (none, some i, newKey m pass)
              | .memory => (none, none, newKey m pass)
              | _ => (none, none, (twVerdict w i).bind fun _ => newKey m pass)
            match keyOk with
            | .error e => (w, .error e)
            | .ok _ =>
              let (_, dst, r) := Copy.copyStore page 0 none (1000 * (w.backends.size + 1)) (toStoreSt src) (existing.map toStoreSt) recreate
              match dst with
              | none => (w, match r with | .error e => .error e | .ok _ => .error .unexpected)
              | some d =>
                let nb : Backend := { db := d.db, h := d.h, active := src.defProfile, keyM := (if existing.isSome && !recreate then (existing.map (·.keyM)).getD m else m),
                                      keyP := (if existing.isSome && !recreate then (existing.bind (·.keyP)) else pass), defProfile := d.default }
                let nbi := w.backends.size
                let w := { w with backends := w.backends.push nb }
                let w := match fid with | some f => setFile { w with files := (i, f) :: w.files } f (some nbi) | none => w
                match r with
                | .error e => (w, .error e)
                | .ok _ =>
                  let (nh, stores) := w.stores.insert 0 nbi
                  (setSlot { w with stores := stores } i (.handle nh), .ok (Json.mkObj [("h", jnat nh)]))
  | "dump" =>
    let h := handleArg w w.stores.counter j
    match w.stores.borrow h with
    | .error _ => (w, Json.mkObj [("dump", .null)])
    | .ok bi =>
      match w.backends[bi]? with
      | none => (w, Json.mkObj [("dump", .null)])
      | some b => (w, Json.mkObj [("dump", dumpBackend b)])
  | "migrate" =>
    let srcStr : CStr := match j.getObjVal? "src" with | .ok .null => .null | .error _ => .null | _ => .utf8 "path"
    let dec := AsyncEntry.migrateIndySdk.decode (fun _ => .ok ()) [srcStr, cstr j "name", cstr j "key", cstr j "kdf"] .null
    let cbGiven := bool! j "cb"
    let (ret, _) := runEntry (ρ := Unit) .required cbGiven none dec (.completed (.ok ()))
    if ret != .success then (w, Json.mkObj [("r", jcode ret), ("cb", .null), ("rows", .null)]) else
    -- `connect`: the KDF level is parsed first, then the file is opened; `migrate`: refused when already migrated;
    -- whether the wallet key opens THIS wallet is a fact of the fixture (the Rust API's verdict)
    let kdf := ((cstr j "kdf").intoOptString).getD ""
    let res : Except Err Unit :=
      if !["RAW", "ARGON2I_MOD", "ARGON2I_INT"].contains kdf then .error .input
      else match j.getObjVal? "src" with
        | .ok (.str "missing") => .error .backend
        | .ok (.obj _) => .error .backend          -- "Database is already migrated"
        | _ => twVerdict { w with tw := w.tw.map fun t => (getD? t "v").getD .null } i
    let rows := match res with | .ok _ => ((w.tw[i]?.bind fun t => getD? t "rows").getD .null) | .error _ => .null
    (w, Json.mkObj [("r", jcode .success), ("cb", match res with | .ok _ => "ok" | .error e => jerrE e), ("rows", rows)])
  | "busy" =>
    -- the observed triple must be one the interleaving model produces
    let t := (w.tw[i]?).getD .null
    let (call, close, after) := (str! t "call", str! t "close", str! t "after")
    let mode := str! j "mode"
    let target := str! j "target"
    -- the in-flight call's own result: the insert behind a write lock times out (Backend); a read succeeds —
    -- unless the pool was closed under it (store close)
    -- (store close: `remove_all` also drops the session that holds the lock, so the waiting insert may get through)
    -- (`lock_held`: the harness saw the locking transaction's insert succeed; without that fact the insert may also get through)
    let own : List String := if target == "store" then ["Success", "Backend"] else if mode == "lock" then (if bool! t "lock_held" then ["Backend"] else ["Success", "Backend"]) else ["Success"]
    let outcomes := closeRaceOutcomes (bool! j "commit") (.ok ())
    let closeName (r : Except Err Unit) : String := match r with | .ok _ => "Success" | .error e => (Code.ofErr e).name
    let allowed :=
      if target == "session" then outcomes.any fun (isOwn, r) => closeName r == close && (if isOwn then own.contains call else call == "Input")
      else close == "Success" && (own.contains call || call == "Input")     -- scan_free swallows Busy; store close drops the entries
    -- a close without callback: its result (Busy or not) is only logged; the in-flight call is still answered, the handle still dies
    let allowed := if bool! j "nocb" && target == "session" then close == "none" && (own.contains call || call == "Input") else allowed
    let allowed := allowed && after == "Input"
    (w, Json.mkObj [("busy", if allowed then Json.mkObj [("call", .str call), ("close", .str close), ("after", .str after)] else Json.mkObj [("not-allowed", t)])])
  | "logger" =>
    if bool! j "default_first" then
      let (d, s1) := setDefaultLogger .none
      let (c, s2) := setCustomLogger s1 5
      let (d2, _) := setDefaultLogger s2
      (w, Json.mkObj [("logger", Json.mkObj [("default", jcode d), ("custom_after", jcode c), ("default_again", jcode d2)])])
    else
      let level := int! j "level"
      let (set, s1) := setCustomLogger .none level
      let (again, s2) := setCustomLogger s1 5
      let (dflt, _) := setDefaultLogger s2
      -- the logger in force: the first installation when it succeeded, else the second (level 5, no callbacks)
      let first := set == .success
      let maxLevel : Nat := if first then (if level < 0 then 1 else level.toNat) else 5
      let enabledCb : Option (Nat → Bool) := if first && bool! j "enabled" then some (fun l => decide (l ≤ nat! j "enabled_max")) else none
      let flushCb := first && bool! j "flush"
      let trace := recordDelivered maxLevel false enabledCb 5
      let debug := recordDelivered maxLevel false enabledCb 4
      (w, Json.mkObj [("logger", Json.mkObj [("set", jcode set), ("again", jcode again), ("default", jcode dflt), ("trace_seen", .bool trace),
        ("own_seen", .bool (debug || trace)), ("enabled_called", .bool (enabledCb.isSome && decide (4 ≤ maxLevel))), ("enabled_after_clear", jnat 0),
        ("flush_calls", jnat (if flushCb then 1 else 0)), ("after_clear", jnat (if recordDelivered maxLevel true enabledCb 5 then 1 else 0)),
        ("ctx_ok", .bool true), ("leaks", jnat 0)])])
  | _ => (w, jerr "BadOp")

def evalOp (w : World) (i : Nat) (j : Json) : World × Json :=
  let op := str! j "op"
  match op with
  | "provision" =>
    let dec : Except Err Unit :=
      match (cstr j "uri").intoOptString with
      | none => .error .input
      | some _ =>
        match (cstr j "method").asOptStr with
        | some m => if m == "raw" then .ok () else .error .unsupported
        | none => .ok ()
    asyncEntry w j .required none dec fun w =>
      let profile := ((cstr j "profile").intoOptString).getD "default"
      let b : Backend := { db := { profiles := [⟨1, profile, 0⟩] }, h := { cache := [(profile, 1, 0)], nextKey := 1 }, active := profile,
                           keyM := "raw", keyP := some (((cstr j "pass").asOptStr).getD "7Z8ftDAzMvoyXnGEJye8DurzgFQXLAbYCaeeesM7UKHa"), defProfile := profile }
      let bi := w.backends.size
      let (h, stores) := w.stores.insert 0 bi
      (setSlot { w with stores := stores, backends := w.backends.push b, prov := (i, bi) :: w.prov } i (.handle h), .ok (Json.mkObj [("h", jnat h)]))
  | "store_close" =>
    let h := handleArg w w.stores.counter j
    asyncEntry w j .optional none okUnit fun w =>
      match w.stores.remove h with
      | (none, _) => (w, .error .input)
      | (some _, stores) =>
        let sessions := (w.sessions.removeAll h).getD w.sessions
        let scans := (w.scans.removeAll h).getD w.scans
        ({ w with stores := stores, sessions := sessions, scans := scans }, .ok "ok")
  | "session_start" =>
    let h := handleArg w w.stores.counter j
    asyncEntry w j .required none okUnit fun w =>
      match w.stores.borrow h with
      | .error e => (w, .error e)
      | .ok bi =>
        match w.backends[bi]? with
        | none => (w, .error .unexpected)
        | some b =>
          -- `Store::session` / `Store::transaction` ping the new session: the profile is resolved
          -- (and the transaction begun) before the handle is issued; on failure nothing is kept
          let profile := ((cstr j "profile").intoOptString).getD b.active
          let txn := bool! j "txn"
          let sh := (nextHandle w.sessions.counter).1
          if txn && b.lockedByOther sh then (w, .error .backend) else
          match resolve b.db b.h profile with
          | .error e => (w, .error e)
          | .ok (s, hd) =>
            match ping b.db s with
            | .error e => (w, .error e)
            | .ok _ =>
              let b := { b with h := hd, wtxn := if txn && b.wtxn.isNone then some (sh, b.db) else b.wtxn }
              let (sh, sessions) := w.sessions.insert h { backend := bi, profile := profile, txn := txn, sess := some s }
              (setSlot (setBackend { w with sessions := sessions } bi b) i (.handle sh), .ok (Json.mkObj [("h", jnat sh)]))
  | "session_close" =>
    let sh := handleArg w w.sessions.counter j
    asyncEntry w j .optional none okUnit fun w =>
      match w.sessions.remove sh with
      | (none, _) => (w, .ok "ok")     -- "Session not found for closing": Ok(())
      | (some sv, sessions) =>
        let w := { w with sessions := sessions }
        match w.backends[sv.backend]? with
        | none => (w, .ok "ok")
        | some b =>
          match b.wtxn with
          | some (k, copy) =>
            if k == sh then
              let b := if bool! j "commit" then { b with db := copy, wtxn := none } else { b with wtxn := none }
              (setBackend w sv.backend b, .ok "ok")
            else (w, .ok "ok")
          | none => (w, .ok "ok")
  | "update" =>
    let sh := handleArg w w.sessions.counter j
    let dec := decodeUpdate keysBorrowedOnly (int! j "operation") (cstr j "c") (cstr j "n") (cstr j "tt") (int! j "e")
    asyncEntry w j .required none (dec.map fun _ => ()) fun w =>
      match dec with
      | .error e => (w, .error e)
      | .ok a =>
        sessionTask sh (fun w s b bi =>
          if b.lockedByOther sh then (w, .error .backend) else
          if (a.op == .insert && b.hit .insertItem) || (a.op == .remove && b.hit (.removeItem ((doFetch (b.view sh) 0 s 2 a.category a.name).isSome))) then (w, .error .backend) else
          let v := value! j "v"
          let mop : Op := match a.op with
            | .insert => .insert 2 a.category a.name v a.tags a.expiry
            | .replace => .replace 2 a.category a.name v a.tags a.expiry
            | .remove => .remove 2 a.category a.name
          let (db', out) := step sqliteLike page 0 s (b.view sh) mop
          match out with
          | .ok => (setBackend w bi (b.write sh db'), .ok "ok")
          | .err e => (w, .error e)
          | _ => (w, .error .unexpected)) w
  | "fetch" =>
    let sh := handleArg w w.sessions.counter j
    let dec : Except Err (String × String) := do
      let c ← required (cstr j "c")
      let n ← required (cstr j "n")
      pure (c, n)
    asyncEntry w j .required none (dec.map fun _ => ()) fun w =>
      match dec with
      | .error e => (w, .error e)
      | .ok (c, n) =>
        sessionTask sh (fun w s b _ =>
          match doFetch (b.view sh) 0 s 2 c n with
          | none => (setSlot w i .none, .ok (Json.mkObj [("list", .null)]))
          | some e =>
            let l := ResultList.single e
            (setSlot w i (.list l true true), .ok (Json.mkObj [("list", jlist l true true)]))) w
  | "fetch_all" =>
    let sh := handleArg w w.sessions.counter j
    let ob := decodeOrderBy (cstr j "order_by")
    let early := match ob with | .error c => some c | .ok _ => none
    let ordered := match ob with | .ok b => b | .error _ => false
    let fa := filterArg j
    asyncEntry w j .required early (fa.map fun _ => ()) fun w =>
      match fa with
      | .error e => (w, .error e)
      | .ok f =>
        sessionTask sh (fun w s b _ =>
          match doFetchAll sqliteLike (b.view sh) 0 s (some 2) (cstr j "c").intoOptString f (decodeLimit (int! j "lim")) (bool! j "desc") with
          | .error e => (w, .error e)
          | .ok es =>
            let l := ResultList.rows es
            let known := ordered || (decodeLimit (int! j "lim")).isNone
            (setSlot w i (.list l ordered known), .ok (Json.mkObj [("list", jlist l ordered known)]))) w
  | "count" =>
    let sh := handleArg w w.sessions.counter j
    let fa := filterArg j
    asyncEntry w j .required none (fa.map fun _ => ()) fun w =>
      match fa with
      | .error e => (w, .error e)
      | .ok f =>
        sessionTask sh (fun w s b _ =>
          (w, .ok (Json.mkObj [("n", jnat (doCount sqliteLike (b.view sh) 0 s (some 2) (cstr j "c").intoOptString f))]))) w
  | "remove_all" =>
    let sh := handleArg w w.sessions.counter j
    let fa := filterArg j
    asyncEntry w j .required none (fa.map fun _ => ()) fun w =>
      match fa with
      | .error e => (w, .error e)
      | .ok f =>
        sessionTask sh (fun w s b bi =>
          if b.lockedByOther sh then (w, .error .backend) else
          let (db', n) := doRemoveAll sqliteLike (b.view sh) s (some 2) (cstr j "c").intoOptString f
          if b.hit (.removeAll n) then (w, .error .backend) else
          (setBackend w bi (b.write sh db'), .ok (Json.mkObj [("n", jnat n)]))) w
  | "scan_start" =>
    let h := handleArg w w.stores.counter j
    let ob := decodeOrderBy (cstr j "order_by")
    let early := match ob with | .error c => some c | .ok _ => none
    let ordered := match ob with | .ok b => b | .error _ => false
    let fa := filterArg j
    asyncEntry w j .required early (fa.map fun _ => ()) fun w =>
      match fa with
      | .error e => (w, .error e)
      | .ok f =>
        match w.stores.borrow h with
        | .error e => (w, .error e)
        | .ok bi =>
          match w.backends[bi]? with
          | none => (w, .error .unexpected)
          | some b =>
            let profile := ((cstr j "profile").intoOptString).getD b.active
            match resolve b.db b.h profile with
            | .error e => (w, .error e)
            | .ok (s, hd) =>
              let w := setBackend w bi { b with h := hd }
              match doScan sqliteLike page b.db 0 s (some 2) (cstr j "c").intoOptString f (some (int! j "off")) (decodeLimit (int! j "lim")) (bool! j "desc") with
              | .error e => (w, .error e)
              | .ok pages =>
                let (kh, scans) := w.scans.insert h { pages := pages, ordered := ordered }
                (setSlot { w with scans := scans } i (.handle kh), .ok (Json.mkObj [("h", jnat kh)]))
  | "scan_next" =>
    let kh := handleArg w w.scans.counter j
    asyncEntry w j .required none okUnit fun w =>
      match w.scans.map.get kh with
      | none => (w, .error .input)
      | some (store, sv) =>
        match sv.pages with
        | [] => (setSlot w i .none, .ok (Json.mkObj [("list", .null)]))
        | p :: rest =>
          let l := ResultList.rows p
          let w := { w with scans := w.scans.replace kh store { sv with pages := rest } }
          (setSlot w i (.list l sv.ordered sv.ordered), .ok (Json.mkObj [("list", jlist l sv.ordered sv.ordered)]))
  | "scan_free" =>
    let kh := handleArg w w.scans.counter j
    ({ w with scans := (w.scans.remove kh).2 }, jres .success .null)
  | "list_count" =>
    let nullOut := bool! j "null_out"
    match slotArg w j with
    | .list l _ _ =>
      match checkOutAndHandle nullOut false with
      | .error e => (w, jsync (Code.ofErr e) .null)
      | .ok _ => (w, jsync .success (jint l.len.toInt))
    | _ =>
      match checkOutAndHandle nullOut true with
      | .error e => (w, jsync (Code.ofErr e) .null)
      | .ok _ => (w, jsync .success .null)
  | "list_get" =>
    let nullOut := bool! j "null_out"
    match slotArg w j with
    | .list l ordered known =>
      match checkOutAndHandle nullOut false with
      | .error e => (w, jsync (Code.ofErr e) .null)
      | .ok _ =>
        match l.getRow (Int32.ofInt (int! j "idx")) with
        | .error e => (w, jsync (Code.ofErr e) .null)
        | .ok e =>
          if !(ordered || (known && l.toList.length ≤ 1)) then (w, jsync .success "unordered") else
          let v : Json := match str! j "field" with
            | "category" => .str e.cat
            | "name" => .str e.name
            | "value" => jvalue e.value
            | _ => jtagsCanon e.tags
          (w, jsync .success v)
    | _ =>
      match checkOutAndHandle nullOut true with
      | .error e => (w, jsync (Code.ofErr e) .null)
      | .ok _ => (w, jsync .success .null)
  | "list_free" => (setSlot w ((((j.getObjVal? "h").toOption.bind fun hj => (hj.getObjVal? "slot").toOption).bind fun s => s.getNat?.toOption).getD i) .none, jsync .success .null)
  | "create_profile" =>
    let h := handleArg w w.stores.counter j
    asyncEntry w j .required none okUnit fun w =>
      match w.stores.borrow h with
      | .error e => (w, .error e)
      | .ok bi =>
        match w.backends[bi]? with
        | none => (w, .error .unexpected)
        | some b =>
          if b.wtxn.isSome || b.hit .createProfile then (w, .error .backend) else
          let name := ((cstr j "name").intoOptString).getD ""
          match createProfile b.db b.h name with
          | .ok (db, hd) => (setBackend w bi { b with db := db, h := hd }, .ok (Json.mkObj [("name", .str name)]))
          | .error e => (w, .error e)
  | "list_profiles" =>
    let h := handleArg w w.stores.counter j
    asyncEntry w j .required none okUnit fun w =>
      match w.stores.borrow h with
      | .error e => (w, .error e)
      | .ok bi =>
        match w.backends[bi]? with
        | none => (w, .error .unexpected)
        | some b =>
          if b.hit .listProfiles then (w, .error .backend) else
          let names := sortBy strLt (b.db.profiles.map (·.name))
          (setSlot w i (.strs names), .ok (Json.mkObj [("strs", .arr (names.map Json.str).toArray), ("count", jnat names.length)]))
  | "get_profile_name" =>
    let h := handleArg w w.stores.counter j
    asyncEntry w j .required none okUnit fun w =>
      match w.stores.borrow h with
      | .error e => (w, .error e)
      | .ok bi => (w, .ok (Json.mkObj [("name", .str ((w.backends[bi]?.map (·.active)).getD ""))]))
  | "strlist_get" =>
    let nullOut := bool! j "null_out"
    match slotArg w j with
    | .strs l =>
      match checkOutAndHandle nullOut false with
      | .error e => (w, jsync (Code.ofErr e) .null)
      | .ok _ =>
        match (ResultList.rows l).getRow (Int32.ofInt (int! j "idx")) with
        | .error e => (w, jsync (Code.ofErr e) .null)
        | .ok s => (w, jsync .success (if l.length > 1 then "unordered" else .str s))
    | _ =>
      match checkOutAndHandle nullOut true with
      | .error e => (w, jsync (Code.ofErr e) .null)
      | .ok _ => (w, jsync .success .null)
  | "key_generate" =>
    if bool! j "null_out" then (w, jsync .input .null)
    else
      -- `alg.as_opt_str().unwrap_or_default()`, then `KeyAlg::from_str`: unknown names are Unsupported
      let alg := ((cstr j "alg").asOptStr).getD ""
      if knownAlgs.contains alg
      then (setSlot w i (.key alg), jsync .success .null)
      else (w, jsync .unsupported .null)
  | "key_get_algorithm" =>
    let nullOut := bool! j "null_out"
    match slotArg w j with
    | .key alg =>
      match checkOutAndHandle nullOut false with
      | .error e => (w, jsync (Code.ofErr e) .null)
      | .ok _ => (w, jsync .success (.str alg))
    | _ =>
      match checkOutAndHandle nullOut true with
      | .error e => (w, jsync (Code.ofErr e) .null)
      | .ok _ => (w, jsync .success .null)
  | "insert_key_null" =>
    -- `askar_session_insert_key` with a NULL key handle: `key_handle.load()?` fails after the callback check
    asyncEntry w j .required none (.error .input) fun w => (w, .ok "ok")
  | "rekey" =>
    let h := handleArg w w.stores.counter j
    let mc := methodArg (cstr j "method")
    asyncEntry w j .required none (mc.map fun _ => ()) fun w =>
      match mc with
      | .error e => (w, .error e)
      | .ok m =>
        -- `handle.remove()`, `store.rekey(..)`, `handle.replace(store)` whatever the outcome
        match w.stores.borrow h with
        | .error e => (w, .error e)
        | .ok bi =>
          match w.backends[bi]? with
          | none => (w, .error .unexpected)
          | some b =>
            -- `store.rekey(key_method, pass_key.as_ref())`: the model of the CURRENT tree (Model/Ffi.lean,
            -- `passKeyAsRefKeepsNone` read from the source)
            let p := passKeyAsRef (cstr j "pass").asOptStr
            match rekeyFfi (fun k => validRawKeys.contains k) (classOf m) (cstr j "pass") with
            | .error e => (w, .error e)
            | .ok _ =>
              if b.wtxn.isSome || b.hit .rekey then (w, .error .backend) else
              (setBackend w bi { b with keyM := m, keyP := p }, .ok "ok")
  | "store_open" =>
    -- open the file of an earlier provision under a new handle (the harness closes it at once)
    let mc : Except Err (Option String) := match (cstr j "method").asOptStr with
      | none => .ok none
      | some m => (methodClass m).map some
    let dec : Except Err Unit := match (cstr j "uri").intoOptString with
      | none => .error .input
      | some _ => mc.map fun _ => ()
    asyncEntry w j .required none dec fun w =>
      match mc with
      | .error e => (w, .error e)
      | .ok m =>
        if lookupFile w (nat! j "of") == some none then (w, .error .notFound) else     -- the file was removed
        match ((lookupFile w (nat! j "of")).bind id).bind fun bi => w.backends[bi]? with
        | none => (w, .error .backend)
        | some b =>
          if (match m with | some m => m != b.keyM | none => false) then (w, .error .input) else   -- "Store key method mismatch"
          match openKey b.keyM b.keyP ((cstr j "pass").asOptStr) with
          | .error e => (w, .error e)
          | .ok _ =>
            let (h, stores) := w.stores.insert 0 0
            ({ w with stores := (stores.remove h).2 }, .ok (Json.mkObj [("opened", jnat h)]))
  | "remove_profile" =>
    let h := handleArg w w.stores.counter j
    let dec : Except Err Unit := (required (cstr j "name")).map fun _ => ()
    asyncEntry w j .required none dec fun w =>
      match w.stores.borrow h with
      | .error e => (w, .error e)
      | .ok bi =>
        match w.backends[bi]? with
        | none => (w, .error .unexpected)
        | some b =>
          if b.wtxn.isSome || b.hit (.removeProfile (b.db.profiles.any (·.name == ((cstr j "name").intoOptString).getD ""))) then (w, .error .backend) else
          let ((db, hd), r) := removeProfile b.db b.h (((cstr j "name").intoOptString).getD "") evictOnRemove
          (setBackend w bi { b with db := db, h := hd }, .ok (Json.mkObj [("removed", .bool r)]))
  | "get_default_profile" =>
    let h := handleArg w w.stores.counter j
    asyncEntry w j .required none okUnit fun w =>
      match w.stores.borrow h with
      | .error e => (w, .error e)
      | .ok bi =>
        if ((w.backends[bi]?.map (·.hit .getDefaultProfile)).getD false) then (w, .error .backend) else
        (w, .ok (Json.mkObj [("name", .str ((w.backends[bi]?.map (·.defProfile)).getD ""))]))
  | "set_default_profile" =>
    let h := handleArg w w.stores.counter j
    let dec : Except Err Unit := (required (cstr j "name")).map fun _ => ()
    asyncEntry w j .required none dec fun w =>
      match w.stores.borrow h with
      | .error e => (w, .error e)
      | .ok bi =>
        match w.backends[bi]? with
        | none => (w, .error .unexpected)
        | some b =>
          if b.hit .setDefaultProfile then (w, .error .backend) else
          (setBackend w bi { b with defProfile := ((cstr j "name").intoOptString).getD "" }, .ok "ok")
  | "key_insert" =>
    let sh := handleArg w w.sessions.counter j
    let dec : Except Err (String × String × Option (List Tag)) := do
      let alg ← (match (w.slots[(((j.getObjVal? "key").toOption.bind fun k => k.getNat?.toOption).getD 1000000)]?) with
        | some (.key alg) => Except.ok alg
        | _ => Except.error Err.input)                       -- `key_handle.load()`: NULL ⇒ "Invalid handle"
      let n ← required (cstr j "n")
      let t ← decodeTagsArg keysBorrowedOnly (cstr j "tt")
      pure (alg, n, t)
    asyncEntry w j .required none (dec.map fun _ => ()) fun w =>
      match dec with
      | .error e => (w, .error e)
      | .ok (alg, n, t) =>
        sessionTask sh (fun w s b bi =>
          if b.lockedByOther sh then (w, .error .backend) else
          let (db', out) := step sqliteLike page 0 s (b.view sh) (.insert 1 "key" n (keyValue alg (cstr j "md").intoOptString) t none)
          match out with
          | .ok => (setBackend w bi (b.write sh db'), .ok "ok")
          | .err e => (w, .error e)
          | _ => (w, .error .unexpected)) w
  | "key_update" =>
    let sh := handleArg w w.sessions.counter j
    let dec : Except Err (String × Option (List Tag)) := do
      let n ← required (cstr j "n")
      let t ← decodeTagsArg keysBorrowedOnly (cstr j "tt")
      pure (n, t)
    asyncEntry w j .required none (dec.map fun _ => ()) fun w =>
      match dec with
      | .error e => (w, .error e)
      | .ok (n, t) =>
        sessionTask sh (fun w s b bi =>
          match doFetch (b.view sh) 0 s 1 "key" n with
          | none => (w, .error .notFound)
          | some e =>
            if b.lockedByOther sh then (w, .error .backend) else
            let (db', out) := step sqliteLike page 0 s (b.view sh) (.replace 1 "key" n (keyValue (keyAlg e.value) (cstr j "md").intoOptString) (some (t.getD [])) none)
            match out with
            | .ok => (setBackend w bi (b.write sh db'), .ok "ok")
            | .err e => (w, .error e)
            | _ => (w, .error .unexpected)) w
  | "key_remove" =>
    let sh := handleArg w w.sessions.counter j
    let dec := required (cstr j "n")
    asyncEntry w j .required none (dec.map fun _ => ()) fun w =>
      match dec with
      | .error e => (w, .error e)
      | .ok n =>
        sessionTask sh (fun w s b bi =>
          if b.lockedByOther sh then (w, .error .backend) else
          let (db', out) := step sqliteLike page 0 s (b.view sh) (.remove 1 "key" n)
          match out with
          | .ok => (setBackend w bi (b.write sh db'), .ok "ok")
          | .err e => (w, .error e)
          | _ => (w, .error .unexpected)) w
  | "key_fetch" =>
    let sh := handleArg w w.sessions.counter j
    let dec := required (cstr j "n")
    asyncEntry w j .required none (dec.map fun _ => ()) fun w =>
      match dec with
      | .error e => (w, .error e)
      | .ok n =>
        sessionTask sh (fun w s b _ =>
          match doFetch (b.view sh) 0 s 1 "key" n with
          | none => (w, .ok (Json.mkObj [("keys", .null)]))
          | some e => (w, .ok (Json.mkObj [("keys", Json.mkObj [("count", jnat 0), ("rows", .arr #[jkey e])])]))) w
  | "key_fetch_all" =>
    let sh := handleArg w w.sessions.counter j
    asyncEntry w j .required none okUnit fun w =>
      sessionTask sh (fun w s b _ =>
        match doFetchAll sqliteLike (b.view sh) 0 s (some 1) (some "key") none none false with
        | .error e => (w, .error e)
        | .ok es =>
          let es := match (cstr j "alg").intoOptString with
            | none => es
            | some a => es.filter fun e => keyAlg e.value == a
          match decodeLimit (int! j "lim") with
          | some l => (w, .ok (Json.mkObj [("keys", Json.mkObj [("count", jnat (min l.toNat es.length))])]))
          | none => (w, .ok (Json.mkObj [("keys", Json.mkObj [("count", jnat es.length), ("rows", .arr ((sortBy entryLt es).map jkey).toArray)])]))) w
  | "current_error_null_out" =>
    -- `askar_get_current_error(NULL)` on the CURRENT tree (`currentErrorChecksOut` read from the source)
    (w, Json.mkObj [("crash", .bool ((getCurrentError true (w.lastErr.getD 0)).1 == .segfault))])
  | "version" => (w, jsync .success "version")
  | "key_roundtrip" =>
    let alg := ((cstr j "alg").asOptStr).getD ""
    (w, jsync (if ["ed25519", "x25519", "a128gcm", "a256gcm", "c20p", "xc20p", "p256", "k256", "bls12381g1"].contains alg then .success else .unsupported) .null)
  | "current_error" =>
    (w, Json.mkObj [("code", match w.lastErr with | some n => jnat n | none => "any")])
  | "set_max_log_level" =>
    let l := int! j "level"
    (w, jsync (if -1 ≤ l && l ≤ 5 then .success else .input) .null)
  | "strlist_count" =>
    let nullOut := bool! j "null_out"
    match slotArg w j with
    | .strs l =>
      match checkOutAndHandle nullOut false with
      | .error e => (w, jsync (Code.ofErr e) .null)
      | .ok _ => (w, jsync .success (jnat l.length))
    | _ =>
      match checkOutAndHandle nullOut true with
      | .error e => (w, jsync (Code.ofErr e) .null)
      | .ok _ => (w, jsync .success .null)
  | "null_probe" =>
    -- synchronous accessors called with a NULL handle (valid out) and with a NULL out-pointer:
    -- `check_useful_c_ptr!` / `ArcHandle::validate` ⇒ Input in both cases
    (w, Json.mkObj [("null_handle", jcode (match checkOutAndHandle false true with | .error e => Code.ofErr e | .ok _ => .success)),
                    ("null_out", jcode (match checkOutAndHandle true false with | .error e => Code.ofErr e | .ok _ => .success))])
  | "raw_key_null_out" =>
    (w, Json.mkObj [("crash", .bool (generateRawKeyOut true == .segfault))])
  | _ => evalNew w i j

def codeNum (n : String) : Nat :=
  match n with
  | "Backend" => 1 | "Busy" => 2 | "Duplicate" => 3 | "Encryption" => 4 | "Input" => 5 | "NotFound" => 6
  | "Unexpected" => 7 | "Unsupported" => 8 | "Custom" => 100 | _ => 0

def codeOfName (n : String) : Code :=
  match n with
  | "Backend" => .backend | "Busy" => .busy | "Duplicate" => .duplicate | "Encryption" => .encryption | "Input" => .input
  | "NotFound" => .notFound | "Unexpected" => .unexpected | "Unsupported" => .unsupported | "Custom" => .custom | _ => .success

/-- `LAST_ERROR`: set by every error that goes through `set_last_error` (a `catch_err!` return or an
    error delivered to a callback); by the order_by check only on a tree where that goes through
    `set_last_error` (Model/Ffi.lean `orderByReject`, D33); taken by `askar_get_current_error`.  The harness itself reads the slot after a code 7
    (to look for a caught panic) and clobbers it when it has to poll after a close without callback. -/
def trackLastErr (w : World) (op o : Json) : World :=
  let name := str! op "op"
  if name == "current_error" then { w with lastErr := some 0 } else
  let r := str! o "r"
  let cbe := match o.getObjVal? "cb" with | .ok cb => str! cb "err" | .error _ => ""
  if r == "Unexpected" || cbe == "Unexpected" then { w with lastErr := some 0 } else
  if (name == "store_close" && !bool! op "cb") || name == "key_roundtrip" || isNewOp name then { w with lastErr := none } else
  let gotKeys := match o.getObjVal? "cb" with | .ok cb => (getD? cb "keys").isSome | .error _ => false
  if name == "null_probe" || ((name == "key_fetch" || name == "key_fetch_all") && gotKeys) then { w with lastErr := some 5 } else
  if cbe != "" then { w with lastErr := some (setLastError (codeOfName cbe) 0).2 } else
  if r != "" && r != "Success" then
    -- the order_by rejection of the CURRENT tree (`orderByErrorRecorded` read from the source); a slot
    -- the harness has clobbered stays undetermined either way
    if (name == "fetch_all" || name == "scan_start") && r == "Unsupported" then { w with lastErr := w.lastErr.map fun s => (orderByReject s).2 }
    else { w with lastErr := some (setLastError (codeOfName r) 0).2 }
  else w

def runCase (j : Json) : Json :=
  let ops := arr! j "ops"
  let (_, outs, _) := ops.foldl (fun (acc : World × Array Json × Nat) op =>
    let (w, outs, i) := acc
    let (w', o) := evalOp w i op
    -- an op during which the harness itself read LAST_ERROR (a retried set-up step) leaves the slot undetermined
    let w'' := trackLastErr w' op o
    let w'' := if ((w''.tw[i]?).bind fun t => getD? t "retried").isSome then { w'' with lastErr := none } else w''
    (w'', outs.push o, i + 1)) (({ tw := (arr! j "tw").toArray, ops := ops.toArray } : World), #[], 0)
  .arr outs

end Driver.C19
