/-
Helper lemmas for C12 (`Model/Aead.lean`, `Crypto/Cbc.lean`).  Core Lean only.
The property theorems themselves are listed in `Props/C12.lean`.
-/
import AskarModel.Model.Aead

namespace Askar.Aead.Lemmas
open Askar Askar.Aead Askar.Crypto

/-! ### xor, chunks -/

theorem xor_length (a b : Bytes) : (Cbc.xor a b).length = min a.length b.length := by
  simp [Cbc.xor]

theorem xor_xor_cancel : ∀ (a b : Bytes), a.length ≤ b.length → Cbc.xor (Cbc.xor a b) b = a
  | [], _, _ => by simp [Cbc.xor]
  | _ :: _, [], h => by simp at h
  | x :: a, y :: b, h => by
    have ih := xor_xor_cancel a b (by simpa using h)
    simp only [Cbc.xor] at ih ⊢
    simp only [List.zipWith_cons_cons, List.cons.injEq]
    exact ⟨by rw [UInt8.xor_assoc, UInt8.xor_self, UInt8.xor_zero], ih⟩

theorem chunksN_flatten (n : Nat) : ∀ (bs : List Bytes) (rest : Bytes), (∀ b ∈ bs, b.length = n) →
    Cbc.chunksN n bs.length (bs.flatten ++ rest) = bs
  | [], _, _ => by simp [Cbc.chunksN]
  | b :: bs, rest, h => by
    have hb : b.length = n := h b (by simp)
    have ih := chunksN_flatten n bs rest (fun c hc => h c (by simp [hc]))
    simp only [List.length_cons, Cbc.chunksN, List.flatten_cons, List.append_assoc]
    rw [List.take_left' hb, List.drop_left' hb, ih]

theorem flatten_length_of_all (n : Nat) : ∀ (bs : List Bytes), (∀ b ∈ bs, b.length = n) → bs.flatten.length = n * bs.length
  | [], _ => by simp
  | b :: bs, h => by
    have hb : b.length = n := h b (by simp)
    have ih := flatten_length_of_all n bs (fun c hc => h c (by simp [hc]))
    simp only [List.flatten_cons, List.length_append, List.length_cons, hb, ih]
    rw [Nat.mul_add, Nat.mul_one, Nat.add_comm]

/-- chunking the concatenation of `n`-byte blocks gives the blocks back -/
theorem chunks_flatten (n : Nat) (hn : 0 < n) (bs : List Bytes) (h : ∀ b ∈ bs, b.length = n) :
    Cbc.chunks n bs.flatten = bs := by
  have := chunksN_flatten n bs [] h
  simp only [List.append_nil] at this
  unfold Cbc.chunks
  rw [flatten_length_of_all n bs h, Nat.mul_div_cancel_left _ hn, this]

theorem chunksN_all_length (n : Nat) : ∀ (k : Nat) (b : Bytes), n * k ≤ b.length → ∀ c ∈ Cbc.chunksN n k b, c.length = n
  | 0, _, _ => by simp [Cbc.chunksN]
  | k + 1, b, h => by
    intro c hc
    simp only [Cbc.chunksN, List.mem_cons] at hc
    have hnb : n ≤ b.length := by
      have : n * (k + 1) = n * k + n := by rw [Nat.mul_add, Nat.mul_one]
      omega
    cases hc with
    | inl h1 => subst h1; simp [List.length_take]; omega
    | inr h1 =>
      refine chunksN_all_length n k (b.drop n) ?_ c h1
      have : n * (k + 1) = n * k + n := by rw [Nat.mul_add, Nat.mul_one]
      simp only [List.length_drop]; omega

theorem chunksN_length (n : Nat) : ∀ (k : Nat) (b : Bytes), (Cbc.chunksN n k b).length = k
  | 0, _ => by simp [Cbc.chunksN]
  | k + 1, b => by simp [Cbc.chunksN, chunksN_length n k]

theorem chunks_all_length (n : Nat) (b : Bytes) : ∀ c ∈ Cbc.chunks n b, c.length = n :=
  chunksN_all_length n (b.length / n) b (Nat.mul_div_le _ _)

theorem chunks_length (n : Nat) (b : Bytes) : (Cbc.chunks n b).length = b.length / n := chunksN_length n _ b

theorem flatten_chunksN (n : Nat) : ∀ (k : Nat) (b : Bytes), n * k ≤ b.length →
    (Cbc.chunksN n k b).flatten = b.take (n * k)
  | 0, b, _ => by simp [Cbc.chunksN]
  | k + 1, b, h => by
    have e : n * (k + 1) = n + n * k := by rw [Nat.mul_add, Nat.mul_one, Nat.add_comm]
    have ih := flatten_chunksN n k (b.drop n) (by simp only [List.length_drop]; omega)
    simp only [Cbc.chunksN, List.flatten_cons, ih, e]
    rw [List.take_add]

/-- the complete chunks of `b`, concatenated, followed by the remainder, are `b` -/
theorem flatten_chunks_append (n : Nat) (b : Bytes) :
    (Cbc.chunks n b).flatten ++ b.drop (n * (b.length / n)) = b := by
  unfold Cbc.chunks
  rw [flatten_chunksN n _ b (Nat.mul_div_le _ _), List.take_append_drop]

theorem flatten_chunks (n : Nat) (b : Bytes) (h : b.length % n = 0) : (Cbc.chunks n b).flatten = b := by
  have := flatten_chunks_append n b
  have e : n * (b.length / n) = b.length := by
    have := Nat.div_add_mod b.length n
    omega
  rw [e, List.drop_length, List.append_nil] at this
  exact this

/-! ### PKCS#7 and CBC -/

theorem pkcs7Pad_length (k : Nat) (hk : 0 < k) (m : Bytes) : (Cbc.pkcs7Pad k m).length = (m.length / k + 1) * k := by
  have h1 : m.length % k < k := Nat.mod_lt _ hk
  have h2 := Nat.div_add_mod m.length k
  simp only [Cbc.pkcs7Pad, List.length_append, List.length_replicate]
  rw [Nat.add_mul, Nat.one_mul, Nat.mul_comm]
  omega

theorem pkcs7_unpad_pad (k : Nat) (hk : 0 < k) (hk2 : k < 256) (m : Bytes) :
    Cbc.pkcs7Unpad k (Cbc.pkcs7Pad k m) = some m := by
  have h1 : m.length % k < k := Nat.mod_lt _ hk
  generalize hn : k - m.length % k = n
  have hn1 : 0 < n := by omega
  have hn2 : n ≤ k := by omega
  have hne : n ≠ 0 := by omega
  have hto : (UInt8.ofNat n).toNat = n := by
    simp only [UInt8.toNat_ofNat']; omega
  unfold Cbc.pkcs7Unpad Cbc.pkcs7Pad
  simp only [hn, List.getLast?_append, List.getLast?_replicate, hne, if_false, Option.some_or, hto,
    List.length_append, List.length_replicate]
  have c1 : (n == 0) = false := by simp [hne]
  have c2 : decide (n > k) = false := by simp; omega
  have c3 : decide (n > m.length + n) = false := by simp
  simp only [c1, c2, c3, Bool.or_false, Bool.false_eq_true, if_false, Nat.add_sub_cancel]
  rw [List.drop_left' rfl, List.take_left' rfl]
  simp [List.all_replicate]

theorem cbc_dec_enc_blocks (enc dec : Bytes → Bytes)
    (hlen : ∀ b, b.length = 16 → (enc b).length = 16) (hde : ∀ b, b.length = 16 → dec (enc b) = b) :
    ∀ (ps : List Bytes) (prev : Bytes), prev.length = 16 → (∀ p ∈ ps, p.length = 16) →
      Cbc.decBlocks dec prev (Cbc.encBlocks enc prev ps) = ps
  | [], _, _, _ => by simp [Cbc.encBlocks, Cbc.decBlocks]
  | p :: ps, prev, hprev, h => by
    have hp : p.length = 16 := h p (by simp)
    have hx : (Cbc.xor p prev).length = 16 := by rw [xor_length]; omega
    have ih := cbc_dec_enc_blocks enc dec hlen hde ps (enc (Cbc.xor p prev)) (hlen _ hx) (fun q hq => h q (by simp [hq]))
    simp only [Cbc.encBlocks, Cbc.decBlocks, hde _ hx, ih]
    rw [xor_xor_cancel p prev (by omega)]

theorem encBlocks_all_length (enc : Bytes → Bytes) (hlen : ∀ b, b.length = 16 → (enc b).length = 16) :
    ∀ (ps : List Bytes) (prev : Bytes), prev.length = 16 → (∀ p ∈ ps, p.length = 16) →
      ∀ c ∈ Cbc.encBlocks enc prev ps, c.length = 16
  | [], _, _, _ => by simp [Cbc.encBlocks]
  | p :: ps, prev, hprev, h => by
    have hp : p.length = 16 := h p (by simp)
    have hx : (Cbc.xor p prev).length = 16 := by rw [xor_length]; omega
    intro c hc
    simp only [Cbc.encBlocks, List.mem_cons] at hc
    cases hc with
    | inl h1 => subst h1; exact hlen _ hx
    | inr h1 => exact encBlocks_all_length enc hlen ps _ (hlen _ hx) (fun q hq => h q (by simp [hq])) c h1

theorem encBlocks_length (enc : Bytes → Bytes) : ∀ (ps : List Bytes) (prev : Bytes), (Cbc.encBlocks enc prev ps).length = ps.length
  | [], _ => by simp [Cbc.encBlocks]
  | p :: ps, prev => by simp [Cbc.encBlocks, encBlocks_length enc ps]

theorem cbc_encrypt_length (enc : Bytes → Bytes) (hlen : ∀ b, b.length = 16 → (enc b).length = 16)
    (iv data : Bytes) (hiv : iv.length = 16) : (Cbc.encrypt enc iv data).length = 16 * (data.length / 16) := by
  unfold Cbc.encrypt
  rw [flatten_length_of_all 16 _ (encBlocks_all_length enc hlen _ iv hiv (chunks_all_length 16 data)),
    encBlocks_length, chunks_length]

/-- SP 800-38A CBC: decryption inverts encryption on whole blocks, for any block cipher -/
theorem cbc_dec_enc (enc dec : Bytes → Bytes)
    (hlen : ∀ b, b.length = 16 → (enc b).length = 16) (hde : ∀ b, b.length = 16 → dec (enc b) = b)
    (iv data : Bytes) (hiv : iv.length = 16) (hd : data.length % 16 = 0) :
    Cbc.decrypt dec iv (Cbc.encrypt enc iv data) = data := by
  unfold Cbc.decrypt Cbc.encrypt
  have hall := encBlocks_all_length enc hlen _ iv hiv (chunks_all_length 16 data)
  rw [chunks_flatten 16 (by decide) _ hall, cbc_dec_enc_blocks enc dec hlen hde _ iv hiv (chunks_all_length 16 data),
    flatten_chunks 16 data hd]

/-! ### AES-CBC-HMAC: normal forms of encrypt / decrypt (all slice checks discharged once) -/

@[simp] theorem bind_ok {α β : Type} (a : α) (f : α → Res β) : (Res.ok a >>= f) = f a := rfl
@[simp] theorem bind_err {α β : Type} (e : Err) (f : α → Res β) : (Res.err e >>= f) = Res.err e := rfl
@[simp] theorem bind_panic {α β : Type} (p : Panic) (f : α → Res β) : (Res.panic p >>= f) = Res.panic p := rfl

/-- the tag the code expects for (aad, nonce, ct) under `key` -/
def expectedTag (M : Mac) (K : Nat) (key aad nonce ct : Bytes) : Bytes :=
  (M.mac (key.take K) (macInput aad nonce ct)).take K

theorem cbcHmacDecrypt_eq (fixed : Bool) (C : BlockCipher) (M : Mac) (K : Nat) (key ct tag nonce aad : Bytes)
    (hn : nonce.length = 16) (ha : aadTooLong aad = false) (ht : tag.length = K) (hk : key.length = 2 * K)
    (hM : K ≤ (M.mac (key.take K) (macInput aad nonce ct)).length) :
    cbcHmacDecrypt fixed C M K key (ct ++ tag) nonce aad =
      if fixed && !decide (tag = expectedTag M K key aad nonce ct) then .err aeadDecErr else
      match cbcDecryptPadded (C.dec (key.drop K)) nonce ct with
      | none => .err cbcDecErr
      | some pt => if !decide (tag = expectedTag M K key aad nonce ct) then .err aeadDecErr else .ok pt := by
  have e1 : (ct ++ tag).length - K = ct.length := by simp [ht]
  have e2 : ¬ (ct ++ tag).length < K := by simp [ht]
  have e3 : ct.length ≤ (ct ++ tag).length := by simp
  have e4 : K ≤ key.length := by omega
  have e5 : (key.drop K).length = K := by simp; omega
  unfold cbcHmacDecrypt
  simp only [hn, ha, e1, e2, ne_eq, not_true_eq_false, if_false, Bool.false_eq_true, sliceFrom, sliceTo, fromSlice, e3, e4, if_true,
    List.drop_left' rfl, List.take_left' rfl, bind_ok, ht, e5, hM, expectedTag]
  cases fixed <;> cases cbcDecryptPadded (C.dec (key.drop K)) nonce ct <;> rfl

theorem pad_len_eq (n : Nat) : (n / 16 + 1) * 16 = n + cbcPaddingLength n := by
  unfold cbcPaddingLength
  have := Nat.div_add_mod n 16
  have := Nat.mod_lt n (by decide : 0 < 16)
  omega

theorem cbcHmacEncrypt_eq (C : BlockCipher) (hC : C.Lawful) (M : Mac) (hM : M.Lawful) (K : Nat) (key m nonce aad : Bytes)
    (hn : nonce.length = 16) (ha : aadTooLong aad = false) (hk : key.length = 2 * K) (hK : K ≤ M.outLen) :
    cbcHmacEncrypt C M K key m nonce aad =
      .ok (Cbc.encrypt (C.enc (key.drop K)) nonce (Cbc.pkcs7Pad 16 m)
            ++ expectedTag M K key aad nonce (Cbc.encrypt (C.enc (key.drop K)) nonce (Cbc.pkcs7Pad 16 m)),
           m.length + cbcPaddingLength m.length)
    ∧ (Cbc.encrypt (C.enc (key.drop K)) nonce (Cbc.pkcs7Pad 16 m)).length = m.length + cbcPaddingLength m.length := by
  generalize hct : Cbc.encrypt (C.enc (key.drop K)) nonce (Cbc.pkcs7Pad 16 m) = ct
  have hpl := pkcs7Pad_length 16 (by decide) m
  have hctl : ct.length = m.length + cbcPaddingLength m.length := by
    rw [← hct, cbc_encrypt_length _ (hC.enc_len _) _ _ hn, hpl, Nat.mul_div_cancel _ (by decide : 0 < 16), ← pad_len_eq]
    omega
  refine ⟨?_, hctl⟩
  have e4 : K ≤ key.length := by omega
  have e5 : (key.drop K).length = K := by simp; omega
  have e6 : ¬ K > M.outLen := by omega
  have e7 : ¬ (m.length / 16 + 1) * 16 > (m ++ zeros (cbcPaddingLength m.length + K)).length := by
    rw [pad_len_eq]; simp [zeros]
  have e8 : (m ++ zeros (cbcPaddingLength m.length + K)).drop (m.length + cbcPaddingLength m.length) = zeros K := by
    rw [List.drop_append]; simp [zeros, List.drop_replicate]
  have e9 : (M.mac (key.take K) (macInput aad nonce ct)).length = M.outLen := hM.mac_len _ _
  unfold cbcHmacEncrypt
  simp only [hn, ha, e6, ne_eq, not_true_eq_false, if_false, Bool.false_eq_true, sliceFrom, sliceTo, fromSlice, e4, if_true,
    bind_ok, e5, e7, List.take_left' rfl, hct, e8]
  have e10 : m.length + cbcPaddingLength m.length ≤ (ct ++ zeros K).length := by simp [hctl]
  have e11 : K ≤ (M.mac (key.take K) (macInput aad nonce ct)).length := by omega
  simp only [e10, if_true, bind_ok, List.take_left' hctl, e11, copyInto, expectedTag]
  have e12 : m.length + cbcPaddingLength m.length ≤ m.length + cbcPaddingLength m.length + K ∧
      m.length + cbcPaddingLength m.length + K ≤ (ct ++ zeros K).length := by simp [hctl, zeros]
  have e13 : (List.take K (M.mac (key.take K) (macInput aad nonce ct))).length = m.length + cbcPaddingLength m.length + K - (m.length + cbcPaddingLength m.length) := by
    simp [List.length_take]; omega
  have e14 : (ct ++ zeros K).drop (m.length + cbcPaddingLength m.length + K) = [] := by
    apply List.drop_eq_nil_of_le; simp [hctl, zeros]
  simp only [e12, e13, and_self, if_true, e14, List.append_nil, bind_ok]

/-! ### AES-CBC-HMAC: round trip, tag, uniformity -/

theorem cbcDecryptPadded_encrypt (C : BlockCipher) (hC : C.Lawful) (ek nonce m : Bytes) (hn : nonce.length = 16) :
    cbcDecryptPadded (C.dec ek) nonce (Cbc.encrypt (C.enc ek) nonce (Cbc.pkcs7Pad 16 m)) = some m := by
  have hpl := pkcs7Pad_length 16 (by decide) m
  have hmod : (Cbc.pkcs7Pad 16 m).length % 16 = 0 := by rw [hpl]; exact Nat.mul_mod_left _ _
  have hl : (Cbc.encrypt (C.enc ek) nonce (Cbc.pkcs7Pad 16 m)).length % 16 = 0 := by
    rw [cbc_encrypt_length _ (hC.enc_len _) _ _ hn]; exact Nat.mul_mod_right _ _
  unfold cbcDecryptPadded
  simp only [hl, ne_eq, not_true_eq_false, if_false]
  rw [cbc_dec_enc _ _ (hC.enc_len ek) (hC.dec_enc ek) _ _ hn hmod]
  exact pkcs7_unpad_pad 16 (by decide) (by decide) m

theorem cbcHmac_roundtrip (fixed : Bool) (C : BlockCipher) (hC : C.Lawful) (M : Mac) (hM : M.Lawful) (K : Nat)
    (key m nonce aad : Bytes) (hn : nonce.length = 16) (ha : aadTooLong aad = false) (hk : key.length = 2 * K)
    (hK : K ≤ M.outLen) :
    ∃ buf, cbcHmacEncrypt C M K key m nonce aad = .ok (buf, m.length + cbcPaddingLength m.length) ∧
      buf.length = m.length + cbcPaddingLength m.length + K ∧
      cbcHmacDecrypt fixed C M K key buf nonce aad = .ok m := by
  obtain ⟨he, hl⟩ := cbcHmacEncrypt_eq C hC M hM K key m nonce aad hn ha hk hK
  generalize hct : Cbc.encrypt (C.enc (key.drop K)) nonce (Cbc.pkcs7Pad 16 m) = ct at he hl
  have hml : (M.mac (key.take K) (macInput aad nonce ct)).length = M.outLen := hM.mac_len _ _
  have htl : (expectedTag M K key aad nonce ct).length = K := by
    simp only [expectedTag, List.length_take, hml]; omega
  refine ⟨_, he, by simp [hl, htl], ?_⟩
  rw [cbcHmacDecrypt_eq fixed C M K key ct _ nonce aad hn ha htl hk (by omega)]
  have hd := cbcDecryptPadded_encrypt C hC (key.drop K) nonce m hn
  rw [hct] at hd
  simp [hd]

theorem cbcHmac_ok_iff_tag (fixed : Bool) (C : BlockCipher) (M : Mac) (hM : M.Lawful) (K : Nat)
    (key ct tag nonce aad m : Bytes) (ht : tag.length = K) (hk : key.length = 2 * K) (hK : K ≤ M.outLen)
    (h : cbcHmacDecrypt fixed C M K key (ct ++ tag) nonce aad = .ok m) :
    tag = expectedTag M K key aad nonce ct ∧ cbcDecryptPadded (C.dec (key.drop K)) nonce ct = some m := by
  have hn : nonce.length = 16 := by
    apply Classical.byContradiction; intro hne
    simp [cbcHmacDecrypt, hne] at h
  have ha : aadTooLong aad = false := by
    cases hx : aadTooLong aad with
    | false => rfl
    | true => simp [cbcHmacDecrypt, hn, hx] at h
  have hml : (M.mac (key.take K) (macInput aad nonce ct)).length = M.outLen := hM.mac_len _ _
  rw [cbcHmacDecrypt_eq fixed C M K key ct tag nonce aad hn ha ht hk (by omega)] at h
  by_cases hte : tag = expectedTag M K key aad nonce ct
  · refine ⟨hte, ?_⟩
    cases hd : cbcDecryptPadded (C.dec (key.drop K)) nonce ct with
    | none => simp [hd, hte] at h
    | some pt => simp [hd, hte] at h; rw [h]
  · exfalso
    cases hd : cbcDecryptPadded (C.dec (key.drop K)) nonce ct with
    | none => cases fixed <;> simp [hd, hte] at h
    | some pt => cases fixed <;> simp [hd, hte] at h

/-- the statement of uniformity: every forgery (wrong tag) of well-formed shape is answered by the one
    error `AEAD decryption error`, whatever the CBC padding of the forged ciphertext looks like -/
def CbcHmacErrorsUniform (fixed : Bool) : Prop :=
  ∀ (C : BlockCipher) (M : Mac) (K : Nat) (key ct tag nonce aad : Bytes), C.Lawful → M.Lawful → K ≤ M.outLen →
    key.length = 2 * K → nonce.length = 16 → aadTooLong aad = false → tag.length = K →
    tag ≠ expectedTag M K key aad nonce ct →
    cbcHmacDecrypt fixed C M K key (ct ++ tag) nonce aad = .err aeadDecErr

theorem cbcHmac_errors_uniform_fixed : CbcHmacErrorsUniform true := by
  intro C M K key ct tag nonce aad _ hM hK hk hn ha ht hne
  have hml : (M.mac (key.take K) (macInput aad nonce ct)).length = M.outLen := hM.mac_len _ _
  rw [cbcHmacDecrypt_eq true C M K key ct tag nonce aad hn ha ht hk (by omega)]
  simp [hne]

/-- on the pinned tree a forgery is never accepted, but the error depends on the padding -/
theorem cbcHmac_errors_partial (C : BlockCipher) (M : Mac) (hM : M.Lawful) (K : Nat) (key ct tag nonce aad : Bytes)
    (hK : K ≤ M.outLen) (hk : key.length = 2 * K) (hn : nonce.length = 16) (ha : aadTooLong aad = false)
    (ht : tag.length = K) (hne : tag ≠ expectedTag M K key aad nonce ct) :
    cbcHmacDecrypt false C M K key (ct ++ tag) nonce aad =
      (if cbcDecryptPadded (C.dec (key.drop K)) nonce ct = none then .err cbcDecErr else .err aeadDecErr) := by
  have hml : (M.mac (key.take K) (macInput aad nonce ct)).length = M.outLen := hM.mac_len _ _
  rw [cbcHmacDecrypt_eq false C M K key ct tag nonce aad hn ha ht hk (by omega)]
  cases hd : cbcDecryptPadded (C.dec (key.drop K)) nonce ct with
  | none => simp
  | some pt => simp [hne]

/-! ### toy instance, D5 witness, MAC input framing -/

theorem toyCipher_lawful : toyCipher.Lawful where
  enc_len := by intro k b h; simp [toyCipher, xorByte, h]
  dec_len := by intro k b h; simp [toyCipher, xorByte, h]
  dec_enc := by
    intro k b _
    simp only [toyCipher, xorByte, List.map_map]
    have : ((fun x : UInt8 => x ^^^ k.headD 0) ∘ fun x => x ^^^ k.headD 0) = id := by
      funext x; simp [UInt8.xor_assoc]
    rw [this, List.map_id]

theorem toyMac_lawful (n : Nat) : (toyMac n).Lawful where
  mac_len := by intro k m; simp [toyMac]

/-- two forgeries of the same length with wrong tags, answered differently on the pinned tree -/
theorem d5_witness :
    cbcHmacDecrypt false toyCipher (toyMac 32) 16 (zeros 32) (zeros 16 ++ List.replicate 16 1) (zeros 16) [] = .err cbcDecErr ∧
    cbcHmacDecrypt false toyCipher (toyMac 32) 16 (zeros 32) (List.replicate 16 16 ++ List.replicate 16 1) (zeros 16) [] = .err aeadDecErr := by
  decide


theorem cbcHmac_errors_uniform_pinned_false : ¬ CbcHmacErrorsUniform false := by
  intro h
  have h1 := h toyCipher (toyMac 32) 16 (zeros 32) (zeros 16) (List.replicate 16 1) (zeros 16) []
    toyCipher_lawful (toyMac_lawful 32) (by decide) (by decide) (by decide) (by decide) (by decide) (by decide)
  rw [d5_witness.1] at h1
  exact absurd h1 (by decide)

theorem cbcHmac_errors_uniform_iff (fixed : Bool) : CbcHmacErrorsUniform fixed ↔ fixed = true := by
  cases fixed with
  | true => exact ⟨fun _ => rfl, fun _ => cbcHmac_errors_uniform_fixed⟩
  | false => exact ⟨fun h => absurd h cbcHmac_errors_uniform_pinned_false, fun h => by cases h⟩

theorem ofNat_inj_of_lt (a b : Nat) (ha : a < 256) (hb : b < 256) (h : UInt8.ofNat a = UInt8.ofNat b) : a = b := by
  have := congrArg UInt8.toNat h
  simp only [UInt8.toNat_ofNat'] at this
  omega

theorem be32_inj (x y : Nat) (hx : x < 4294967296) (hy : y < 4294967296) (h : Bytes.be32 x = Bytes.be32 y) : x = y := by
  simp only [Bytes.be32, List.cons.injEq, and_true] at h
  obtain ⟨h0, h1, h2, h3⟩ := h
  have a0 := ofNat_inj_of_lt _ _ (Nat.mod_lt _ (by decide)) (Nat.mod_lt _ (by decide)) h0
  have a1 := ofNat_inj_of_lt _ _ (Nat.mod_lt _ (by decide)) (Nat.mod_lt _ (by decide)) h1
  have a2 := ofNat_inj_of_lt _ _ (Nat.mod_lt _ (by decide)) (Nat.mod_lt _ (by decide)) h2
  have a3 := ofNat_inj_of_lt _ _ (Nat.mod_lt _ (by decide)) (Nat.mod_lt _ (by decide)) h3
  omega

theorem be32_length (x : Nat) : (Bytes.be32 x).length = 4 := by simp [Bytes.be32]
theorem be64_length (x : Nat) : (Bytes.be64 x).length = 8 := by simp [Bytes.be64, be32_length]

theorem be64_inj (x y : Nat) (hx : x < 18446744073709551616) (hy : y < 18446744073709551616)
    (h : Bytes.be64 x = Bytes.be64 y) : x = y := by
  simp only [Bytes.be64] at h
  obtain ⟨h1, h2⟩ := List.append_inj h (by simp [be32_length])
  have a1 := be32_inj _ _ (Nat.mod_lt _ (by decide)) (Nat.mod_lt _ (by decide)) h1
  have a2 := be32_inj _ _ (Nat.mod_lt _ (by decide)) (Nat.mod_lt _ (by decide)) h2
  omega

theorem aad_bits_lt (aad : Bytes) (h : aadTooLong aad = false) : aad.length * 8 < 18446744073709551616 := by
  simp only [aadTooLong, decide_eq_false_iff_not, Nat.not_lt] at h
  have : (2 ^ 64 - 1) / 8 = 2305843009213693951 := by decide
  omega

/-- the MAC input determines (aad, nonce, ciphertext) once the nonce length is fixed: the trailing
    64-bit bit-length of the aad makes the framing unambiguous -/
theorem macInput_injective (a n c a' n' c' : Bytes) (ha : aadTooLong a = false) (ha' : aadTooLong a' = false)
    (hn : n.length = n'.length) (h : macInput a n c = macInput a' n' c') : a = a' ∧ n = n' ∧ c = c' := by
  simp only [macInput] at h
  obtain ⟨h1, h2⟩ := List.append_inj' h (by simp [be64_length])
  have hl := be64_inj _ _ (aad_bits_lt a ha) (aad_bits_lt a' ha') h2
  have hal : a.length = a'.length := by omega
  rw [List.append_assoc, List.append_assoc] at h1
  obtain ⟨e1, h3⟩ := List.append_inj h1 hal
  obtain ⟨e2, e3⟩ := List.append_inj h3 hn
  exact ⟨e1, e2, e3⟩


end Askar.Aead.Lemmas
