/-
The shape of the fixed SQL statements of sqlite/mod.rs, as far as the store model depends on it.
`tools/extract.py` parses the statement constants of the CURRENT source into these structures
(Generated/Stmts.lean); `Expected` below is what the hand-written model (Model/Store.lean) assumes.
The obligations `shapeOk Generated.x Expected.x = true` (Props/C01, C07, C17) are re-checked on
every run: a statement that loses its profile predicate, its kind bind, its identity atoms or its
expiry atom breaks an obligation.  Comparison is on SETS of normalised WHERE atoms (alias prefixes,
whitespace, keyword case and atom order are irrelevant), so harmless rewrites do not.
-/
namespace Askar.Sql

inductive Atom
  /-- `col = ?n` -/
  | eqParam (col : String) (n : Nat)
  /-- `(col = ?n OR ?n IS NULL)` -/
  | eqParamOrNull (col : String) (n : Nat)
  /-- `(expiry IS NULL OR DATETIME(expiry) > DATETIME('now'))` -/
  | expiryLive
  /-- anything else, normalised text -/
  | other (text : String)
  deriving DecidableEq, Repr, Inhabited

structure Stmt where
  /-- "select" | "insert" | "update" | "delete" -/
  verb : String
  table : String
  /-- INSERT: conflict policy ("ignore", "replace", "") -/
  policy : String := ""
  /-- INSERT: column list; UPDATE: assigned columns (with their parameter numbers) -/
  cols : List (String × Nat) := []
  whereAtoms : List Atom := []
  returning : String := ""
  deriving DecidableEq, Repr, Inhabited

def sameSet (a b : List Atom) : Bool := a.all (b.contains ·) && b.all (a.contains ·)

def shapeOk (actual expected : Stmt) : Bool :=
  actual.verb == expected.verb && actual.table == expected.table && actual.policy == expected.policy &&
  actual.cols == expected.cols && sameSet actual.whereAtoms expected.whereAtoms && actual.returning == expected.returning

/-- restricted to the given profile: `profile_id = ?1` is one of the conjuncts -/
def Stmt.profileScoped (s : Stmt) : Bool := s.whereAtoms.contains (.eqParam "profile_id" 1)

def Stmt.hidesExpired (s : Stmt) : Bool := s.whereAtoms.contains .expiryLive

namespace Expected

def scope : List Atom := [.eqParam "profile_id" 1, .eqParamOrNull "kind" 2, .eqParamOrNull "category" 3]
def ident : List Atom := [.eqParam "profile_id" 1, .eqParam "kind" 2, .eqParam "category" 3, .eqParam "name" 4]

/-- `Item.inScope` + `live` (doCount) -/
def countQuery : Stmt := { verb := "select", table := "items", whereAtoms := scope ++ [.expiryLive] }
/-- `Item.inScope` + `live` (selectRows) -/
def scanQuery : Stmt := { verb := "select", table := "items", whereAtoms := scope ++ [.expiryLive] }
/-- `Item.sameIdent` + `live` (doFetch) -/
def fetchQuery : Stmt := { verb := "select", table := "items", whereAtoms := ident ++ [.expiryLive] }
/-- `Item.sameIdent`, no expiry atom (doRemove) — known finding D8 -/
def deleteQuery : Stmt := { verb := "delete", table := "items", whereAtoms := ident }
/-- `Item.inScope`, no expiry atom (doRemoveAll) — known finding D8 -/
def deleteAllQuery : Stmt := { verb := "delete", table := "items", whereAtoms := scope }
/-- INSERT OR IGNORE: a conflict on the unique index affects 0 rows (doInsert → Duplicate) -/
def insertQuery : Stmt :=
  { verb := "insert", table := "items", policy := "ignore",
    cols := [("profile_id", 1), ("kind", 2), ("category", 3), ("name", 4), ("value", 5), ("expiry", 6)] }
/-- `Item.sameIdent`, sets value and expiry, no expiry atom (doReplace) — known finding D8 -/
def updateQuery : Stmt :=
  { verb := "update", table := "items", cols := [("value", 5), ("expiry", 6)], whereAtoms := ident, returning := "id" }
def tagInsertQuery : Stmt :=
  { verb := "insert", table := "items_tags", cols := [("item_id", 1), ("name", 2), ("value", 3), ("plaintext", 4)] }
def tagDeleteQuery : Stmt := { verb := "delete", table := "items_tags", whereAtoms := [.eqParam "item_id" 1] }

end Expected
end Askar.Sql
