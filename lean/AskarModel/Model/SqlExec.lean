/-
A small executable SEMANTICS of the statement shapes of Model/SqlShape.lean, at the logical level of
Model/Store.lean (rows = `Store.Item`, the `items` table = `Store.Db.items`).

Why: the statement constants of the current source are parsed into `Stmt` values on every run
(Generated/Stmts.lean, Generated/StmtsPg.lean) and compared with `Expected.*` by `shapeOk`; what a
statement MEANS was written separately, by hand, in Model/Store.lean (`doFetch`, `doRemove`, …).
This file gives `Stmt` a meaning of its own — WHERE atoms are evaluated on a row under a binding of
the positional parameters — and Lemmas/SqlExec.lean proves (by reflection over `shapeOk`) that every
statement whose shape passes the check means exactly what the Store function says.

Conventions
 * Stored values are abstracted like in Store.lean: an encrypted category / name is `Val.enc key s`
   (key identity + plaintext); two encrypted values are equal iff key AND plaintext are equal
   (searchable encryption is keyed and deterministic for category / name).
 * An atom `other t` is UNINTERPRETED: every theorem holds for every interpretation `other`.
 * `extra` is the conjunct that the code appends to the fixed text (`extend_query`: ` AND i.id IN (…)`,
   the compiled tag filter) for count / scan / remove_all; statements run as they are get `noExtra`.
 * TAGS.  `Item.tags` is not a column of `items`: it is the content of `items_tags` for the row's id,
   written by TAG_DELETE_QUERY / TAG_INSERT_QUERY in the same call (`perform_insert`).  The executors
   for INSERT and UPDATE therefore take the tag list that those two statements leave behind as an
   ARGUMENT and store it in the rows they write; nothing else of the executor depends on it
   (`Lemmas.execInsert_tags_only`, `Lemmas.execUpdate_tags_only`: "up to the tags field" the result is
   independent of that argument).  SELECT and DELETE never look at `tags` except through `extra`.
-/
import AskarModel.Model.SqlShape
import AskarModel.Model.Store

namespace Askar.Sql
open Askar.Store (Item Db Sess Kind Err Entry)
open Askar.Wql (Tag)

/-- a bound parameter / the content of a column -/
inductive Val
  | null
  | int (n : Int)
  /-- a category / name encrypted under the profile key with identity `key` -/
  | enc (key : Nat) (s : String)
  | bytes (b : Bytes)
  /-- a timestamp, ms since epoch -/
  | ts (t : Int)
  deriving DecidableEq, Repr, Inhabited

/-- what is bound to `?n` -/
abbrev Params := Nat → Val

/-- the column reader (the columns that WHERE clauses and the unique index mention) -/
def col (c : String) (it : Item) : Option Val :=
  if c = "profile_id" then some (.int it.pid)
  else if c = "kind" then some (.int it.kind)
  else if c = "category" then some (.enc it.key it.cat)
  else if c = "name" then some (.enc it.key it.name)
  else none

/-- Postgres: `expiry IS NULL OR expiry > CURRENT_TIMESTAMP` (no truncation, no year limit) -/
def livePg (now : Int) (it : Item) : Bool :=
  match it.expiry with
  | none => true
  | some e => decide (e > now)

/-- truth of one WHERE conjunct on a row (SQL three-valued logic collapsed: "not true" = false) -/
def Atom.eval (other : String → Params → Item → Bool) (now : Int) (p : Params) (it : Item) : Atom → Bool
  /- `c = ?n`: a comparison with NULL is not true; an unknown column never matches -/
  | .eqParam c n =>
    match col c it with
    | none => false
    | some v => p n != .null && v != .null && v == p n
  /- `(c = ?n OR ?n IS NULL)` -/
  | .eqParamOrNull c n =>
    (match col c it with
     | none => false
     | some v => p n != .null && v != .null && v == p n) || p n == .null
  | .expiryLive => Store.live now it
  | .expiryLivePg => livePg now it
  | .other t => other t p it

/-- the conjunction of the statement's WHERE atoms -/
def Stmt.matches (other : String → Params → Item → Bool) (now : Int) (p : Params) (s : Stmt) (it : Item) : Bool :=
  s.whereAtoms.all (Atom.eval other now p it)

/-- … and of the conjunct the code appends (the compiled tag filter) -/
def Stmt.hits (other : String → Params → Item → Bool) (now : Int) (p : Params) (s : Stmt) (extra : Item → Bool)
    (it : Item) : Bool :=
  s.matches other now p it && extra it

/-- nothing appended -/
def noExtra : Item → Bool := fun _ => true

/-! ### Executors over the `items` table -/

/-- SELECT: the matching rows, in table order -/
def execSelect (other : String → Params → Item → Bool) (now : Int) (s : Stmt) (p : Params) (extra : Item → Bool)
    (db : Db) : List Item :=
  db.items.filter (s.hits other now p extra)

/-- DELETE: the new database and `rows_affected` -/
def execDelete (other : String → Params → Item → Bool) (now : Int) (s : Stmt) (p : Params) (extra : Item → Bool)
    (db : Db) : Db × Nat :=
  ({ db with items := db.items.filter fun it => !s.hits other now p extra it },
   (db.items.filter (s.hits other now p extra)).length)

/-- one `col = ?n` of an UPDATE's SET list as a row transformer; `none`: a column or a value type that is not modelled -/
def assign (p : Params) : String × Nat → Option (Item → Item)
  | (c, n) =>
    if c = "value" then
      match p n with
      | .bytes b => some fun it => { it with value := b }
      | _ => none
    else if c = "expiry" then
      match p n with
      | .null => some fun it => { it with expiry := none }
      | .ts t => some fun it => { it with expiry := some t }
      | _ => none
    else none

/-- the whole SET list, left to right -/
def assignAll (p : Params) : List (String × Nat) → Option (Item → Item)
  | [] => some id
  | a :: rest =>
    match assign p a, assignAll p rest with
    | some f, some g => some (g ∘ f)
    | _, _ => none

/-- UPDATE … RETURNING id: assigns on the matching rows; returns the new database and the ids of the rows updated
    (in table order).  `tags`: what the tag statements of the same call leave for the rows written (see the header). -/
def execUpdate (other : String → Params → Item → Bool) (now : Int) (s : Stmt) (p : Params) (extra : Item → Bool)
    (tags : List Tag) (db : Db) : Option (Db × List Nat) :=
  match assignAll p s.cols with
  | none => none
  | some f =>
    some ({ db with items := db.items.map fun it =>
              if s.hits other now p extra it then { f it with tags := tags } else it },
          (db.items.filter (s.hits other now p extra)).map (·.id))

def Val.toNat? : Val → Option Nat
  | .int n => if 0 ≤ n then some n.toNat else none
  | _ => none

def Val.toEnc? : Val → Option (Nat × String)
  | .enc k s => some (k, s)
  | _ => none

def Val.toBytes? : Val → Option Bytes
  | .bytes b => some b
  | _ => none

/-- the `expiry` column is nullable; a column missing from the list gets its default, NULL -/
def expiryOfVal : Option Val → Option (Option Int)
  | none => some none
  | some .null => some none
  | some (.ts t) => some (some t)
  | _ => none

/-- the row `INSERT INTO items (cols) VALUES (?…)` builds; `none`: a NOT NULL column is missing, a value has the
    wrong type, or category and name are encrypted under different keys (not representable as an `Item`) -/
def buildRow (cols : List (String × Nat)) (p : Params) (id : Nat) (tags : List Tag) : Option Item :=
  match (cols.lookup "profile_id").bind (fun n => (p n).toNat?),
        (cols.lookup "kind").bind (fun n => (p n).toNat?),
        (cols.lookup "category").bind (fun n => (p n).toEnc?),
        (cols.lookup "name").bind (fun n => (p n).toEnc?),
        (cols.lookup "value").bind (fun n => (p n).toBytes?),
        expiryOfVal ((cols.lookup "expiry").map p) with
  | some pid, some kind, some (kc, cat), some (kn, name), some value, some expiry =>
    if kc = kn then
      some { id := id, pid := pid, key := kc, kind := kind, cat := cat, name := name, value := value,
             tags := tags, expiry := expiry }
    else none
  | _, _, _, _, _, _ => none

/-- the unique index `ix_items_uniq (profile_id, kind, category, name)`, on the STORED (encrypted) columns -/
def uniqueIndex : List String := ["profile_id", "kind", "category", "name"]

def indexKey (it : Item) : List (Option Val) := uniqueIndex.map (col · it)

/-- INSERT: the row is built from the column list and the parameters, id = `Store.nextId`.  On a conflict with the
    unique index, policy "ignore" inserts nothing and reports 0 rows; without a policy the statement fails (`none`);
    other policies are not modelled (`none`).  Returns the new database and `rows_affected`. -/
def execInsert (s : Stmt) (p : Params) (tags : List Tag) (db : Db) : Option (Db × Nat) :=
  match buildRow s.cols p (Store.nextId (db.items.map (·.id))) tags with
  | none => none
  | some row =>
    if db.items.any (fun it => indexKey it == indexKey row) then
      (if s.policy = "ignore" then some (db, 0) else none)
    else some ({ db with items := db.items ++ [row] }, 1)

/-! ### The bindings the Rust code makes -/

/-- `.bind(profile_id).bind(kind as i16).bind(enc_category).bind(enc_name).bind(enc_value).bind(expiry)`
    (fetch and remove bind only the first four; what is bound beyond them is irrelevant for their statements) -/
def identParams (s : Sess) (kind : Kind) (cat name : String) (value : Bytes) (expiry : Option Int) : Params
  | 1 => .int s.pid
  | 2 => .int kind
  | 3 => .enc s.key cat
  | 4 => .enc s.key name
  | 5 => .bytes value
  | 6 => (match expiry with | none => .null | some t => .ts t)
  | _ => .null

/-- `params.push(profile_id); params.push(kind.map(..)); params.push(enc_category)` (count / scan / remove_all) -/
def scopeParams (s : Sess) (kind : Option Kind) (cat : Option String) : Params
  | 1 => .int s.pid
  | 2 => (match kind with | none => .null | some k => .int k)
  | 3 => (match cat with | none => .null | some c => .enc s.key c)
  | _ => .null

/-! ### What the Rust code does around a statement -/

/-- `expiry_ms.map(expiry_timestamp).transpose()?` -/
def expiryBind (now : Int) (expiryMs : Option Int) : Except Err (Option Int) :=
  match expiryMs with
  | none => Except.ok none
  | some ms => (Store.expiryTimestamp now ms).map some

/-- `perform_insert`, new row: `rows_affected() == 0` ⇒ Duplicate; a failing statement ⇒ Backend -/
def insertOutcome : Option (Db × Nat) → Except Err Db
  | none => .error .backend
  | some (_, 0) => .error .duplicate
  | some (db, _ + 1) => .ok db

/-- `perform_insert`, existing row: `fetch_one` on `UPDATE … RETURNING id`; no row ⇒ NotFound -/
def updateOutcome : Option (Db × List Nat) → Except Err Db
  | none => .error .notFound
  | some (_, []) => .error .notFound
  | some (db, _ :: _) => .ok db

/-- `perform_remove` with `ignore_error = false`: `rows_affected() == 0` ⇒ NotFound -/
def removeOutcome : Db × Nat → Except Err Db
  | (_, 0) => .error .notFound
  | (db, _ + 1) => .ok db

def toEntry (it : Item) : Entry := ⟨it.kind, it.cat, it.name, it.value, it.tags⟩

/-! ### The Store model's read functions with the liveness predicate of either backend
    (`Backend.sqlite` gives `Store.doFetch` / `doCount` / `selectRows` literally: `Lemmas.doFetchB_sqlite` …) -/

inductive Backend | sqlite | postgres
  deriving DecidableEq, Repr

def Backend.live : Backend → Int → Item → Bool
  | .sqlite => Store.live
  | .postgres => livePg

def Backend.liveAtom : Backend → Atom
  | .sqlite => .expiryLive
  | .postgres => .expiryLivePg

/-- the shapes the model assumes of either backend's read and insert statements (the delete / update shapes are shared) -/
def Backend.fetchQuery : Backend → Stmt
  | .sqlite => Expected.fetchQuery
  | .postgres => ExpectedPg.fetchQuery

def Backend.countQuery : Backend → Stmt
  | .sqlite => Expected.countQuery
  | .postgres => ExpectedPg.countQuery

def Backend.scanQuery : Backend → Stmt
  | .sqlite => Expected.scanQuery
  | .postgres => ExpectedPg.scanQuery

def Backend.insertQuery : Backend → Stmt
  | .sqlite => Expected.insertQuery
  | .postgres => ExpectedPg.insertQuery

def doFetchB (b : Backend) (db : Db) (now : Int) (s : Sess) (kind : Kind) (cat name : String) : Option Entry :=
  match db.items.find? fun it => it.sameIdent s.pid s.key kind cat name && b.live now it with
  | none => none
  | some it => some ⟨it.kind, it.cat, it.name, it.value, it.tags⟩

def doCountB (b : Backend) (like : Bytes → Bytes → Bool) (db : Db) (now : Int) (s : Sess) (kind : Option Kind)
    (cat : Option String) (f : Option (Wql.Query String)) : Nat :=
  (db.items.filter fun it => it.inScope s.pid s.key kind cat && b.live now it && Store.matchFilter like f it).length

def selectRowsB (b : Backend) (like : Bytes → Bytes → Bool) (db : Db) (now : Int) (pid key : Nat) (kind : Option Kind)
    (cat : Option String) (f : Option (Wql.Query String)) (off lim : Option Int) (desc : Bool) : List Item :=
  let rows := Store.sortById (db.items.filter fun it => it.inScope pid key kind cat && b.live now it && Store.matchFilter like f it)
  Store.window off lim (if desc then rows.reverse else rows)

/-- an item with its tag list blanked: "up to the tags field" (see the header) -/
def clearTags (it : Item) : Item := { it with tags := [] }

/-! ### A small database for the witnesses and non-vacuity examples of Props/SqlSem.lean -/

/-- a small database: profile 1 (key 10) with a live and an expired row (at `now` = 5000 ms), profile 2 (key 20) with a
    row of the same plaintext identity as profile 1's live row -/
def demoDb : Db :=
  { items := [ { id := 1, pid := 1, key := 10, kind := 2, cat := "c", name := "a", value := [1], tags := [], expiry := none },
               { id := 2, pid := 1, key := 10, kind := 2, cat := "c", name := "old", value := [2], tags := [], expiry := some 1000 },
               { id := 3, pid := 2, key := 20, kind := 2, cat := "c", name := "a", value := [3], tags := [], expiry := none } ] }

end Askar.Sql
