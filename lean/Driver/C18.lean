/- Driver for `kind = "c18:…"` cases: store copy, profile copy, Indy migration. -/
import Driver.Common
import Driver.Store
import AskarModel.Model.Copy
import AskarModel.Model.IndyMigration

open Lean Askar Askar.Wql Askar.Store Askar.Copy

namespace Driver.C18
open Driver.Store (parseTags sortBy tagLt jtag entryLt)

/-- FNV-1a-64 in machine arithmetic: the same digest as `Driver.jvalue` (which works in `Nat` modulo 2^64), fast
    enough for the megabyte values of the large-value cases -/
def fnv64 (b : Bytes) : UInt64 :=
  b.foldl (fun (h : UInt64) x => (h ^^^ x.toUInt64) * 0x100000001b3) 0xcbf29ce484222325

def jvalueFast (b : Bytes) : Json :=
  if b.length ≤ 512 then jhex b
  else .str ("len:" ++ toString b.length ++ ":fnv:" ++ hex16 (fnv64 b).toNat)

def jentry (e : Entry) : Json :=
  Json.mkObj [("k", jnat e.kind), ("c", .str e.cat), ("n", .str e.name), ("v", jvalueFast e.value),
    ("t", .arr ((sortBy tagLt e.tags).map jtag).toArray)]

/-- records sorted by (kind, category bytes, name bytes), the canonical form of `Driver.Store.jentries false` -/
def jentries (_ordered : Bool) (es : List Entry) : Json := .arr ((sortBy entryLt es).map jentry).toArray

def nameLt (a b : String) : Bool := Bytes.lt (utf8 a) (utf8 b)

/-- {"default", "profiles": [{"name", "recs": [sorted live records]} sorted by name]} -/
def dumpStore (now : Int) (st : StoreSt) : Json :=
  let ps := sortBy (fun (a b : Profile) => nameLt a.name b.name) st.db.profiles
  Json.mkObj [("default", .str st.default),
    ("profiles", .arr (ps.map fun p =>
      Json.mkObj [("name", .str p.name), ("recs", jentries false (liveAbs now ⟨p.id, p.key⟩ st.db))]).toArray)]

/-- build a store from a spec: provision with the default profile, create the others, insert, set_default, remove -/
def buildStore (now : Int) (keyBase : Nat) (spec : Json) : StoreSt :=
  let st0 := provision keyBase (str! spec "default")
  let st := (arr! spec "profiles").foldl (fun (st : StoreSt) p =>
    let name := str! p "name"
    let st := match createProfile st.db st.h name with
      | .ok (db, h) => { st with db := db, h := h }
      | .error _ => st
    match resolve st.db st.h name with
    | .error _ => st
    | .ok (s, h) =>
      let db := (arr! p "recs").foldl (fun (db : Db) x =>
        match doInsert db now s (nat! x "k") (str! x "c") (str! x "n") (value! x "v") (parseTags x "t") (intOpt x "e") with
        | .ok db' => db'
        | .error _ => db) st.db
      { st with db := db, h := h }) st0
  let st := match strOpt spec "set_default" with
    | some d => { st with default := d }
    | none => st
  (arr! spec "remove").foldl (fun (st : StoreSt) n =>
    let ((db, h), _) := removeProfile st.db st.h (asStr n) evictOnRemove
    { st with db := db, h := h }) st

def jres : Except Err Unit → Json
  | .ok _ => "ok"
  | .error e => jerr e.name

def runCopy (j : Json) : Json :=
  let now : Int := 1700000000000
  let page := (natOpt j "page").getD 32
  let action := (getD? j "action").getD .null
  let op := str! action "op"
  let src := buildStore now 100 ((getD? j "src").getD .null)
  let pre : Option StoreSt := (getD? j "dst").map (buildStore now 200)
  let fault : Option Nat := (getD? j "fault").map (nat! · "j")
  let fileTarget := pre.isSome || bool! action "file"
  let out (r : Except Err Unit) (dst : Option StoreSt) (src : StoreSt) : Json :=
    Json.mkObj [("res", jres r), ("dst", match dst with | some d => dumpStore now d | none => .null), ("src", dumpStore now src)]
  match op with
  | "copy_profile" =>
    if bool! action "same" then
      let (st, r) := copyProfileWithin page now fault src (str! action "from") (str! action "to")
      out r none st
    else
      match pre with
      | none => jerr "BadCase"
      | some d =>
        let (s, d', _, r) := copyProfile page now fault 0 src d (str! action "from") (str! action "to")
        out r (some d') s
  | "copy_to" | "copy_store" =>
    let recreate := bool! action "recreate"
    let (s, d, r) := copyStore page now fault 300 src pre recreate
    -- after a failure an in-memory target is gone with its handle; a file stays and is reopened by the harness
    let d := match r with
      | .ok _ => d
      | .error _ => if fileTarget then d else none
    out r d s
  | _ => jerr "BadOp"

/-! ### Indy wallets: the driver encrypts the case's plaintext items with a toy AEAD, packs the tag lists the way the
    SQL does, and runs the model of the migration on the result. -/

open Askar.Indy

def utf8dec (b : Bytes) : Option String := String.fromUTF8? (ByteArray.mk b.toArray)

def toyKeys : Keys := { typeKey := [1], nameKey := [2], valueKey := [3], tagNameKey := [4], tagValueKey := [5] }

def sealed (k : Bytes) (m : Bytes) : Bytes :=
  let n : Bytes := List.replicate 12 7
  n ++ toyAead.enc k n m

def encodeItem (i : Nat) (x : Json) : Except Err Row :=
  let ik : Bytes := List.replicate 32 (UInt8.ofNat (i % 251))
  let tags := (parseTags x "t").getD []
  let te := (tags.filter (!·.plain)).map fun t => (sealed toyKeys.tagNameKey (utf8 t.name), sealed toyKeys.tagValueKey (utf8 t.value))
  let tp := (tags.filter (·.plain)).map fun t => (sealed toyKeys.tagNameKey (utf8 t.name), utf8 t.value)
  -- through the textual packing and back, as the rows reach `decrypt_item`
  let unpack (l : List (Bytes × Bytes)) : Except Err (List (Bytes × Bytes)) :=
    match packTagList l with
    | none => .ok []
    | some s => parseTagList s
  match unpack te, unpack tp with
  | .ok te', .ok tp' =>
    .ok { id := 2 * i + 1, typ := sealed toyKeys.typeKey (utf8 (str! x "c")), name := sealed toyKeys.nameKey (utf8 (str! x "n")),
          value := some (sealed ik (value! x "v")), key := sealed toyKeys.valueKey ik, tagsEnc := te', tagsPlain := tp' }
  | .error e, _ => .error e
  | _, .error e => .error e

def runIndy (j : Json) : Json :=
  let rows := (arr! j "items").zipIdx.foldr (fun (p : Json × Nat) (acc : Except Err (List Row)) =>
    match encodeItem p.2 p.1, acc with
    | .ok r, .ok rs => .ok (r :: rs)
    | .error e, _ => .error e
    | _, .error e => .error e) (.ok [])
  match rows with
  | .error e => jerr e.name
  | .ok rows =>
    let w : Wallet := { keysEnc := [9], rows := rows }
    match migrate toyAead utf8dec (fun _ => some toyKeys) 1 w (str! j "name") with
    | .error e => Json.mkObj [("res", jerr e.name), ("dump", .null)]
    | .ok st => Json.mkObj [("res", "ok"), ("dump", dumpStore 0 st)]

/-! ### `c18:indyx`: the migration on a file, op by op (wrong key / method, second run, damage, fault, kill) -/

def b58Alphabet : List Char := "123456789ABCDEFGHJKLMNPQRSTUVWXYZabcdefghijkmnopqrstuvwxyz".toList

/-- base58 (Bitcoin alphabet) → bytes; `none` on a foreign character -/
def b58decode (s : String) : Option Bytes :=
  let cs := s.toList
  let digits := cs.map fun c => b58Alphabet.idxOf? c
  if digits.any (·.isNone) then none
  else
    let n := digits.foldl (fun (acc : Nat) d => acc * 58 + d.getD 0) 0
    let zeros := (cs.takeWhile (· == '1')).length
    let rec bytesOf (fuel : Nat) (n : Nat) (acc : Bytes) : Bytes :=
      match fuel with
      | 0 => acc
      | fuel + 1 => if n = 0 then acc else bytesOf fuel (n / 256) (UInt8.ofNat (n % 256) :: acc)
    some (List.replicate zeros 0 ++ bytesOf (cs.length + 1) n [])

/-- 239 bytes, like the msgpack of seven 32-byte keys -/
def keyRecord : Bytes := List.replicate 239 0x97

def toyPrims : KeyPrims where
  parseRaw s := match b58decode s with
    | some b => if b.length = 32 then some b else none
    | none => none
  argon lvl pass salt := [if lvl then 2 else 1] ++ utf8 pass ++ [0] ++ salt
  decodeKeys b := if b == keyRecord then some toyKeys else none

def sealedN (nonce : UInt8) (k m : Bytes) : Bytes :=
  let n : Bytes := List.replicate 12 nonce
  n ++ macAead.enc k n m

/-- the case's items as Indy rows under `macAead` (same cell lengths as the real wallet: 12 + plaintext + 16) -/
def encodeItemX (i : Nat) (x : Json) : Row :=
  let ik : Bytes := List.replicate 32 (UInt8.ofNat (i % 251))
  let tags := (parseTags x "t").getD []
  let te := (tags.filter (!·.plain)).map fun t => (sealedN 7 toyKeys.tagNameKey (utf8 t.name), sealedN 7 toyKeys.tagValueKey (utf8 t.value))
  let tp := (tags.filter (·.plain)).map fun t => (sealedN 7 toyKeys.tagNameKey (utf8 t.name), utf8 t.value)
  { id := 2 * i + 1, typ := sealedN 7 toyKeys.typeKey (utf8 (str! x "c")), name := sealedN 7 toyKeys.nameKey (utf8 (str! x "n")),
    value := some (sealedN 7 ik (value! x "v")), key := sealedN 7 toyKeys.valueKey ik, tagsEnc := te, tagsPlain := tp }

/-- through `GROUP_CONCAT(HEX ‖ ':' ‖ HEX)` and back, as the rows reach `decrypt_item` -/
def viaPacking (r : Row) : Except Err Row :=
  let unpack (l : List (Bytes × Bytes)) : Except Err (List (Bytes × Bytes)) :=
    match packTagList l with
    | none => .ok []
    | some s => parseTagList s
  match unpack r.tagsEnc, unpack r.tagsPlain with
  | .ok te, .ok tp => .ok { r with tagsEnc := te, tagsPlain := tp }
  | .error e, _ => .error e
  | _, .error e => .error e

def cutOrFlip (op : Json) (cell : Bytes) : Bytes :=
  match natOpt op "len", natOpt op "flip" with
  | some l, _ => if l < cell.length then cell.take l else cell
  | none, some p =>
    if cell.isEmpty then cell
    else
      let p := p % cell.length
      cell.take p ++ (cell.drop p).head!.xor 1 :: cell.drop (p + 1)
  | none, none => cell

def mapNth {α : Type} (l : List α) (n : Nat) (f : α → α) : List α :=
  l.zipIdx.map fun (x, i) => if i = n then f x else x

structure XState where
  f : File
  missing : Bool
  fault : Option Nat := none
  deriving Inhabited

def stateJson (name : String) (pkey : Nat) (x : XState) : Json :=
  let f := x.f
  if x.missing then Json.mkObj [("s", "missing")]
  else if f.hasMeta && !f.upgraded then Json.mkObj [("s", "indy"), ("n", jnat f.pending.length)]
  else if !f.hasMeta && f.upgraded then Json.mkObj [("s", "askar"), ("dump", dumpStore 0 (f.store name pkey))]
  else if f.hasMeta && f.upgraded then
    Json.mkObj [("s", "mixed"), ("config", .arr ((sortBy nameLt (f.config.map (·.1))).map Json.str).toArray),
      ("profiles", jnat f.db.profiles.length), ("items", jnat f.db.items.length), ("old", jnat f.pending.length)]
  else Json.mkObj [("s", "other"), ("tables", .arr #[])]

def jresX : Except Err Unit → Json
  | .ok _ => "ok"
  | .error .panic => "panic"
  | .error e => jerr e.name

def runIndyX (j : Json) : Json :=
  let name := str! j "name"
  let kdfS := str! j "kdf"
  let wkey := str! j "wkey"
  let start := str! j "start"
  let pkey := 1
  let kdf := (Kdf.parse kdfS).getD .raw
  let salt32 : Bytes := (List.range 32).map fun i => UInt8.ofNat (i * 7 + 3)
  let origSalt : Option Bytes := if kdf == .raw then none else some salt32
  let master : Bytes := match masterKey toyPrims kdf wkey (origSalt.map (·.take 16)) with
    | .ok m => m
    | .error _ => []
  let origKeys := sealedN 6 master keyRecord
  let origMeta : Meta := .json origKeys origSalt
  let origRows : List Row := (arr! j "items").zipIdx.map fun (x, i) => encodeItemX i x
  let rowId (idx : Nat) : Nat := 2 * idx + 1
  -- rows as `fetch_pending_items` delivers them; a tag list that does not survive the packing is a case error
  let deliver (f : File) : File := { f with pending := f.pending.map fun r => match viaPacking r with | .ok r' => r' | .error _ => r }
  let x0 : XState :=
    match start with
    | "indy" => { f := { mval := origMeta, pending := origRows }, missing := false }
    | "askar" =>
      let db := match migrateRows macAead utf8dec toyKeys pkey origRows { profiles := [⟨1, name, pkey⟩] } with
        | .ok db => db
        | .error _ => { profiles := [⟨1, name, pkey⟩] }
      { f := { hasMeta := false, upgraded := true, config := [("default_profile", name), ("key", "raw"), ("version", "1")], db := db }, missing := false }
    | "empty" => { f := { hasMeta := false }, missing := false }
    | _ => { f := { hasMeta := false }, missing := true }
  let isIndyWallet := start == "indy"
  let step (acc : XState × List Json) (op : Json) : XState × List Json :=
    let (x, outs) := acc
    let f := x.f
    let (x', res) : XState × Json :=
      match str! op "op" with
      | "tamper" =>
        if !(isIndyWallet && f.hasMeta) then (x, "done")
        else
          match str! op "what" with
          | "meta" =>
            let n := nat! op "n"
            let (keys, salt) := match f.mval with
              | .json k s => (k, s)
              | _ => (origKeys, origSalt)
            let m : Meta := match str! op "mode" with
              | "salt_len" => .json keys (some (if kdf == .raw then List.replicate n 7 else salt32.take n))
              | "no_salt" | "salt_null" => .json keys none
              | "not_json" | "empty" | "no_keys" | "keys_str" => .notJson
              | "keys_len" => .json (keys.take n) salt
              | "keys_flip" => .json (cutOrFlip (Json.mkObj [("flip", jnat n)]) keys) salt
              | "keys_plain" => .json (sealedN 9 master [0xc1, 0xff]) salt
              | "no_row" => .noRow
              | _ => f.mval
            ({ x with f := { f with mval := m } }, "done")
          | "item" =>
            let id := rowId (nat! op "idx")
            let upd (r : Row) : Row :=
              if r.id ≠ id then r
              else if str! op "mode" == "key31" then
                { r with key := sealedN 8 toyKeys.valueKey ((List.replicate 32 (UInt8.ofNat (nat! op "idx" % 251))).take 31) }
              else match str! op "col" with
                | "type" => { r with typ := cutOrFlip op r.typ }
                | "name" => { r with name := cutOrFlip op r.name }
                | "value" => { r with value := r.value.map (cutOrFlip op) }
                | "key" => { r with key := cutOrFlip op r.key }
                | _ => r
            ({ x with f := { f with pending := f.pending.map upd } }, "done")
          | "tag" =>
            let idx := nat! op "idx"
            let id := rowId idx
            let tags := (parseTags ((arr! j "items").getD idx .null) "t").getD []
            let t := nat! op "t"
            let plain := (tags.getD t default).plain
            -- position among the tags of the same table
            let pos := ((tags.take t).filter (·.plain == plain)).length
            let isName := str! op "part" == "name"
            let cell (c : Bytes) : Bytes :=
              if str! op "mode" == "badutf8" then sealedN 8 (if isName then toyKeys.tagNameKey else toyKeys.tagValueKey) [0xff, 0xfe]
              else cutOrFlip op c
            let updPair (p : Bytes × Bytes) : Bytes × Bytes := if isName then (cell p.1, p.2) else (p.1, cell p.2)
            let upd (r : Row) : Row :=
              if r.id ≠ id then r
              else if plain then { r with tagsPlain := mapNth r.tagsPlain pos updPair }
              else { r with tagsEnc := mapNth r.tagsEnc pos updPair }
            ({ x with f := { f with pending := f.pending.map upd } }, "done")
          | _ => (x, "done")
      | "untamper" =>
        if x.missing then (x, "done")
        else
          let pend := f.pending.map fun r => (origRows.find? (·.id == r.id)).getD r
          ({ x with f := { f with pending := pend, mval := if f.hasMeta && isIndyWallet then origMeta else f.mval } }, "done")
      | "fault" => (if f.hasMeta then { x with fault := some (rowId (nat! op "idx")) } else x, "done")
      | "unfault" => ({ x with fault := none }, "done")
      | "migrate" =>
        let a : Args := { kdf := str! op "kdf", walletKey := str! op "key", walletName := name, pkey := pkey }
        let (f', r) := migrateCurrent macAead utf8dec toyPrims x.fault a (deliver f)
        -- (what was delivered is what is stored: the packing is the identity on well-formed lists)
        ({ x with f := if x.missing then f else { f' with pending := f'.pending.map fun r => (f.pending.find? (·.id == r.id)).getD r } }, jresX r)
      | "kill" =>
        if f.hasMeta && !f.upgraded then
          let a : Args := { kdf := str! op "kdf", walletKey := str! op "key", walletName := name, pkey := pkey }
          let (f', _) := migrateCurrent macAead utf8dec toyPrims (some (rowId (nat! op "idx"))) a (deliver f)
          ({ x with f := f' }, "killed")
        else (x, "done")
      | _ => (x, "bad-op")
    (x', outs ++ [Json.mkObj [("res", res), ("st", stateJson name pkey x')]])
  let (_, outs) := (arr! j "ops").foldl step (x0, [])
  .arr outs.toArray

def runCase (j : Json) : Json :=
  match str! j "kind" with
  | "c18:copy" => runCopy j
  | "c18:indy" => runIndy j
  | "c18:indyx" => runIndyX j
  | "c18:fixture" =>
    -- the shipped fixture holds no items
    runIndy (Json.mkObj [("name", "walletwallet.0"), ("items", .arr #[])])
  | _ => jerr "BadKind"

end Driver.C18
