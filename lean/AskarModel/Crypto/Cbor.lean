/-
CBOR (RFC 8949) — executable SPECIFICATION of the subset the storage scheme needs, written from the RFC:
definite-length maps (major type 5) whose keys are text strings (major 3) and whose values are byte strings
(major 2) or text strings (major 3).  The encoder emits the preferred serialization of §4.2.1 (shortest
argument); the decoder is total (structural recursion on the announced pair count, every length is checked
against the remaining input before it is used), accepts every definite argument width (§3: additional
information 0–27), and rejects indefinite lengths (31), the reserved values 28–30 and every other major type.
Text payloads are kept as UTF-8 BYTES (the profile-key record only compares them with ASCII constants).

Theorems (Lemmas/StorageScheme.lean): `decHead_head`, `decodeMap_encodeMap` (round trip for every map whose
lengths fit 64 bits), `decodeMap_total` (a successful decode consumed at least one byte — never reads past the end).
-/
import AskarModel.Base.Bytes

namespace Askar.Crypto.Cbor
open Askar

/-- big-endian, exactly `k` bytes (the low `8k` bits of `n`) -/
def beBytes : Nat → Nat → Bytes
  | 0, _ => []
  | k + 1, n => UInt8.ofNat (n / 256 ^ k % 256) :: beBytes k n

def beNat : Bytes → Nat
  | [] => 0
  | b :: bs => b.toNat * 256 ^ bs.length + beNat bs

/-- §3: initial byte `major·32 + ai`, followed by the argument; §4.2.1: shortest form -/
def head (major n : Nat) : Bytes :=
  if n < 24 then [UInt8.ofNat (major * 32 + n)]
  else if n < 256 then UInt8.ofNat (major * 32 + 24) :: beBytes 1 n
  else if n < 65536 then UInt8.ofNat (major * 32 + 25) :: beBytes 2 n
  else if n < 4294967296 then UInt8.ofNat (major * 32 + 26) :: beBytes 4 n
  else UInt8.ofNat (major * 32 + 27) :: beBytes 8 n

/-- leaf values -/
inductive Val where
  | bytes (b : Bytes)
  | text (utf8 : Bytes)
  deriving DecidableEq, Repr

/-- a map with text keys (UTF-8 bytes), in encounter order -/
abbrev Map := List (Bytes × Val)

def encodeVal : Val → Bytes
  | .bytes b => head 2 b.length ++ b
  | .text t => head 3 t.length ++ t

def encodePairs : Map → Bytes
  | [] => []
  | (k, v) :: rest => (head 3 k.length ++ k) ++ (encodeVal v ++ encodePairs rest)

def encodeMap (m : Map) : Bytes := head 5 m.length ++ encodePairs m

/-- width of the argument that follows the initial byte, for additional information 24–27 -/
def argLen (ai : Nat) : Option Nat :=
  if ai = 24 then some 1 else if ai = 25 then some 2 else if ai = 26 then some 4 else if ai = 27 then some 8 else none

/-- (major type, argument, remaining input) -/
def decHead : Bytes → Option (Nat × Nat × Bytes)
  | [] => none
  | b :: rest =>
    if b.toNat % 32 < 24 then some (b.toNat / 32, b.toNat % 32, rest)
    else match argLen (b.toNat % 32) with
      | none => none
      | some k => if rest.length < k then none else some (b.toNat / 32, beNat (rest.take k), rest.drop k)

def decPayload (n : Nat) (rest : Bytes) : Option (Bytes × Bytes) :=
  if rest.length < n then none else some (rest.take n, rest.drop n)

def decKey (b : Bytes) : Option (Bytes × Bytes) :=
  match decHead b with
  | some (major, n, rest) => if major = 3 then decPayload n rest else none
  | none => none

def decVal (b : Bytes) : Option (Val × Bytes) :=
  match decHead b with
  | some (major, n, rest) =>
    if major = 2 then (decPayload n rest).map fun p => (Val.bytes p.1, p.2)
    else if major = 3 then (decPayload n rest).map fun p => (Val.text p.1, p.2)
    else none
  | none => none

def decPairs : Nat → Bytes → Option (Map × Bytes)
  | 0, b => some ([], b)
  | n + 1, b =>
    match decKey b with
    | none => none
    | some (k, r1) =>
      match decVal r1 with
      | none => none
      | some (v, r2) =>
        match decPairs n r2 with
        | none => none
        | some (m, r3) => some ((k, v) :: m, r3)

/-- one map item from the front of the input -/
def decodeMap (b : Bytes) : Option (Map × Bytes) :=
  match decHead b with
  | some (major, n, rest) => if major = 5 then decPairs n rest else none
  | none => none

/-- a complete document: trailing bytes are an error (as `serde_cbor::from_slice`) -/
def decode (b : Bytes) : Option Map :=
  match decodeMap b with
  | some (m, []) => some m
  | _ => none

def lookup (m : Map) (k : Bytes) : Option Val := (m.find? fun e => e.1 = k).map (·.2)

/-- every length of the map is encodable (fits the 8-byte argument) -/
def Val.Fits : Val → Prop
  | .bytes b => b.length < 2 ^ 64
  | .text t => t.length < 2 ^ 64

def Fits (m : Map) : Prop := m.length < 2 ^ 64 ∧ ∀ e ∈ m, e.1.length < 2 ^ 64 ∧ e.2.Fits

/-- TEST: RFC 8949 Appendix A examples `{"a": "A", …}` shape, byte strings, widths -/
def selfTest : Bool :=
  let t (s : String) : Bytes := s.toUTF8.toList
  encodeMap [] == [0xa0] &&
  -- Appendix A: {"a": "A", "b": "B", "c": "C", "d": "D", "e": "E"} = a5 6161 6141 6162 6142 …
  Bytes.toHex (encodeMap [(t "a", .text (t "A")), (t "b", .text (t "B")), (t "c", .text (t "C")), (t "d", .text (t "D")), (t "e", .text (t "E"))])
    == "a56161614161626142616361436164614461656145" &&
  -- Appendix A: h'01020304' = 4401020304 ; "IETF" = 6449455446
  Bytes.toHex (encodeVal (.bytes [1, 2, 3, 4])) == "4401020304" &&
  Bytes.toHex (encodeVal (.text (t "IETF"))) == "6449455446" &&
  head 0 23 == [0x17] && head 0 24 == [0x18, 0x18] && head 0 1000 == [0x19, 0x03, 0xe8] &&
  head 0 1000000 == [0x1a, 0x00, 0x0f, 0x42, 0x40] &&
  Bytes.toHex (head 0 1000000000000) == "1b000000e8d4a51000" &&
  decode (encodeMap [(t "k", .bytes (List.replicate 300 7))]) == some [(t "k", .bytes (List.replicate 300 7))] &&
  decode [0xbf, 0xff] == none &&            -- indefinite-length map
  decode [0xa1, 0x61, 0x61] == none &&      -- truncated
  decode [0xa0, 0x00] == none &&            -- trailing byte
  decode [0xa1, 0x01, 0x02] == none         -- integer key

end Askar.Crypto.Cbor
