/-
Concatenation KDF (NIST SP 800-56A rev. 3 §5.8.2.1 option 1, as profiled for JOSE by RFC 7518 §4.6
and by draft-madden-jose-ecdh-1pu §2.2/§2.3) — executable SPECIFICATION written from the standards,
not from the Rust.  ORACLE for differential runs (C12 self test; reused by C15); validated against
RFC 7518 Appendix C and the ECDH-1PU draft Appendix A in `selfTest` (THESE ARE TESTS).
-/
import AskarModel.Crypto.Sha2
import AskarModel.Crypto.Aes

namespace Askar.Crypto.ConcatKdf

def be32 (n : Nat) : ByteArray := ((List.range 4).map fun i => UInt8.ofNat (n / 2 ^ (8 * (3 - i)) % 256)).toByteArray

/-- length-prefixed datum (RFC 7518 §4.6.2: 32-bit big-endian length, then the bytes) -/
def lenPrefixed (b : ByteArray) : ByteArray := be32 b.size ++ b

/-- SP 800-56A §5.8.2.1: DerivedKeyingMaterial = leftmost `outLen` bytes of
    H(1 ‖ Z ‖ FixedInfo) ‖ H(2 ‖ Z ‖ FixedInfo) ‖ …, counter as a 32-bit big-endian integer from 1 -/
def derive (hash : ByteArray → ByteArray) (hashLen : Nat) (z fixedInfo : ByteArray) (outLen : Nat) : ByteArray := Id.run do
  let mut out := ByteArray.emptyWithCapacity (outLen + hashLen)
  for i in [0:(outLen + hashLen - 1) / hashLen] do
    out := out ++ hash (be32 (i + 1) ++ z ++ fixedInfo)
  return out.extract 0 outLen

/-- RFC 7518 §4.6.2 FixedInfo: AlgorithmID ‖ PartyUInfo ‖ PartyVInfo ‖ SuppPubInfo ‖ SuppPrivInfo, with
    SuppPubInfo = keydatalen in bits (32-bit big-endian) followed, for ECDH-1PU key wrapping modes,
    by the length-prefixed content-encryption tag; SuppPrivInfo empty -/
def joseFixedInfo (alg apu apv : ByteArray) (keyBits : Nat) (ccTag : Option ByteArray := none) : ByteArray :=
  lenPrefixed alg ++ lenPrefixed apu ++ lenPrefixed apv ++ be32 keyBits ++
    (match ccTag with | some t => lenPrefixed t | none => ByteArray.empty)

def joseSha256 (z alg apu apv : ByteArray) (keyBytes : Nat) (ccTag : Option ByteArray := none) : ByteArray :=
  derive Sha2.sha256 32 z (joseFixedInfo alg apu apv (8 * keyBytes) ccTag) keyBytes

/-- TEST: RFC 7518 Appendix C (ECDH-ES, A128GCM); ECDH-1PU draft Appendix A (Z = Ze ‖ Zs, A256GCM);
    a two-pass derivation is consistent with its one-pass prefix -/
def selfTest : Bool :=
  let h := Sha2.toHex
  let x := Aes.ofHexL
  let z := x "9e56d91d817135d372834283bf84269cfb316ea3da806a48f6daa7798cfe90c4"
  let z1pu := x "9e56d91d817135d372834283bf84269cfb316ea3da806a48f6daa7798cfe90c4e3ca3474384c9f62b30bfd4c688b3e7d4110a1b4badc3cc54ef7b81241efd50d"
  h (joseSha256 z "A128GCM".toUTF8 "Alice".toUTF8 "Bob".toUTF8 16) == "56aa8deaf8236d205c2228cd71a7101a" &&
  h (joseSha256 z1pu "A256GCM".toUTF8 "Alice".toUTF8 "Bob".toUTF8 32) == "6caf13723d14850ad4b42cd6dde935bffd2fff00a9ba70de05c203a5e1722ca7" &&
  (joseSha256 z "X".toUTF8 ByteArray.empty ByteArray.empty 48).size == 48 &&
  h ((derive Sha2.sha256 32 z (x "00") 48).extract 0 32) == h (derive Sha2.sha256 32 z (x "00") 32)

end Askar.Crypto.ConcatKdf
