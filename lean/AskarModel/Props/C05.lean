/-
C05 — transactions are atomic and isolated; plain sessions apply immediately.
ONLY property theorems and non-vacuity examples; helper lemmas in Lemmas/Session.lean.
The model is Model/Session.lean (`TxStore`): committed state + at most one open write transaction
with a private working copy.  Schedules are arbitrary lists of calls (any length, any interleaving).
-/
import AskarModel.Model.Session
import AskarModel.Lemmas.Session

namespace Askar.Store

/-- While session `i`'s transaction is open, NO call of ANY session other than `commit i` changes
    what other sessions can read: its writes stay private, foreign writes are refused. -/
theorem txn_invisible_until_commit (like : Bytes → Bytes → Bool) (page : Nat) (now : Int) (st : TxStore) (i : Nat)
    (h : st.ownedBy i = true) (cs : List Call) (hc : noEnd i cs = true) :
    (TxStore.run like page now st cs).1.db = st.db ∧ (TxStore.run like page now st cs).1.ownedBy i = true :=
  Lemmas.txn_invisible_until_commit like page now st i h cs hc

/-- Rollback, drop or close(false) after any schedule: nothing of the transaction is ever visible;
    the published state is exactly the one before. -/
theorem rollback_discards (like : Bytes → Bytes → Bool) (page : Nat) (now : Int) (st : TxStore) (i : Nat)
    (h : st.ownedBy i = true) (cs : List Call) (hc : noEnd i cs = true) :
    (TxStore.run like page now st (cs ++ [.rollback i])).1.db = st.db ∧
    (TxStore.run like page now st (cs ++ [.rollback i])).1.wtxn = none :=
  Lemmas.rollback_discards like page now st i h cs hc

/-- Inside the transaction, whatever other sessions do in between, the transaction's calls return
    what they would return run alone, one after the other, on the state the transaction started
    from (so each read observes all of its own earlier writes), and its working copy is that
    sequential result. -/
theorem txn_sequential (like : Bytes → Bytes → Bool) (page : Nat) (now : Int) (st : TxStore) (i : Nat) (s : Sess) (c : Db)
    (h : st.wtxn = some (i, c)) (cs : List Call) (hc : noEnd i cs = true) (ht : txnOf i s cs = true) :
    outsOf i cs (TxStore.run like page now st cs).2 = (run like page now s c (opsOf i cs)).2 ∧
    (TxStore.run like page now st cs).1.wtxn = some (i, (run like page now s c (opsOf i cs)).1) :=
  Lemmas.txn_sequential like page now st i s c h cs hc ht

/-- Commit publishes all of the transaction's changes together: afterwards the published state is
    exactly the sequential result of its calls on its starting state. -/
theorem commit_publishes_all (like : Bytes → Bytes → Bool) (page : Nat) (now : Int) (st : TxStore) (i : Nat) (s : Sess) (c : Db)
    (h : st.wtxn = some (i, c)) (cs : List Call) (hc : noEnd i cs = true) (ht : txnOf i s cs = true) :
    (TxStore.run like page now st (cs ++ [.commit i])).1.db = (run like page now s c (opsOf i cs)).1 ∧
    (TxStore.run like page now st (cs ++ [.commit i])).1.wtxn = none :=
  Lemmas.commit_publishes_all like page now st i s c h cs hc ht

/-- The first call of a transactional session takes the write lock when it is free, starting from
    the published state. -/
theorem begin_takes_lock (like : Bytes → Bytes → Bool) (page : Nat) (now : Int) (st : TxStore) (i : Nat) (s : Sess) (op : Op)
    (h : st.wtxn = none) :
    (TxStore.step like page now st (.stmt i true s op)).1.wtxn = some (i, (step like page now s st.db op).1) ∧
    (TxStore.step like page now st (.stmt i true s op)).2 = (step like page now s st.db op).2 ∧
    (TxStore.step like page now st (.stmt i true s op)).1.db = st.db :=
  Lemmas.begin_takes_lock like page now st i s op h

/-- A plain session's call, when no transaction holds the lock, is applied to the published state
    at once, and ending the session in any way keeps it. -/
theorem plain_call_immediate (like : Bytes → Bytes → Bool) (page : Nat) (now : Int) (st : TxStore) (j : Nat) (s : Sess) (op : Op)
    (h : st.wtxn = none) :
    (TxStore.step like page now st (.stmt j false s op)).1.db = (step like page now s st.db op).1 ∧
    (TxStore.step like page now st (.stmt j false s op)).2 = (step like page now s st.db op).2 ∧
    ∀ e, e = Call.commit j ∨ e = Call.rollback j →
      (TxStore.step like page now (TxStore.step like page now st (.stmt j false s op)).1 e).1.db = (step like page now s st.db op).1 :=
  Lemmas.plain_call_immediate like page now st j s op h

/-- A plain session's read never blocks and sees exactly the published state, also while a
    transaction is open. -/
theorem plain_read_sees_committed (like : Bytes → Bytes → Bool) (page : Nat) (now : Int) (st : TxStore) (j : Nat) (s : Sess) (op : Op)
    (hr : op.isWrite = false) :
    (TxStore.step like page now st (.stmt j false s op)).2 = (step like page now s st.db op).2 ∧
    (TxStore.step like page now st (.stmt j false s op)).1.wtxn = st.wtxn :=
  Lemmas.plain_read_sees_committed like page now st j s op hr

/-- A call refused because another session holds the write lock has no effect at all. -/
theorem blocked_call_no_effect (like : Bytes → Bytes → Bool) (page : Nat) (now : Int) (st : TxStore) (j : Nat) (t : Bool) (s : Sess) (op : Op)
    (h : st.lockedByOther j = true) (hw : t = true ∨ op.isWrite = true) :
    TxStore.step like page now st (.stmt j t s op) = (st, .err .backend) :=
  Lemmas.blocked_call_no_effect like page now st j t s op h hw

/-! non-vacuity: an insert inside a transaction is invisible to a plain reader, visible to the
    transaction itself, and visible to everyone after commit -/
example :
    let ins : Call := .stmt 0 true ⟨1, 0⟩ (.insert 2 "c" "n" [7] none none)
    let rd (i : Nat) (t : Bool) : Call := .stmt i t ⟨1, 0⟩ (.count none none none)
    (TxStore.run (fun _ _ => false) 32 0 { db := {} } [ins, rd 1 false, rd 0 true, .commit 0, rd 1 false]).2
      = [.ok, .count 0, .count 1, .ok, .count 1] := by
  simp [TxStore.run, TxStore.step, TxStore.lockedByOther, TxStore.view, Op.isWrite, step, doInsert, doCount,
    Item.sameIdent, Item.inScope, live, matchFilter, matchTags, nextId]

end Askar.Store
