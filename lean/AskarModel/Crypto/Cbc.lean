/-
CBC mode (NIST SP 800-38A §6.2) and PKCS#7 padding (RFC 5652 §6.3) — executable SPECIFICATION,
written from the standards, generic in the block function so that (a) the C12 model and its
theorems (`cbc_dec_enc`, `pkcs7_unpad_pad`) are about *these very definitions* and (b) the AES
instance is validated against SP 800-38A Appendix F.2 in `selfTest` (THESE ARE TESTS).
All recursion is structural (the definitions reduce in the kernel for small witnesses).
-/
import AskarModel.Crypto.Aes

namespace Askar.Crypto.Cbc

abbrev Bytes := List UInt8

/-- bytewise exclusive or (of the common prefix length) -/
def xor (a b : Bytes) : Bytes := List.zipWith (· ^^^ ·) a b

/-- the first `k` consecutive `n`-byte chunks -/
def chunksN (n : Nat) : Nat → Bytes → List Bytes
  | 0, _ => []
  | k + 1, b => b.take n :: chunksN n k (b.drop n)

/-- the complete `n`-byte chunks of `b` (a trailing partial chunk is dropped: Rust `chunks_exact`) -/
def chunks (n : Nat) (b : Bytes) : List Bytes := chunksN n (b.length / n) b

/-- SP 800-38A §6.2, CBC encryption: C₁ = CIPH(P₁ ⊕ IV), Cⱼ = CIPH(Pⱼ ⊕ Cⱼ₋₁) -/
def encBlocks (ciph : Bytes → Bytes) : Bytes → List Bytes → List Bytes
  | _, [] => []
  | prev, p :: ps => let c := ciph (xor p prev); c :: encBlocks ciph c ps

/-- SP 800-38A §6.2, CBC decryption: P₁ = CIPH⁻¹(C₁) ⊕ IV, Pⱼ = CIPH⁻¹(Cⱼ) ⊕ Cⱼ₋₁ -/
def decBlocks (inv : Bytes → Bytes) : Bytes → List Bytes → List Bytes
  | _, [] => []
  | prev, c :: cs => xor (inv c) prev :: decBlocks inv c cs

/-- RFC 5652 §6.3: append k − (ℓ mod k) bytes, each of value k − (ℓ mod k) -/
def pkcs7Pad (k : Nat) (m : Bytes) : Bytes :=
  let n := k - m.length % k
  m ++ List.replicate n (UInt8.ofNat n)

/-- strict removal: the last byte n must satisfy 1 ≤ n ≤ k and the last n bytes must all equal n -/
def pkcs7Unpad (k : Nat) (b : Bytes) : Option Bytes :=
  match b.getLast? with
  | none => none
  | some last =>
    let n := last.toNat
    if n == 0 || n > k || n > b.length then none
    else if (b.drop (b.length - n)).all (· == last) then some (b.take (b.length - n))
    else none

/-- CBC over whole blocks (input length must be a multiple of 16; a partial tail is ignored) -/
def encrypt (ciph : Bytes → Bytes) (iv data : Bytes) : Bytes := (encBlocks ciph iv (chunks 16 data)).flatten
def decrypt (inv : Bytes → Bytes) (iv data : Bytes) : Bytes := (decBlocks inv iv (chunks 16 data)).flatten

/-! ### AES instances -/

def aesCbcEncrypt (key iv data : ByteArray) : ByteArray :=
  let w := Aes.expandKey key
  (encrypt (fun b => (Aes.cipher w b.toByteArray).toList) iv.toList data.toList).toByteArray

def aesCbcDecrypt (key iv data : ByteArray) : ByteArray :=
  let w := Aes.expandKey key
  (decrypt (fun b => (Aes.invCipher w b.toByteArray).toList) iv.toList data.toList).toByteArray

def aesCbcPkcs7Encrypt (key iv msg : ByteArray) : ByteArray := aesCbcEncrypt key iv (pkcs7Pad 16 msg.toList).toByteArray
def aesCbcPkcs7Decrypt (key iv ct : ByteArray) : Option ByteArray :=
  if ct.size % 16 != 0 then none else (pkcs7Unpad 16 (aesCbcDecrypt key iv ct).toList).map List.toByteArray

/-- TEST: SP 800-38A F.2.1/F.2.2 (CBC-AES128), F.2.5/F.2.6 (CBC-AES256); PKCS#7 on the boundary lengths -/
def selfTest : Bool :=
  let h := Sha2.toHex
  let x := Aes.ofHexL
  let iv := Aes.seq 16
  let pt := x "6bc1bee22e409f96e93d7e117393172aae2d8a571e03ac9c9eb76fac45af8e5130c81c46a35ce411e5fbc1191a0a52eff69f2445df4f9b17ad2b417be66c3710"
  let k128 := x "2b7e151628aed2a6abf7158809cf4f3c"
  let k256 := x "603deb1015ca71be2b73aef0857d77811f352c073b6108d72d9810a30914dff4"
  let c128 := "7649abac8119b246cee98e9b12e9197d5086cb9b507219ee95db113a917678b273bed6b8e3c1743b7116e69e222295163ff1caa1681fac09120eca307586e1a7"
  let c256 := "f58c4c04d6e5f1ba779eabfb5f7bfbd69cfc4e967edb808d679f777bc6702c7d39f23369a9d9bacfa530e26304231461b2eb05e2c39be9fcda6c19078c6a9d1b"
  h (aesCbcEncrypt k128 iv pt) == c128 && h (aesCbcDecrypt k128 iv (x c128)) == h pt &&
  h (aesCbcEncrypt k256 iv pt) == c256 && h (aesCbcDecrypt k256 iv (x c256)) == h pt &&
  pkcs7Pad 16 [] == List.replicate 16 16 && (pkcs7Pad 16 (List.replicate 15 7)).length == 16 &&
  (pkcs7Pad 16 (List.replicate 16 7)).length == 32 && pkcs7Pad 8 [1, 2, 3] == [1, 2, 3, 5, 5, 5, 5, 5] &&
  pkcs7Unpad 16 (pkcs7Pad 16 [1, 2, 3]) == some [1, 2, 3] && pkcs7Unpad 16 [] == none &&
  pkcs7Unpad 16 (List.replicate 16 0) == none && pkcs7Unpad 16 (List.replicate 16 17) == none &&
  pkcs7Unpad 16 (List.replicate 14 9 ++ [2, 2]) == some (List.replicate 14 9) &&
  pkcs7Unpad 16 (List.replicate 14 2 ++ [3, 2]) == none &&
  pkcs7Unpad 16 (List.replicate 13 2 ++ [3, 3, 4]) == none &&
  (List.range 50).all fun n =>
    let m := (List.range n).map UInt8.ofNat
    (aesCbcPkcs7Decrypt k128 iv (aesCbcPkcs7Encrypt k128 iv m.toByteArray)).map ByteArray.toList == some m

end Askar.Crypto.Cbc
