/-
C04SPg — the TEXT the WQL encoder hands to POSTGRES (the Postgres dialect of the text-level engine C04S).
ONLY property theorems and non-vacuity examples live here; helper lemmas are in Lemmas/WqlTextPg.lean.

`trait QueryPrepare` lets a backend override two things: the spelling of a placeholder (`?n` / `$n`) and
`limit_query` (the text AND the order / shape of the two bound values).  `Model/WqlTextPg.lean` carries both as a
`Dialect` parameter on top of the unchanged SQLite model; the first three theorems tie the `.sqlite` instance to
`Model/WqlText.lean`, so that everything Props/C04S.lean proves keeps its meaning, and the rest is what holds for
`$n` — compared byte for byte with the real `replace_arg_placeholders::<PostgresBackend>` /
`extend_query::<PostgresBackend>` by the correspondence run (kinds `c04s:encode_pg`, `c04s:extend_pg`).

What is BOUND by `limit_query` (values, NULL) is read off the code and is not observable through the hooks: the last
group of theorems records it on the model and claims nothing about what the server does with it.
-/
import AskarModel.Model.WqlTextPg
import AskarModel.Lemmas.WqlTextPg

namespace Askar.Wql

/-! #### the `.sqlite` dialect is the existing model -/

theorem sqlite_dialect_is_replaceArgs (s : List Char) (start : Int) :
    replaceArgsD .sqlite s start = replaceArgs s start :=
  Lemmas.replaceArgsD_sqlite s start

theorem sqlite_dialect_is_finalString (xs : List (String ⊕ Nat)) : finalStringD .sqlite xs = finalString xs :=
  Lemmas.finalStringD_sqlite xs

/-- forgetting the recorded bindings, `extendQueryD .sqlite` is `extendQuery` -/
theorem sqlite_dialect_is_extendQuery (base : List Char) (nparams : Nat) (filter : Option (List Char × Nat))
    (offset limit : Option Int) (orderBy descending : Bool) :
    (extendQueryD .sqlite base nparams filter offset limit orderBy descending).map (fun r => (r.1, r.2.1))
      = extendQuery base nparams filter offset limit orderBy descending :=
  Lemmas.extendQueryD_sqlite base nparams filter offset limit orderBy descending

/-! #### the encoder's text, Postgres spelling -/

/-- `replaceArgs_tokens` for every dialect: on well-formed token text, without `i64` overflow, the character-level
    `replace_arg_placeholders::<Q>` is the token-level account spelled with the dialect's sigil; no panic. -/
theorem pg_replaceArgs_tokens (d : Dialect) (ts : List Tok) (start : Nat) (hs : 1 ≤ start) (hwf : wfToks ts = true)
    (hno : NoOverflow start ts) :
    replaceArgsStrD d (toksString ts) start = some (finalStringD d (replaceToks start 0 ts)) :=
  Lemmas.replaceArgsD_tokens d ts start hs hwf hno

/-- End to end, as `encode_text_exact`: for every filter, tag crypto and start index the text
    `encode_tag_filter::<PostgresBackend>` produces is the token-level final string with `$n` — no panic. -/
theorem pg_encode_text_exact (E : TagCrypto) (q : Query TagName) (c : Clause) (start : Nat) (hs : 1 ≤ start)
    (h : (encodeQuery E q).1 = some c) (hlen : (start : Int) + (encodeQuery E q).2.length ≤ i64Max) :
    replaceArgsStrD .postgres (toksString (render c)) start
      = some (finalStringD .postgres (replaceToks start 0 (render c))) :=
  Lemmas.encode_text_exactD .postgres E q c start hs h hlen

/-- As `encode_text_numbered`, and for BOTH dialects at once: there is ONE piece list `xs` such that the Postgres text is
    `xs` spelled with `$`, the SQLite text is `xs` spelled with `?`, and the parameter numbers of `xs` are, in textual
    order, `start, start+1, …` — one per pushed argument (the k-th placeholder ↔ the k-th filter argument). -/
theorem pg_encode_text_numbered (E : TagCrypto) (q : Query TagName) (c : Clause) (start : Nat) (hs : 1 ≤ start)
    (h : (encodeQuery E q).1 = some c) (hlen : (start : Int) + (encodeQuery E q).2.length ≤ i64Max) :
    ∃ xs, replaceArgsStrD .postgres (toksString (render c)) start = some (finalStringD .postgres xs) ∧
      replaceArgsStr (toksString (render c)) start = some (finalString xs) ∧
      Lemmas.phs xs = (List.range (encodeQuery E q).2.length).map (· + start) := by
  refine ⟨replaceToks start 0 (render c), Lemmas.encode_text_exactD .postgres E q c start hs h hlen,
    Lemmas.encode_text_exact E q c start hs h hlen, ?_⟩
  obtain ⟨h1, h2⟩ := Lemmas.placeholders_numbered E q c start hs h
  have h1' : Lemmas.phs (replaceToks start 0 (render c)) = c.argRefs.map (· + start) := h1
  rw [h1', h2]

/-- In that piece list no TEXT piece contains a `$` or a `?`: every `$` of the Postgres text (every `?` of the SQLite
    text) is the sigil of a placeholder — nothing is left unreplaced (`$$`) and nothing else looks like a parameter. -/
theorem pg_sigils_only_at_placeholders (c : Clause) (start k : Nat) (s : String)
    (h : Sum.inl s ∈ replaceToks start k (render c)) :
    s.toList.contains '$' = false ∧ s.toList.contains '?' = false := by
  have hm := Lemmas.inl_mem_replaceToks start k (render c) s h
  refine ⟨Lemmas.wfToks_text_mem _ (Lemmas.render_wellformed c) s hm, ?_⟩
  have := Lemmas.render_noQ c _ hm
  simpa [Lemmas.tokNoQ] using this

/-! #### the two dialects differ only in the spelling of the placeholders -/

/-- On ANY text without a `?` — any start index, panics included — the Postgres result is the SQLite result with
    every `?` re-spelled `$`. -/
theorem pg_is_sqlite_respelled (s : List Char) (start : Int) (h : s.contains '?' = false) :
    replaceArgsD .postgres s start = (replaceArgs s start).map respell :=
  Lemmas.replaceArgsD_respell s start h

/-- `render` never writes a `?` (for all clause trees, encoded or not). -/
theorem render_no_qmark (c : Clause) : (toksChars (render c)).contains '?' = false :=
  Lemmas.render_no_qmark c

/-- For the rendered text of ANY clause tree and ANY start index: mapping `?n ↦ $n` on the SQLite text gives the
    Postgres text (and one panics iff the other does). -/
theorem pg_and_sqlite_texts_differ_only_in_placeholder_spelling (c : Clause) (start : Int) :
    replaceArgsD .postgres (toksChars (render c)) start = (replaceArgs (toksChars (render c)) start).map respell :=
  Lemmas.replaceArgsD_respell _ start (Lemmas.render_no_qmark c)

/-- the same on `String`s, as the driver computes it -/
theorem pg_and_sqlite_strings_differ_only_in_placeholder_spelling (c : Clause) (start : Int) :
    replaceArgsStrD .postgres (toksString (render c)) start
      = (replaceArgsStr (toksString (render c)) start).map fun t => String.ofList (respell t.toList) := by
  simp only [replaceArgsStrD, replaceArgsStr, Lemmas.toksString_toList,
    Lemmas.replaceArgsD_respell _ start (Lemmas.render_no_qmark c), Option.map_map]
  congr 1
  funext l
  simp

/-- no `?` placeholder is left in the Postgres text of a clause -/
theorem pg_text_has_no_qmark (c : Clause) (start : Int) (t : List Char)
    (h : replaceArgsD .postgres (toksChars (render c)) start = some t) : t.contains '?' = false := by
  rw [pg_and_sqlite_texts_differ_only_in_placeholder_spelling] at h
  cases hr : replaceArgs (toksChars (render c)) start with
  | none => rw [hr] at h; cases h
  | some t' =>
    rw [hr] at h
    simp only [Option.map_some, Option.some.injEq] at h
    rw [← h]
    exact Lemmas.respell_no_qmark t'

/-! #### the output of the Postgres dialect is placeholder text again

`replace_arg_placeholders` looks for `$` in its INPUT.  With `?n` the output is a fixed point (`replaceArgs_no_dollar`);
with `$n` it is not: a second pass with start index `s` adds `s − 1` to every number (and is the identity only for
`s = 1`).  The code makes exactly one pass over the clause (`encode_tag_filter`) and one over the constant LIMIT text
(`limit_query`); `extend_query` appends the clause verbatim (`extendQueryD` has this structure). -/

theorem pg_second_pass_shifts (xs : List (String ⊕ Nat)) (s : Nat) (hs : 1 ≤ s)
    (hwf : wfToks (xs.map pieceTok) = true) (hno : NoOverflow s (xs.map pieceTok)) :
    replaceArgsD .postgres (finalCharsD .postgres xs) s
      = some (finalCharsD .postgres (xs.map (shiftPiece s))) := by
  rw [Lemmas.finalCharsD_pg_toksChars, Lemmas.replaceArgsD_tokens_chars .postgres _ s hs hwf hno,
    Lemmas.replaceToks_pieceTok]

example : replaceArgsD .postgres "x = $4 AND y IN ($5, $6)".toList 4 = some "x = $7 AND y IN ($8, $9)".toList := by decide
example : replaceArgsD .postgres "x = $4 AND y IN ($5, $6)".toList 1 = some "x = $4 AND y IN ($5, $6)".toList := by decide
example : replaceArgs "x = ?4 AND y IN (?5, ?6)".toList 4 = some "x = ?4 AND y IN (?5, ?6)".toList := by decide

/-! #### `limit_query` and `extend_query` -/

/-- Postgres `limit_query`: ` LIMIT $k OFFSET $k+1` with `k = args.len() + 1`, TWO parameters pushed — the limit
    (NULL when absent), then the offset (0 when absent). -/
theorem pg_limit_clause_shape (q : List Char) (nargs : Nat) (offset limit : Option Int)
    (h : (offset.isSome || limit.isSome) = true) (hn : (nargs : Int) + 3 ≤ i64Max) :
    limitQueryD .postgres q nargs offset limit
      = some (q ++ (" LIMIT $" ++ toString (nargs + 1) ++ " OFFSET $" ++ toString (nargs + 2)).toList, nargs + 2,
          [Bind.ofOpt limit, .int (offset.getD 0)]) :=
  Lemmas.limitQueryD_pg q nargs offset limit h hn

/-- SQLite `limit_query` with its bindings: ` LIMIT ?k, ?k+1`, the offset (0 when absent) pushed first, then the
    limit (−1 when absent). -/
theorem sqlite_limit_clause_shape (q : List Char) (nargs : Nat) (offset limit : Option Int)
    (h : (offset.isSome || limit.isSome) = true) (hn : (nargs : Int) + 3 ≤ i64Max) :
    limitQueryD .sqlite q nargs offset limit
      = some (q ++ (" LIMIT ?" ++ toString (nargs + 1) ++ ", ?" ++ toString (nargs + 2)).toList, nargs + 2,
          [.int (offset.getD 0), .int (limit.getD (-1))]) :=
  Lemmas.limitQueryD_sqlite_shape q nargs offset limit h hn

/-- neither given: nothing appended, nothing bound (either dialect) -/
theorem limit_clause_absent (d : Dialect) (q : List Char) (nargs : Nat) :
    limitQueryD d q nargs none none = some (q, nargs, []) :=
  Lemmas.limitQueryD_none d q nargs

/-- `extend_query`, either dialect: final parameter count = `nparams` + |filter arguments| + (2 if the statement is a
    SELECT and an offset or a limit is given, else 0); and exactly that many values are pushed for the window. -/
theorem pg_extend_param_count (d : Dialect) (base : List Char) (nparams : Nat) (filter : Option (List Char × Nat))
    (offset limit : Option Int) (orderBy descending : Bool) (q : List Char) (n : Nat) (bs : List Bind)
    (h : extendQueryD d base nparams filter offset limit orderBy descending = some (q, n, bs)) :
    n = nparams + filterArgs filter + (if windowAdded base filter offset limit then 2 else 0)
      ∧ bs.length = (if windowAdded base filter offset limit then 2 else 0) :=
  Lemmas.extendQueryD_count d base nparams filter offset limit orderBy descending q n bs h

/-- `extend_query` does not panic as long as the parameter count stays inside `i64` -/
theorem pg_extend_total (d : Dialect) (base : List Char) (nparams : Nat) (filter : Option (List Char × Nat))
    (offset limit : Option Int) (orderBy descending : Bool)
    (hn : ((nparams + filterArgs filter : Nat) : Int) + 3 ≤ i64Max) :
    (extendQueryD d base nparams filter offset limit orderBy descending).isSome = true :=
  Lemmas.extendQueryD_total d base nparams filter offset limit orderBy descending hn

/-- The complete Postgres text of a windowed SELECT: base, the clause verbatim, ORDER BY, then the LIMIT / OFFSET pair
    numbered right after the filter's arguments. -/
theorem pg_extend_text (base : List Char) (nparams : Nat) (filter : Option (List Char × Nat))
    (offset limit : Option Int) (orderBy descending : Bool)
    (hsel : startsWithSelect (withFilter base filter) = true) (hw : (offset.isSome || limit.isSome) = true)
    (hn : ((nparams + filterArgs filter : Nat) : Int) + 3 ≤ i64Max) :
    extendQueryD .postgres base nparams filter offset limit orderBy descending
      = some ((if orderBy then orderByQuery (withFilter base filter) descending else withFilter base filter)
            ++ (" LIMIT $" ++ toString (nparams + filterArgs filter + 1)
                ++ " OFFSET $" ++ toString (nparams + filterArgs filter + 2)).toList,
          nparams + filterArgs filter + 2, [Bind.ofOpt limit, .int (offset.getD 0)]) := by
  rw [Lemmas.extendQueryD_eq, if_pos hsel, if_pos hw, Lemmas.limitQueryD_pg _ _ _ _ hw hn]

/-- a statement that is not a SELECT (DELETE_ALL) gets the clause and nothing else, whatever offset / limit say -/
theorem extend_non_select (d : Dialect) (base : List Char) (nparams : Nat) (filter : Option (List Char × Nat))
    (offset limit : Option Int) (orderBy descending : Bool) (hsel : startsWithSelect (withFilter base filter) = false) :
    extendQueryD d base nparams filter offset limit orderBy descending
      = some (withFilter base filter, nparams + filterArgs filter, []) := by
  rw [Lemmas.extendQueryD_eq, hsel]
  rfl

/-! #### what is bound for the window (model only: not observable through the hooks)

Textual order = push order in both dialects (first placeholder ↔ first pushed value), but the ROLES are swapped:
SQLite writes `LIMIT <offset>, <limit>` and pushes offset then limit; Postgres writes `LIMIT <limit> OFFSET <offset>`
and pushes limit then offset. -/

theorem window_binding_order (offset limit : Option Int) :
    Dialect.limitBinds .sqlite offset limit = [.int (offset.getD 0), .int (limit.getD (-1))]
      ∧ Dialect.limitBinds .postgres offset limit = [Bind.ofOpt limit, .int (offset.getD 0)] :=
  ⟨rfl, rfl⟩

/-- both given: the same two values, in opposite order -/
theorem window_binding_order_swapped (o l : Int) :
    Dialect.limitBinds .postgres (some o) (some l) = (Dialect.limitBinds .sqlite (some o) (some l)).reverse :=
  rfl

/-- The one difference in VALUES: an absent limit is bound as the integer −1 by the SQLite dialect and as NULL by the
    Postgres dialect (both mean "no limit" to their engine; the model records the binding, not the meaning). -/
theorem absent_limit_binding_differs (offset : Option Int) :
    Dialect.limitBinds .sqlite offset none = [.int (offset.getD 0), .int (-1)]
      ∧ Dialect.limitBinds .postgres offset none = [.null, .int (offset.getD 0)] :=
  ⟨rfl, rfl⟩

/-- A limit that IS given is bound as it is by both dialects — a negative one included: nothing clamps it.
    (SQLite reads a negative LIMIT as "no limit"; Postgres rejects `LIMIT -1` when the statement runs.  Neither is
    modelled or executed here.) -/
theorem given_limit_bound_as_is (offset : Option Int) (l : Int) :
    Dialect.limitBinds .sqlite offset (some l) = [.int (offset.getD 0), .int l]
      ∧ Dialect.limitBinds .postgres offset (some l) = [.int l, .int (offset.getD 0)] :=
  ⟨rfl, rfl⟩

/-- an absent offset is bound as 0 by both dialects -/
theorem absent_offset_bound_zero (d : Dialect) (limit : Option Int) :
    Bind.int 0 ∈ d.limitBinds none limit := by
  cases d <;> simp [Dialect.limitBinds]

/-! Non-vacuity and pinned behaviour (each of these is also a case family of the correspondence run). -/

example : replaceArgsD .postgres "x = $1 AND y IN ($$, $$)".toList 4 = some "x = $4 AND y IN ($5, $6)".toList := by decide
example : replaceArgs "x = $1 AND y IN ($$, $$)".toList 4 = some "x = ?4 AND y IN (?5, ?6)".toList := by decide
example : respell "x = ?4 AND y IN (?5, ?6)".toList = "x = $4 AND y IN ($5, $6)".toList := by decide
-- the unit test of postgres/mod.rs
example : replaceArgsD .postgres "This $$ is $10 a $$ string!".toList 3 = some "This $3 is $12 a $5 string!".toList := by decide
example : replaceArgsD .postgres "$$$".toList 1 = some "$1$".toList := by decide
example : replaceArgsD .postgres "$9223372036854775807".toList 1 = none := by decide
-- with a `?` in the INPUT the two outputs are not related by `respell` (hence the hypothesis of `pg_is_sqlite_respelled`)
example : replaceArgsD .postgres "?$1".toList 1 = some "?$1".toList ∧ (replaceArgs "?$1".toList 1).map respell = some "$$1".toList := by decide
example : wfToks ([.inl "x = ", .inr 4, .inl " AND y = ", .inr 5].map pieceTok) = true := by decide
example : NoOverflow 4 ([.inl "x = ", .inr 4, .inl " AND y = ", .inr 5].map pieceTok) := by
  constructor
  · intro n hn
    simp only [List.map_cons, List.map_nil, pieceTok, List.mem_cons, Tok.ph.injEq, Ph.num.injEq, reduceCtorEq,
      List.not_mem_nil, or_false, false_or] at hn
    rcases hn with hn | hn <;> subst hn <;> decide
  · decide
example : limitQueryD .postgres "q".toList 3 none (some 5) = some ("q LIMIT $4 OFFSET $5".toList, 5, [.int 5, .int 0]) := by decide
example : limitQueryD .postgres "q".toList 3 (some 7) none = some ("q LIMIT $4 OFFSET $5".toList, 5, [.null, .int 7]) := by decide
example : limitQueryD .sqlite "q".toList 3 (some 7) none = some ("q LIMIT ?4, ?5".toList, 5, [.int 7, .int (-1)]) := by decide
example : limitQueryD .postgres "q".toList 3 none (some (-1)) = some ("q LIMIT $4 OFFSET $5".toList, 5, [.int (-1), .int 0]) := by decide
example : extendQueryD .postgres "SELECT 1 WHERE 1".toList 3 (some ("x = $4".toList, 1)) none (some 5) true true
    = some ("SELECT 1 WHERE 1 AND x = $4 ORDER BY id DESC LIMIT $5 OFFSET $6".toList, 6, [.int 5, .int 0]) := by decide
example : extendQueryD .postgres "DELETE FROM t WHERE 1".toList 3 (some ("x = $4".toList, 1)) (some 1) (some 5) true true
    = some ("DELETE FROM t WHERE 1 AND x = $4".toList, 4, []) := by decide
example : windowAdded "SELECT 1 WHERE 1".toList (some ("x = $4".toList, 1)) none (some 5) = true := by decide
example : windowAdded "DELETE FROM t WHERE 1".toList none (some 1) (some 5) = false := by decide

end Askar.Wql
