/-
C14 — helper lemmas and proofs for the key export / import model (`AskarModel/Model/Jwk.lean`).
-/
import AskarModel.Model.Jwk

namespace Askar.Jwk

/-! ## base64url -/

theorem valN_symN : ∀ n, n < 64 → valN (symN n) = some n := by decide
theorem symN_lt : ∀ n, n < 64 → symN n < 256 := by decide
def chkVal (c : Nat) : Bool := match valN c with | some v => symN v == c && decide (v < 64) | none => true
set_option maxRecDepth 8192 in
theorem chkVal_all : ∀ c, c < 256 → chkVal c = true := by decide
theorem symN_valN {c v : Nat} (hc : c < 256) (h : valN c = some v) : symN v = c ∧ v < 64 := by
  have := chkVal_all c hc
  simp [chkVal, h] at this
  exact this

theorem val_sym {n : Nat} (h : n < 64) : val (sym n) = some n := by
  unfold val sym
  rw [UInt8.toNat_ofNat', Nat.mod_eq_of_lt (by simpa using symN_lt n h)]
  exact valN_symN n h

theorem sym_val {c : UInt8} {v : Nat} (h : val c = some v) : sym v = c ∧ v < 64 := by
  unfold val at h
  have := symN_valN (UInt8.toNat_lt_size c) h
  refine ⟨?_, this.2⟩
  unfold sym
  rw [this.1, UInt8.ofNat_toNat]

theorem ofNat_toNat_lt {n : Nat} (h : n < 256) : (UInt8.ofNat n).toNat = n := by
  rw [UInt8.toNat_ofNat', Nat.mod_eq_of_lt (by simpa using h)]

theorem b64_roundtrip (b : Bytes) : b64decode (b64encode b) = some b := by
  fun_induction b64encode b with
  | case1 a b c rest ih =>
    have ha := UInt8.toNat_lt_size a; have hb := UInt8.toNat_lt_size b; have hc := UInt8.toNat_lt_size c
    simp only [UInt8.size] at ha hb hc
    simp only [b64decode]
    rw [val_sym (by omega), val_sym (by omega), val_sym (by omega), val_sym (by omega), ih]
    simp only
    congr 2
    · rw [show a.toNat / 4 * 4 + (a.toNat % 4 * 16 + b.toNat / 16) / 16 = a.toNat by omega, UInt8.ofNat_toNat]
    · congr 1
      · rw [show (a.toNat % 4 * 16 + b.toNat / 16) % 16 * 16 + (b.toNat % 16 * 4 + c.toNat / 64) / 4 = b.toNat by omega, UInt8.ofNat_toNat]
      · congr 1
        rw [show (b.toNat % 16 * 4 + c.toNat / 64) % 4 * 64 + c.toNat % 64 = c.toNat by omega, UInt8.ofNat_toNat]
  | case2 a b =>
    have ha := UInt8.toNat_lt_size a; have hb := UInt8.toNat_lt_size b
    simp only [UInt8.size] at ha hb
    simp only [b64decode]
    rw [val_sym (by omega), val_sym (by omega), val_sym (by omega)]
    simp only
    rw [if_pos (by omega)]
    rw [show a.toNat / 4 * 4 + (a.toNat % 4 * 16 + b.toNat / 16) / 16 = a.toNat by omega, UInt8.ofNat_toNat,
      show (a.toNat % 4 * 16 + b.toNat / 16) % 16 * 16 + (b.toNat % 16 * 4) / 4 = b.toNat by omega, UInt8.ofNat_toNat]
  | case3 a =>
    have ha := UInt8.toNat_lt_size a
    simp only [UInt8.size] at ha
    simp only [b64decode]
    rw [val_sym (by omega), val_sym (by omega)]
    simp only
    rw [if_pos (by omega)]
    rw [show a.toNat / 4 * 4 + (a.toNat % 4 * 16) / 16 = a.toNat by omega, UInt8.ofNat_toNat]
  | case4 => rfl


theorem b64_canonical {s b : Bytes} (h : b64decode s = some b) : b64encode b = s := by
  fun_induction b64decode s generalizing b with
  | case1 => cases h; rfl
  | case2 c => cases h
  | case3 c0 c1 v0 v1 h1 h0 hm =>
    cases h
    obtain ⟨e0, l0⟩ := sym_val h0; obtain ⟨e1, l1⟩ := sym_val h1
    simp only [b64encode]
    rw [ofNat_toNat_lt (by omega)]
    rw [show (v0 * 4 + v1 / 16) / 4 = v0 by omega, show (v0 * 4 + v1 / 16) % 4 * 16 = v1 by omega, e0, e1]
  | case4 => cases h
  | case5 => cases h
  | case6 c0 c1 c2 v0 v1 v2 h2 h1 h0 hm =>
    cases h
    obtain ⟨e0, l0⟩ := sym_val h0; obtain ⟨e1, l1⟩ := sym_val h1; obtain ⟨e2, l2⟩ := sym_val h2
    simp only [b64encode]
    rw [ofNat_toNat_lt (by omega), ofNat_toNat_lt (by omega)]
    rw [show (v0 * 4 + v1 / 16) / 4 = v0 by omega,
      show (v0 * 4 + v1 / 16) % 4 * 16 + (v1 % 16 * 16 + v2 / 4) / 16 = v1 by omega,
      show (v1 % 16 * 16 + v2 / 4) % 16 * 4 = v2 by omega, e0, e1, e2]
  | case7 => cases h
  | case8 => cases h
  | case9 c0 c1 c2 c3 rest v0 v1 v2 v3 r hr h3 h2 h1 h0 ih =>
    cases h
    obtain ⟨e0, l0⟩ := sym_val h0; obtain ⟨e1, l1⟩ := sym_val h1; obtain ⟨e2, l2⟩ := sym_val h2
    obtain ⟨e3, l3⟩ := sym_val h3
    simp only [b64encode]
    rw [ofNat_toNat_lt (by omega), ofNat_toNat_lt (by omega), ofNat_toNat_lt (by omega)]
    rw [show (v0 * 4 + v1 / 16) / 4 = v0 by omega,
      show (v0 * 4 + v1 / 16) % 4 * 16 + (v1 % 16 * 16 + v2 / 4) / 16 = v1 by omega,
      show (v1 % 16 * 16 + v2 / 4) % 16 * 4 + (v2 % 4 * 64 + v3) / 64 = v2 by omega,
      show (v2 % 4 * 64 + v3) % 64 = v3 by omega, e0, e1, e2, e3, ih hr]
  | case10 => cases h

/-- decoded length is determined by the text length: ⌊3·len/4⌋ -/
theorem b64decode_length {s b : Bytes} (h : b64decode s = some b) : b.length = s.length * 3 / 4 := by
  fun_induction b64decode s generalizing b with
  | case1 => cases h; rfl
  | case2 c => cases h
  | case3 => cases h; simp only [List.length_cons, List.length_nil]
  | case4 => cases h
  | case5 => cases h
  | case6 => cases h; simp only [List.length_cons, List.length_nil]
  | case7 => cases h
  | case8 => cases h
  | case9 c0 c1 c2 c3 rest v0 v1 v2 v3 r hr h3 h2 h1 h0 ih =>
    cases h
    simp only [List.length_cons, ih hr]
    omega
  | case10 => cases h

/-- `decode_base64` never reports more bytes than the output array holds -/
theorem b64_bounded {attr : Option Bytes} {n : Nat} {b : Bytes} (h : decodeBase64 attr n = .ok b) : b.length ≤ n := by
  unfold decodeBase64 at h
  split at h
  · cases h
  · rename_i s
    split at h
    · cases h
    · rename_i hlen
      split at h
      · cases h
      · rename_i b' hb
        cases h
        rw [b64decode_length hb]
        omega

/-- over-long text is an error, whatever it contains -/
theorem b64_overlong {s : Bytes} {n : Nat} (h : s.length > (n * 4 + 2) / 3) : decodeBase64 (some s) n = .err .invalid := by
  simp [decodeBase64, h]



/-! ## the member visitor -/

theorem visitFrom_append (cfg : Cfg) (a : Acc) (l₁ l₂ : List (Bytes × JVal)) :
    visitFrom cfg a (l₁ ++ l₂) = (visitFrom cfg a l₁).bind fun a' => visitFrom cfg a' l₂ := by
  induction l₁ generalizing a with
  | nil => rfl
  | cons m ms ih =>
    simp only [List.cons_append, visitFrom]
    cases visitStep cfg a m with
    | none => rfl
    | some a' => exact ih a'

theorem visitStep_unknown (cfg : Cfg) (a : Acc) {k : Bytes} (v : JVal) (hk : fieldOf k = none) :
    visitStep cfg a (k, v) = if cfg.consumeUnknown then some a else none := by
  simp only [visitStep, hk]

/-- the full statement: a member with an unrecognised name does not change the result, whatever its value, wherever it stands -/
def VisitIgnoresUnknown (cfg : Cfg) : Prop :=
  ∀ (ms₁ ms₂ : List (Bytes × JVal)) (k : Bytes) (v : JVal), fieldOf k = none →
    visit cfg (ms₁ ++ (k, v) :: ms₂) = visit cfg (ms₁ ++ ms₂)

theorem visit_ignores_unknown_of_consume {cfg : Cfg} (h : cfg.consumeUnknown = true) : VisitIgnoresUnknown cfg := by
  intro ms₁ ms₂ k v hk
  unfold visit
  rw [visitFrom_append, visitFrom_append]
  cases visitFrom cfg {} ms₁ with
  | none => rfl
  | some a =>
    simp only [Option.bind_some, visitFrom, visitStep_unknown cfg a v hk, h, if_true]

/-- what the tree without the repair does instead: the import fails (so it is never a wrong key) -/
theorem visit_unknown_fails {cfg : Cfg} (h : cfg.consumeUnknown = false) (ms₁ ms₂ : List (Bytes × JVal)) (k : Bytes) (v : JVal)
    (hk : fieldOf k = none) : visit cfg (ms₁ ++ (k, v) :: ms₂) = none := by
  unfold visit
  rw [visitFrom_append]
  cases visitFrom cfg {} ms₁ with
  | none => rfl
  | some a => simp [visitFrom, visitStep_unknown cfg a v hk, h]

theorem fieldOf_ext : fieldOf (sb "ext") = none := by decide

theorem visit_ignores_unknown_refuted : ¬ VisitIgnoresUnknown Cfg.pinned := by
  intro h
  have h1 := h [(sb "kty", .str (sb "OKP"))] [] (sb "ext") .bool fieldOf_ext
  rw [visit_unknown_fails rfl _ _ _ _ fieldOf_ext] at h1
  revert h1
  decide



/-! ## raw byte import never panics — except where it does -/

def BytesImportTotal (cfg : Cfg) : Prop :=
  ∀ (P : Prims) (alg : Alg) (b : Bytes), (fromSecretBytes cfg P alg b).isPanic = false ∧ (fromPublicBytes P alg b).isPanic = false

theorem decodePublic_no_panic (P : Prims) (alg : Alg) (b : Bytes) (s : String) : decodePublic P alg b ≠ .panic s := by
  unfold decodePublic
  cases alg <;> simp only [] <;> (repeat' split) <;> simp

theorem fromPublicBytes_no_panic (P : Prims) (alg : Alg) (b : Bytes) : (fromPublicBytes P alg b).isPanic = false := by
  unfold fromPublicBytes
  cases h : decodePublic P alg b with
  | ok p => rfl
  | err e => rfl
  | panic s => exact absurd h (decodePublic_no_panic P alg b s)

theorem fromSecretBytes_no_panic_of (cfg : Cfg) (P : Prims) (alg : Alg) (b : Bytes)
    (h : alg.isEc = false ∨ b.length = alg.secretLen ∨ cfg.ecLenCheck = true) : (fromSecretBytes cfg P alg b).isPanic = false := by
  unfold fromSecretBytes
  (repeat' split) <;> simp_all [Res.isPanic]

theorem bytes_import_total_of_lenCheck {cfg : Cfg} (h : cfg.ecLenCheck = true) : BytesImportTotal cfg :=
  fun P alg b => ⟨fromSecretBytes_no_panic_of cfg P alg b (Or.inr (Or.inr h)), fromPublicBytes_no_panic P alg b⟩

/-- the witness: one byte offered as a P-256 secret key -/
theorem bytes_import_total_refuted : ¬ BytesImportTotal Cfg.pinned := by
  intro h
  have := (h ⟨fun _ _ => none, fun _ _ _ => none, fun _ _ => none⟩ .p256 [0]).1
  revert this
  decide

/-- the panic happens for exactly these inputs -/
theorem fromSecretBytes_panic_iff (P : Prims) (alg : Alg) (b : Bytes) :
    (fromSecretBytes Cfg.pinned P alg b).isPanic = true ↔ (alg.isEc = true ∧ b.length ≠ alg.secretLen) := by
  have hx : alg.isEc = true → alg.isSymmetric = false := by cases alg <;> simp [Alg.isEc, Alg.isSymmetric]
  unfold fromSecretBytes
  by_cases he : alg.isEc = true
  · have hs := hx he
    by_cases hl : b.length = alg.secretLen
    · cases hp : P.pubOf alg b <;> simp [hs, he, hl, Res.isPanic]
    · simp [hs, he, hl, Cfg.pinned, Res.isPanic]
  · have he' : alg.isEc = false := by simpa using he
    simp only [he', Bool.false_eq_true, if_false]
    (repeat' split) <;> simp [Res.isPanic]

theorem decodeExact_length {attr : Option Bytes} {n : Nat} {b : Bytes} (h : decodeExact attr n = .ok b) : b.length = n := by
  unfold decodeExact at h
  split at h
  · split at h
    · cases h
    · rename_i hl; cases h; simpa using hl
  · cases h
  · cases h

theorem bind_no_panic {α β} {r : Res α} {f : α → Res β} (hr : r.isPanic = false)
    (hf : ∀ a, r = .ok a → (f a).isPanic = false) : (r >>= f).isPanic = false := by
  cases r with
  | ok a => exact hf a rfl
  | err e => rfl
  | panic s => cases hr

theorem decodeBase64_no_panic (attr : Option Bytes) (n : Nat) (s : String) : decodeBase64 attr n ≠ .panic s := by
  unfold decodeBase64
  (repeat' split) <;> simp

theorem decodeExact_no_panic (attr : Option Bytes) (n : Nat) : (decodeExact attr n).isPanic = false := by
  unfold decodeExact
  cases h : decodeBase64 attr n with
  | ok b => simp only []; split <;> rfl
  | err e => rfl
  | panic s => exact absurd h (decodeBase64_no_panic attr n s)

theorem checkPublic_no_panic (k : Key) (pk : Bytes) : (checkPublic k pk).isPanic = false := by
  unfold checkPublic; split <;> rfl

/-- JWK import cannot reach the panicking conversion: `d` is decoded into exactly `secretLen` bytes first -/
theorem fromJwkParts_no_panic (cfg : Cfg) (P : Prims) (alg : Alg) (j : Parts) : (fromJwkParts cfg P alg j).isPanic = false := by
  unfold fromJwkParts
  split
  · -- EC
    split; · rfl
    split; · rfl
    refine bind_no_panic (decodeExact_no_panic _ _) fun x _ => ?_
    refine bind_no_panic (decodeExact_no_panic _ _) fun y _ => ?_
    split
    · rfl
    · split
      · refine bind_no_panic (decodeExact_no_panic _ _) fun d hd => ?_
        refine bind_no_panic (fromSecretBytes_no_panic_of cfg P alg d (Or.inr (Or.inl (decodeExact_length hd)))) fun kp _ => ?_
        split <;> rfl
      · rfl
  · split
    · -- BLS
      split; · rfl
      split; · rfl
      refine bind_no_panic (decodeExact_no_panic _ _) fun x _ => ?_
      split
      · refine bind_no_panic (decodeExact_no_panic _ _) fun d hd => ?_
        refine bind_no_panic (fromSecretBytes_no_panic_of cfg P alg d (Or.inl (by simp_all))) fun kp _ => ?_
        exact checkPublic_no_panic _ _
      · exact fromPublicBytes_no_panic _ _ _
    · split
      · split; · rfl
        split; · rfl
        refine bind_no_panic (decodeExact_no_panic _ _) fun x _ => ?_
        split
        · refine bind_no_panic (decodeExact_no_panic _ _) fun d hd => ?_
          refine bind_no_panic (fromSecretBytes_no_panic_of cfg P alg d (Or.inl (by simp_all))) fun kp _ => ?_
          exact checkPublic_no_panic _ _
        · exact fromPublicBytes_no_panic _ _ _
      · rfl

theorem fromJwkAny_no_panic (cfg : Cfg) (P : Prims) (j : Parts) : (fromJwkAny cfg P j).isPanic = false := by
  unfold fromJwkAny
  split
  · exact fromJwkParts_no_panic _ _ _ _
  · rfl

theorem fromJwk_no_panic (cfg : Cfg) (P : Prims) (text : Bytes) : (fromJwk cfg P text).isPanic = false := by
  unfold fromJwk
  split
  · exact fromJwkAny_no_panic _ _ _
  · rfl



/-! ## exports -/

/-- a public-mode export has no member named `d` or `k` -/
theorem public_export_names (k : Key) (a : Option Alg) (ms : List Member) (h : encodeJwk k .publicKey a = .ok ms) :
    ∀ m ∈ ms, m.1 ≠ "d" ∧ m.1 ≠ "k" := by
  by_cases hs : k.alg.isSymmetric = true <;> by_cases he : k.alg.isEc = true <;> by_cases hb : k.alg.isBls = true <;>
    simp [encodeJwk, hs, he, hb] at h <;> subst h <;> simp

/-- a public-mode export does not depend on the secret at all -/
theorem public_export_independent_of_secret (k : Key) (a : Option Alg) (s' : Option Bytes) :
    encodeJwk { k with secret := s' } .publicKey a = encodeJwk k .publicKey a := by
  unfold encodeJwk blsView
  simp

/-- symmetric keys have no public export -/
theorem public_export_symmetric (k : Key) (a : Option Alg) (h : k.alg.isSymmetric = true) :
    encodeJwk k .publicKey a = .err .unsupported := by
  unfold encodeJwk; simp [h]

theorem toPublicBytes_independent_of_secret (k : Key) (s' : Option Bytes) :
    toPublicBytes { k with secret := s' } = toPublicBytes k := rfl

/-- the hashed text consists of exactly the RFC 7638 required members of the key type, in that (lexicographic) order -/
theorem thumbprint_member_names (k : Key) (a : Option Alg) (ms : List Member) (h : encodeJwk k .thumbprint a = .ok ms) :
    ms.map (·.1) = rfc7638Members k.alg.jwkKty := by
  by_cases hs : k.alg.isSymmetric = true <;> by_cases he : k.alg.isEc = true <;> by_cases hb : k.alg.isBls = true <;>
    simp [encodeJwk, hs, he, hb] at h <;> subst h <;> simp [Alg.jwkKty, hs, he, rfc7638Members]

/-- … the `kty` member carries the key type … -/
theorem thumbprint_kty (k : Key) (a : Option Alg) (ms : List Member) (h : encodeJwk k .thumbprint a = .ok ms) :
    ("kty", sb k.alg.jwkKty) ∈ ms := by
  by_cases hs : k.alg.isSymmetric = true <;> by_cases he : k.alg.isEc = true <;> by_cases hb : k.alg.isBls = true <;>
    simp [encodeJwk, hs, he, hb] at h <;> subst h <;> simp [Alg.jwkKty, hs, he]

/-- … and every hashed member is, name and value, a member of the full export of the same key (same `alg` view) -/
theorem thumbprint_members_of_export (k : Key) (a : Option Alg) (ms : List Member) (h : encodeJwk k .thumbprint a = .ok ms) :
    ∃ full, encodeJwk k .secretKey a = .ok full ∧ ∀ m ∈ ms, m ∈ full := by
  by_cases hs : k.alg.isSymmetric = true <;> by_cases he : k.alg.isEc = true <;> by_cases hb : k.alg.isBls = true <;>
    simp [encodeJwk, hs, he, hb] at h ⊢ <;> subst h <;> simp <;> grind

/-- the required member lists are in lexicographic order, and the rendering adds no whitespace -/
theorem rfc7638_sorted : ∀ kty ∈ ["EC", "OKP", "oct"], (rfc7638Members kty).Pairwise (· < ·) := by decide

theorem render_example :
    renderMembers [("crv", sb "Ed25519"), ("kty", sb "OKP"), ("x", sb "AA")] = sb "{\"crv\":\"Ed25519\",\"kty\":\"OKP\",\"x\":\"AA\"}" := by decide



/-! ## member order -/

/-- what one member does to the visitor's variables -/
inductive Upd
  | set (f : Field) (s : Bytes)
  | use (s : Bytes)
  | ops (o : Nat)
  | nop

def Upd.apply : Upd → Acc → Acc
  | .set .kty s, a => { a with kty := some s }
  | .set .kid s, a => { a with kid := some s }
  | .set .alg s, a => { a with alg := some s }
  | .set .crv s, a => { a with crv := some s }
  | .set .x s, a => { a with x := some s }
  | .set .y s, a => { a with y := some s }
  | .set .d s, a => { a with d := some s }
  | .set .k s, a => { a with k := some s }
  | .set .use _, a => a
  | .set .keyOps _, a => a
  | .use s, a => a.setUse s
  | .ops o, a => { a with keyOps := some o }
  | .nop, a => a

def effect (cfg : Cfg) (m : Bytes × JVal) : Option Upd :=
  match fieldOf m.1, m.2 with
  | some .use, .str s => some (.use s)
  | some .use, _ => none
  | some .keyOps, .strArr xs => (opsOf xs 0).map .ops
  | some .keyOps, _ => none
  | some f, .str s => some (.set f s)
  | some _, _ => none
  | none, _ => if cfg.consumeUnknown then some .nop else none

theorem visitStep_eq (cfg : Cfg) (a : Acc) (m : Bytes × JVal) : visitStep cfg a m = (effect cfg m).map (·.apply a) := by
  rcases m with ⟨k, v⟩
  cases hf : fieldOf k with
  | none => simp only [visitStep, effect, hf]; split <;> rfl
  | some f =>
    cases f <;> cases v <;> simp [visitStep, effect, hf, Upd.apply] <;> (cases opsOf _ 0 <;> rfl)


def Acc.core (a : Acc) : Acc := { a with keyOps := none }
def Parts.core (p : Parts) : Parts := { p with keyOps := none }

theorem core_apply (u : Upd) (a : Acc) : (u.apply a).core = (u.apply a.core).core := by
  cases u with
  | set f s => cases f <;> rfl
  | use s => simp only [Upd.apply, Acc.setUse]; split <;> rfl
  | ops o => rfl
  | nop => rfl

theorem apply_comm_core (u₁ u₂ : Upd) (a : Acc) (h : ∀ f s₁ s₂, u₁ = .set f s₁ → u₂ = .set f s₂ → s₁ = s₂) :
    (u₂.apply (u₁.apply a)).core = (u₁.apply (u₂.apply a)).core := by
  cases u₁ with
  | set f₁ s₁ =>
    cases u₂ with
    | set f₂ s₂ =>
      cases f₁ <;> cases f₂ <;> first | rfl | (have := h _ _ _ rfl rfl; subst this; rfl)
    | use s => cases f₁ <;> (simp only [Upd.apply, Acc.setUse] <;> split <;> rfl)
    | ops o => cases f₁ <;> rfl
    | nop => rfl
  | use s =>
    cases u₂ with
    | set f₂ s₂ => cases f₂ <;> (simp only [Upd.apply, Acc.setUse] <;> split <;> rfl)
    | use s' => simp only [Upd.apply, Acc.setUse]; (repeat' split) <;> rfl
    | ops o => simp only [Upd.apply, Acc.setUse]; split <;> rfl
    | nop => rfl
  | ops o =>
    cases u₂ with
    | set f₂ s₂ => cases f₂ <;> rfl
    | use s' => simp only [Upd.apply, Acc.setUse]; split <;> rfl
    | ops o' => rfl
    | nop => rfl
  | nop => rfl


def Field.name : Field → Bytes
  | .kty => sb "kty" | .kid => sb "kid" | .alg => sb "alg" | .crv => sb "crv" | .x => sb "x" | .y => sb "y"
  | .d => sb "d" | .k => sb "k" | .use => sb "use" | .keyOps => sb "key_ops"

theorem fieldOf_name {k : Bytes} {f : Field} (h : fieldOf k = some f) : k = f.name := by
  unfold fieldOf at h
  (repeat' split at h) <;> first | (cases h; assumption) | cases h

theorem effect_set {cfg : Cfg} {m : Bytes × JVal} {f : Field} {s : Bytes} (h : effect cfg m = some (.set f s)) :
    m.1 = f.name := by
  rcases m with ⟨k, v⟩
  apply fieldOf_name
  cases hf : fieldOf k with
  | none => simp only [effect, hf] at h; split at h <;> cases h
  | some f' =>
    cases f' <;> cases v <;> simp [effect, hf] at h <;> first | (exact congrArg _ h.1) | (cases h' : opsOf _ 0 <;> simp [h'] at h)

/-- one loop turn on the variables with `key_ops` erased -/
def stepC (cfg : Cfg) (o : Option Acc) (m : Bytes × JVal) : Option Acc :=
  match o, effect cfg m with
  | some a, some u => some (u.apply a).core
  | _, _ => none

theorem foldl_stepC_none (cfg : Cfg) (ms : List (Bytes × JVal)) : ms.foldl (stepC cfg) none = none := by
  induction ms with
  | nil => rfl
  | cons m ms ih => simpa [List.foldl, stepC] using ih

theorem visitFrom_core (cfg : Cfg) (a : Acc) (ms : List (Bytes × JVal)) :
    (visitFrom cfg a ms).map Acc.core = ms.foldl (stepC cfg) (some a.core) := by
  induction ms generalizing a with
  | nil => rfl
  | cons m ms ih =>
    simp only [visitFrom, List.foldl, visitStep_eq]
    cases he : effect cfg m with
    | none => simp [stepC, he, foldl_stepC_none]
    | some u => simp only [Option.map_some, stepC, he, ih, ← core_apply]

theorem stepC_comm (cfg : Cfg) (o : Option Acc) (x y : Bytes × JVal) (h : x = y ∨ x.1 ≠ y.1) :
    stepC cfg (stepC cfg o x) y = stepC cfg (stepC cfg o y) x := by
  rcases h with rfl | hne
  · rfl
  · cases o with
    | none => simp [stepC]
    | some a =>
      cases hx : effect cfg x with
      | none => cases hy : effect cfg y <;> simp [stepC, hx, hy]
      | some u₁ =>
        cases hy : effect cfg y with
        | none => simp [stepC, hx, hy]
        | some u₂ =>
          simp only [stepC, hx, hy, ← core_apply]
          congr 1
          apply apply_comm_core
          intro f s₁ s₂ e₁ e₂
          subst e₁ e₂
          exact absurd ((effect_set hx).trans (effect_set hy).symm) hne

theorem nodup_keys_inj {ms : List (Bytes × JVal)} (hn : (ms.map (·.1)).Nodup) {x y : Bytes × JVal} (hx : x ∈ ms) (hy : y ∈ ms) :
    x = y ∨ x.1 ≠ y.1 := by
  induction ms with
  | nil => cases hx
  | cons m ms ih =>
    simp only [List.map_cons, List.nodup_cons, List.mem_map, not_exists, not_and] at hn
    rcases List.mem_cons.mp hx with rfl | hx' <;> rcases List.mem_cons.mp hy with rfl | hy'
    · exact Or.inl rfl
    · exact Or.inr fun e => hn.1 y hy' e.symm
    · exact Or.inr fun e => hn.1 x hx' e
    · exact ih hn.2 hx' hy'

theorem Acc.finish_core (a : Acc) : a.finish.map Parts.core = a.core.finish := by
  unfold Acc.finish Acc.core
  cases a.kty <;> rfl

theorem visit_core (cfg : Cfg) (ms : List (Bytes × JVal)) :
    (visit cfg ms).map Parts.core = ((visitFrom cfg {} ms).map Acc.core).bind Acc.finish := by
  unfold visit
  cases visitFrom cfg {} ms with
  | none => rfl
  | some a => simpa using Acc.finish_core a

/-- permuting the members of a JWK whose member names are distinct changes nothing but (possibly) the `key_ops` set -/
theorem visit_order_independent_core (cfg : Cfg) {ms ms' : List (Bytes × JVal)} (hp : ms.Perm ms')
    (hn : (ms.map (·.1)).Nodup) : (visit cfg ms).map Parts.core = (visit cfg ms').map Parts.core := by
  rw [visit_core, visit_core, visitFrom_core, visitFrom_core]
  rw [List.Perm.foldl_eq' hp (fun x hx y hy z => stepC_comm cfg z x y (nodup_keys_inj hn hx hy))]

/-- import never looks at `key_ops` -/
theorem fromJwkAny_core (cfg : Cfg) (P : Prims) (p : Parts) : fromJwkAny cfg P p.core = fromJwkAny cfg P p := rfl

/-- so the imported key (or the error) does not depend on the member order -/
theorem import_order_independent (cfg : Cfg) (P : Prims) {ms ms' : List (Bytes × JVal)} (hp : ms.Perm ms')
    (hn : (ms.map (·.1)).Nodup) : fromMembers cfg P ms = fromMembers cfg P ms' := by
  have h := visit_order_independent_core cfg hp hn
  unfold fromMembers
  cases h1 : visit cfg ms with
  | none =>
    cases h2 : visit cfg ms' with
    | none => rfl
    | some p' => simp [h1, h2] at h
  | some p =>
    cases h2 : visit cfg ms' with
    | none => simp [h1, h2] at h
    | some p' =>
      simp only [h1, h2, Option.map_some, Option.some.injEq] at h
      show fromJwkAny cfg P p = fromJwkAny cfg P p'
      rw [← fromJwkAny_core cfg P p, ← fromJwkAny_core cfg P p', h]

/-- the full statement (with `key_ops`) is false: `use` merges into an earlier `key_ops` but is overwritten by a later one -/
def VisitOrderIndependent (cfg : Cfg) : Prop :=
  ∀ ms ms' : List (Bytes × JVal), ms.Perm ms' → (ms.map (·.1)).Nodup → visit cfg ms = visit cfg ms'

theorem visit_order_independent_refuted (cfg : Cfg) : ¬ VisitOrderIndependent cfg := by
  intro h
  have := h [(sb "kty", .str (sb "OKP")), (sb "use", .str (sb "sig")), (sb "key_ops", .strArr [sb "encrypt"])]
    [(sb "kty", .str (sb "OKP")), (sb "key_ops", .strArr [sb "encrypt"]), (sb "use", .str (sb "sig"))]
    (List.Perm.cons _ (List.Perm.swap _ _ _)) (by decide)
  revert this
  cases cfg with
  | mk c e => cases c <;> cases e <;> decide



/-! ## accepted keys are the keys that were encoded -/

/-- importing secret bytes yields a key of that algorithm whose secret export is the input: never a different key -/
theorem secret_bytes_roundtrip {cfg : Cfg} {P : Prims} {alg : Alg} {b : Bytes} {k : Key}
    (h : fromSecretBytes cfg P alg b = .ok k) : k.alg = alg ∧ toSecretBytes k = .ok b ∧ b.length = alg.secretLen := by
  unfold fromSecretBytes at h
  (repeat' split at h) <;> first | (cases h; simp_all [toSecretBytes]) | cases h

/-- … and importing the exported secret again gives the same key -/
theorem secret_bytes_reimport {cfg : Cfg} {P : Prims} {alg : Alg} {b : Bytes} {k : Key}
    (h : fromSecretBytes cfg P alg b = .ok k) :
    ∃ s, toSecretBytes k = .ok s ∧ fromSecretBytes cfg P k.alg s = .ok k := by
  obtain ⟨ha, hs, _⟩ := secret_bytes_roundtrip h
  exact ⟨b, hs, by rw [ha]; exact h⟩

/-- a key pair is consistent when its public part is the public key of its secret -/
def Key.Consistent (P : Prims) (k : Key) : Prop :=
  ∀ d, k.secret = some d → k.alg.isSymmetric = false → P.pubOf k.alg d = some k.pub

theorem fromSecretBytes_consistent {cfg : Cfg} {P : Prims} {alg : Alg} {b : Bytes} {k : Key}
    (h : fromSecretBytes cfg P alg b = .ok k) : k.Consistent P := by
  unfold fromSecretBytes at h
  intro d hd hs
  (repeat' split at h) <;> first | (cases h; simp_all) | cases h

theorem fromPublicBytes_public_only {P : Prims} {alg : Alg} {b : Bytes} {k : Key}
    (h : fromPublicBytes P alg b = .ok k) : k.secret = none ∧ k.alg = alg := by
  unfold fromPublicBytes at h
  split at h <;> first | (cases h; exact ⟨rfl, rfl⟩) | cases h


theorem bind_ok_inv {α β} {r : Res α} {f : α → Res β} {b : β} (h : (r >>= f) = .ok b) : ∃ a, r = .ok a ∧ f a = .ok b := by
  cases r with
  | ok a => exact ⟨a, rfl, h⟩
  | err e => cases h
  | panic s => cases h

theorem checkPublic_ok {k k' : Key} {pk : Bytes} (h : checkPublic k pk = .ok k') : k' = k ∧ k.pub = pk := by
  unfold checkPublic at h
  split at h
  · cases h; exact ⟨rfl, by assumption⟩
  · cases h

/-- what an accepted JWK guarantees: with `d`, the key is the pair (d, public key of d) and the encoded public members are
    that public key (so a mismatched `d`/`x`/`y` is never accepted); without `d` the key has no secret.
    For the Weierstrass curves the point was checked to be on the curve (`fromAffine` succeeded). -/
theorem import_checks {cfg : Cfg} {P : Prims} {alg : Alg} {j : Parts} {k : Key} (h : fromJwkParts cfg P alg j = .ok k) :
    k.Consistent P ∧
    (j.d = none → k.secret = none) ∧
    (j.d.isSome → ∃ d, decodeExact j.d alg.secretLen = .ok d ∧ k.secret = some d) ∧
    (alg.isEc = true → ∃ x y, decodeExact j.x alg.secretLen = .ok x ∧ decodeExact j.y alg.secretLen = .ok y ∧
        P.fromAffine alg x y = some k.pub) ∧
    (alg.isEc = false → j.d.isSome → decodeExact j.x alg.pubLen = .ok k.pub) := by
  unfold fromJwkParts at h
  split at h
  · -- EC
    rename_i hec
    split at h; · cases h
    split at h; · cases h
    obtain ⟨x, hx, h⟩ := bind_ok_inv h
    obtain ⟨y, hy, h⟩ := bind_ok_inv h
    split at h
    · cases h
    · rename_i pk hpk
      split at h
      · rename_i hd
        obtain ⟨d, hdd, h⟩ := bind_ok_inv h
        obtain ⟨kp, hkp, h⟩ := bind_ok_inv h
        split at h
        · cases h
        · rename_i heq
          cases h
          have heq' : k.pub = pk := by simpa using heq
          obtain ⟨_, hs, _⟩ := secret_bytes_roundtrip hkp
          refine ⟨fromSecretBytes_consistent hkp, ?_, ?_, ?_, ?_⟩
          · intro hn; simp [hn] at hd
          · intro _; refine ⟨d, hdd, ?_⟩
            unfold toSecretBytes at hs; split at hs <;> simp_all
          · intro _; exact ⟨x, y, hx, hy, heq' ▸ hpk⟩
          · intro hne; simp [hec] at hne
      · rename_i hd
        cases h
        refine ⟨?_, ?_, ?_, ?_, ?_⟩
        · intro d hd'; cases hd'
        · intro _; rfl
        · intro hs; exact absurd hs hd
        · intro _; exact ⟨x, y, hx, hy, hpk⟩
        · intro hne; simp [hec] at hne
  · rename_i hec
    have hec' : alg.isEc = false := by simpa using hec
    have hpl : alg = .ed25519 ∨ alg = .x25519 → alg.pubLen = 32 := by rintro (rfl | rfl) <;> rfl
    have hsl : alg.isEc = false → alg.secretLen = 32 ∨ alg.isSymmetric = true := by cases alg <;> simp [Alg.isEc, Alg.secretLen, Alg.isSymmetric]
    split at h
    · -- BLS
      rename_i hbls
      have h32 : alg.secretLen = 32 := by cases alg <;> simp_all [Alg.isBls, Alg.secretLen]
      split at h; · cases h
      split at h; · cases h
      obtain ⟨x, hx, h⟩ := bind_ok_inv h
      split at h
      · rename_i hd
        obtain ⟨d, hdd, h⟩ := bind_ok_inv h
        obtain ⟨kp, hkp, h⟩ := bind_ok_inv h
        obtain ⟨rfl, hpub⟩ := checkPublic_ok h
        obtain ⟨_, hs, _⟩ := secret_bytes_roundtrip hkp
        refine ⟨fromSecretBytes_consistent hkp, ?_, ?_, ?_, ?_⟩
        · intro hn; simp [hn] at hd
        · intro _; refine ⟨d, h32 ▸ hdd, ?_⟩
          unfold toSecretBytes at hs; split at hs <;> simp_all
        · intro he; simp [hec'] at he
        · intro _ _; rw [hpub]; exact hx
      · rename_i hd
        obtain ⟨hsn, _⟩ := fromPublicBytes_public_only h
        refine ⟨?_, ?_, ?_, ?_, ?_⟩
        · intro d hd'; simp [hsn] at hd'
        · intro _; exact hsn
        · intro hs; exact absurd hs hd
        · intro he; simp [hec'] at he
        · intro _ hs; exact absurd hs hd
    · split at h
      · rename_i halg
        have h32 : alg.secretLen = 32 := by rcases halg with rfl | rfl <;> rfl
        have hp32 := hpl halg
        split at h; · cases h
        split at h; · cases h
        obtain ⟨x, hx, h⟩ := bind_ok_inv h
        split at h
        · rename_i hd
          obtain ⟨d, hdd, h⟩ := bind_ok_inv h
          obtain ⟨kp, hkp, h⟩ := bind_ok_inv h
          obtain ⟨rfl, hpub⟩ := checkPublic_ok h
          obtain ⟨_, hs, _⟩ := secret_bytes_roundtrip hkp
          refine ⟨fromSecretBytes_consistent hkp, ?_, ?_, ?_, ?_⟩
          · intro hn; simp [hn] at hd
          · intro _; refine ⟨d, h32 ▸ hdd, ?_⟩
            unfold toSecretBytes at hs; split at hs <;> simp_all
          · intro he; simp [hec'] at he
          · intro _ _; rw [hpub, hp32]; exact hx
        · rename_i hd
          obtain ⟨hsn, _⟩ := fromPublicBytes_public_only h
          refine ⟨?_, ?_, ?_, ?_, ?_⟩
          · intro d hd'; simp [hsn] at hd'
          · intro _; exact hsn
          · intro hs; exact absurd hs hd
          · intro he; simp [hec'] at he
          · intro _ hs; exact absurd hs hd
      · cases h


/- OPEN: jwk_roundtrip — for every key `k` produced by an import (`Key.Consistent`, lengths as in `Alg.secretLen` / `Alg.pubLen`)
   and every asymmetric algorithm, `fromJwk cfg P (toJwk k .secretKey none) = .ok k` and
   `fromJwk cfg P (toJwk k .publicKey none) = .ok {k with secret := none}`, under the curve laws
   `P.fromAffine alg (pub.take n) (pub.drop n) = some pub` for `pub` in the image of `P.pubOf` and
   `P.decodePub alg p = some p` for canonical encodings.  The ingredients are proved (`b64_roundtrip`, `import_checks`,
   `secret_bytes_roundtrip`); what is missing is the parser-correctness lemma `parseJwk cfg (renderMembers ms) = visit cfg ms'`
   for the encoder's output (no whitespace, no escapes).  The statement is exercised by the harness oracle
   (`jwk_roundtrip:*` signatures) on every generated key instead.  For symmetric keys the statement is false (D15):
   `selectAlg` has no `oct` branch — see `oct_import_unsupported`. -/

/-- D15, as a theorem about the model: no JWK with `kty = "oct"` can be imported, whatever else it contains -/
theorem oct_import_unsupported (cfg : Cfg) (P : Prims) (j : Parts) (h : j.kty = sb "oct") : fromJwkAny cfg P j = .err .unsupported := by
  have : selectAlg j = none := by
    unfold selectAlg
    simp only [h]
    have h1 : (sb "oct" = sb "OKP") = False := by simp; decide
    have h2 : (sb "oct" = sb "EC") = False := by simp; decide
    simp [h1, h2]
  simp [fromJwkAny, this]

end Askar.Jwk
