/-
Helper lemmas for C01 (refinement of the in-memory map `Spec.step` by the store model) and
C07 (profile isolation, key cache coherence).  The property theorems of Props/C01.lean and
Props/C07.lean refer to the lemmas of the same name in namespace `Askar.Store.Lemmas`.
-/
import AskarModel.Model.Spec
import AskarModel.Lemmas.Store

namespace Askar.Store
open Askar.Wql

namespace Lemmas

/-! ### generic list facts -/

theorem filter_map_of_fix {α} (p : α → Bool) (f : α → α) (l : List α)
    (h1 : ∀ x, p (f x) = p x) (h2 : ∀ x, p x = true → f x = x) : (l.map f).filter p = l.filter p := by
  induction l with
  | nil => rfl
  | cons x l ih =>
    simp only [List.map_cons, List.filter_cons, h1, ih]
    split
    · rename_i hx; rw [h2 x hx]
    · rfl

theorem window_map {α β} (f : α → β) (off lim : Option Int) (l : List α) :
    window off lim (l.map f) = (window off lim l).map f := by
  unfold window
  split
  · rfl
  · simp only []
    split
    · simp [List.map_drop]
    · simp [List.map_drop, List.map_take]

theorem mem_of_mem_window {α} (off lim : Option Int) (l : List α) (x : α) (h : x ∈ window off lim l) : x ∈ l := by
  unfold window at h
  split at h
  · exact h
  · simp only [] at h
    split at h
    · exact List.mem_of_mem_drop h
    · exact List.mem_of_mem_drop (List.mem_of_mem_take h)

/-! ### key cache (association list) -/

theorem cacheGet_cachePut_self (c : List (String × Nat × Nat)) (name : String) (v : Nat × Nat) :
    cacheGet (cachePut c name v) name = some v := by
  simp [cacheGet, cachePut]

theorem cacheGet_filter_ne (c : List (String × Nat × Nat)) (name name' : String) (h : name' ≠ name) :
    cacheGet (c.filter (·.1 != name)) name' = cacheGet c name' := by
  unfold cacheGet
  congr 1
  induction c with
  | nil => rfl
  | cons x c ih =>
    by_cases hx : x.1 = name
    · have h2 : ¬ x.1 = name' := fun h' => h (h'.symm.trans hx)
      simp only [List.filter_cons, hx, bne_self_eq_false, Bool.false_eq_true, if_false]
      rw [List.find?_cons_of_neg (by simpa [hx] using fun h' : name = name' => h h'.symm)]
      simpa [hx] using ih
    · by_cases hy : x.1 = name'
      · simp [hy, h]
      · simp only [List.filter_cons, bne_iff_ne, ne_eq, hx, not_false_eq_true, if_true]
        rw [List.find?_cons_of_neg (by simpa using hy), List.find?_cons_of_neg (by simpa using hy)]
        exact ih

theorem cacheGet_filter_self (c : List (String × Nat × Nat)) (name : String) :
    cacheGet (c.filter (·.1 != name)) name = none := by
  simp [cacheGet, List.find?_eq_none]

theorem cacheGet_cachePut_ne (c : List (String × Nat × Nat)) (name name' : String) (v : Nat × Nat) (h : name' ≠ name) :
    cacheGet (cachePut c name v) name' = cacheGet c name' := by
  have := cacheGet_filter_ne c name name' h
  unfold cacheGet at this ⊢
  unfold cachePut
  rw [List.find?_cons_of_neg (by simp; exact fun h' => h h'.symm)]
  exact this

/-! ### C07: profiles -/

theorem remove_profile_exact (db : Db) (h : Handle) (name : String) (p : Profile)
    (hp : db.profiles.find? (·.name == name) = some p) :
    ((removeProfile db h name true).1.1).items = db.items.filter (·.pid != p.id) ∧
    ((removeProfile db h name true).1.1).profiles = db.profiles.filter (·.name != name) ∧
    (removeProfile db h name true).2 = true := by
  simp [removeProfile, hp]

theorem removed_profile_not_found (db : Db) (h : Handle) (name : String) :
    resolve (removeProfile db h name true).1.1 (removeProfile db h name true).1.2 name = .error .notFound := by
  unfold removeProfile
  cases hf : db.profiles.find? (·.name == name) with
  | none =>
    simp only [resolve, if_true, cacheGet_filter_self, hf]
  | some p =>
    simp only [resolve, if_true, cacheGet_filter_self]
    have : (db.profiles.filter (·.name != name)).find? (·.name == name) = none := by
      simp [List.find?_eq_none]
    simp [this]

theorem cache_coherent_create (db : Db) (h : Handle) (name : String) (db' : Db) (h' : Handle)
    (hc : CacheCoherent db h) (hw : ProfilesWF db) (hr : createProfile db h name = .ok (db', h')) :
    CacheCoherent db' h' ∧ ProfilesWF db' := by
  unfold createProfile at hr
  split at hr
  · cases hr
  · rename_i hany
    injection hr with hr
    injection hr with h1 h2
    subst h1; subst h2
    constructor
    · intro name' pid key hg
      simp only at hg ⊢
      by_cases hn : name' = name
      · subst hn
        rw [cacheGet_cachePut_self] at hg
        injection hg with hg
        injection hg with h1 h2
        subst h1; subst h2
        simp
      · rw [cacheGet_cachePut_ne _ _ _ _ hn] at hg
        exact List.mem_append_left _ (hc name' pid key hg)
    · unfold ProfilesWF at *
      simp only [List.pairwise_append, hw, true_and]
      refine ⟨by simp, ?_⟩
      intro a ha b hb
      simp only [List.mem_singleton] at hb
      subst hb
      simp only [ne_eq]
      constructor
      · intro he
        apply hany
        simp only [List.any_eq_true]
        exact ⟨a, ha, by simp [he]⟩
      · have := lt_nextId (db.profiles.map (·.id)) a.id (List.mem_map_of_mem ha)
        omega

theorem cache_coherent_remove (db : Db) (h : Handle) (name : String) (hc : CacheCoherent db h) (hw : ProfilesWF db) :
    CacheCoherent (removeProfile db h name true).1.1 (removeProfile db h name true).1.2 ∧
    ProfilesWF (removeProfile db h name true).1.1 := by
  unfold removeProfile
  cases hf : db.profiles.find? (·.name == name) with
  | none =>
    simp only [if_true]
    refine ⟨?_, hw⟩
    intro name' pid key hg
    simp only at hg
    by_cases hn : name' = name
    · subst hn
      rw [cacheGet_filter_self] at hg
      cases hg
    · rw [cacheGet_filter_ne _ _ _ hn] at hg
      exact hc name' pid key hg
  | some p =>
    simp only [if_true]
    constructor
    · intro name' pid key hg
      simp only at hg ⊢
      by_cases hn : name' = name
      · subst hn
        rw [cacheGet_filter_self] at hg
        cases hg
      · rw [cacheGet_filter_ne _ _ _ hn] at hg
        have := hc name' pid key hg
        simp [List.mem_filter, this, hn]
    · unfold ProfilesWF at *
      exact hw.sublist List.filter_sublist

theorem cache_coherent_resolve (db : Db) (h : Handle) (name : String) (s : Sess) (h' : Handle)
    (hc : CacheCoherent db h) (hr : resolve db h name = .ok (s, h')) :
    CacheCoherent db h' ∧ (⟨s.pid, name, s.key⟩ : Profile) ∈ db.profiles := by
  unfold resolve at hr
  cases hg : cacheGet h.cache name with
  | some v =>
    obtain ⟨pid, key⟩ := v
    simp only [hg] at hr
    injection hr with hr
    injection hr with h1 h2
    subst h1; subst h2
    exact ⟨hc, hc name pid key hg⟩
  | none =>
    simp only [hg] at hr
    cases hf : db.profiles.find? (·.name == name) with
    | none => simp [hf] at hr
    | some p =>
      simp only [hf] at hr
      injection hr with hr
      injection hr with h1 h2
      subst h1; subst h2
      have hmem := List.mem_of_find?_eq_some hf
      have hname : p.name = name := by simpa using List.find?_some hf
      have hp : (⟨p.id, name, p.key⟩ : Profile) = p := by cases p; simp at hname; simp [hname]
      refine ⟨?_, by simpa [hp] using hmem⟩
      intro name' pid key hg'
      simp only at hg'
      by_cases hn : name' = name
      · subst hn
        rw [cacheGet_cachePut_self] at hg'
        injection hg' with hg'
        injection hg' with h1 h2
        subst h1; subst h2
        rw [hp]; exact hmem
      · rw [cacheGet_cachePut_ne _ _ _ _ hn] at hg'
        exact hc name' pid key hg'

theorem created_profile_empty (db : Db) (h : Handle) (name : String) (db' : Db) (h' : Handle)
    (hfk : FkInv db) (hr : createProfile db h name = .ok (db', h')) (s : Sess) (h'' : Handle)
    (hres : resolve db' h' name = .ok (s, h'')) : abs s db' = [] := by
  unfold createProfile at hr
  split at hr
  · cases hr
  · injection hr with hr
    injection hr with h1 h2
    subst h1; subst h2
    simp only [resolve, cacheGet_cachePut_self] at hres
    injection hres with hres
    injection hres with h1 h2
    subst h1
    simp only [abs, List.map_eq_nil_iff, List.filter_eq_nil_iff]
    intro it hit
    obtain ⟨p, hp, hpid⟩ := hfk it hit
    have := lt_nextId (db.profiles.map (·.id)) p.id (List.mem_map_of_mem hp)
    simp only [beq_iff_eq]
    omega

theorem d7_witness_without_eviction :
    ∃ (s : Sess) (h : Handle) (db : Db),
      (do
        let (db1, h1) ← createProfile {} {} "P"
        let ((db2, h2), _) := removeProfile db1 h1 "P" false
        let (db3, h3) ← createProfile db2 h2 "Q"
        let (s, h4) ← resolve db3 h3 "P"
        pure (s, h4, db3) : Except Err (Sess × Handle × Db)) = .ok (s, h, db) ∧
      (⟨s.pid, "Q", 2⟩ : Profile) ∈ db.profiles ∧ s.key = 1 := by
  refine ⟨⟨1, 1⟩, { cache := [("Q", 1, 2), ("P", 1, 1)], nextKey := 3 },
    { items := [], profiles := [⟨1, "Q", 2⟩] }, ?_, ?_, rfl⟩
  · simp [createProfile, removeProfile, resolve, cacheGet, cachePut, nextId, bind, Except.bind, pure, Except.pure]
  · simp

/-! ### inversion of the write statements -/

theorem sameIdent_iff (it : Item) (pid key : Nat) (k : Kind) (c n : String) :
    it.sameIdent pid key k c n = true ↔ it.pid = pid ∧ it.key = key ∧ it.kind = k ∧ it.cat = c ∧ it.name = n := by
  simp [Item.sameIdent, and_assoc]

theorem doInsert_none (db : Db) (now : Int) (s : Sess) (k : Kind) (c n : String) (v : Bytes) (t : Option (List Tag)) :
    doInsert db now s k c n v t none =
      if db.items.any (·.sameIdent s.pid s.key k c n) then .error .duplicate
      else .ok { db with items := db.items ++
        [({ id := nextId (db.items.map (·.id)), pid := s.pid, key := s.key, kind := k,
            cat := c, name := n, value := v, tags := t.getD [], expiry := none } : Item)] } := rfl

theorem doReplace_none (db : Db) (now : Int) (s : Sess) (k : Kind) (c n : String) (v : Bytes) (t : Option (List Tag)) :
    doReplace db now s k c n v t none =
      if db.items.any (·.sameIdent s.pid s.key k c n) then
        .ok { db with items := db.items.map fun it =>
              if it.sameIdent s.pid s.key k c n then { it with value := v, tags := t.getD [], expiry := none } else it }
      else .error .notFound := rfl

theorem doReplace_ok' {db : Db} {now s k c n v t e db'} (h : doReplace db now s k c n v t e = .ok db') :
    ∃ exp, db' = { db with items := db.items.map fun it =>
              if it.sameIdent s.pid s.key k c n then { it with value := v, tags := Option.getD t [], expiry := exp } else it } := by
  simp only [doReplace] at h
  split at h
  · cases h
  · split at h
    · injection h with h; subst h; exact ⟨_, rfl⟩
    · cases h

/-! ### C07: frame -/

theorem step_frame (like : Bytes → Bytes → Bool) (page : Nat) (now : Int) (s : Sess) (db : Db) (op : Op) :
    (step like page now s db op).1.items.filter (·.pid != s.pid) = db.items.filter (·.pid != s.pid) ∧
    (step like page now s db op).1.profiles = db.profiles := by
  cases op with
  | insert k c n v t e =>
    simp only [step]
    split
    · rename_i db' heq
      obtain ⟨row, _, hpid, _, hitems, hprof⟩ := doInsert_ok heq
      simp [hitems, hprof, List.filter_append, hpid]
    · exact ⟨rfl, rfl⟩
  | replace k c n v t e =>
    simp only [step]
    split
    · rename_i db' heq
      obtain ⟨exp, rfl⟩ := doReplace_ok' heq
      refine ⟨?_, rfl⟩
      apply filter_map_of_fix
      · intro x; split <;> rfl
      · intro x hx
        split
        · rename_i hs
          have := ((sameIdent_iff _ _ _ _ _ _).1 hs).1
          simp [this] at hx
        · rfl
    · exact ⟨rfl, rfl⟩
  | remove k c n =>
    simp only [step]
    split
    · rename_i db' heq
      obtain ⟨hitems, hprof⟩ := doRemove_ok heq
      refine ⟨?_, hprof⟩
      rw [hitems, List.filter_filter]
      apply List.filter_congr
      intro x _
      cases hs : x.sameIdent s.pid s.key k c n
      · simp
      · have := ((sameIdent_iff _ _ _ _ _ _).1 hs).1
        simp [this]
    · exact ⟨rfl, rfl⟩
  | removeAll k c f =>
    simp only [step, doRemoveAll]
    refine ⟨?_, by trivial⟩
    rw [List.filter_filter]
    apply List.filter_congr
    intro x _
    by_cases hx : x.pid = s.pid
    · simp [hx]
    · simp [hx, Item.inScope]
  | fetch => exact ⟨rfl, rfl⟩
  | fetchAll => simp only [step]; split <;> exact ⟨rfl, rfl⟩
  | count => exact ⟨rfl, rfl⟩
  | scan => simp only [step]; split <;> exact ⟨rfl, rfl⟩

theorem step_other_abs (like : Bytes → Bytes → Bool) (page : Nat) (now : Int) (s s' : Sess) (db : Db) (op : Op) (h : s'.pid ≠ s.pid) :
    abs s' (step like page now s db op).1 = abs s' db := by
  have key : ∀ l : List Item, l.filter (·.pid == s'.pid) = (l.filter (·.pid != s.pid)).filter (·.pid == s'.pid) := by
    intro l
    rw [List.filter_filter]
    apply List.filter_congr
    intro x _
    by_cases hx : x.pid = s'.pid
    · simp [hx, h]
    · simp [hx]
  unfold abs
  rw [key, (step_frame like page now s db op).1, ← key]

/-! ### C01: facts about the specification itself -/

theorem kinds_disjoint (like : Bytes → Bytes → Bool) (page : Nat) (m : Spec.Map) (ops : List Op) (k : Kind) (c n : String) (e : Entry)
    (h : (Spec.step like page (Spec.run like page m ops).1 (.fetch k c n)).2 = .entry (some e)) : e.kind = k := by
  simp only [Spec.step] at h
  injection h with h
  have := List.find?_some h
  simp [Spec.sameKey] at this
  exact this.1.1

theorem find_map_replace (m : List Entry) (k : Kind) (c n : String) (new : Entry)
    (hnew : Spec.sameKey new k c n = true) (h : m.any (Spec.sameKey · k c n) = true) :
    (m.map fun e => if Spec.sameKey e k c n then new else e).find? (Spec.sameKey · k c n) = some new := by
  induction m with
  | nil => simp at h
  | cons y m ih =>
    simp only [List.map_cons]
    by_cases hy : Spec.sameKey y k c n = true
    · simp [hy, hnew]
    · simp only [hy, if_false, Bool.false_eq_true]
      rw [List.find?_cons_of_neg (by simpa using hy)]
      apply ih
      simpa [hy] using h

theorem fetch_after_write (like : Bytes → Bytes → Bool) (page : Nat) (m : Spec.Map) (k : Kind) (c n : String) (v : Bytes) (t : Option (List Wql.Tag))
    (_hU : m.Pairwise fun a b => ¬(a.kind = b.kind ∧ a.cat = b.cat ∧ a.name = b.name))
    (op : Op) (hop : op = .insert k c n v t none ∨ op = .replace k c n v t none)
    (hok : (Spec.step like page m op).2 = .ok) :
    (Spec.step like page (Spec.step like page m op).1 (.fetch k c n)).2 = .entry (some ⟨k, c, n, v, t.getD []⟩) := by
  have hnew : Spec.sameKey ⟨k, c, n, v, t.getD []⟩ k c n = true := by simp [Spec.sameKey]
  rcases hop with rfl | rfl
  · simp only [Spec.step] at hok ⊢
    split at hok
    · cases hok
    · rename_i hany
      simp only [hany, Bool.false_eq_true, if_false]
      congr 1
      rw [List.find?_append]
      have : m.find? (Spec.sameKey · k c n) = none := by
        rw [List.find?_eq_none]
        intro x hx hx'
        exact hany (List.any_eq_true.2 ⟨x, hx, hx'⟩)
      simp [this, hnew]
  · simp only [Spec.step] at hok ⊢
    split at hok
    · rename_i hany
      simp only [hany, if_true]
      congr 1
      exact find_map_replace m k c n _ hnew hany
    · cases hok

/-! ### bridging the row level and the map level

`P` is a row predicate, `Q` an entry predicate with `P it = (it.pid == s.pid && Q (toEntry it))`
on the rows of the table. -/

section bridge
variable (pid : Nat) (P : Item → Bool) (Q : Entry → Bool)

theorem bridge_filter (l : List Item) (h : ∀ it ∈ l, P it = (it.pid == pid && Q (toEntry it))) :
    (l.filter P).map toEntry = ((l.filter (·.pid == pid)).map toEntry).filter Q := by
  induction l with
  | nil => rfl
  | cons x l ih =>
    have hx := h x (by simp)
    have ih := ih (fun it hit => h it (by simp [hit]))
    simp only [List.filter_cons, hx]
    cases h1 : x.pid == pid <;> cases h2 : Q (toEntry x) <;> simp [ih, h2]

theorem bridge_filter_not' (l : List Item) (h : ∀ it ∈ l, P it = (it.pid == pid && Q (toEntry it))) :
    (l.filter fun it => it.pid == pid && !P it).map toEntry =
      ((l.filter (·.pid == pid)).map toEntry).filter fun e => !Q e := by
  induction l with
  | nil => rfl
  | cons x l ih =>
    have hx := h x (by simp)
    have ih := ih (fun it hit => h it (by simp [hit]))
    simp only [List.filter_cons, hx]
    cases h1 : x.pid == pid <;> cases h2 : Q (toEntry x) <;> simp [ih, h2]

theorem bridge_filter_not (l : List Item) (h : ∀ it ∈ l, P it = (it.pid == pid && Q (toEntry it))) :
    ((l.filter fun it => !P it).filter (·.pid == pid)).map toEntry =
      ((l.filter (·.pid == pid)).map toEntry).filter fun e => !Q e := by
  rw [List.filter_filter]
  exact bridge_filter_not' pid P Q l h

theorem bridge_any (l : List Item) (h : ∀ it ∈ l, P it = (it.pid == pid && Q (toEntry it))) :
    l.any P = ((l.filter (·.pid == pid)).map toEntry).any Q := by
  induction l with
  | nil => rfl
  | cons x l ih =>
    have hx := h x (by simp)
    have ih := ih (fun it hit => h it (by simp [hit]))
    simp only [List.filter_cons, List.any_cons, hx]
    cases h1 : x.pid == pid <;> cases h2 : Q (toEntry x) <;> simp [ih, h2]

theorem bridge_find (l : List Item) (h : ∀ it ∈ l, P it = (it.pid == pid && Q (toEntry it))) :
    (l.find? P).map toEntry = ((l.filter (·.pid == pid)).map toEntry).find? Q := by
  induction l with
  | nil => rfl
  | cons x l ih =>
    have hx := h x (by simp)
    have ih := ih (fun it hit => h it (by simp [hit]))
    simp only [List.filter_cons, List.find?_cons, hx]
    cases h1 : x.pid == pid <;> cases h2 : Q (toEntry x) <;> simp [ih, h2]

theorem bridge_map (f : Item → Item) (g : Entry → Entry) (l : List Item)
    (hpid : ∀ it, (f it).pid = it.pid)
    (hfg : ∀ it ∈ l, it.pid = pid → toEntry (f it) = g (toEntry it)) :
    ((l.map f).filter (·.pid == pid)).map toEntry = ((l.filter (·.pid == pid)).map toEntry).map g := by
  induction l with
  | nil => rfl
  | cons x l ih =>
    have ih := ih (fun it hit => hfg it (by simp [hit]))
    simp only [List.map_cons, List.filter_cons, hpid]
    by_cases h1 : x.pid = pid
    · simp [h1, ih, hfg x (by simp) h1]
    · simp [h1, ih]

end bridge

theorem decryptRows_ok (key : Nat) (l : List Item) (h : ∀ it ∈ l, it.key = key) :
    decryptRows key l = .ok (l.map toEntry) := by
  induction l with
  | nil => rfl
  | cons x l ih =>
    have ih := ih (fun it hit => h it (by simp [hit]))
    have hx : decryptRow key x = .ok (toEntry x) := by simp [decryptRow, h x (by simp), toEntry]
    simp only [decryptRows, hx, ih, List.map_cons]

theorem live_of_none (now : Int) (it : Item) (h : it.expiry = none) : live now it = true := by
  simp [live, h]


/-! ### C01: one call refines the map -/

theorem sameIdent_bridge (s : Sess) (db : Db) (hK : KeyCoherent s db) (k : Kind) (c n : String) :
    ∀ it ∈ db.items, it.sameIdent s.pid s.key k c n = (it.pid == s.pid && Spec.sameKey (toEntry it) k c n) := by
  intro it hit
  by_cases hp : it.pid = s.pid
  · have := hK it hit hp
    simp [Item.sameIdent, Spec.sameKey, toEntry, hp, this]
  · have hp' : (it.pid == s.pid) = false := by simpa using hp
    simp [Item.sameIdent, hp']

theorem inScope_bridge (s : Sess) (db : Db) (hK : KeyCoherent s db) (kind : Option Kind) (cat : Option String) :
    ∀ it ∈ db.items, it.inScope s.pid s.key kind cat = (it.pid == s.pid && Spec.inScope (toEntry it) kind cat) := by
  intro it hit
  by_cases hp : it.pid = s.pid
  · have := hK it hit hp
    cases kind <;> cases cat <;> simp [Item.inScope, Spec.inScope, toEntry, hp, this]
  · have hp' : (it.pid == s.pid) = false := by simpa using hp
    simp [Item.inScope, hp']

theorem hit_bridge (like : Bytes → Bytes → Bool) (s : Sess) (db : Db) (hK : KeyCoherent s db)
    (kind : Option Kind) (cat : Option String) (f : Option (Query String)) :
    ∀ it ∈ db.items, (it.inScope s.pid s.key kind cat && matchFilter like f it) =
      (it.pid == s.pid && Spec.hit like kind cat f (toEntry it)) := by
  intro it hit
  rw [inScope_bridge s db hK kind cat it hit]
  simp [Spec.hit, matchFilter, toEntry, Bool.and_assoc]

theorem hit_live_bridge (like : Bytes → Bytes → Bool) (now : Int) (s : Sess) (db : Db) (hI : Inv db) (hK : KeyCoherent s db)
    (kind : Option Kind) (cat : Option String) (f : Option (Query String)) :
    ∀ it ∈ db.items, (it.inScope s.pid s.key kind cat && live now it && matchFilter like f it) =
      (it.pid == s.pid && Spec.hit like kind cat f (toEntry it)) := by
  intro it hit
  rw [live_of_none now it (hI.noExpiry it hit), Bool.and_true]
  exact hit_bridge like s db hK kind cat f it hit

/-- the rows a query selects, seen through the abstraction -/
theorem selectRows_bridge (like : Bytes → Bytes → Bool) (now : Int) (s : Sess) (db : Db) (hI : Inv db) (hK : KeyCoherent s db)
    (kind : Option Kind) (cat : Option String) (f : Option (Query String)) (off lim : Option Int) (desc : Bool) :
    decryptRows s.key (selectRows like db now s.pid s.key kind cat f off lim desc) =
      .ok (window off lim (Spec.ordered desc ((abs s db).filter (Spec.hit like kind cat f)))) := by
  have hb := hit_live_bridge like now s db hI hK kind cat f
  have hsorted : sortById (db.items.filter fun it => it.inScope s.pid s.key kind cat && live now it && matchFilter like f it)
      = db.items.filter fun it => it.inScope s.pid s.key kind cat && live now it && matchFilter like f it :=
    sortById_of_sorted _ (sorted_filter _ _ hI.sorted)
  have hmem : ∀ it ∈ selectRows like db now s.pid s.key kind cat f off lim desc, it.key = s.key := by
    intro it hit
    simp only [selectRows, hsorted] at hit
    have h1 := mem_of_mem_window _ _ _ _ hit
    have h2 : it ∈ db.items.filter fun it => it.inScope s.pid s.key kind cat && live now it && matchFilter like f it := by
      cases desc
      · simpa using h1
      · simpa using h1
    have h3 := List.mem_filter.1 h2
    rw [hb it h3.1] at h3
    have h4 : it.pid = s.pid := by simpa using (Bool.and_eq_true_iff.1 h3.2).1
    exact hK it h3.1 h4
  rw [decryptRows_ok _ _ hmem]
  congr 1
  simp only [selectRows, hsorted, ← window_map, Spec.ordered, abs]
  rw [← bridge_filter s.pid _ _ db.items hb]
  cases desc <;> simp


theorem step_refines (like : Bytes → Bytes → Bool) (page : Nat) (_hp : 0 < page) (now : Int) (s : Sess) (db : Db)
    (hI : Inv db) (hK : KeyCoherent s db) (op : Op) (hop : op.noExpiry = true) :
    (step like page now s db op).2 = (Spec.step like page (abs s db) op).2 ∧
    abs s (step like page now s db op).1 = (Spec.step like page (abs s db) op).1 ∧
    Inv (step like page now s db op).1 ∧ KeyCoherent s (step like page now s db op).1 := by
  have hS := step_sorted like page now s db op hI.sorted
  cases op with
  | insert k c n v t e =>
    cases e with
    | some _ => simp [Op.noExpiry] at hop
    | none =>
      have hany := bridge_any s.pid (·.sameIdent s.pid s.key k c n) (Spec.sameKey · k c n) db.items (sameIdent_bridge s db hK k c n)
      simp only [step, doInsert_none, Spec.step] at hS ⊢
      rw [← abs] at hany
      rw [← hany]
      cases ha : db.items.any (·.sameIdent s.pid s.key k c n)
      · simp only [ha, Bool.false_eq_true, if_false] at hS ⊢
        refine ⟨by trivial, ?_, ⟨hS, ?_, ?_⟩, ?_⟩
        · simp [abs, List.filter_append, toEntry]
        · simp only [List.pairwise_append, hI.unique, true_and]
          refine ⟨by simp, ?_⟩
          intro a ha' b hb
          simp only [List.mem_singleton] at hb
          subst hb
          intro hh
          have := List.any_eq_false.1 ha a ha'
          exact this ((sameIdent_iff _ _ _ _ _ _).2 hh)
        · intro it hit
          simp only [List.mem_append, List.mem_singleton] at hit
          rcases hit with hit | rfl
          · exact hI.noExpiry it hit
          · rfl
        · intro it hit
          simp only [List.mem_append, List.mem_singleton] at hit
          rcases hit with hit | rfl
          · exact hK it hit
          · intro _; rfl
      · simp only [if_true]
        exact ⟨by trivial, by trivial, hI, hK⟩
  | replace k c n v t e =>
    cases e with
    | some _ => simp [Op.noExpiry] at hop
    | none =>
      have hany := bridge_any s.pid (·.sameIdent s.pid s.key k c n) (Spec.sameKey · k c n) db.items (sameIdent_bridge s db hK k c n)
      simp only [step, doReplace_none, Spec.step] at hS ⊢
      rw [← abs] at hany
      rw [← hany]
      cases ha : db.items.any (·.sameIdent s.pid s.key k c n)
      · simp only [Bool.false_eq_true, if_false]
        exact ⟨by trivial, by trivial, hI, hK⟩
      · simp only [ha, if_true] at hS ⊢
        refine ⟨by trivial, ?_, ⟨hS, ?_, ?_⟩, ?_⟩
        · unfold abs
          apply bridge_map
          · intro it; split <;> rfl
          · intro it hit hpid
            rw [← (by simpa [hpid] using sameIdent_bridge s db hK k c n it hit :
              it.sameIdent s.pid s.key k c n = Spec.sameKey (toEntry it) k c n)]
            split
            · rename_i hs
              obtain ⟨_, _, h1, h2, h3⟩ := (sameIdent_iff _ _ _ _ _ _).1 hs
              simp [toEntry, h1, h2, h3]
            · rfl
        · rw [List.pairwise_map]
          refine hI.unique.imp ?_
          intro a b hab
          have hf : ∀ x : Item, ((if x.sameIdent s.pid s.key k c n then { x with value := v, tags := t.getD [], expiry := none } else x : Item).pid = x.pid ∧
              (if x.sameIdent s.pid s.key k c n then { x with value := v, tags := t.getD [], expiry := none } else x : Item).key = x.key ∧
              (if x.sameIdent s.pid s.key k c n then { x with value := v, tags := t.getD [], expiry := none } else x : Item).kind = x.kind ∧
              (if x.sameIdent s.pid s.key k c n then { x with value := v, tags := t.getD [], expiry := none } else x : Item).cat = x.cat ∧
              (if x.sameIdent s.pid s.key k c n then { x with value := v, tags := t.getD [], expiry := none } else x : Item).name = x.name) := by
            intro x; split <;> exact ⟨rfl, rfl, rfl, rfl, rfl⟩
          obtain ⟨a1, a2, a3, a4, a5⟩ := hf a
          obtain ⟨b1, b2, b3, b4, b5⟩ := hf b
          rw [a1, a2, a3, a4, a5, b1, b2, b3, b4, b5]
          exact hab
        · intro it hit
          obtain ⟨a, ha', rfl⟩ := List.mem_map.1 hit
          split
          · rfl
          · exact hI.noExpiry a ha'
        · intro it hit
          obtain ⟨a, ha', rfl⟩ := List.mem_map.1 hit
          split
          · exact hK a ha'
          · exact hK a ha'
  | remove k c n =>
    have hb := sameIdent_bridge s db hK k c n
    have hany := bridge_any s.pid (·.sameIdent s.pid s.key k c n) (Spec.sameKey · k c n) db.items hb
    simp only [step, doRemove, Spec.step] at hS ⊢
    rw [← abs] at hany
    rw [← hany]
    cases ha : db.items.any (·.sameIdent s.pid s.key k c n)
    · simp only [Bool.false_eq_true, if_false]
      exact ⟨by trivial, by trivial, hI, hK⟩
    · simp only [ha, if_true] at hS ⊢
      refine ⟨by trivial, ?_, ⟨hS, ?_, ?_⟩, ?_⟩
      · exact bridge_filter_not s.pid _ _ db.items hb
      · exact hI.unique.sublist List.filter_sublist
      · intro it hit; exact hI.noExpiry it (List.mem_filter.1 hit).1
      · intro it hit; exact hK it (List.mem_filter.1 hit).1
  | removeAll k c f =>
    have hb := hit_bridge like s db hK k c f
    simp only [step, doRemoveAll, Spec.step] at hS ⊢
    refine ⟨?_, ?_, ⟨hS, ?_, ?_⟩, ?_⟩
    · congr 1
      rw [abs, ← bridge_filter s.pid _ _ db.items hb, List.length_map]
    · exact bridge_filter_not s.pid _ _ db.items hb
    · exact hI.unique.sublist List.filter_sublist
    · intro it hit; exact hI.noExpiry it (List.mem_filter.1 hit).1
    · intro it hit; exact hK it (List.mem_filter.1 hit).1
  | fetch k c n =>
    simp only [step, Spec.step]
    refine ⟨?_, by trivial, hI, hK⟩
    congr 1
    have hb : ∀ it ∈ db.items, (it.sameIdent s.pid s.key k c n && live now it) =
        (it.pid == s.pid && Spec.sameKey (toEntry it) k c n) := by
      intro it hit
      rw [live_of_none now it (hI.noExpiry it hit), Bool.and_true]
      exact sameIdent_bridge s db hK k c n it hit
    rw [abs, ← bridge_find s.pid _ _ db.items hb]
    unfold doFetch
    cases db.items.find? fun it => it.sameIdent s.pid s.key k c n && live now it <;> rfl
  | fetchAll k c f lim desc =>
    simp only [step, doFetchAll, Spec.step, selectRows_bridge like now s db hI hK]
    exact ⟨by trivial, by trivial, hI, hK⟩
  | count k c f =>
    simp only [step, doCount, Spec.step]
    refine ⟨?_, by trivial, hI, hK⟩
    congr 1
    rw [abs, ← bridge_filter s.pid _ _ db.items (hit_live_bridge like now s db hI hK k c f), List.length_map]
  | scan k c f off lim desc =>
    simp only [step, doScan, Spec.step, selectRows_bridge like now s db hI hK, drain_batches]
    exact ⟨by trivial, by trivial, hI, hK⟩


theorem run_refines (like : Bytes → Bytes → Bool) (page : Nat) (hp : 0 < page) (now : Int) (s : Sess) (db : Db)
    (hI : Inv db) (hK : KeyCoherent s db) (ops : List Op) (hops : ∀ op ∈ ops, op.noExpiry = true) :
    (run like page now s db ops).2 = (Spec.run like page (abs s db) ops).2 ∧
    abs s (run like page now s db ops).1 = (Spec.run like page (abs s db) ops).1 := by
  induction ops generalizing db with
  | nil => exact ⟨rfl, rfl⟩
  | cons op ops ih =>
    obtain ⟨h1, h2, h3, h4⟩ := step_refines like page hp now s db hI hK op (hops op (by simp))
    obtain ⟨i1, i2⟩ := ih _ h3 h4 (fun o ho => hops o (by simp [ho]))
    simp only [run, Spec.run]
    rw [← h2, ← h1]
    exact ⟨by rw [i1], i2⟩

theorem inv_empty : Inv {} := ⟨by simp [Sorted], by simp, by simp⟩

theorem run_refines_fresh (like : Bytes → Bytes → Bool) (page : Nat) (hp : 0 < page) (now : Int) (s : Sess)
    (ops : List Op) (hops : ∀ op ∈ ops, op.noExpiry = true) :
    (run like page now s {} ops).2 = (Spec.run like page [] ops).2 :=
  (run_refines like page hp now s {} inv_empty (by simp [KeyCoherent]) ops hops).1

/-! ### C07: isolation over interleaved histories -/

/-- a call through session `t` keeps the rows of every other profile, hence their key coherence -/
theorem step_keyCoherent_other (like : Bytes → Bytes → Bool) (page : Nat) (now : Int) (t u : Sess) (db : Db) (op : Op)
    (hne : u.pid ≠ t.pid) (hK : KeyCoherent u db) : KeyCoherent u (step like page now t db op).1 := by
  intro it hit hpid
  have h1 : it ∈ (step like page now t db op).1.items.filter (·.pid != t.pid) := by
    rw [List.mem_filter]
    refine ⟨hit, ?_⟩
    simp [hpid, hne]
  rw [(step_frame like page now t db op).1] at h1
  exact hK it (List.mem_filter.1 h1).1 hpid

theorem isolation (like : Bytes → Bytes → Bool) (page : Nat) (hp : 0 < page) (now : Int) (db : Db) (hI : Inv db)
    (hist : List (Sess × Op)) (hK : ∀ so ∈ hist, KeyCoherent so.1 db) (hops : ∀ so ∈ hist, so.2.noExpiry = true)
    (hS : ∀ so ∈ hist, ∀ so' ∈ hist, so.1.pid = so'.1.pid → so.1 = so'.1) (s : Sess) (hs : KeyCoherent s db)
    (hS' : ∀ so ∈ hist, so.1.pid = s.pid → so.1 = s) :
    ((runMulti like page now db hist).2.filter (·.1.pid == s.pid)).map (·.2) =
      (Spec.run like page (abs s db) ((hist.filter (·.1.pid == s.pid)).map (·.2))).2 := by
  induction hist generalizing db with
  | nil => rfl
  | cons so rest ih =>
    obtain ⟨t, op⟩ := so
    have hKt : KeyCoherent t db := hK (t, op) (by simp)
    obtain ⟨h1, h2, h3, h4⟩ := step_refines like page hp now t db hI hKt op (hops (t, op) (by simp))
    -- key coherence of every later session after this call
    have hK' : ∀ so ∈ rest, KeyCoherent so.1 (step like page now t db op).1 := by
      intro so hso
      by_cases hpid : so.1.pid = t.pid
      · have : so.1 = t := hS so (by simp [hso]) (t, op) (by simp) hpid
        rw [this]; exact h4
      · exact step_keyCoherent_other like page now t so.1 db op hpid (hK so (by simp [hso]))
    have hrest := fun hs' => ih (step like page now t db op).1 h3 hK'
      (fun so hso => hops so (by simp [hso]))
      (fun a ha b hb => hS a (by simp [ha]) b (by simp [hb])) hs'
      (fun so hso => hS' so (by simp [hso]))
    simp only [runMulti]
    by_cases hpid : t.pid = s.pid
    · have hts : t = s := hS' (t, op) (by simp) hpid
      subst hts
      have hrest := hrest h4
      simp only [List.filter_cons, beq_self_eq_true, if_true, List.map_cons, Spec.run]
      rw [hrest, h2, h1]
    · have hrest := hrest (step_keyCoherent_other like page now t s db op (fun h => hpid h.symm) hs)
      have hb : (t.pid == s.pid) = false := by simpa using hpid
      simp only [List.filter_cons, hb, Bool.false_eq_true, if_false]
      rw [hrest, step_other_abs like page now t s db op (fun h => hpid h.symm)]


end Lemmas
end Askar.Store
