/-
Helper lemmas for C05 (Props/C05.lean): one-step facts about `TxStore.step` while a write
transaction is open, and the schedule inductions built on them.
-/
import AskarModel.Model.Session
namespace Askar.Store
namespace Lemmas

variable (like : Bytes → Bytes → Bool) (page : Nat) (now : Int)

/-! ### the plain store: reads do not change the database -/

theorem step_read_db (s : Sess) (db : Db) (op : Op) (hr : op.isWrite = false) :
    (step like page now s db op).1 = db := by
  cases op with
  | insert => simp [Op.isWrite] at hr
  | replace => simp [Op.isWrite] at hr
  | remove => simp [Op.isWrite] at hr
  | removeAll => simp [Op.isWrite] at hr
  | fetch => rfl
  | count => rfl
  | fetchAll k c f lim desc =>
    show (match doFetchAll like db now s k c f lim desc with
      | .ok es => (db, Out.entries es)
      | .error e => (db, Out.err e)).1 = db
    split <;> rfl
  | scan k c f off lim desc =>
    show (match doScan like page db now s k c f off lim desc with
      | .ok ps => (db, Out.pages ps)
      | .error e => (db, Out.err e)).1 = db
    split <;> rfl

/-! ### unfolding `run` -/

theorem run_cons_fst (st : TxStore) (cl : Call) (cs : List Call) :
    (TxStore.run like page now st (cl :: cs)).1
      = (TxStore.run like page now (TxStore.step like page now st cl).1 cs).1 := rfl

theorem run_cons_snd (st : TxStore) (cl : Call) (cs : List Call) :
    (TxStore.run like page now st (cl :: cs)).2
      = (TxStore.step like page now st cl).2 :: (TxStore.run like page now (TxStore.step like page now st cl).1 cs).2 := rfl

theorem run_append_fst (st : TxStore) (cs ds : List Call) :
    (TxStore.run like page now st (cs ++ ds)).1
      = (TxStore.run like page now (TxStore.run like page now st cs).1 ds).1 := by
  induction cs generalizing st with
  | nil => rfl
  | cons cl cs ih =>
    rw [List.cons_append, run_cons_fst, run_cons_fst]
    exact ih _

theorem run_single_fst (st : TxStore) (cl : Call) :
    (TxStore.run like page now st [cl]).1 = (TxStore.step like page now st cl).1 := rfl

/-! ### ownership -/

theorem ownedBy_iff (st : TxStore) (i : Nat) : st.ownedBy i = true ↔ ∃ c, st.wtxn = some (i, c) := by
  unfold TxStore.ownedBy
  cases h : st.wtxn with
  | none => simp
  | some p =>
    obtain ⟨j, c⟩ := p
    constructor
    · intro e
      have : i = j := by simpa using e
      exact ⟨c, by rw [this]⟩
    · rintro ⟨c', e⟩
      have : j = i := by
        have := congrArg (fun o => o.map Prod.fst) e
        simpa using this
      simp [this]

/-! ### one step while session `i` owns the write lock -/

/-- the owner's transactional statement runs on the working copy -/
theorem step_owner (st : TxStore) (i : Nat) (c : Db) (h : st.wtxn = some (i, c)) (s : Sess) (op : Op) :
    TxStore.step like page now st (.stmt i true s op)
      = ({ st with wtxn := some (i, (step like page now s c op).1) }, (step like page now s c op).2) := by
  simp [TxStore.step, TxStore.lockedByOther, TxStore.view, h]

/-- any other statement leaves the whole transactional state as it was -/
theorem step_other (st : TxStore) (i : Nat) (c : Db) (h : st.wtxn = some (i, c))
    (j : Nat) (t : Bool) (s : Sess) (op : Op) (hj : t = false ∨ j ≠ i) :
    (TxStore.step like page now st (.stmt j t s op)).1 = st := by
  cases t with
  | true =>
    have hji : j ≠ i := by
      rcases hj with h' | h'
      · cases h'
      · exact h'
    simp [TxStore.step, TxStore.lockedByOther, h, hji]
  | false =>
    cases hw : op.isWrite with
    | true => simp [TxStore.step, h, hw]
    | false =>
      have hdb := step_read_db like page now s st.db op hw
      simp [TxStore.step, hw, hdb]

theorem step_commit_other (st : TxStore) (i : Nat) (c : Db) (h : st.wtxn = some (i, c))
    (j : Nat) (hj : i ≠ j) :
    (TxStore.step like page now st (.commit j)).1 = st := by
  have hji : j ≠ i := fun e => hj e.symm
  simp [TxStore.step, h, hji]

theorem step_rollback_other (st : TxStore) (i : Nat) (c : Db) (h : st.wtxn = some (i, c))
    (j : Nat) (hj : i ≠ j) :
    (TxStore.step like page now st (.rollback j)).1 = st := by
  have hji : j ≠ i := fun e => hj e.symm
  simp [TxStore.step, h, hji]

/-! ### schedules -/

theorem run_owned (st : TxStore) (i : Nat) (c : Db) (h : st.wtxn = some (i, c))
    (cs : List Call) (hc : noEnd i cs = true) :
    (TxStore.run like page now st cs).1.db = st.db ∧
    ∃ c', (TxStore.run like page now st cs).1.wtxn = some (i, c') := by
  induction cs generalizing st c with
  | nil => exact ⟨rfl, c, h⟩
  | cons cl cs ih =>
    rw [run_cons_fst]
    cases cl with
    | stmt j t s op =>
      have hc' : noEnd i cs = true := hc
      by_cases hj : t = true ∧ j = i
      · obtain ⟨rfl, rfl⟩ := hj
        rw [step_owner like page now st j c h]
        exact ih { st with wtxn := some (j, (step like page now s c op).1) } _ rfl hc'
      · have hj' : t = false ∨ j ≠ i := by
          cases t with
          | false => exact Or.inl rfl
          | true => exact Or.inr (fun e => hj ⟨rfl, e⟩)
        rw [step_other like page now st i c h j t s op hj']
        exact ih st c h hc'
    | commit j =>
      have hc2 : i ≠ j ∧ noEnd i cs = true := by simpa [noEnd] using hc
      rw [step_commit_other like page now st i c h j hc2.1]
      exact ih st c h hc2.2
    | rollback j =>
      have hc2 : i ≠ j ∧ noEnd i cs = true := by simpa [noEnd] using hc
      rw [step_rollback_other like page now st i c h j hc2.1]
      exact ih st c h hc2.2

theorem txn_invisible_until_commit (st : TxStore) (i : Nat)
    (h : st.ownedBy i = true) (cs : List Call) (hc : noEnd i cs = true) :
    (TxStore.run like page now st cs).1.db = st.db ∧ (TxStore.run like page now st cs).1.ownedBy i = true := by
  obtain ⟨c, hw⟩ := (ownedBy_iff st i).1 h
  have := run_owned like page now st i c hw cs hc
  exact ⟨this.1, (ownedBy_iff _ i).2 this.2⟩

theorem rollback_discards (st : TxStore) (i : Nat)
    (h : st.ownedBy i = true) (cs : List Call) (hc : noEnd i cs = true) :
    (TxStore.run like page now st (cs ++ [.rollback i])).1.db = st.db ∧
    (TxStore.run like page now st (cs ++ [.rollback i])).1.wtxn = none := by
  obtain ⟨c, hw⟩ := (ownedBy_iff st i).1 h
  obtain ⟨hdb, c', hw'⟩ := run_owned like page now st i c hw cs hc
  rw [run_append_fst, run_single_fst]
  constructor
  · rw [← hdb]
    simp [TxStore.step, hw']
  · simp [TxStore.step, hw']

theorem sess_eq_of (s' s : Sess) (h1 : s'.pid = s.pid) (h2 : s'.key = s.key) : s' = s := by
  cases s'; cases s; simp at h1 h2; simp [h1, h2]

theorem txn_sequential (st : TxStore) (i : Nat) (s : Sess) (c : Db)
    (h : st.wtxn = some (i, c)) (cs : List Call) (hc : noEnd i cs = true) (ht : txnOf i s cs = true) :
    outsOf i cs (TxStore.run like page now st cs).2 = (run like page now s c (opsOf i cs)).2 ∧
    (TxStore.run like page now st cs).1.wtxn = some (i, (run like page now s c (opsOf i cs)).1) := by
  induction cs generalizing st c with
  | nil => exact ⟨rfl, h⟩
  | cons cl cs ih =>
    rw [run_cons_fst, run_cons_snd]
    cases cl with
    | stmt j t s' op =>
      have hc' : noEnd i cs = true := hc
      by_cases hij : i = j
      · subst hij
        have ht2 : (t = true ∧ s'.pid = s.pid ∧ s'.key = s.key) ∧ txnOf i s cs = true := by
          simpa [txnOf, and_assoc] using ht
        obtain ⟨⟨rfl, hp, hk⟩, ht'⟩ := ht2
        have hs : s' = s := sess_eq_of s' s hp hk
        subst hs
        rw [step_owner like page now st i c h]
        have := ih { st with wtxn := some (i, (step like page now s' c op).1) } _ rfl hc' ht'
        have hops : opsOf i (Call.stmt i true s' op :: cs) = op :: opsOf i cs := by simp [opsOf]
        have hrun1 : ∀ ops, (run like page now s' c (op :: ops)).1
            = (run like page now s' (step like page now s' c op).1 ops).1 := fun _ => rfl
        have hrun2 : ∀ ops, (run like page now s' c (op :: ops)).2
            = (step like page now s' c op).2 :: (run like page now s' (step like page now s' c op).1 ops).2 := fun _ => rfl
        rw [hops, hrun1, hrun2]
        refine ⟨?_, this.2⟩
        simp only [outsOf, beq_self_eq_true, if_true]
        rw [this.1]
      · have ht' : txnOf i s cs = true := by
          simpa [txnOf, hij] using ht
        have hj' : t = false ∨ j ≠ i := Or.inr (fun e => hij e.symm)
        rw [step_other like page now st i c h j t s' op hj']
        have hops : opsOf i (Call.stmt j t s' op :: cs) = opsOf i cs := by simp [opsOf, hij]
        rw [hops]
        refine ⟨?_, (ih st c h hc' ht').2⟩
        simp only [outsOf]
        rw [if_neg (by simpa using hij)]
        exact (ih st c h hc' ht').1
    | commit j =>
      have hc2 : i ≠ j ∧ noEnd i cs = true := by simpa [noEnd] using hc
      have ht' : txnOf i s cs = true := ht
      rw [step_commit_other like page now st i c h j hc2.1]
      exact ih st c h hc2.2 ht'
    | rollback j =>
      have hc2 : i ≠ j ∧ noEnd i cs = true := by simpa [noEnd] using hc
      have ht' : txnOf i s cs = true := ht
      rw [step_rollback_other like page now st i c h j hc2.1]
      exact ih st c h hc2.2 ht'

theorem commit_publishes_all (st : TxStore) (i : Nat) (s : Sess) (c : Db)
    (h : st.wtxn = some (i, c)) (cs : List Call) (hc : noEnd i cs = true) (ht : txnOf i s cs = true) :
    (TxStore.run like page now st (cs ++ [.commit i])).1.db = (run like page now s c (opsOf i cs)).1 ∧
    (TxStore.run like page now st (cs ++ [.commit i])).1.wtxn = none := by
  have hw := (txn_sequential like page now st i s c h cs hc ht).2
  rw [run_append_fst, run_single_fst]
  constructor <;> simp [TxStore.step, hw]

/-! ### single calls -/

theorem begin_takes_lock (st : TxStore) (i : Nat) (s : Sess) (op : Op)
    (h : st.wtxn = none) :
    (TxStore.step like page now st (.stmt i true s op)).1.wtxn = some (i, (step like page now s st.db op).1) ∧
    (TxStore.step like page now st (.stmt i true s op)).2 = (step like page now s st.db op).2 ∧
    (TxStore.step like page now st (.stmt i true s op)).1.db = st.db := by
  simp [TxStore.step, TxStore.lockedByOther, TxStore.view, h]

theorem plain_call_immediate (st : TxStore) (j : Nat) (s : Sess) (op : Op)
    (h : st.wtxn = none) :
    (TxStore.step like page now st (.stmt j false s op)).1.db = (step like page now s st.db op).1 ∧
    (TxStore.step like page now st (.stmt j false s op)).2 = (step like page now s st.db op).2 ∧
    ∀ e, e = Call.commit j ∨ e = Call.rollback j →
      (TxStore.step like page now (TxStore.step like page now st (.stmt j false s op)).1 e).1.db = (step like page now s st.db op).1 := by
  have hs : TxStore.step like page now st (.stmt j false s op)
      = ({ st with db := (step like page now s st.db op).1 }, (step like page now s st.db op).2) := by
    simp [TxStore.step, h]
  rw [hs]
  refine ⟨rfl, rfl, ?_⟩
  rintro e (rfl | rfl) <;> simp [TxStore.step, h]

theorem plain_read_sees_committed (st : TxStore) (j : Nat) (s : Sess) (op : Op)
    (hr : op.isWrite = false) :
    (TxStore.step like page now st (.stmt j false s op)).2 = (step like page now s st.db op).2 ∧
    (TxStore.step like page now st (.stmt j false s op)).1.wtxn = st.wtxn := by
  simp [TxStore.step, hr]

theorem blocked_call_no_effect (st : TxStore) (j : Nat) (t : Bool) (s : Sess) (op : Op)
    (h : st.lockedByOther j = true) (hw : t = true ∨ op.isWrite = true) :
    TxStore.step like page now st (.stmt j t s op) = (st, .err .backend) := by
  cases t with
  | true => simp [TxStore.step, h]
  | false =>
    have hw' : op.isWrite = true := by
      rcases hw with h' | h'
      · cases h'
      · exact h'
    have hs : st.wtxn.isSome = true := by
      unfold TxStore.lockedByOther at h
      cases hx : st.wtxn with
      | none => simp [hx] at h
      | some p => rfl
    simp [TxStore.step, hw', hs]

end Lemmas
end Askar.Store
