/- Driver for `kind = "c13:…"` cases.

   Two layers.
   (1) DISPATCH: the model `Askar.Sign` (askar's own code: type-string parser, `AnyKey` dispatch, missing-secret and length branches),
       run over the toy instance `Toy.schemes` — this decides, per operation, ok / error kind / `false` for a wrong length.
   (2) VALUES: wherever (1) reaches the external scheme, the value is computed by the executable specifications
       `Crypto/Ed25519.lean` (RFC 8032; verification = `verifyStrict`, the form `ed25519-dalek` `verify_strict` implements) and
       `Crypto/Ecdsa.lean` (SEC 1 + RFC 6979; secp256k1 with the `k256` crate's low-S rule).  `Props/C13.verify_is_scheme_verdict`
       and `sign_value` are what licenses the substitution: askar adds nothing to and removes nothing from the scheme's values.

   case = {"keys": [keyspec…], "ops": [op…], "km"?: [{"sk": hex|null, "pk": hex|null}…], "spec"?: true}
   keyspec = {"alg", "src": "secret"|"seed"|"generate"|"jwk"|"public", "data"?: hex, "secret": bool?, "fam": n?}   (base key)
           | {"src": "public_of"|"jwk_public_of"|"jwk_secret_of"|"secret_of", "of": i}                              (re-import of key i)
   "km" = the key material the executor observed (`to_secret_bytes` / `to_public_bytes` of each key, handed over through
          `model_input`): needed for keys whose secret is not in the case (generate, seed, JWK).  For "secret" / "public" keys the
          case's own `data` is used, not "km".
   op = {"op": "sign", "key": i, "msg": hex, "t": null|string}
      | {"op": "verify", "key": j, "msg": hex, "t": null|string, "sig": {"raw": hex} | {"by": i, "msg": hex, "t": null|string, "mut": M}}
   M = null | {"flip": bit} | {"trunc": n} | {"extend": hex} | "neg_s" | "s_plus_n"
   output = one entry per op:
     sign   ↦ {"ok": length, "sig": hex, "pub": hex} | {"err": kind}      "sig" = the specification's signature of the message under the
              key's secret bytes AS THE PINNED CRATES COMPUTE IT (ECDSA nonce seeded with the unreduced digest, see Ecdsa.lean);
              "pub" = the specification's public key of those secret bytes; with "spec": true also "rfc" = the value RFC 6979 /
              RFC 8032 fix (differs from "sig" only for ECDSA when H(m) ≥ n)
     verify ↦ true | false | {"err": kind} | {"sigerr": kind}             the specification's verdict (strict Ed25519 / ECDSA)
   kind "c13:selftest" ↦ the specifications' own tests against the RFC vectors.
   Gap ops (kinds "c13:create", "c13:seed"; model `Model/Seed.lean`; errors of the first three are CRYPTO error kinds):
     {"op": "create", "key", "via": "any"|"concrete", "msg", "t"} ↦ {"ok": length, "csig": hex} | {"err": kind}    `create_signature`
     {"op": "siglen", "t"}                                         ↦ {"len": n} | {"err": kind}                      `signature_length`
     {"op": "edsign", "key", "msg"}                                ↦ hex | null                                      `Ed25519KeyPair::sign`
     {"op": "seed", "alg", "seed", "method", "msg"}                ↦ {"sk", "pk", "sig"} | {"err": kind}             `LocalKey::from_seed`:
        the secret bytes computed from the seed by the model over the ChaCha20 / SHA-256 / HKDF specifications, then public key and
        signature of `msg` by the signature specifications (signing algorithms only). -/
import Driver.Common
import AskarModel.Model.Sign
import AskarModel.Model.Seed
import AskarModel.Crypto.Ed25519
import AskarModel.Crypto.Ecdsa
import Std.Data.HashMap

open Lean Askar Askar.Sign Askar.Crypto

namespace Driver.C13

def algOfName (s : String) : Option KeyAlg := KeyAlg.all.find? fun a => a.name == s

/-! ### the specifications, per algorithm -/

def suiteOf : SigAlg → Option Ecdsa.Suite
  | .ed25519 => none
  | .p256 => some Ecdsa.p256
  | .p384 => some Ecdsa.p384
  | .k256 => some Ecdsa.k256

/-- `rfc = true`: RFC 6979 as written; `false`: as `ecdsa` 0.16.9 seeds the nonce (identical for Ed25519) -/
def specSign (a : SigAlg) (rfc : Bool) (sk msg : Bytes) : Option Bytes :=
  match suiteOf a with
  | none => if sk.length = 32 then some (Ed25519.sign sk msg) else none
  | some S => Ecdsa.sign S rfc sk msg

def specPub (a : SigAlg) (sk : Bytes) : Option Bytes :=
  match suiteOf a with
  | none => if sk.length = 32 then some (Ed25519.publicKey sk) else none
  | some S => Ecdsa.publicKey S sk

/-- group order (n − s, s + n mutations) -/
def orderOf : SigAlg → Nat
  | .ed25519 => Ed25519.L
  | .p256 => Ec.p256.n
  | .p384 => Ec.p384.n
  | .k256 => Ec.k256.n

/-- the real key material of a key -/
structure RKey where
  sk : Option Bytes := none
  /-- Ed25519: the 32 bytes; ECDSA: a SEC 1 encoding -/
  pk : Option Bytes := none
  /-- ECDSA: the decoded public point (decoded once per key) -/
  pt : Ecdsa.APoint := none

def specVerify (a : SigAlg) (k : RKey) (msg sig : Bytes) : Bool :=
  match suiteOf a, k.pk with
  | none, some pk => Ed25519.verifyStrict pk msg sig
  | some S, some _ => match k.pt with
    | some q => Ecdsa.verifyPoint S (some q) msg sig
    | none => false
  | _, none => false

structure MKey where
  key : Key
  fam : Nat
  real : RKey

def famSecret (f : Nat) : Bytes := utf8 ("fam-" ++ toString f)

def baseKey (alg : KeyAlg) (fam : Nat) (hasSecret : Bool) : Key :=
  match alg.sigAlg? with
  | some a =>
    let k := Key.ofSecret Toy.schemes a alg (famSecret fam)
    if hasSecret then k else (Key.ofPublic Toy.schemes a alg k.pub).getD k.toPublic
  | none => { alg := alg, secret := if hasSecret then some (famSecret fam) else none, pub := [] }

def hexOpt (j : Json) (k : String) : Option Bytes := (strOpt j k).bind Bytes.ofHex

def withPoint (a : SigAlg) (r : RKey) : RKey :=
  match suiteOf a, r.pk with
  | some S, some pk => { r with pt := Ecdsa.decodePublic S pk }
  | _, _ => r

/-- real key material of a base key: the case's own bytes where it has them, else what the executor observed -/
def realOf (a : SigAlg) (src : String) (spec km : Json) (hasSecret : Bool) : RKey :=
  let r : RKey :=
    if src == "secret" then
      let sk := hex! spec "data"
      { sk := some sk, pk := specPub a sk }
    else if src == "public" then { pk := hexOpt spec "data" }
    else if hasSecret then
      match hexOpt km "sk" with
      | some sk => { sk := some sk, pk := specPub a sk }
      | none => { pk := hexOpt km "pk" }
    else { pk := hexOpt km "pk" }
  withPoint a r

def buildKeys (specs : List Json) (kms : List Json) : List (Option MKey) :=
  let step := fun (acc : List (Option MKey)) (spec : Json) =>
    let idx := acc.length
    let km := kms.getD idx .null
    let src := str! spec "src"
    let k : Option MKey :=
      if src == "public_of" || src == "jwk_public_of" || src == "jwk_secret_of" || src == "secret_of" then
        match (acc[nat! spec "of"]?).join with
        | some b =>
          if src == "public_of" || src == "jwk_public_of" then
            match b.key.alg.sigAlg? with
            | some a => (Key.ofPublic Toy.schemes a b.key.alg b.key.pub).map fun k => { key := k, fam := b.fam, real := { b.real with sk := none } }
            | none => none
          else if b.key.secret.isSome then some b else none
        | none => none
      else
        match algOfName (str! spec "alg") with
        | some alg =>
          let fam := (natOpt spec "fam").getD idx
          let hasSecret := if src == "public" then false else if src == "jwk" then bool! spec "secret" else true
          let real := match alg.sigAlg? with
            | some a => realOf a src spec km hasSecret
            | none => {}
          some { key := baseKey alg fam hasSecret, fam := fam, real := real }
        | none => none
    acc ++ [k]
  specs.foldl step []

def tOf (j : Json) : Option (List Char) := (strOpt j "t").map String.toList

def jres {α} (f : α → Json) : Res ErrKind α → Json
  | .ok a => f a
  | .err e => jerr e.name
  | .panic _ => jerr "Panic"

/-! ### mutations of a signature (byte for byte what the executor does) -/

def flipBit (s : Bytes) (bit : Nat) : Bytes :=
  s.mapIdx fun i b => if i = bit / 8 then b ^^^ (UInt8.ofNat (1 <<< (bit % 8))) else b

/-- the scalar half as a number (Ed25519: little-endian S; ECDSA: big-endian s) and back -/
def sOf (a : SigAlg) (sig : Bytes) : Nat :=
  let h := sig.drop (sig.length / 2)
  if a = .ed25519 then Ed25519.leNat h else Ecdsa.os2ip h

def withS (a : SigAlg) (sig : Bytes) (s : Nat) : Bytes :=
  let half := sig.length / 2
  sig.take half ++ (if a = .ed25519 then Ed25519.natLE half s else Ecdsa.i2osp half s)

def mutate (a : SigAlg) (m : Json) (s : Bytes) : Bytes :=
  let arith := s.length % 2 = 0 ∧ s ≠ [] ∧ s.length = a.native.signatureLength
  let n := orderOf a
  match m with
  | .str "neg_s" => if arith ∧ sOf a s ≤ n then withS a s (n - sOf a s) else s
  | .str "s_plus_n" => if arith then withS a s (if sOf a s + n < 256 ^ (s.length / 2) then sOf a s + n else n) else s
  | .str _ => s
  | .null => s
  | _ =>
    match natOpt m "flip", natOpt m "trunc", strOpt m "extend" with
    | some b, _, _ => flipBit s b
    | _, some n, _ => s.take n
    | _, _, some h => s ++ (Bytes.ofHex h).getD []
    | _, _, _ => s

/-! ### operations -/

/-- signatures already computed: (signature width, secret bytes, message, rfc) ↦ value -/
abbrev Cache := Std.HashMap (Nat × Bytes × Bytes × Bool) (Option Bytes)

def algTag : SigAlg → Nat
  | .ed25519 => 0 | .p256 => 1 | .p384 => 2 | .k256 => 3

def specSignC (c : Cache) (a : SigAlg) (rfc : Bool) (sk msg : Bytes) : Option Bytes × Cache :=
  match c[(algTag a, sk, msg, rfc)]? with
  | some v => (v, c)
  | none =>
    let v := specSign a rfc sk msg
    (v, c.insert (algTag a, sk, msg, rfc) v)

def jcerr (e : CErr) : Json := jerr (Seed.CErr.name e)

/-- `LocalKey::from_seed` and what the seeded key signs -/
def runSeed (op : Json) : Json :=
  match algOfName (str! op "alg") with
  | none => jerr "noalg"
  | some alg =>
    match Seed.fromSeed Seed.Std.prims Seed.seedStrictCurrent alg (hex! op "seed") (strOpt op "method") with
    | .err e => jerr e.name
    | .panic _ => jerr "Panic"
    | .ok sk =>
      match alg.sigAlg? with
      | some a => Json.mkObj [("sk", jhex sk), ("pk", ((specPub a sk).map jhex).getD .null),
                              ("sig", ((specSign a false sk (hex! op "msg")).map jhex).getD .null)]
      | none => Json.mkObj [("sk", jhex sk), ("pk", .null), ("sig", .null)]

/-- the gap ops that need a key -/
def runKeyGapOp (k : MKey) (c : Cache) (op : Json) : Json × Cache :=
  let msg := hex! op "msg"
  if str! op "op" == "edsign" then
    if k.key.alg ≠ .ed25519 then (jerr "notEd25519", c) else
    match Seed.ed25519Sign Toy.schemes.ed25519 k.key msg, k.real.sk with
    | none, _ => (.null, c)
    | some _, some sk => let (s, c) := specSignC c .ed25519 false sk msg; ((s.map jhex).getD .null, c)
    | some _, none => (jerr "NoSecretBytes", c)
  else
    match parseSigType (tOf op) with
    | .err e => (jcerr e, c)
    | .panic _ => (jerr "Panic", c)
    | .ok st =>
      let r : Option (Res CErr Bytes) :=
        if str! op "via" == "concrete" then k.key.alg.sigAlg?.map fun a => Seed.concreteCreateSignature Toy.schemes a k.key msg st
        else some (Seed.anyCreateSignature Toy.schemes k.key msg st)
      match r with
      | none => (jerr "noconcrete", c)
      | some (.err e) => (jcerr e, c)
      | some (.panic _) => (jerr "Panic", c)
      | some (.ok toy) =>
        match k.key.alg.sigAlg?, k.real.sk with
        | some a, some sk =>
          let (sig, c) := specSignC c a false sk msg
          (Json.mkObj [("ok", jnat ((sig.map List.length).getD toy.length)), ("csig", (sig.map jhex).getD .null)], c)
        | _, _ => (Json.mkObj [("ok", jnat toy.length), ("csig", .null)], c)

def runOp (keys : List (Option MKey)) (wantRfc : Bool) (c : Cache) (op : Json) : Json × Cache :=
  if str! op "op" == "siglen" then
    (match Seed.signatureLengthOf (str! op "t").toList with
     | .ok n => Json.mkObj [("len", jnat n)]
     | .err e => jcerr e
     | .panic _ => jerr "Panic", c) else
  if str! op "op" == "seed" then (runSeed op, c) else
  let ki := nat! op "key"
  if str! op "op" == "create" || str! op "op" == "edsign" then
    match (keys[ki]?).join with
    | none => (jerr "nokey", c)
    | some k => runKeyGapOp k c op
  else
  match (keys[ki]?).join with
  | none => (jerr "nokey", c)
  | some k =>
    let msg := hex! op "msg"
    if str! op "op" == "sign" then
      match signMessage Toy.schemes k.key msg (tOf op) with
      | .err e => (jerr e.name, c)
      | .panic _ => (jerr "Panic", c)
      | .ok toy =>
        match k.key.alg.sigAlg?, k.real.sk with
        | some a, some sk =>
          let (sig, c) := specSignC c a false sk msg
          let base := [("ok", jnat ((sig.map List.length).getD toy.length)),
                       ("sig", (sig.map jhex).getD .null), ("pub", ((specPub a sk).map jhex).getD .null)]
          if wantRfc then
            let (rfc, c) := specSignC c a true sk msg
            (Json.mkObj (base ++ [("rfc", (rfc.map jhex).getD .null)]), c)
          else (Json.mkObj base, c)
        | _, _ => (Json.mkObj [("ok", jnat toy.length), ("sig", .null), ("pub", .null)], c)
    else
      let sj := (getD? op "sig").getD .null
      let (sig, c) : Except Json Bytes × Cache :=
        match strOpt sj "raw" with
        | some h => (.ok ((Bytes.ofHex h).getD []), c)
        | none =>
          match (keys[nat! sj "by"]?).join with
          | none => (.error (jerr "nokey"), c)
          | some sk =>
            match signMessage Toy.schemes sk.key (hex! sj "msg") (tOf sj) with
            | .ok _ =>
              match sk.key.alg.sigAlg?, sk.real.sk with
              | some a, some skb =>
                let (s, c) := specSignC c a false skb (hex! sj "msg")
                match s with
                | some s => (.ok (mutate a ((sj.getObjVal? "mut").toOption.getD .null) s), c)
                | none => (.error (Json.mkObj [("sigerr", .str "NoSpecValue")]), c)
              | _, _ => (.error (Json.mkObj [("sigerr", .str "NoSecretBytes")]), c)
            | .err e => (.error (Json.mkObj [("sigerr", .str e.name)]), c)
            | .panic _ => (.error (Json.mkObj [("sigerr", .str "Panic")]), c)
      match sig with
      | .error j => (j, c)
      | .ok s =>
        -- dispatch by the model; where it reaches the scheme's verifier (exact length), the verdict is the specification's
        match verifySignature Toy.schemes k.key msg s (tOf op), k.key.alg.sigAlg? with
        | .ok _, some a => (Json.bool (s.length = a.native.signatureLength && specVerify a k.real msg s), c)
        | r, _ => (jres (fun b => Json.bool b) r, c)

def selfTest : Json :=
  Json.mkObj [("sha2", .bool Sha2.selfTest), ("hmac", .bool Hmac.selfTest), ("ed25519", .bool Ed25519.selfTest), ("ecdsa", .bool Ecdsa.selfTest)]

def runCase (j : Json) : Json :=
  if str! j "kind" == "c13:selftest" then selfTest else
  let keys := buildKeys (arr! j "keys") (arr! j "km")
  match keys.findIdx? Option.isNone with
  | some i => Json.mkObj [("keyerr", jnat i)]
  | none =>
    let wantRfc := bool! j "spec"
    let (outs, _) := (arr! j "ops").foldl (fun (acc : Array Json × Cache) op =>
      let (o, c) := runOp keys wantRfc acc.2 op
      (acc.1.push o, c)) (#[], {})
    Json.arr outs

end Driver.C13
