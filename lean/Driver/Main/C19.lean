import Driver.C19
def main : IO Unit := Driver.mainLoop fun _ j => Driver.C19.runCase j
