/- Line-protocol driver: one JSON case per input line, one JSON result per output line. -/
import Driver.Common
import Driver.Store
import Driver.C02
import Driver.C03
import Driver.C05
import Driver.C06
import Driver.C08
import Driver.C09
import Driver.C10
import Driver.C11
import Driver.C12
import Driver.C13
import Driver.C14
import Driver.C15
import Driver.C18
import Driver.C19
import Driver.C20

open Lean

def handler (k : String) (j : Json) : Json :=
  if k == "store" || k == "c04j" then Driver.Store.runCase j else
    if k == "c02" || k.startsWith "c02:" then Driver.C02.runCase j else
    if k == "c03" || k.startsWith "c03:" then Driver.C03.runCase j else
    if k == "c05" || k.startsWith "c05:" then Driver.C05.runCase j else
    if k == "c06" || k.startsWith "c06:" then Driver.C06.runCase j else
    if k == "c08" || k.startsWith "c08:" then Driver.C08.runCase j else
    if k == "c09" || k.startsWith "c09:" then Driver.C09.runCase j else
    if k == "c10" || k.startsWith "c10:" then Driver.C10.runCase j else
    if k == "c11" || k.startsWith "c11:" then Driver.C11.runCase j else
    if k == "c12" || k.startsWith "c12:" then Driver.C12.runCase j else
    if k == "c13" || k.startsWith "c13:" then Driver.C13.runCase j else
    if k == "c14" || k.startsWith "c14:" then Driver.C14.runCase j else
    if k == "c15" || k.startsWith "c15:" then Driver.C15.runCase j else
    if k == "c18" || k.startsWith "c18:" then Driver.C18.runCase j else
    if k == "c19" || k.startsWith "c19:" then Driver.C19.runCase j else
    if k == "c20" || k.startsWith "c20:" then Driver.C20.runCase j else
    Json.mkObj [("err", .str ("unknown kind " ++ k))]

def main : IO Unit := Driver.mainLoop handler
