/-
Helper lemmas and proofs for C09 (`Props/C09.lean`): the CBOR subset, Base58, and the storage scheme of
`Model/StorageScheme.lean`.  Core Lean only.
-/
import AskarModel.Model.StorageScheme

namespace Askar.Lemmas.StorageScheme
open Askar Askar.Crypto Askar.StorageScheme

/-! ### CBOR -/
namespace Cbor
open Askar.Crypto.Cbor

theorem length_beBytes (k n : Nat) : (beBytes k n).length = k := by
  induction k with
  | zero => rfl
  | succ k ih => simp [beBytes, ih]

theorem beNat_beBytes (k n : Nat) : beNat (beBytes k n) = n % 256 ^ k := by
  induction k with
  | zero => simp [beBytes, beNat, Nat.mod_one]
  | succ k ih =>
    have hb : (UInt8.ofNat (n / 256 ^ k % 256)).toNat = n / 256 ^ k % 256 := by
      rw [UInt8.toNat_ofNat']; exact Nat.mod_eq_of_lt (by omega)
    simp only [beBytes, beNat, length_beBytes, ih, hb]
    rw [Nat.mod_pow_succ (x := n) (b := 256) (k := k), Nat.mul_comm]
    omega

theorem beNat_beBytes_lt {k n : Nat} (h : n < 256 ^ k) : beNat (beBytes k n) = n := by
  rw [beNat_beBytes, Nat.mod_eq_of_lt h]

theorem initByte {major c : Nat} (hm : major < 8) (hc : c < 32) :
    (UInt8.ofNat (major * 32 + c)).toNat = major * 32 + c := by
  rw [UInt8.toNat_ofNat']; exact Nat.mod_eq_of_lt (by omega)

theorem decHead_wide {major ai k n : Nat} (rest : Bytes) (hm : major < 8) (hlo : 24 ≤ ai) (hhi : ai < 32)
    (hk : argLen ai = some k) (hn : n < 256 ^ k) :
    decHead (UInt8.ofNat (major * 32 + ai) :: (beBytes k n ++ rest)) = some (major, n, rest) := by
  have h1 : (major * 32 + ai) % 32 = ai := by omega
  have h2 : (major * 32 + ai) / 32 = major := by omega
  have h3 : ¬ ai < 24 := by omega
  simp only [decHead, initByte hm hhi, h1, h2, h3, if_false, hk]
  have hl : ¬ (beBytes k n ++ rest).length < k := by simp [length_beBytes]
  simp only [hl, if_false, List.take_left' (length_beBytes k n), List.drop_left' (length_beBytes k n), beNat_beBytes_lt hn]

theorem decHead_head {major n : Nat} (rest : Bytes) (hm : major < 8) (hn : n < 2 ^ 64) :
    decHead (head major n ++ rest) = some (major, n, rest) := by
  unfold head
  split
  · next h =>
    have h1 : (major * 32 + n) % 32 = n := by omega
    have h2 : (major * 32 + n) / 32 = major := by omega
    simp only [List.cons_append, List.nil_append, decHead, initByte hm (by omega : n < 32), h1, h2, h, if_true]
  · split
    · next h => exact decHead_wide rest hm (by omega) (by omega) (by simp [argLen]) (by omega)
    · split
      · next h => exact decHead_wide rest hm (by omega) (by omega) (by simp [argLen]) (by omega)
      · split
        · next h => exact decHead_wide rest hm (by omega) (by omega) (by simp [argLen]) (by omega)
        · exact decHead_wide rest hm (by omega) (by omega) (by simp [argLen]) (by omega)

theorem decPayload_append (b rest : Bytes) : decPayload b.length (b ++ rest) = some (b, rest) := by
  simp [decPayload]

theorem decKey_enc (k rest : Bytes) (hk : k.length < 2 ^ 64) :
    decKey (head 3 k.length ++ k ++ rest) = some (k, rest) := by
  simp only [decKey, List.append_assoc, decHead_head _ (by omega : 3 < 8) hk, decPayload_append, if_true]

theorem decVal_enc (v : Val) (rest : Bytes) (hv : v.Fits) : decVal (encodeVal v ++ rest) = some (v, rest) := by
  cases v with
  | bytes b =>
    simp only [Val.Fits] at hv
    simp [decVal, encodeVal, List.append_assoc, decHead_head _ (by omega : 2 < 8) hv, decPayload_append]
  | text t =>
    simp only [Val.Fits] at hv
    simp [decVal, encodeVal, List.append_assoc, decHead_head _ (by omega : 3 < 8) hv, decPayload_append]

theorem decPairs_encodePairs (m : Map) (rest : Bytes) (h : ∀ e ∈ m, e.1.length < 2 ^ 64 ∧ e.2.Fits) :
    decPairs m.length (encodePairs m ++ rest) = some (m, rest) := by
  induction m with
  | nil => simp [decPairs, encodePairs]
  | cons e m ih =>
    obtain ⟨k, v⟩ := e
    have he := h (k, v) (by simp)
    have ih' := ih (fun e he => h e (by simp [he]))
    simp only [encodePairs, List.length_cons, decPairs, List.append_assoc]
    rw [← List.append_assoc (head 3 k.length) k, decKey_enc k _ he.1]
    simp only [decVal_enc v _ he.2, ih']

theorem decodeMap_encodeMap (m : Map) (rest : Bytes) (h : Fits m) :
    decodeMap (encodeMap m ++ rest) = some (m, rest) := by
  simp only [decodeMap, encodeMap, List.append_assoc, decHead_head _ (by omega : 5 < 8) h.1, if_true,
    decPairs_encodePairs m rest h.2]

theorem decode_encodeMap (m : Map) (h : Fits m) : decode (encodeMap m) = some m := by
  have := decodeMap_encodeMap m [] h
  simp only [List.append_nil] at this
  simp [decode, this]

/-! the decoder never reads past the end: what it returns as the rest is a strict suffix in length -/

theorem decHead_lt {b : Bytes} {major n : Nat} {rest : Bytes} (h : decHead b = some (major, n, rest)) :
    rest.length < b.length := by
  cases b with
  | nil => simp [decHead] at h
  | cons x xs =>
    simp only [decHead] at h
    split at h
    · cases h; simp
    · split at h
      · cases h
      · split at h
        · cases h
        · cases h; simp [List.length_drop]; omega

theorem decPayload_le {n : Nat} {b p rest : Bytes} (h : decPayload n b = some (p, rest)) : rest.length ≤ b.length := by
  simp only [decPayload] at h
  split at h
  · cases h
  · cases h; simp [List.length_drop]

theorem decKey_lt {b k rest : Bytes} (h : decKey b = some (k, rest)) : rest.length < b.length := by
  simp only [decKey] at h
  split at h
  · next major n r hh =>
    split at h
    · have := decHead_lt hh; have := decPayload_le h; omega
    · cases h
  · cases h

theorem decVal_lt {b : Bytes} {v : Val} {rest : Bytes} (h : decVal b = some (v, rest)) : rest.length < b.length := by
  simp only [decVal] at h
  split at h
  · next major n r hh =>
    have hl := decHead_lt hh
    split at h
    · cases hp : decPayload n r with
      | none => simp [hp] at h
      | some p => simp [hp] at h; have := decPayload_le hp; obtain ⟨_, rfl⟩ := h; omega
    · split at h
      · cases hp : decPayload n r with
        | none => simp [hp] at h
        | some p => simp [hp] at h; have := decPayload_le hp; obtain ⟨_, rfl⟩ := h; omega
      · cases h
  · cases h

theorem decPairs_le {n : Nat} {b : Bytes} {m : Map} {rest : Bytes} (h : decPairs n b = some (m, rest)) :
    rest.length ≤ b.length := by
  induction n generalizing b m with
  | zero => simp [decPairs] at h; obtain ⟨_, rfl⟩ := h; exact Nat.le_refl _
  | succ n ih =>
    simp only [decPairs] at h
    split at h
    · cases h
    · next k r1 hk =>
      split at h
      · cases h
      · next v r2 hv =>
        split at h
        · cases h
        · next m' r3 hm =>
          cases h
          have := decKey_lt hk; have := decVal_lt hv; have := ih hm; omega

theorem decodeMap_total {b : Bytes} {m : Map} {rest : Bytes} (h : decodeMap b = some (m, rest)) :
    rest.length < b.length := by
  simp only [decodeMap] at h
  split at h
  · next major n r hh =>
    split at h
    · have := decHead_lt hh; have := decPairs_le h; omega
    · cases h
  · cases h

end Cbor
/-! ### Base58 -/
namespace Base58
open Askar.Crypto.Base58

theorem ofLE_toLE (b : Nat) (hb : 2 ≤ b) : ∀ fuel n, n ≤ fuel → ofLE b (toLE b fuel n) = n
  | 0, n, h => by
    have : n = 0 := by omega
    subst this; rfl
  | fuel + 1, n, h => by
    simp only [toLE]
    split
    · next h0 => simp [ofLE, h0]
    · next h0 =>
      have hlt : n / b < n := Nat.div_lt_self (by omega) (by omega)
      simp only [ofLE, ofLE_toLE b hb fuel (n / b) (by omega)]
      exact Nat.mod_add_div n b

theorem toLE_lt (b : Nat) (hb : 0 < b) : ∀ fuel n, ∀ d ∈ toLE b fuel n, d < b
  | 0, n, d, hd => by simp [toLE] at hd
  | fuel + 1, n, d, hd => by
    simp only [toLE] at hd
    split at hd
    · simp at hd
    · rcases List.mem_cons.mp hd with rfl | h
      · exact Nat.mod_lt _ hb
      · exact toLE_lt b hb fuel _ d h

theorem toLE_zero (b fuel : Nat) : toLE b fuel 0 = [] := by
  cases fuel <;> simp [toLE]

/-- no most-significant zero digit -/
theorem toLE_getLast (b : Nat) (hb : 2 ≤ b) : ∀ fuel n, n ≤ fuel → ∀ d, (toLE b fuel n).getLast? = some d → d ≠ 0
  | 0, n, _, d, hd => by simp [toLE] at hd
  | fuel + 1, n, h, d, hd => by
    simp only [toLE] at hd
    split at hd
    · simp at hd
    · next h0 =>
      have hlt : n / b < n := Nat.div_lt_self (by omega) (by omega)
      cases hq : toLE b fuel (n / b) with
      | nil =>
        -- then n / b = 0, the only digit is n itself
        have hz : n / b = 0 := by
          have := ofLE_toLE b hb fuel (n / b) (by omega)
          rw [hq] at this; simpa [ofLE] using this.symm
        have hnb : n < b := by
          rcases Nat.lt_or_ge n b with h | h
          · exact h
          · have := Nat.div_pos h (by omega); omega
        rw [hq] at hd
        simp only [List.getLast?_singleton, Option.some.injEq] at hd
        rw [Nat.mod_eq_of_lt hnb] at hd
        omega
      | cons x xs =>
        rw [hq, List.getLast?_cons_cons] at hd
        exact toLE_getLast b hb fuel (n / b) (by omega) d (by rw [hq]; exact hd)

theorem ofLE_append_zeros (b : Nat) (l : List Nat) (z : Nat) : ofLE b (l ++ List.replicate z 0) = ofLE b l := by
  induction l with
  | nil =>
    induction z with
    | zero => rfl
    | succ z ih => simp only [List.nil_append] at ih; simp [List.replicate_succ, ofLE, ih]
  | cons d ds ih => simp only [List.cons_append, ofLE, ih]

theorem ofLE_pos (b : Nat) (hb : 2 ≤ b) : ∀ ds : List Nat, ds ≠ [] → (∀ d, ds.getLast? = some d → d ≠ 0) → 0 < ofLE b ds
  | [], h, _ => absurd rfl h
  | [d], _, hl => by
    have := hl d (by simp)
    simp only [ofLE]; omega
  | d :: e :: ds, _, hl => by
    have := ofLE_pos b hb (e :: ds) (by simp) (fun x hx => hl x (by rw [List.getLast?_cons_cons]; exact hx))
    simp only [ofLE] at this ⊢
    have : 0 < b * (e + b * ofLE b ds) := Nat.mul_pos (by omega) this
    omega

theorem toLE_ofLE (b : Nat) (hb : 2 ≤ b) : ∀ ds : List Nat, (∀ d ∈ ds, d < b) → (∀ d, ds.getLast? = some d → d ≠ 0) →
    ∀ fuel, ofLE b ds ≤ fuel → toLE b fuel (ofLE b ds) = ds
  | [], _, _, fuel, _ => by simp [ofLE, toLE_zero]
  | d :: ds, hlt, hl, fuel, hf => by
    have hpos : 0 < ofLE b (d :: ds) := ofLE_pos b hb (d :: ds) (by simp) hl
    have hd : d < b := hlt d (by simp)
    cases fuel with
    | zero => omega
    | succ f =>
      have hne : ¬ (ofLE b (d :: ds) = 0) := by omega
      simp only [toLE, hne, if_false]
      simp only [ofLE] at hf ⊢
      have hm : (d + b * ofLE b ds) % b = d := by
        rw [Nat.add_mul_mod_self_left, Nat.mod_eq_of_lt hd]
      have hq : (d + b * ofLE b ds) / b = ofLE b ds := by
        rw [Nat.add_mul_div_left _ _ (by omega : 0 < b), Nat.div_eq_of_lt hd, Nat.zero_add]
      rw [hm, hq]
      have hle : ofLE b ds ≤ f := by
        have : ofLE b ds ≤ b * ofLE b ds := Nat.le_mul_of_pos_left _ (by omega)
        rcases Nat.eq_zero_or_pos (ofLE b ds) with h0 | h0
        · omega
        · have : 2 * ofLE b ds ≤ b * ofLE b ds := Nat.mul_le_mul_right _ hb
          omega
      have hl' : ∀ x, ds.getLast? = some x → x ≠ 0 := by
        intro x hx
        cases ds with
        | nil => simp at hx
        | cons e es => exact hl x (by rw [List.getLast?_cons_cons]; exact hx)
      rw [toLE_ofLE b hb ds (fun x hx => hlt x (by simp [hx])) hl' f hle]

theorem takeWhile_zeros_append {α : Type} (p : α → Bool) (a : α) (hp : p a = true) (z : Nat) (l : List α) :
    (List.replicate z a ++ l).takeWhile p = List.replicate z a ++ l.takeWhile p := by
  induction z with
  | zero => rfl
  | succ z ih => simp [List.replicate_succ, hp, ih]

theorem takeWhile_eq_nil_of_head {α : Type} (p : α → Bool) (l : List α) (h : ∀ x, l.head? = some x → p x = false) :
    l.takeWhile p = [] := by
  cases l with
  | nil => rfl
  | cons x xs => simp [h x (by simp)]

theorem takeWhile_eq_replicate (l : Bytes) : l.takeWhile (· = 0) = List.replicate (l.takeWhile (· = 0)).length 0 := by
  induction l with
  | nil => rfl
  | cons x xs ih =>
    by_cases hx : x = 0
    · subst hx
      simp only [List.takeWhile_cons, decide_true, if_true, List.length_cons, List.replicate_succ]
      rw [← ih]
    · simp [hx]

theorem dropWhile_head_not {α : Type} (p : α → Bool) (l : List α) (x : α) (xs : List α)
    (h : l.dropWhile p = x :: xs) : p x = false := by
  induction l with
  | nil => simp at h
  | cons y ys ih =>
    rw [List.dropWhile_cons] at h
    split at h
    · exact ih h
    · next hp => cases h; simpa using hp

theorem mapM_map_some {α β : Type} (f : α → β) (g : β → Option α) (l : List α) (h : ∀ x ∈ l, g (f x) = some x) :
    (l.map f).mapM g = some l := by
  induction l with
  | nil => rfl
  | cons x xs ih =>
    simp [List.mapM_cons, h x (by simp), ih (fun y hy => h y (by simp [hy]))]

theorem charVal_digitChar : ∀ d : Fin 58, charVal (digitChar d.val) = some d.val := by decide

theorem digitChar_ne_one : ∀ d : Fin 58, d.val ≠ 0 → digitChar d.val ≠ '1' := by decide

/-- the value of a byte string does not depend on its leading zero bytes, and the stripped string is recovered from it -/
theorem digits_ofDigits_bytes (bs : Bytes) :
    (digits 256 (ofDigits 256 (bs.map UInt8.toNat))).map UInt8.ofNat = bs.dropWhile (· = 0) := by
  have hsplit : bs = List.replicate (bs.takeWhile (· = 0)).length 0 ++ bs.dropWhile (· = 0) := by
    rw [← takeWhile_eq_replicate]; exact (List.takeWhile_append_dropWhile).symm
  let st := bs.dropWhile (· = 0)
  let ds := (st.map UInt8.toNat).reverse
  have hval : ofDigits 256 (bs.map UInt8.toNat) = ofLE 256 ds := by
    show ofLE 256 (bs.map UInt8.toNat).reverse = ofLE 256 ds
    conv => lhs; rw [hsplit]
    simp only [List.map_append, List.map_replicate, List.reverse_append, List.reverse_replicate, UInt8.toNat_zero]
    exact ofLE_append_zeros 256 _ _
  have hlt : ∀ d ∈ ds, d < 256 := by
    intro d hd
    simp only [ds, List.mem_reverse, List.mem_map] at hd
    obtain ⟨x, _, rfl⟩ := hd
    exact x.toNat_lt
  have hlast : ∀ d, ds.getLast? = some d → d ≠ 0 := by
    intro d hd
    simp only [ds, List.getLast?_reverse, List.head?_map] at hd
    cases hst : st with
    | nil => simp [hst] at hd
    | cons x xs =>
      simp only [hst, List.head?_cons, Option.map_some, Option.some.injEq] at hd
      have hx : ¬ (x = 0) := by
        have := dropWhile_head_not (fun (y : UInt8) => decide (y = 0)) bs x xs hst
        simpa using this
      intro h0
      apply hx
      exact UInt8.toNat_inj.mp (by rw [hd, h0]; rfl)
  rw [hval]
  show ((toLE 256 (ofLE 256 ds) (ofLE 256 ds)).reverse).map UInt8.ofNat = st
  rw [toLE_ofLE 256 (by omega) ds hlt hlast _ (Nat.le_refl _)]
  simp [ds, List.map_map, Function.comp_def]

theorem decode_encode (bs : Bytes) : decode (encode bs) = some bs := by
  let z := (bs.takeWhile (· = 0)).length
  let N := ofDigits 256 (bs.map UInt8.toNat)
  let dg := digits 58 N
  have hdg_lt : ∀ d ∈ dg, d < 58 := by
    intro d hd
    simp only [dg, digits, List.mem_reverse] at hd
    exact toLE_lt 58 (by omega) _ _ d hd
  -- 1. every character maps back to its digit
  have hmap : (encode bs).mapM charVal = some (List.replicate z 0 ++ dg) := by
    have : encode bs = (List.replicate z 0 ++ dg).map digitChar := by
      simp only [encode, List.map_append, List.map_replicate]
      rfl
    rw [this]
    apply mapM_map_some
    intro d hd
    rcases List.mem_append.mp hd with h | h
    · have := (List.mem_replicate.mp h).2
      subst this
      exact charVal_digitChar ⟨0, by omega⟩
    · exact charVal_digitChar ⟨d, hdg_lt d h⟩
  -- 2. the leading zero digits are exactly the z written ones
  have hhead : ∀ x, dg.head? = some x → (decide (x = 0)) = false := by
    intro x hx
    simp only [dg, digits, List.head?_reverse] at hx
    have := toLE_getLast 58 (by omega) N N (Nat.le_refl _) x hx
    simp [this]
  have htw : (List.replicate z 0 ++ dg).takeWhile (· = 0) = List.replicate z 0 := by
    rw [takeWhile_zeros_append (fun x => decide (x = 0)) 0 (by simp) z dg, takeWhile_eq_nil_of_head _ dg hhead, List.append_nil]
  -- 3. the number is recovered
  have hnum : ofDigits 58 (List.replicate z 0 ++ dg) = N := by
    simp only [ofDigits, dg, digits, List.reverse_append, List.reverse_reverse, List.reverse_replicate]
    rw [ofLE_append_zeros, ofLE_toLE 58 (by omega) N N (Nat.le_refl _)]
  simp only [decode, hmap, Option.map_some, decodeDigits, htw, List.length_replicate, hnum]
  rw [digits_ofDigits_bytes bs]
  have : List.replicate z (0 : UInt8) = bs.takeWhile (· = 0) := (takeWhile_eq_replicate bs).symm
  rw [this, List.takeWhile_append_dropWhile]

end Base58

/-! ### Storage scheme -/

section Scheme
variable {P : Prims}

theorem searchableNonce_length (hP : P.Lawful) (hk m : Bytes) : (searchableNonce P hk m).length = nonceLen := by
  simp [searchableNonce, hP.hmac_len, nonceLen]

theorem decryptField_nonce_enc (hP : P.Lawful) (ek n m : Bytes) (hn : n.length = nonceLen) :
    decryptField P ek (n ++ P.enc ek n m) = some m := by
  unfold decryptField
  have hl : ¬ (n ++ P.enc ek n m).length < nonceLen + tagLen := by
    simp only [List.length_append, hP.enc_len, hn]; omega
  simp only [hl, if_false]
  rw [List.take_left' hn, List.drop_left' hn, hP.dec_enc]

theorem searchable_roundtrip (hP : P.Lawful) (ek hk m : Bytes) :
    decryptField P ek (encryptSearchable P ek hk m) = some m :=
  decryptField_nonce_enc hP ek _ m (searchableNonce_length hP hk m)

theorem searchable_injective (hP : P.Lawful) (ek hk m₁ m₂ : Bytes)
    (h : encryptSearchable P ek hk m₁ = encryptSearchable P ek hk m₂) : m₁ = m₂ := by
  have h1 := searchable_roundtrip hP ek hk m₁
  rw [h, searchable_roundtrip hP] at h1
  exact (Option.some.inj h1).symm

theorem searchable_layout (hP : P.Lawful) (ek hk m : Bytes) :
    (encryptSearchable P ek hk m).take nonceLen = (P.hmac hk m).take nonceLen ∧
    (encryptSearchable P ek hk m).length = nonceLen + m.length + tagLen := by
  constructor
  · exact List.take_left' (searchableNonce_length hP hk m)
  · simp only [encryptSearchable, List.length_append, searchableNonce_length hP, hP.enc_len]; omega

theorem value_roundtrip (hP : P.Lawful) (ihk c n nonce v : Bytes) (hn : nonce.length = nonceLen) :
    decryptValue P ihk c n (encryptValue P ihk c n nonce v) = some v :=
  decryptField_nonce_enc hP _ nonce v hn

theorem value_layout (hP : P.Lawful) (ihk c n nonce v : Bytes) (hn : nonce.length = nonceLen) :
    (encryptValue P ihk c n nonce v).take nonceLen = nonce ∧
    (encryptValue P ihk c n nonce v).length = nonceLen + v.length + tagLen := by
  constructor
  · exact List.take_left' hn
  · simp only [encryptValue, List.length_append, hn, hP.enc_len]; omega

/-! profile key -/

theorem toMap_fits (k : ProfileKey) (h : k.WF) : Cbor.Fits k.toMap := by
  obtain ⟨h1, h2, h3, h4, h5, h6⟩ := h
  refine ⟨by simp [ProfileKey.toMap], ?_⟩
  intro e he
  simp only [ProfileKey.toMap, List.mem_cons, List.mem_nil_iff, or_false] at he
  rcases he with rfl | rfl | rfl | rfl | rfl | rfl | rfl <;>
    simp [Cbor.Val.Fits, ascii, keyLen, *] <;> omega

theorem ofMap_toMap (k : ProfileKey) (h : k.WF) : ProfileKey.ofMap k.toMap = some k := by
  obtain ⟨h1, h2, h3, h4, h5, h6⟩ := h
  simp (decide := true) [ProfileKey.ofMap, ProfileKey.toMap, keyField, Cbor.lookup, List.find?, h1, h2, h3, h4, h5, h6]

theorem profileKey_cbor_roundtrip (k : ProfileKey) (h : k.WF) : ProfileKey.ofCbor k.toCbor = some k := by
  simp only [ProfileKey.ofCbor, ProfileKey.toCbor, Cbor.decode_encodeMap _ (toMap_fits k h), ofMap_toMap k h]

theorem wrap_roundtrip (hP : P.Lawful) (sk : Option Bytes) (nonce : Bytes) (k : ProfileKey)
    (hn : nonce.length = nonceLen) (hk : k.WF) :
    unwrapProfileKey P sk (wrapProfileKey P sk nonce k) = some k := by
  cases sk with
  | none => simp only [unwrapProfileKey, wrapProfileKey, profileKey_cbor_roundtrip k hk]
  | some key =>
    simp only [unwrapProfileKey, wrapProfileKey, decryptField_nonce_enc hP key nonce _ hn, profileKey_cbor_roundtrip k hk]

/-! records -/

theorem tag_roundtrip (hP : P.Lawful) (k : ProfileKey) (id : Int) (t : Tag) :
    decryptTag P k (encryptTag P k id t) = some t := by
  obtain ⟨plain, name, value⟩ := t
  cases plain <;> simp [decryptTag, encryptTag, searchable_roundtrip hP]

theorem tags_roundtrip (hP : P.Lawful) (k : ProfileKey) (id : Int) (ts : List Tag) :
    (ts.map (encryptTag P k id)).mapM (decryptTag P k) = some ts := by
  induction ts with
  | nil => rfl
  | cons t ts ih => simp [List.mapM_cons, tag_roundtrip hP, ih]

theorem record_roundtrip (hP : P.Lawful) (k : ProfileKey) (id pid : Int) (nonce : Bytes) (r : Rec)
    (hn : nonce.length = nonceLen) :
    decryptRec P k (encryptRec P k id pid nonce r).1 (encryptRec P k id pid nonce r).2 = some r := by
  simp only [decryptRec, encryptRec, searchable_roundtrip hP, value_roundtrip hP _ _ _ _ _ hn, tags_roundtrip hP]

end Scheme

/-! value-key input -/

theorem be32_injective {a b : Nat} (ha : a < 2 ^ 32) (hb : b < 2 ^ 32) (h : Bytes.be32 a = Bytes.be32 b) : a = b := by
  have := congrArg (fun l => l.map UInt8.toNat) h
  simp only [Bytes.be32, List.map_cons, List.map_nil, UInt8.toNat_ofNat', List.cons.injEq, and_true] at this
  omega

theorem length_be32 (n : Nat) : (Bytes.be32 n).length = 4 := rfl

theorem valueKeyInput_injective {c₁ n₁ c₂ n₂ : Bytes} (h1 : c₁.length < 2 ^ 32) (h2 : c₂.length < 2 ^ 32)
    (h : valueKeyInput c₁ n₁ = valueKeyInput c₂ n₂) : c₁ = c₂ ∧ n₁ = n₂ := by
  simp only [valueKeyInput, List.append_assoc] at h
  obtain ⟨hl, hr⟩ := List.append_inj h (by simp [length_be32])
  have hc := be32_injective h1 h2 hl
  obtain ⟨hcc, hr2⟩ := List.append_inj hr hc
  refine ⟨hcc, ?_⟩
  exact (List.append_inj hr2 (by simp [length_be32])).2

theorem be32_wrap (N : Nat) (h : N % 2 ^ 32 = 0) : Bytes.be32 N = List.replicate 4 0 := by
  have a : N / 16777216 % 256 = 0 := by omega
  have b : N / 65536 % 256 = 0 := by omega
  have c : N / 256 % 256 = 0 := by omega
  have d : N % 256 = 0 := by omega
  simp only [Bytes.be32, a, b, c, d]
  rfl

/-- beyond 2³² bytes the length prefix wraps (as the `as u32` cast of the code does): the hypothesis is necessary -/
theorem valueKeyInput_collision_unbounded :
    ∃ c₁ n₁ c₂ n₂ : Bytes, (c₁, n₁) ≠ (c₂, n₂) ∧ valueKeyInput c₁ n₁ = valueKeyInput c₂ n₂ := by
  obtain ⟨N, hN⟩ : ∃ N : Nat, N = 2 ^ 32 := ⟨_, rfl⟩
  have hw : N % 2 ^ 32 = 0 := by omega
  refine ⟨List.replicate N 0, [], [], List.replicate N 0, ?_, ?_⟩
  · intro h
    have := congrArg (fun p => p.2.length) h
    simp only [List.length_nil, List.length_replicate] at this
    omega
  · have e0 : Bytes.be32 0 = List.replicate 4 0 := be32_wrap 0 (by omega)
    simp only [valueKeyInput, List.length_replicate, List.length_nil, be32_wrap N hw, e0, List.append_nil,
      List.replicate_append_replicate]
    rw [Nat.add_comm]

/-! key reference -/

theorem hexVal_hexDigit : ∀ n : Fin 16, Bytes.hexVal (Bytes.hexDigit n.val) = some n.val := by decide

theorem ofHexChars_hexChars (b : Bytes) : Bytes.ofHexChars (hexChars b) = some b := by
  induction b with
  | nil => rfl
  | cons x xs ih =>
    have h1 := hexVal_hexDigit ⟨x.toNat / 16, by have := x.toNat_lt; omega⟩
    have h2 := hexVal_hexDigit ⟨x.toNat % 16, by omega⟩
    simp only [] at h1 h2
    have hx : UInt8.ofNat (x.toNat / 16 * 16 + x.toNat % 16) = x := by
      have : x.toNat / 16 * 16 + x.toNat % 16 = x.toNat := by omega
      rw [this, UInt8.ofNat_toNat]
    simp only [hexChars, List.flatMap_cons, List.cons_append, List.nil_append] at ih ⊢
    simp only [Bytes.ofHexChars, h1, h2, ih, hx]

theorem length_hexChars (b : Bytes) : (hexChars b).length = 2 * b.length := by
  induction b with
  | nil => rfl
  | cons x xs ih => simp only [hexChars, List.flatMap_cons, List.length_append, List.length_cons, List.length_nil] at ih ⊢; omega

theorem stripPrefix_append (p s : List Char) : stripPrefix p (p ++ s) = some s := by
  simp [stripPrefix]

theorem parseLevel_str (l : Level) (rest : List Char) : parseLevel (l.str ++ rest) = some (l, rest) := by
  cases l
  · simp [parseLevel, stripPrefix_append]
  · have : stripPrefix Level.interactive.str (Level.moderate.str ++ rest) = none := by
      simp [stripPrefix, Level.str, List.isPrefixOf]
    simp [parseLevel, this, stripPrefix_append]

def KeyRefWF : KeyRef → Prop
  | .argon2i _ salt => salt.length = saltLen
  | _ => True

theorem keyref_chars_roundtrip (r : KeyRef) (h : KeyRefWF r) : KeyRef.parseChars r.toChars = some r := by
  cases r with
  | raw => simp [KeyRef.parseChars, KeyRef.toChars]
  | unprotected => simp [KeyRef.parseChars, KeyRef.toChars, rawChars, noneChars]
  | argon2i l salt =>
    have hr : ¬ (kdfPrefix ++ (l.str ++ (saltPrefix ++ hexChars salt)) = rawChars) := by simp [kdfPrefix, rawChars]
    have hn : ¬ (kdfPrefix ++ (l.str ++ (saltPrefix ++ hexChars salt)) = noneChars) := by simp [kdfPrefix, noneChars]
    simp only [KeyRefWF] at h
    simp only [KeyRef.parseChars, KeyRef.toChars, hr, hn, if_false, stripPrefix_append, parseLevel_str,
      ofHexChars_hexChars, h, if_true]

theorem keyref_uri_roundtrip (r : KeyRef) (h : KeyRefWF r) : KeyRef.parse r.toUri = some r := by
  simp only [KeyRef.parse, KeyRef.toUri, String.toList_ofList, keyref_chars_roundtrip r h]

end Askar.Lemmas.StorageScheme
